"""gen_effects -- lower every reducer / view method of every shipped component class to the effect IR of
lean/Simaple/Model/Effect.lean and write lean/Simaple/Gen/Effects.lean.

The lowering keeps only what decides WHICH OBJECTS MAY BE WRITTEN:
  * every helper a reducer calls (trait functions, component helpers, entity methods, properties, generators,
    the `ignore_rejected` decorator, NamedEventProvider) is inlined;
  * control flow becomes non-deterministic (`choice`, `loop`); early `return` / `raise` / `break` / `continue`
    become "the rest may be skipped";
  * a value whose STATIC TYPE is immutable (int, float, str, bool, None, Enum, tuple of those) is a primitive
    (`havoc`); every other value is a reference and is moved with `load` / `mov`;
  * every mutation (attribute / item / augmented assignment, list and dict mutators, Stat.__iadd__) is a `store`.

What is trusted here (stated in DESIGN.md and in the evidence): the classification of static types into
immutable / mutable (validated at run time on every harvested call by the harness), the list PURE_MODULES of
library code that is not inlined (simaple.core: returns new objects or primitives and mutates nothing, except
`__iadd__`, which is lowered as a store), and Python's deepcopy.

Anything the lowering does not understand raises Unsupported: the method is then reported as not covered,
never silently skipped.
"""
from __future__ import annotations

import ast
import enum
import hashlib
import importlib
import inspect
import pkgutil
import sys
import textwrap
import types
import typing
from dataclasses import dataclass, field
from pathlib import Path

TARGET = "Effects.lean"


class Unsupported(Exception):
    pass


class SplitRequest(Exception):
    """raised (in split mode) at a call of a function with several return sites: the enclosing statement list is
    lowered once per return site, so that what is returned stays correlated (state copied <-> events not rejected)"""

    def __init__(self, key, n):
        super().__init__("split")
        self.key, self.n = key, n


# ------------------------------------------------------------------------------------------------ types
PRIM = ("prim",)
UNKNOWN = ("unknown",)
PUREOBJ = ("pureobj",)     # an object handed out by a library listed in PURE_MODULES (a logger, a compiled pattern, ...)


def Inst(c):
    return ("inst", c)


def ListOf(t):
    return ("list", t)


def DictOf(t):
    return ("dict", t)


def HeapTuple(ts):
    return ("htuple", tuple(ts))


PRIM_CLASSES = (int, float, str, bool, complex, bytes, type(None), enum.Enum, BaseException, type, range)


def is_prim_class(c) -> bool:
    return isinstance(c, type) and issubclass(c, PRIM_CLASSES)


def ty_of_annotation(ann, globs=None):
    """static type -> lowering type"""
    if ann is None or ann is type(None) or ann is inspect.Parameter.empty:
        return PRIM if ann is not inspect.Parameter.empty else UNKNOWN
    if isinstance(ann, str):
        if globs is not None and ann in globs:
            return ty_of_annotation(globs[ann], globs)
        return UNKNOWN
    if isinstance(ann, typing.ForwardRef):
        return ty_of_annotation(ann.__forward_arg__, globs)
    if isinstance(ann, typing.TypeVar):
        if ann.__bound__ is not None:
            return ty_of_annotation(ann.__bound__, globs)
        return UNKNOWN
    if ann is typing.Any:
        return UNKNOWN
    origin = typing.get_origin(ann)
    args = typing.get_args(ann)
    if origin is typing.Union or origin is getattr(types, "UnionType", None):
        tys = [ty_of_annotation(a, globs) for a in args if a is not type(None)]
        tys = [t for t in tys]
        if all(t == PRIM for t in tys):
            return PRIM
        non = [t for t in tys if t != PRIM]
        if len(set(map(repr, non))) == 1:
            return non[0]
        return UNKNOWN
    if origin is typing.Literal:
        return PRIM
    import collections.abc as cabc
    if origin in (cabc.Sequence, cabc.Iterable, cabc.Collection, cabc.MutableSequence, cabc.Iterator):
        return ListOf(ty_of_annotation(args[0], globs) if args else UNKNOWN)
    if origin in (cabc.Mapping, cabc.MutableMapping):
        return DictOf(ty_of_annotation(args[1], globs) if len(args) == 2 else UNKNOWN)
    if origin in (list, set, frozenset, typing.List, typing.Sequence) or ann in (list, set, frozenset):
        return ListOf(ty_of_annotation(args[0], globs) if args else UNKNOWN)
    if origin is dict or ann is dict:
        return DictOf(ty_of_annotation(args[1], globs) if len(args) == 2 else UNKNOWN)
    if origin is tuple or ann is tuple:
        if not args:
            return HeapTuple([UNKNOWN])
        ts = [ty_of_annotation(a, globs) for a in args if a is not Ellipsis]
        if all(t == PRIM for t in ts):
            return PRIM
        return HeapTuple(ts)
    if origin is type:
        return PRIM
    if isinstance(ann, type):
        if is_prim_class(ann):
            return PRIM
        if typing.is_typeddict(ann):
            return DictOf(UNKNOWN)
        return Inst(ann)
    if origin is not None and isinstance(origin, type):
        return Inst(origin)
    return UNKNOWN


def join_ty(a, b):
    if a == b:
        return a
    if a == PRIM:
        return b
    if b == PRIM:
        return a
    if a[0] == b[0] == "inst":
        for c in a[1].__mro__:
            if c is not object and issubclass(b[1], c):
                return Inst(c)
    if a[0] == b[0] == "list":
        return ListOf(join_ty(a[1], b[1]))
    if a[0] == b[0] == "dict":
        return DictOf(join_ty(a[1], b[1]))
    return UNKNOWN


# ------------------------------------------------------------------------------------------------ values
@dataclass
class AV:
    """abstract value of the lowering"""
    var: int | None = None
    ty: tuple = UNKNOWN
    items: list | None = None          # a static tuple / list display
    func: object = None                # a Python function object
    bound: "AV | None" = None          # receiver of a bound method
    pyobj: object = None               # a statically known Python object (class, module, constant)
    has_pyobj: bool = False
    bmeth: str | None = None           # builtin-container method name (receiver in `bound`)
    gen: tuple | None = None           # (func, bound args) of a generator call, consumed by `for`
    iterkind: tuple | None = None      # ('enumerate', av) / ('zip', [avs]) / ('items', av) / ('range',)
    attrs: dict | None = None          # attribute types of a plain (non-pydantic) object built in this call
    display: str | None = None         # 'list' for a list display kept symbolic
    exact: bool = False                # the run-time class is exactly the static one (no subclass possible)
    dfields: dict | None = None        # static contents of a dict display {"key": AV} (constant propagation)
    shadow: list | None = None         # static elements of a list display that was given a variable
    alts: list | None = None           # class-hierarchy analysis: [(class, function)] a method call may reach

    def is_prim(self):
        if self.items is not None:
            return self.display is None and all(i.is_prim() for i in self.items)
        return self.ty == PRIM and self.func is None


PURE_MODULES = ("pydantic", "builtins", "math", "typing", "enum", "abc", "functools", "copy", "loguru", "logging",
                "warnings", "operator", "json", "decimal", "fractions", "numbers", "statistics", "bisect", "heapq_readonly")
INLINE_MODULES = ("simaple.",)
LIST_MUTATORS = {"append", "extend", "insert", "remove", "clear", "sort", "reverse", "add", "discard", "update",
                 "setdefault", "popitem", "__setitem__", "__delitem__"}
LIST_POPS = {"pop"}
LIST_READERS = {"get", "items", "keys", "values", "copy", "index", "count"}
# methods of str / re / numbers that neither write their receiver nor their arguments
PURE_METHOD_NAMES = {"replace", "format", "split", "rsplit", "strip", "lstrip", "rstrip", "startswith", "endswith", "lower",
                     "upper", "join", "find", "search", "match", "fullmatch", "group", "groups", "isdigit", "encode",
                     "decode", "is_integer", "bit_length", "title", "zfill", "partition", "splitlines", "casefold"}
PURE_BUILTINS = {"len", "min", "max", "abs", "round", "sum", "any", "all", "isinstance", "issubclass", "int", "float",
                 "str", "bool", "print", "hasattr", "divmod", "pow", "repr", "id", "hash", "callable", "format"}
AMBIENT = {"random", "time", "datetime", "os", "uuid", "secrets"}
ELEM = "[]"
NCHUNKS = 8
OPNAMES = {ast.Add: "add", ast.Sub: "sub", ast.Mult: "mul", ast.Div: "truediv", ast.FloorDiv: "floordiv", ast.Mod: "mod",
           ast.Pow: "pow", ast.BitOr: "or", ast.BitAnd: "and", ast.MatMult: "matmul"}


class Program:
    """IR under construction for one (class, method)"""

    def __init__(self):
        self.varnames: list[str] = []
        self.fields: dict[str, int] = {}
        self.flex: dict[int, str] = {}   # allocation sites whose ghost kind (new / newShallow) is free

    def newvar(self, name: str) -> int:
        self.varnames.append(name)
        return len(self.varnames) - 1


FIELDS: dict[str, int] = {ELEM: 0}
EXTERNALS: dict[str, int] = {}   # library functions that were called but not inlined (trusted pure)
# functions of the library itself that are not inlined: they go through Lark / regular expressions and are modelled
# functionally elsewhere (C15); trusted here to write none of their arguments
TRUSTED_PURE = {"simaple.spec._math.evaluate_expression",
                # lazily loaded process-wide table (YAML): returns the shared table object; its one-time initialisation
                # is the only write, to the module global, and is part of C02's inventory of shared state
                "simaple.gear.blueprint.potential_blueprint._global_load_kms_potential_table",
                # the lazily created process-wide spec repository (a `global` statement): returns the shared repository
                # object; its one-time creation is the only write and is part of C02's inventory of shared state
                "simaple.data.jobs.builtin.get_kms_jobs_repository"}
# subclasses defined here are not considered by the class-hierarchy analysis: the gear-set builder of the baseline
# environment provider has its own patches (GearIdPatch fills a lazy name index of its GearRepository); they are not
# part of the job / skill build path that the properties anchor
CHA_EXCLUDE_MODULES = ("simaple.data.baseline",)


def fid(name: str) -> int:
    if name not in FIELDS:
        FIELDS[name] = len(FIELDS)
    return FIELDS[name]


def seq(parts):
    parts = [p for p in parts if p != ("skip",)]
    flat = []
    for p in parts:
        if p[0] == "seq":
            flat.extend(p[1])
        else:
            flat.append(p)
    if not flat:
        return ("skip",)
    if len(flat) == 1:
        return flat[0]
    return ("seq", flat)


def choice(a, b):
    if a == b:
        return a
    return ("choice", a, b)


# ------------------------------------------------------------------------------------------------ source access
_SRC_CACHE: dict = {}


def func_ast(fn) -> ast.FunctionDef:
    fn = inspect.unwrap(fn) if False else fn
    code = fn.__code__
    key = (code.co_filename, code.co_firstlineno, code.co_name)
    if key not in _SRC_CACHE:
        src = textwrap.dedent(inspect.getsource(fn))
        tree = ast.parse(src)
        node = tree.body[0]
        if not isinstance(node, (ast.FunctionDef, ast.AsyncFunctionDef)):
            raise Unsupported(f"source of {fn} is not a function definition")
        _SRC_CACHE[key] = node
    return _SRC_CACHE[key]


def is_generator(fn) -> bool:
    return inspect.isgeneratorfunction(fn)


def defining_class(fn, cls):
    """the class in cls.__mro__ whose namespace holds fn"""
    for c in cls.__mro__:
        for v in c.__dict__.values():
            f = v
            if isinstance(v, (classmethod, staticmethod)):
                f = v.__func__
            if isinstance(v, property):
                f = v.fget
            f = getattr(f, "__wrapped__", f)
            if f is fn or getattr(f, "__code__", None) is getattr(fn, "__code__", object()):
                return c
    return None


# ------------------------------------------------------------------------------------------------ lowering
class Frame:
    def __init__(self, fn, prog: Program, depth: int):
        self.fn = fn
        self.prog = prog
        self.locals: dict[str, AV] = {}
        self.ret: AV | None = None
        self.depth = depth
        self.self_cls = None
        self.yield_handler = None
        self.vars: dict[str, int] = {}
        self.declared_prim: set[str] = set()
        self.only_return = None


class Lowerer:
    def __init__(self, prog: Program):
        self.prog = prog
        self.blocks: list[list] = [[]]
        self.stack: list = []          # functions being inlined (recursion guard)
        self.ambient: list[str] = []   # uses of ambient sources (random, time, ...)
        self.rec_fn = None             # (function, class of self) of the recursive procedure, if any
        self.inlined: set = set()      # code objects of every function whose body was lowered into this program
        self.proc_names: set = set()   # method names lowered as separately checked procedures (`call`), not inlined
        self.procs: dict = {}          # (code, class) -> procedure ir | None (None: has to be inlined)
        self.split_mode = False        # lower each statement list once per return site of the calls it makes
        self.site_choice: dict = {}    # call site -> index of the return statement that is taken
        self.call_key = None
        self.splits = 0
        self.global_reads: list[str] = []

    # -- emission
    def emit(self, stmt):
        self.blocks[-1].append(stmt)

    def push(self):
        self.blocks.append([])

    def pop(self):
        return seq(self.blocks.pop())

    def tmp(self, name="t"):
        return self.prog.newvar(name)

    def alloc(self, d: int, default: str):
        """allocate a container whose ghost kind is chosen later (both kinds have the same concrete semantics)"""
        self.prog.flex[d] = default
        self.emit(("alloc", d))

    def prim(self, name="p") -> AV:
        v = self.tmp(name)
        self.emit(("havoc", v))
        return AV(var=v, ty=PRIM)

    def materialise(self, av: AV, deep_hint=False) -> AV:
        """an AV that has a variable"""
        if av.var is not None:
            return av
        if av.items is not None:
            if av.is_prim():
                return self.prim("tuple")
            if av.display == "list":
                return self.build_container(av.items, [], "list")
            v = self.tmp("tuple")
            self.alloc(v, "newShallow")
            for it in av.items:
                if it.is_prim():
                    continue
                m = self.materialise(it)
                self.emit(("store", v, fid(ELEM), m.var))
            return AV(var=v, ty=HeapTuple([PRIM if i.is_prim() else (i.ty if i.items is None else UNKNOWN) for i in av.items]))
        if av.gen is not None:
            raise Unsupported("a generator object used outside a for loop (its body would not be analysed)")
        if av.iterkind is not None and av.iterkind[0] not in ("range", "keys"):
            raise Unsupported(f"a lazy {av.iterkind[0]}() object stored or passed on instead of being iterated")
        if av.func is not None or av.has_pyobj or av.bmeth or av.iterkind:
            # functions, classes, constants, ranges: immutable as far as this analysis goes
            if av.has_pyobj and not self.is_immutable_pyobj(av.pyobj):
                v = self.tmp("glob")
                self.emit(("ext", v))
                return AV(var=v, ty=Inst(type(av.pyobj)))
            return self.prim("const")
        raise Unsupported("value without a variable")

    @staticmethod
    def is_immutable_pyobj(o) -> bool:
        return isinstance(o, (int, float, str, bool, type(None), enum.Enum, type, types.FunctionType, types.ModuleType,
                              types.BuiltinFunctionType, tuple, frozenset, typing.TypeVar))

    # -- entry
    def lower_method(self, cls, name: str, kind: str):
        raw = inspect.getattr_static(cls, name)
        fn = raw
        selfv = self.prog.newvar("self")
        self_av = AV(var=selfv, ty=Inst(cls), exact=True)
        if isinstance(raw, classmethod):
            fn = raw.__func__
            self_av = AV(pyobj=cls, has_pyobj=True)
        elif isinstance(raw, staticmethod):
            raise Unsupported("static method as an entry point")
        sig_fn = inspect.unwrap(fn)
        params = list(inspect.signature(sig_fn).parameters.values())[1:]
        hints = typing.get_type_hints(sig_fn) if True else {}
        args = []
        for p in params:
            if p.kind in (inspect.Parameter.VAR_KEYWORD, inspect.Parameter.VAR_POSITIONAL):
                continue
            v = self.prog.newvar(p.name)
            ty = ty_of_annotation(hints.get(p.name, p.annotation), sig_fn.__globals__)
            if ty == PRIM:
                self.emit(("havoc", v))
            args.append(AV(var=v, ty=ty))
        res = self.call_function(fn, [self_av] + args, {}, self_cls=cls)
        return res, [a.var for a in args], selfv

    # -- calls
    def call_function(self, fn, args: list[AV], kwargs: dict[str, AV], self_cls=None, yield_handler=None) -> AV:
        wrapped = getattr(fn, "__wrapped__", None)
        if wrapped is not None:
            if fn.__code__.co_name == "wrapper" and fn.__module__ == "simaple.simulate.component.util" or \
                    fn.__code__.co_filename.endswith("component/util.py"):
                # ignore_rejected: (state, events) -> (state, [e for e in events if ...])
                inner = self.call_function(wrapped, args, kwargs, self_cls=self_cls)
                if inner.items is None or len(inner.items) != 2:
                    raise Unsupported("ignore_rejected around a function that does not return a pair")
                ev = self.materialise(inner.items[1])
                out = self.tmp("events")
                self.emit(("newShallow", out))
                t = self.tmp("e")
                self.emit(("loop", seq([("load", t, ev.var, fid(ELEM)), ("store", out, fid(ELEM), t)])))
                return AV(items=[inner.items[0], AV(var=out, ty=ListOf(UNKNOWN))])
            raise Unsupported(f"decorator around {fn.__qualname__}")
        mod = getattr(fn, "__module__", "") or ""
        qual = f"{mod}.{getattr(fn, '__qualname__', '')}"
        if qual == "copy.deepcopy":
            m = self.materialise(args[0]) if not args[0].is_prim() else None
            if m is None:
                return AV(ty=PRIM)
            v = self.tmp("copy")
            self.emit(("copy", v, m.var))
            return AV(var=v, ty=m.ty, exact=m.exact)
        if qual == "copy.copy":
            if args[0].is_prim():
                return AV(ty=PRIM)
            return self.model_copy(args[0], {})
        if qual in TRUSTED_PURE:
            for a in list(args) + list(kwargs.values()):
                if a.var is None and not a.is_prim():
                    self.materialise(a)
            EXTERNALS[qual] = EXTERNALS.get(qual, 0) + 1
            v = self.tmp(fn.__name__)
            self.emit(("ext", v))
            return AV(var=v, ty=UNKNOWN)
        if not mod.startswith(INLINE_MODULES):
            return self.call_external(fn, args, kwargs)
        if fn.__name__ in self.proc_names and yield_handler is None and not is_generator(fn) and \
                not getattr(self, "in_proc", False):
            key = (fn.__code__, self_cls)
            if key not in self.procs:
                self.procs[key] = self.lower_procedure(fn, self_cls)
            if self.procs[key] is not None:
                for a in list(args) + list(kwargs.values()):
                    if a.var is None and not a.is_prim():
                        self.materialise(a)
                d = self.tmp("proc")
                self.emit(("call", d))
                try:
                    rty = ty_of_annotation(typing.get_type_hints(fn).get("return", inspect.Parameter.empty), fn.__globals__)
                except Exception:  # noqa: BLE001
                    rty = UNKNOWN
                if rty == PRIM:
                    return AV(ty=PRIM)
                return AV(var=d, ty=rty)
        if fn.__code__ in [f.__code__ for f in self.stack]:
            # a recursive call: `call dst` of the designated procedure (one per program), lowered separately
            if self.rec_fn is not None and self.rec_fn[0].__code__ is not fn.__code__:
                raise Unsupported(f"two different recursive procedures ({self.rec_fn[0].__qualname__}, {fn.__qualname__})")
            for a in list(args) + list(kwargs.values()):
                if a.var is None and not a.is_prim():
                    self.materialise(a)
            self.rec_fn = (fn, self_cls)
            d = self.tmp("rec")
            self.emit(("call", d))
            return AV(var=d, ty=UNKNOWN)
        if len(self.stack) > 12:
            raise Unsupported("inlining too deep")
        node = func_ast(fn)
        self.inlined.add(fn.__code__)
        ret_nodes = [n for n in ast.walk(node) if isinstance(n, ast.Return)]
        chosen = None
        if self.split_mode and len(ret_nodes) >= 2 and self.call_key is not None and not is_generator(fn) and \
                not getattr(self, "no_split", 0):
            key = self.call_key
            if key in self.site_choice:
                chosen = ret_nodes[self.site_choice[key]]
            elif self.splits < 6:
                raise SplitRequest(key, len(ret_nodes))
        self.call_key = None
        fr = Frame(fn, self.prog, len(self.stack))
        fr.only_return = chosen
        fr.tail_return_only = len(ret_nodes) == 1 and node.body and node.body[-1] is ret_nodes[0] and \
            not is_generator(fn)
        fr.self_cls = self_cls
        fr.yield_handler = yield_handler
        self.bind_params(fr, fn, node, args, kwargs)
        self.stack.append(fn)
        saved = getattr(self, "frame", None)
        self.frame = fr
        try:
            body, _ = self.block(node.body)
            self.emit(body)
        finally:
            self.frame = saved
            self.stack.pop()
        if fr.ret is None:
            return AV(ty=PRIM, var=self.prim("none").var)
        return fr.ret

    def lower_procedure(self, fn, self_cls):
        """the function as a procedure of its own: every parameter holds an arbitrary pre-existing object.  Returns the
        ir, or None when it cannot be lowered that way or writes what it is given (then the caller inlines it)"""
        saved = (self.blocks, getattr(self, "frame", None), self.stack, self.call_key, getattr(self, "in_try", 0))
        self.blocks, self.stack, self.call_key, self.in_try = [[]], [], None, 0
        self.in_proc = True
        try:
            node = func_ast(fn)
            params = [a.arg for a in node.args.posonlyargs + node.args.args]
            try:
                hints = typing.get_type_hints(fn)
            except Exception:  # noqa: BLE001
                hints = {}
            avs = []
            for i, pn in enumerate(params):
                v = self.prog.newvar(f"{pn}@proc")
                if i == 0 and self_cls is not None and pn in ("self", "cls"):
                    avs.append(AV(var=v, ty=Inst(self_cls)))
                    continue
                ty = ty_of_annotation(hints.get(pn, inspect.Parameter.empty), fn.__globals__)
                if ty == PRIM:
                    self.emit(("havoc", v))
                avs.append(AV(var=v, ty=ty))
            self.in_proc = False          # nested procedure calls inside the procedure are fine
            nreq = len(params) - len(node.args.defaults)
            self.call_function_inline(fn, avs, {}, self_cls)
            ir = seq(self.blocks[0])
            flex = dict(self.prog.flex)
            if py_check(resolve(ir, flex), ["shared"] * len(self.prog.varnames), self.prog.varnames) is None:
                # try the kind search on the procedure alone
                _r, taint = choose_kinds(ir, self.prog)
                if taint or py_check(_r, ["shared"] * len(self.prog.varnames), self.prog.varnames) is None:
                    return None
            return ir
        except Unsupported:
            return None
        finally:
            self.in_proc = False
            self.blocks, self.frame, self.stack, self.call_key, self.in_try = saved

    def call_function_inline(self, fn, args, kwargs, self_cls):
        names, self.proc_names = self.proc_names, self.proc_names - {fn.__name__}
        try:
            return self.call_function(fn, args, kwargs, self_cls=self_cls)
        finally:
            self.proc_names = names

    def bind_params(self, fr: Frame, fn, node, args, kwargs):
        a = node.args
        names = [x.arg for x in a.posonlyargs + a.args]
        defaults = [None] * (len(names) - len(a.defaults)) + list(a.defaults)
        if a.vararg:
            raise Unsupported(f"*args in {fn.__qualname__}")
        given = dict(zip(names, args))
        if len(args) > len(names):
            raise Unsupported(f"too many arguments for {fn.__qualname__}")
        extra = {}
        kwonly_names = [x.arg for x in a.kwonlyargs]
        splat = kwargs.pop("**", None) if isinstance(kwargs, dict) else None
        if splat is not None and not a.kwarg:
            raise Unsupported(f"** argument passed to {fn.__qualname__}, which has no ** parameter")
        for k, v in kwargs.items():
            if k in given:
                raise Unsupported("duplicate argument")
            if k not in names and k not in kwonly_names:
                if not a.kwarg:
                    raise Unsupported(f"unexpected keyword {k} for {fn.__qualname__}")
                extra[k] = v
                continue
            given[k] = v
        if a.kwarg:
            # **kwargs: a new dict holding the extra keyword arguments (at an entry point: whatever the caller passed)
            d = self.tmp(a.kwarg.arg)
            self.emit(("newShallow", d))
            if fr.depth == 0:
                t = self.tmp("kw")
                self.emit(("ext", t))
                self.emit(("store", d, fid(ELEM), t))
            for v in extra.values():
                if not v.is_prim():
                    self.emit(("store", d, fid(ELEM), self.materialise(v).var))
            if splat is not None and not splat.is_prim():
                t = self.tmp("kw")
                self.emit(("load", t, self.materialise(splat).var, fid(ELEM)))
                self.emit(("store", d, fid(ELEM), t))
            fr.locals[a.kwarg.arg] = AV(var=d, ty=DictOf(UNKNOWN))
            fr.vars[a.kwarg.arg] = d
        kwonly = [x.arg for x in a.kwonlyargs]
        kwdefaults = dict(zip(kwonly, a.kw_defaults))
        for n, d in list(zip(names, defaults)) + [(k, kwdefaults[k]) for k in kwonly]:
            if n in given:
                av = given[n]
            elif d is not None:
                try:
                    val = ast.literal_eval(d)
                    immutable = isinstance(val, (int, float, str, bool, type(None), bytes, tuple, frozenset))
                except Exception:  # noqa: BLE001
                    immutable = isinstance(d, (ast.Attribute, ast.Name)) and False
                    val = None
                if immutable:
                    av = AV(ty=PRIM)
                else:
                    # a default evaluated once at definition time (a mutable default is shared by all calls)
                    v_ = self.tmp(n + "@default")
                    self.emit(("ext", v_))
                    av = AV(var=v_, ty=UNKNOWN)
            else:
                raise Unsupported(f"missing argument {n} for {fn.__qualname__}")
            self.bind_local(fr, n, av)

    def bind_local(self, fr: Frame, name: str, av: AV):
        """assign to a Python local: every local has a dedicated IR variable"""
        cur = fr.locals.get(name)
        if name in fr.declared_prim:
            av = AV(ty=PRIM)
        if av.items is not None and av.display == "list":
            items = av.items
            av = self.materialise(av)
            av.shadow = items
        if av.items is not None and not av.is_prim() and name in fr.vars:
            av = self.materialise(av)      # the name already has a variable (assigned on another path): no symbolic value
        if av.items is not None and not av.is_prim():
            # static tuple kept symbolically (only straight-line use is supported)
            fr.locals[name] = AV(items=av.items)
            return
        if av.var is None and av.has_pyobj and av.func is None and not self.is_immutable_pyobj(av.pyobj):
            av = self.materialise(av)       # a module- or class-level mutable object: from now on an ordinary reference
        if av.var is None and not av.is_prim() and (av.func is not None or av.has_pyobj or av.bmeth or av.gen or av.iterkind):
            fr.locals[name] = av
            return
        if name not in fr.vars:
            fr.vars[name] = self.prog.newvar(f"{name}@{fr.depth}")
        v = fr.vars[name]
        if av.is_prim() or av.var is None:
            self.emit(("havoc", v))
            fr.locals[name] = AV(var=v, ty=PRIM)
        else:
            self.emit(("mov", v, av.var))
            fr.locals[name] = AV(var=v, ty=av.ty, attrs=av.attrs, exact=av.exact, dfields=av.dfields, shadow=av.shadow)

    def call_external(self, fn, args, kwargs) -> AV:
        mod = getattr(fn, "__module__", "") or ""
        name = getattr(fn, "__qualname__", getattr(fn, "__name__", "?"))
        top = mod.split(".")[0]
        if top in AMBIENT:
            self.ambient.append(f"{mod}.{name}")
        if not mod.startswith(PURE_MODULES):
            raise Unsupported(f"call of {mod}.{name} (neither inlined nor listed as pure)")
        if mod == "typing" and name == "cast":
            return args[1]
        EXTERNALS[f"{mod}.{name}"] = EXTERNALS.get(f"{mod}.{name}", 0) + 1
        if name.endswith("__iadd__"):
            tgt = self.materialise(args[0])
            src = self.materialise(args[1])
            self.emit(("store", tgt.var, fid(ELEM), src.var))
            return tgt
        for a in list(args) + list(kwargs.values()):
            if a.var is None and a.items is not None:
                self.materialise(a)
        try:
            hints = typing.get_type_hints(fn)
            rty = ty_of_annotation(hints.get("return", inspect.Parameter.empty), getattr(fn, "__globals__", None))
        except Exception:
            rty = UNKNOWN
        if rty == PRIM:
            return self.prim(name.split(".")[-1])
        v = self.tmp(name.split(".")[-1])
        if rty == UNKNOWN:
            self.emit(("ext", v))
            return AV(var=v, ty=PUREOBJ)
        self.emit(("new", v))
        return AV(var=v, ty=rty)

    # -- statements
    def block(self, stmts) -> tuple[tuple, int]:
        """lower a statement list; returns (ir, status): 0 falls through, 1 may jump (return / raise / break /
        continue), 2 always jumps"""
        self.push()
        status = 0
        for i, s in enumerate(stmts):
            rest = stmts[i + 1:]
            mark = (len(self.blocks), len(self.blocks[-1]))
            saved_locals, saved_frame, saved_stack = self.snapshot_locals(), self.frame, list(self.stack)
            saved_try = getattr(self, "in_try", 0)
            try:
                if isinstance(s, ast.If):
                    j = self.do_if(s, rest)
                    if j is not None:           # the rest was consumed by the branch that continues
                        status = j
                        break
                    j = self.last_if_status
                else:
                    j = self.stmt(s)
            except SplitRequest as rq:
                # lower this statement and everything after it once per return site of the call
                del self.blocks[mark[0]:]
                del self.blocks[-1][mark[1]:]
                self.frame, self.stack, self.in_try = saved_frame, saved_stack, saved_try
                self.splits += 1
                alts, stats, after = None, [], None
                for k in range(rq.n):
                    self.frame.locals = dict(saved_locals)
                    self.site_choice[rq.key] = k
                    ir_k, st_k = self.block(stmts[i:])
                    stats.append(st_k)
                    after = self.snapshot_locals() if after is None else after
                    alts = ir_k if alts is None else choice(alts, ir_k)
                del self.site_choice[rq.key]
                self.frame.locals = after
                self.emit(alts)
                live = [x for x in stats if x != 3]
                status = 3 if not live else (2 if all(x == 2 for x in live) else max(live))
                break
            if j in (2, 3):
                status = j
                break
            if j == 1:
                status = 1
                if rest:
                    saved = self.snapshot_locals()
                    ir, jr = self.block(rest)
                    after = self.snapshot_locals()
                    self.merge_locals(saved, after)
                    self.emit(choice(("skip",), ir))
                break
        return self.pop(), status

    def do_if(self, s: ast.If, rest) -> int | None:
        t = self.expr(s.test)
        if self.is_const(t) and isinstance(t.pyobj, bool):
            ir, j = self.block(s.body if t.pyobj else s.orelse)     # the other branch cannot run
            self.emit(ir)
            if j in (2, 3):
                return j
            self.last_if_status = j
            return None
        before = self.snapshot_locals()
        a, ja = self.block(s.body)
        la = self.snapshot_locals()
        self.frame.locals = dict(before)
        b, jb = self.block(s.orelse)
        lb = self.snapshot_locals()
        if ja == 3 or jb == 3:
            # a branch that always raises never continues: what follows sees the other branch only
            if ja == 3 and jb == 3:
                self.emit(choice(a, b))
                return 3
            self.frame.locals = dict(lb if ja == 3 else la)
            self.emit(choice(a, b))
            other = jb if ja == 3 else ja
            if other == 2:
                return 2
            self.last_if_status = other
            return None
        if ja == 2 and jb == 2:
            self.emit(choice(a, b))
            return 2
        if (ja == 2) != (jb == 2):
            # one branch always leaves: the rest of the list belongs to the other branch only
            cont, jc, lc, gone = (b, jb, lb, a) if ja == 2 else (a, ja, la, b)
            self.frame.locals = dict(lc)
            if rest:
                r, jr = self.block(rest)
                if jc == 1:
                    mid = self.snapshot_locals()
                    self.merge_locals(lc, mid)
                    r = choice(("skip",), r)
            else:
                r, jr = ("skip",), 0
            self.emit(choice(gone, seq([cont, r])))
            return 2 if (jr == 2 and jc == 0) else 1
        self.merge_locals(la, lb)
        self.emit(choice(a, b))
        self.last_if_status = max(ja, jb)
        return None

    def snapshot_locals(self):
        return dict(self.frame.locals)

    def merge_locals(self, a: dict, b: dict):
        out = {}
        for k in set(a) | set(b):
            x, y = a.get(k), b.get(k)
            if x is None or y is None:
                out[k] = x or y
                continue
            if x.var is not None and y.var is not None:
                if x.var != y.var:
                    raise Unsupported(f"local {k} bound to two variables")
                out[k] = AV(var=x.var, ty=join_ty(x.ty, y.ty))
            elif x.var is None and y.var is None:
                if x.items is not None and y.items is not None and len(x.items) == len(y.items) and \
                        all(p.var == q.var for p, q in zip(x.items, y.items)):
                    out[k] = x
                elif x is y or (x.func is y.func and x.pyobj is y.pyobj and x.items is None and y.items is None):
                    out[k] = x
                else:
                    raise Unsupported(f"local {k} holds different symbolic values on two paths")
            else:
                raise Unsupported(f"local {k} is symbolic on one path only")
        self.frame.locals = out

    def stmt(self, s) -> int:
        fr = self.frame
        if isinstance(s, ast.Expr):
            if isinstance(s.value, (ast.Yield, ast.YieldFrom)):
                self.do_yield(s.value)
                return 0
            self.expr(s.value)
            return 0
        if isinstance(s, ast.Pass):
            return 0
        if isinstance(s, ast.Return):
            if fr.only_return is not None and s is not fr.only_return:
                self.emit(("abort",))      # this copy of the continuation covers another return site
                return 3
            av = self.expr(s.value) if s.value is not None else AV(ty=PRIM)
            self.do_return(av)
            return 2
        if isinstance(s, ast.Raise):
            if s.exc is not None:
                self.expr(s.exc)
            if not getattr(self, "in_try", 0):
                self.emit(("abort",))   # the exception ends the whole call (nothing inlined here catches it)
                return 3
            return 2
        if isinstance(s, (ast.Break, ast.Continue)):
            return 2
        if isinstance(s, ast.Assert):
            self.expr(s.test)
            return 0
        if isinstance(s, ast.Assign):
            av = self.expr(s.value)
            for t in s.targets:
                self.assign(t, av)
            return 0
        if isinstance(s, ast.AnnAssign):
            if isinstance(s.target, ast.Name):
                try:
                    ann = eval(compile(ast.Expression(s.annotation), "<ann>", "eval"), dict(fr.fn.__globals__))  # noqa: S307
                    if ty_of_annotation(ann, fr.fn.__globals__) == PRIM:
                        fr.declared_prim.add(s.target.id)    # `x: int = ...`: trusted like a parameter annotation
                except Exception:  # noqa: BLE001
                    pass
            if s.value is not None:
                self.assign(s.target, self.expr(s.value))
            return 0
        if isinstance(s, ast.AugAssign):
            self.augassign(s)
            return 0
        if isinstance(s, ast.If):
            j = self.do_if(s, [])
            return j if j is not None else self.last_if_status
        if isinstance(s, ast.While):
            before = self.snapshot_locals()
            self.push()
            self.no_split = getattr(self, "no_split", 0) + 1
            try:
                self.expr(s.test)
            finally:
                self.no_split -= 1
            body, j = self.block(s.body)
            self.emit(body)
            self.no_split += 1
            try:
                self.expr(s.test)
            finally:
                self.no_split -= 1
            ir = self.pop()
            self.merge_locals(before, self.snapshot_locals())
            # second pass so that types merged at the loop head are what the body saw is not needed:
            # variables are dedicated per local and the checker iterates to a fixpoint
            self.emit(("loop", ir))
            if s.orelse:
                ir2, j2 = self.block(s.orelse)
                self.emit(choice(("skip",), ir2))
                j = max(j, j2)
            return int(self.contains_return(s))
        if isinstance(s, ast.For):
            self.do_for(s.target, s.iter, lambda: self.block(s.body)[0])
            if s.orelse:
                ir2, _ = self.block(s.orelse)
                self.emit(choice(("skip",), ir2))
            return int(self.contains_return(s))
        if isinstance(s, ast.Try):
            self.in_try = getattr(self, "in_try", 0) + 1
            try:
                ir, j = self.block(s.body)
            finally:
                self.in_try -= 1
            self.emit(ir)
            for h in s.handlers:
                before = self.snapshot_locals()
                if h.name:
                    self.bind_local(fr, h.name, AV(ty=PRIM))
                hir, jh = self.block(h.body)
                self.merge_locals(before, self.snapshot_locals())
                self.emit(choice(("skip",), hir))
                j = min(1, max(j, jh))
            for part in (s.orelse, s.finalbody):
                if part:
                    pir, jp = self.block(part)
                    self.emit(choice(("skip",), pir))
                    j = min(1, max(j, jp))
            return min(1, j)
        if isinstance(s, ast.FunctionDef) and not s.decorator_list and not any(
                isinstance(n, (ast.Yield, ast.YieldFrom, ast.Nonlocal, ast.Global)) for n in ast.walk(s)):
            # a nested helper: like a lambda, its body may run any number of times with unknown arguments; it is lowered
            # here, in a loop, reading the enclosing locals as they are now
            a = s.args
            if a.vararg or a.kwarg:
                raise Unsupported("nested function with * / ** parameters")
            outer = self.frame
            inner = Frame(outer.fn, self.prog, outer.depth + 1)
            inner.self_cls = outer.self_cls
            inner.locals = dict(outer.locals)
            inner.vars = {}
            self.push()
            self.no_split = getattr(self, "no_split", 0) + 1
            self.frame = inner
            try:
                for p_ in a.posonlyargs + a.args + a.kwonlyargs:
                    v = self.tmp(p_.arg + "@nested")
                    pty = UNKNOWN
                    if p_.annotation is not None:
                        try:
                            pty = ty_of_annotation(eval(compile(ast.Expression(p_.annotation), "<ann>", "eval"),  # noqa: S307
                                                        dict(outer.fn.__globals__)), outer.fn.__globals__)
                        except Exception:  # noqa: BLE001
                            pty = UNKNOWN
                    self.emit(("havoc", v) if pty == PRIM else ("ext", v))
                    inner.locals[p_.arg] = AV(var=v, ty=pty)
                    inner.vars[p_.arg] = v
                ir, _ = self.block(s.body)
                self.emit(ir)
                if inner.ret is not None and inner.ret.var is None and inner.ret.items is not None:
                    self.materialise(inner.ret)
            finally:
                self.frame = outer
                self.no_split -= 1
            body = self.pop()
            self.emit(("loop", body))
            outer.locals[s.name] = AV(ty=PRIM, attrs={"__callable__": True})
            return 0
        if isinstance(s, ast.Import):
            for al in s.names:
                mod_ = importlib.import_module(al.name)
                top = importlib.import_module(al.name.split(".")[0])
                fr.locals[al.asname or al.name.split(".")[0]] = self.pyvalue(mod_ if al.asname else top, al.name)
            return 0
        if isinstance(s, ast.ImportFrom) and s.level == 0 and s.module:
            mod_ = importlib.import_module(s.module)
            for al in s.names:
                if al.name == "*":
                    raise Unsupported("from ... import *")
                try:
                    val = getattr(mod_, al.name)
                except AttributeError:
                    val = importlib.import_module(s.module + "." + al.name)
                fr.locals[al.asname or al.name] = self.pyvalue(val, al.name)
            return 0
        if isinstance(s, (ast.Import, ast.ImportFrom, ast.Global, ast.Nonlocal, ast.FunctionDef, ast.ClassDef, ast.With,
                          ast.Delete)):
            if isinstance(s, ast.Delete):
                for t in s.targets:
                    if isinstance(t, ast.Subscript):
                        base = self.materialise(self.expr(t.value))
                        p = self.prim("del")
                        self.emit(("store", base.var, fid(ELEM), p.var))
                    elif isinstance(t, ast.Attribute):
                        base = self.materialise(self.expr(t.value))
                        p = self.prim("del")
                        self.emit(("store", base.var, fid(t.attr), p.var))
                    else:
                        fr.locals.pop(getattr(t, "id", None), None)
                return 0
            raise Unsupported(f"statement {type(s).__name__} in {fr.fn.__qualname__}")
        raise Unsupported(f"statement {type(s).__name__}")

    def contains_return(self, node) -> bool:
        kinds = (ast.Return, ast.Raise) if getattr(self, "in_try", 0) else (ast.Return,)
        return any(isinstance(n, kinds) for n in ast.walk(node))

    def do_return(self, av: AV):
        fr = self.frame
        if getattr(fr, "tail_return_only", False):
            fr.ret = av            # the only return statement, at the very end: hand the value on as it is
            return
        if fr.ret is None:
            fr.ret = self.fresh_shape(av)
        self.move_into(fr.ret, av)

    def fresh_shape(self, av: AV) -> AV:
        if av.items is not None and not av.is_prim():
            return AV(items=[self.fresh_shape(i) for i in av.items], display=av.display)
        if av.var is None and (av.func is not None or av.has_pyobj):
            return AV(var=self.tmp("ret"), ty=PRIM)
        r = AV(var=self.tmp("ret"), ty=PRIM if av.is_prim() else av.ty, attrs=av.attrs)
        r._assigned = 0
        return r

    def move_into(self, dst: AV, src: AV):
        if dst.items is not None:
            if src.items is None or len(src.items) != len(dst.items):
                # a dynamic tuple returned where a static pair is expected: split it
                m = self.materialise(src)
                for d in dst.items:
                    t = self.tmp("part")
                    self.emit(("load", t, m.var, fid(ELEM)))
                    self.move_into(d, AV(var=t, ty=UNKNOWN))
                return
            for d, s in zip(dst.items, src.items):
                self.move_into(d, s)
            return
        if src.is_prim():
            self.emit(("havoc", dst.var))
            return
        m = self.materialise(src)
        self.emit(("mov", dst.var, m.var))
        n_assigned = getattr(dst, "_assigned", 1)
        dst.dfields = src.dfields if n_assigned == 0 else None
        dst.shadow = (src.shadow if src.shadow is not None else (src.items if src.display == "list" else None)) \
            if n_assigned == 0 else None
        dst._assigned = n_assigned + 1
        dst.ty = m.ty if dst.ty == PRIM else join_ty(dst.ty, m.ty)
        if m.attrs is not None:
            dst.attrs = m.attrs if dst.attrs is None else {**dst.attrs, **m.attrs}

    def do_yield(self, node):
        h = self.frame.yield_handler
        if h is None:
            raise Unsupported("yield outside a for-loop consumer")
        if isinstance(node, ast.YieldFrom):
            raise Unsupported("yield from")
        av = self.expr(node.value) if node.value is not None else AV(ty=PRIM)
        saved = self.frame
        h(av)
        self.frame = saved

    def assign(self, target, av: AV):
        fr = self.frame
        if isinstance(target, ast.Name):
            self.bind_local(fr, target.id, av)
            return
        if isinstance(target, (ast.Tuple, ast.List)):
            if any(isinstance(e, ast.Starred) for e in target.elts):
                raise Unsupported("starred assignment")
            if av.items is not None and len(av.items) == len(target.elts):
                for t, i in zip(target.elts, av.items):
                    self.assign(t, i)
                return
            if av.is_prim():
                for t in target.elts:
                    self.assign(t, AV(ty=PRIM))
                return
            m = self.materialise(av)
            ets = m.ty[1] if m.ty[0] == "htuple" and len(m.ty[1]) == len(target.elts) else None
            elem = m.ty[1] if m.ty[0] in ("list",) else None
            for k, t in enumerate(target.elts):
                ety = ets[k] if ets else (elem if elem is not None else UNKNOWN)
                if ety == PRIM:
                    self.assign(t, AV(ty=PRIM))
                else:
                    x = self.tmp("unpack")
                    self.emit(("load", x, m.var, fid(ELEM)))
                    self.assign(t, AV(var=x, ty=ety))
            return
        if isinstance(target, ast.Attribute):
            base = self.materialise(self.expr(target.value))
            v = self.materialise(av) if not av.is_prim() else self.prim("v")
            self.emit(("store", base.var, fid(target.attr), v.var))
            if base.attrs is not None:
                base.attrs[target.attr] = PRIM if av.is_prim() else v.ty
            return
        if isinstance(target, ast.Subscript):
            base0 = self.expr(target.value)
            base0.dfields = None      # the static contents are no longer known
            base0.shadow = None
            base = self.materialise(base0)
            self.expr(target.slice)
            v = self.materialise(av) if not av.is_prim() else self.prim("v")
            self.emit(("store", base.var, fid(ELEM), v.var))
            return
        raise Unsupported(f"assignment target {type(target).__name__}")

    def augassign(self, s: ast.AugAssign):
        val = self.expr(s.value)
        t = s.target
        if isinstance(t, ast.Name):
            cur = self.lookup(t.id)
            if cur.is_prim():
                self.bind_local(self.frame, t.id, AV(ty=PRIM))
                return
            # in-place operator on a mutable object (list +=, Stat +=)
            r = self.inplace(cur, val, s.op)
            if r is not None:
                self.bind_local(self.frame, t.id, r)
            return
        if isinstance(t, ast.Attribute):
            base = self.materialise(self.expr(t.value))
            cur = self.attribute(base, t.attr)
            if cur.is_prim():
                p = self.prim("aug")
                self.emit(("store", base.var, fid(t.attr), p.var))
                return
            r = self.inplace(cur, val, s.op) or cur
            self.emit(("store", base.var, fid(t.attr), self.materialise(r).var))  # re-assignment of the attribute
            return
        if isinstance(t, ast.Subscript):
            base = self.materialise(self.expr(t.value))
            self.expr(t.slice)
            v = self.materialise(val) if not val.is_prim() else self.prim("v")
            self.emit(("store", base.var, fid(ELEM), v.var))
            return
        raise Unsupported("augmented assignment target")

    def inplace(self, cur: AV, val: AV, op) -> AV | None:
        """`cur op= val` on a mutable object; returns the value the target is re-bound to (None: the same object)"""
        opname = OPNAMES.get(type(op))
        if cur.ty[0] == "inst" and opname is not None:
            cls = cur.ty[1]
            for dunder in (f"__i{opname}__", f"__{opname}__"):
                raw = next((c.__dict__[dunder] for c in cls.__mro__ if dunder in c.__dict__), None)
                if isinstance(raw, types.FunctionType):
                    o = val if not (val.var is None and val.is_prim()) else self.prim("operand")
                    return self.call_function(raw, [cur, o], {}, self_cls=cls)
        m = self.materialise(cur)
        v = self.materialise(val) if not val.is_prim() else self.prim("v")
        if val.items is None and not val.is_prim() and v.ty[0] in ("list", "dict"):
            self.push()
            el = self.elements(v)
            self.emit(("store", m.var, fid(ELEM), (self.materialise(el) if not el.is_prim() else self.prim("v")).var))
            self.emit(("loop", self.pop()))
        else:
            self.emit(("store", m.var, fid(ELEM), v.var))
        return None

    # -- iteration
    def elements(self, it: AV, want: int | None = None) -> AV:
        """the abstract element of an iterable (emits the load)"""
        if it.iterkind is not None:
            k = it.iterkind
            if k[0] == "range":
                return AV(ty=PRIM)
            if k[0] == "enumerate":
                return AV(items=[AV(ty=PRIM), self.elements(k[1])])
            if k[0] == "zip":
                return AV(items=[self.elements(x) for x in k[1]])
            if k[0] == "items":
                return AV(items=[AV(ty=PRIM), self.elements(k[1])])
            if k[0] == "keys":
                return AV(ty=PRIM)
        if it.items is not None:
            raise Unsupported("iteration over a display is expanded by the caller")
        if it.is_prim():
            return AV(ty=PRIM)
        m = self.materialise(it)
        if m.ty[0] in ("list", "dict") and m.ty[1] == PRIM and m.ty[0] == "list":
            return AV(ty=PRIM)
        if m.ty[0] == "dict":
            return AV(ty=PRIM)  # iterating a dict yields keys
        ety = m.ty[1] if m.ty[0] == "list" else UNKNOWN
        if m.ty[0] == "htuple":
            ety = UNKNOWN
            for t in m.ty[1]:
                ety = t if ety == UNKNOWN else join_ty(ety, t)
        x = self.tmp("elem")
        self.emit(("load", x, m.var, fid(ELEM)))
        return AV(var=x, ty=ety)

    def do_for(self, target, iter_node, body_fn):
        it = self.expr(iter_node)
        before = self.snapshot_locals()
        if it.gen is not None:
            fn, gargs, gkwargs, gcls = it.gen

            consumer = self.frame

            def handler(yielded: AV):
                producer = self.frame
                self.frame = consumer
                try:
                    self.assign(target, yielded)
                    self.emit(body_fn())
                finally:
                    self.frame = producer

            self.call_function(fn, gargs, gkwargs, self_cls=gcls, yield_handler=handler)
            self.merge_locals_loose(before)
            return
        if it.items is not None:
            # for x in (a, b, c): every element may be the one
            self.push()
            alts = None
            for i in it.items:
                self.push()
                self.assign(target, i)
                self.emit(body_fn())
                one = self.pop()
                alts = one if alts is None else choice(alts, one)
            self.pop()
            self.merge_locals_loose(before)
            if alts is not None:
                self.emit(("loop", alts))
            return
        self.push()
        el = self.elements(it)
        self.assign(target, el)
        self.emit(body_fn())
        ir = self.pop()
        self.merge_locals_loose(before)
        self.emit(("loop", ir))

    def merge_locals_loose(self, before):
        """after a loop: locals first bound in the body keep their variable; types are joined"""
        after = self.snapshot_locals()
        out = {}
        for k in set(before) | set(after):
            x, y = before.get(k), after.get(k)
            if x is None or y is None:
                out[k] = x or y
            elif x.var is not None and y.var is not None and x.var == y.var:
                out[k] = AV(var=x.var, ty=join_ty(x.ty, y.ty))
            elif x.var is None and y.var is None:
                out[k] = y
            else:
                raise Unsupported(f"local {k} changes its representation inside a loop")
        self.frame.locals = out

    # -- expressions
    def lookup(self, name: str) -> AV:
        fr = self.frame
        if name in fr.locals:
            return fr.locals[name]
        g = fr.fn.__globals__
        if name in g:
            return self.pyvalue(g[name], name)
        import builtins
        if hasattr(builtins, name):
            return AV(pyobj=getattr(builtins, name), has_pyobj=True)
        if name == "__class__":
            return AV(pyobj=defining_class(fr.fn, fr.self_cls), has_pyobj=True)
        raise Unsupported(f"unbound name {name} in {fr.fn.__qualname__}")

    def pyvalue(self, o, name="") -> AV:
        if isinstance(o, (types.FunctionType,)):
            return AV(func=o)
        if self.is_immutable_pyobj(o) and not isinstance(o, (types.ModuleType, type)):
            return AV(ty=PRIM, pyobj=o, has_pyobj=True)
        if isinstance(o, (type, types.ModuleType, types.BuiltinFunctionType)):
            if isinstance(o, types.ModuleType) and o.__name__.split(".")[0] in AMBIENT:
                self.ambient.append(o.__name__)
            return AV(pyobj=o, has_pyobj=True)
        # a module-level mutable object: reading it makes the result depend on ambient state
        self.global_reads.append(name or repr(o)[:40])
        t = ListOf(UNKNOWN) if isinstance(o, (list, set)) else DictOf(UNKNOWN) if isinstance(o, dict) else Inst(type(o))
        return AV(pyobj=o, has_pyobj=True, ty=t)

    def expr(self, e) -> AV:
        if e is None:
            return AV(ty=PRIM)
        if isinstance(e, ast.Constant):
            return AV(ty=PRIM, pyobj=e.value, has_pyobj=True)
        if isinstance(e, ast.Name):
            return self.lookup(e.id)
        if isinstance(e, ast.Attribute):
            base = self.expr(e.value)
            return self.attribute(base, e.attr)
        if isinstance(e, ast.Call):
            return self.call(e)
        if isinstance(e, (ast.Tuple,)):
            if any(isinstance(x, ast.Starred) for x in e.elts):
                raise Unsupported("starred display")
            return AV(items=[self.expr(x) for x in e.elts])
        if isinstance(e, (ast.List, ast.Set)):
            elts = []
            for x in e.elts:
                if isinstance(x, ast.Starred):
                    inner = self.expr(x.value)
                    elts.append(("star", inner))
                else:
                    elts.append(("one", self.expr(x)))
            if isinstance(e, ast.List) and e.elts and all(k == "one" for k, _ in elts):
                return AV(items=[a for _, a in elts], display="list")
            return self.build_container([a for _, a in elts if _ == "one"], [a for _, a in elts if _ == "star"], "list")
        if isinstance(e, ast.Dict):
            vals = []
            stars = []
            for k, v in zip(e.keys, e.values):
                if k is None:
                    stars.append(self.expr(v))
                else:
                    self.expr(k)
                    vals.append(self.expr(v))
            out = self.build_container(vals, stars, "dict")
            if not stars and all(isinstance(k, ast.Constant) and isinstance(k.value, str) for k in e.keys):
                out.dfields = {k.value: v for k, v in zip(e.keys, vals)}
            return out
        if isinstance(e, (ast.ListComp, ast.SetComp, ast.GeneratorExp, ast.DictComp)):
            return self.comprehension(e)
        if isinstance(e, ast.BinOp):
            l, r = self.expr(e.left), self.expr(e.right)
            return self.binop(l, r, e.op)
        if isinstance(e, ast.UnaryOp):
            v = self.expr(e.operand)
            if isinstance(e.op, ast.Not) and self.is_const(v) and isinstance(v.pyobj, bool):
                return AV(ty=PRIM, pyobj=not v.pyobj, has_pyobj=True)
            if isinstance(e.op, ast.Not) or v.is_prim():
                return AV(ty=PRIM)
            if v.ty == UNKNOWN:
                self.materialise(v)
                x = self.tmp("neg")
                self.emit(("ext", x))
                return AV(var=x, ty=UNKNOWN)
            raise Unsupported("unary operator on an object")
        if isinstance(e, ast.Compare):
            l = self.expr(e.left)
            rs = [self.expr(c) for c in e.comparators]
            if len(rs) == 1 and isinstance(e.ops[0], (ast.Eq, ast.NotEq, ast.Is, ast.IsNot)) and \
                    self.is_const(l) and self.is_const(rs[0]):
                eq = l.pyobj == rs[0].pyobj
                return AV(ty=PRIM, pyobj=eq if isinstance(e.ops[0], (ast.Eq, ast.Is)) else not eq, has_pyobj=True)
            return AV(ty=PRIM)
        if isinstance(e, ast.BoolOp):
            vals = [self.expr(v) for v in e.values]
            if all(v.is_prim() for v in vals):
                return AV(ty=PRIM)
            return self.one_of(vals)
        if isinstance(e, ast.IfExp):
            self.expr(e.test)
            a, b = self.expr(e.body), self.expr(e.orelse)
            if a.is_prim() and b.is_prim():
                return AV(ty=PRIM)
            return self.one_of([a, b])
        if isinstance(e, ast.JoinedStr):
            for v in e.values:
                if isinstance(v, ast.FormattedValue):
                    self.expr(v.value)
            return AV(ty=PRIM)
        if isinstance(e, ast.Subscript):
            base = self.expr(e.value)
            if isinstance(e.slice, ast.Slice):
                for part in (e.slice.lower, e.slice.upper, e.slice.step):
                    if part is not None:
                        self.expr(part)
                if base.is_prim():
                    return AV(ty=PRIM)
                if base.items is not None:
                    base = self.materialise(base)
                return self.build_container([], [base], "list")
            idx = self.expr(e.slice)
            if base.items is not None and idx.has_pyobj and isinstance(idx.pyobj, int):
                return base.items[idx.pyobj]
            if base.dfields is not None and idx.has_pyobj and isinstance(idx.pyobj, str) and idx.pyobj in base.dfields:
                return base.dfields[idx.pyobj]
            if base.has_pyobj and base.var is None:
                return AV(ty=PRIM) if self.is_immutable_pyobj(base.pyobj) or isinstance(base.pyobj, type) else \
                    self.load_unknown(self.materialise(base))
            if base.is_prim():
                return AV(ty=PRIM)
            m = self.materialise(base)
            ety = UNKNOWN
            if m.ty[0] in ("list", "dict"):
                ety = m.ty[1]
            elif m.ty[0] == "htuple":
                if idx.has_pyobj and isinstance(idx.pyobj, int) and -len(m.ty[1]) <= idx.pyobj < len(m.ty[1]):
                    ety = m.ty[1][idx.pyobj]
                else:
                    for t in m.ty[1]:
                        ety = t if ety == UNKNOWN else join_ty(ety, t)
            if ety == PRIM:
                return AV(ty=PRIM)
            x = self.tmp("item")
            self.emit(("load", x, m.var, fid(ELEM)))
            return AV(var=x, ty=ety)
        if isinstance(e, ast.Lambda):
            # the body may run any number of times, with unknown arguments, wherever the function value ends up
            # being called (sorted(key=...), map, filter, ...): its effects are emitted here, inside a loop
            a = e.args
            if a.vararg or a.kwarg or a.kwonlyargs:
                raise Unsupported("lambda with * / ** parameters")
            saved = self.snapshot_locals()
            self.push()
            self.no_split = getattr(self, "no_split", 0) + 1
            for p_ in a.posonlyargs + a.args:
                v = self.tmp(p_.arg + "@lambda")
                self.emit(("ext", v))
                self.frame.locals[p_.arg] = AV(var=v, ty=UNKNOWN)
            r = self.expr(e.body)
            if not r.is_prim() and r.var is None and r.items is not None:
                self.materialise(r)
            body = self.pop()
            self.no_split -= 1
            self.frame.locals = saved
            self.emit(("loop", body))
            return AV(ty=PRIM, attrs={"__callable__": True})
        if isinstance(e, ast.NamedExpr):
            v = self.expr(e.value)
            self.assign(e.target, v)
            return self.lookup(e.target.id)
        if isinstance(e, ast.Starred):
            raise Unsupported("starred expression")
        if isinstance(e, (ast.Yield, ast.YieldFrom)):
            raise Unsupported("yield used as an expression")
        raise Unsupported(f"expression {type(e).__name__}")

    @staticmethod
    def is_const(av: AV) -> bool:
        import enum as _enum
        return av.has_pyobj and av.var is None and av.func is None and \
            isinstance(av.pyobj, (bool, int, float, str, type(None), _enum.Enum))

    def static_elements(self, av: AV):
        if av.items is not None:
            return av.items
        return av.shadow

    def try_fold_any(self, e: ast.Call):
        """any(...) / all(...) over a generator whose iterable has statically known elements and whose element
        expression folds to a constant for each of them"""
        if not (isinstance(e.func, ast.Name) and e.func.id in ("any", "all") and e.func.id not in self.frame.locals
                and len(e.args) == 1 and not e.keywords and isinstance(e.args[0], (ast.GeneratorExp, ast.ListComp))):
            return None
        g = e.args[0]
        if len(g.generators) != 1 or g.generators[0].ifs or not isinstance(g.generators[0].target, ast.Name):
            return None
        mark = (len(self.blocks), len(self.blocks[-1]))
        saved = self.snapshot_locals()
        it = self.expr(g.generators[0].iter)
        elems = self.static_elements(it)
        if elems is None:
            del self.blocks[mark[0]:]; del self.blocks[-1][mark[1]:]
            self.frame.locals = saved
            return None
        vals = []
        for el in elems:
            self.frame.locals[g.generators[0].target.id] = el
            v = self.expr(g.elt)
            if not (self.is_const(v) and isinstance(v.pyobj, bool)):
                del self.blocks[mark[0]:]; del self.blocks[-1][mark[1]:]
                self.frame.locals = saved
                return None
            vals.append(v.pyobj)
        self.frame.locals = saved
        res = any(vals) if e.func.id == "any" else all(vals)
        return AV(ty=PRIM, pyobj=res, has_pyobj=True)

    def load_unknown(self, m: AV) -> AV:
        x = self.tmp("item")
        self.emit(("load", x, m.var, fid(ELEM)))
        return AV(var=x, ty=UNKNOWN)

    def one_of(self, vals: list[AV]) -> AV:
        r = self.tmp("either")
        ty = None
        alts = None
        for v in vals:
            self.push()
            if v.is_prim():
                self.emit(("havoc", r))
            else:
                m = self.materialise(v)
                self.emit(("mov", r, m.var))
                ty = m.ty if ty is None else join_ty(ty, m.ty)
            one = self.pop()
            alts = one if alts is None else choice(alts, one)
        self.emit(alts)
        return AV(var=r, ty=ty or PRIM)

    def build_container(self, elems: list[AV], stars: list[AV], kind: str) -> AV:
        """a new list / dict / set holding `elems` and the elements of the iterables `stars`"""
        ety = None
        for a in elems:
            t = PRIM if a.is_prim() else (a.ty if a.items is None else HeapTuple([i.ty for i in a.items]))
            ety = t if ety is None else join_ty(ety, t)
        star_e = []
        for s in stars:
            if s.is_prim():
                t = PRIM
            elif s.items is not None:
                t = PRIM if s.is_prim() else UNKNOWN
            else:
                m = s if s.var is not None or s.iterkind else self.materialise(s)
                t = m.ty[1] if m.ty[0] in ("list",) else (PRIM if m.iterkind and m.iterkind[0] in ("range", "keys") else UNKNOWN)
                if m.ty[0] == "dict":
                    t = m.ty[1] if kind == "dict" else PRIM
            star_e.append(t)
            ety = t if ety is None else join_ty(ety, t)
        if ety is None:
            ety = PRIM
        d = self.tmp(kind)
        deep = ety == PRIM
        self.alloc(d, "new" if deep else "newShallow")
        for a in elems:
            if not a.is_prim():
                m = self.materialise(a)
                self.emit(("store", d, fid(ELEM), m.var))
        for s, t in zip(stars, star_e):
            if t == PRIM:
                continue
            self.push()
            el = self.elements(s if s.items is None else self.materialise(s))
            if not el.is_prim():
                m = self.materialise(el)
                self.emit(("store", d, fid(ELEM), m.var))
            self.emit(("loop", self.pop()))
        return AV(var=d, ty=ListOf(ety) if kind == "list" else DictOf(ety))

    def comprehension(self, e) -> AV:
        self.no_split = getattr(self, "no_split", 0) + 1     # a loop that is not a statement list: never split inside
        try:
            return self._comprehension(e)
        finally:
            self.no_split -= 1

    def _comprehension(self, e) -> AV:
        fr = self.frame
        saved = self.snapshot_locals()
        d = self.tmp("comp")
        slot = len(self.blocks[-1])
        self.emit(("skip",))   # placeholder for the allocation (its kind is known after the element was lowered)
        self.push()
        elt_info = {}

        def gen_rec(gens):
            if not gens:
                if isinstance(e, ast.DictComp):
                    self.expr(e.key)
                    v = self.expr(e.value)
                else:
                    v = self.expr(e.elt)
                elt_info["prim"] = v.is_prim()
                elt_info["ty"] = PRIM if v.is_prim() else (v.ty if v.items is None else HeapTuple([i.ty for i in v.items]))
                if not v.is_prim():
                    m = self.materialise(v)
                    self.emit(("store", d, fid(ELEM), m.var))
                return
            g = gens[0]

            def body():
                self.push()
                for c in g.ifs:
                    self.expr(c)
                gen_rec(gens[1:])
                return choice(("skip",), self.pop())

            self.do_for(g.target, g.iter, body)

        gen_rec(list(e.generators))
        ir = self.pop()
        deep = elt_info.get("prim", True)
        self.prog.flex[d] = "new" if deep else "newShallow"
        self.blocks[-1][slot] = ("alloc", d)
        self.emit(ir)
        self.frame.locals = saved
        ety = elt_info.get("ty", PRIM)
        return AV(var=d, ty=DictOf(ety) if isinstance(e, ast.DictComp) else ListOf(ety))

    def binop(self, l: AV, r: AV, op) -> AV:
        if l.is_prim() and r.is_prim():
            return AV(ty=PRIM)
        lt = l.ty if l.items is None else HeapTuple([i.ty for i in l.items])
        rt = r.ty if r.items is None else HeapTuple([i.ty for i in r.items])
        if isinstance(op, ast.Add) and (lt[0] in ("list", "htuple") or rt[0] in ("list", "htuple")):
            if l.items is not None and r.items is not None and l.display is None and r.display is None:
                return AV(items=l.items + r.items)
            return self.build_container([], [l if l.items is None else self.materialise(l),
                                             r if r.items is None else self.materialise(r)], "list")
        opname = OPNAMES.get(type(op))
        if opname is not None:
            for side, other, dunder in ((l, r, f"__{opname}__"), (r, l, f"__r{opname}__")):
                if side.ty[0] == "inst" and side.items is None:
                    cls = side.ty[1]
                    raw = None
                    for c in cls.__mro__:
                        if dunder in c.__dict__:
                            raw = c.__dict__[dunder]
                            break
                    if isinstance(raw, types.FunctionType):
                        o = other if not (other.var is None and other.is_prim()) else self.prim("operand")
                        return self.call_function(raw, [side, o], {}, self_cls=cls)
        if isinstance(op, ast.Mult) and (lt[0] == "list" or rt[0] == "list"):
            side = l if lt[0] == "list" else r
            return self.build_container([], [side], "list")
        if isinstance(op, ast.BitOr) and lt[0] == "dict" and rt[0] == "dict":
            return self.build_container([], [l, r], "dict")
        if (l.is_prim() and rt[0] == "inst") or (r.is_prim() and lt[0] == "inst"):
            # e.g. None + Stat on a path the static types rule out: raises TypeError at run time
            return AV(ty=PRIM)
        if lt == UNKNOWN or rt == UNKNOWN:
            if not l.is_prim():
                self.materialise(l)
            if not r.is_prim():
                self.materialise(r)
            v = self.tmp("binop")
            self.emit(("ext", v))
            return AV(var=v, ty=UNKNOWN)
        raise Unsupported(f"operator {type(op).__name__} on {lt[0]}/{rt[0]}")

    _PLAIN_ATTRS: dict = {}

    @classmethod
    def plain_attr_types(cls_, c) -> dict:
        """attribute types of a plain (non-pydantic) class, from the `self.x: T = ...` lines of its __init__"""
        if c in cls_._PLAIN_ATTRS:
            return cls_._PLAIN_ATTRS[c]
        out = {}
        for k in reversed(c.__mro__):
            init = k.__dict__.get("__init__")
            if not isinstance(init, types.FunctionType):
                continue
            try:
                node = func_ast(init)
            except Exception:  # noqa: BLE001
                continue
            try:
                phints = typing.get_type_hints(init)
            except Exception:  # noqa: BLE001
                phints = {}
            for n in ast.walk(node):
                # self.x = <parameter>: the parameter's annotation
                if isinstance(n, ast.Assign) and len(n.targets) == 1 and isinstance(n.targets[0], ast.Attribute) and \
                        isinstance(n.targets[0].value, ast.Name) and n.targets[0].value.id == "self" and \
                        isinstance(n.value, ast.Name) and n.value.id in phints:
                    out.setdefault(n.targets[0].attr, ty_of_annotation(phints[n.value.id], init.__globals__))
                if isinstance(n, ast.AnnAssign) and isinstance(n.target, ast.Attribute) and \
                        isinstance(n.target.value, ast.Name) and n.target.value.id == "self":
                    try:
                        ann = eval(compile(ast.Expression(n.annotation), "<ann>", "eval"), dict(init.__globals__))  # noqa: S307
                        out[n.target.attr] = ty_of_annotation(ann, init.__globals__)
                    except Exception:  # noqa: BLE001
                        pass
        cls_._PLAIN_ATTRS[c] = out
        return out

    @staticmethod
    def implementations(cls, name):
        """class-hierarchy analysis: the distinct attributes `name` resolves to in cls and in every subclass"""
        out, seen = [], set()

        def walk(c):
            try:
                raw = inspect.getattr_static(c, name)
            except AttributeError:
                raw = None
            key = id(raw.fget) if isinstance(raw, property) else id(getattr(raw, "__func__", raw))
            f = raw.fget if isinstance(raw, property) else getattr(raw, "__func__", raw)
            if raw is not None and key not in seen and not getattr(f, "__isabstractmethod__", False):
                seen.add(key)
                out.append((c, raw))
            for sub in c.__subclasses__():
                if not (sub.__module__ or "").startswith(CHA_EXCLUDE_MODULES):
                    walk(sub)
        walk(cls)
        return out

    def attribute(self, base: AV, name: str) -> AV:
        fr = self.frame
        if base.has_pyobj and base.var is None and base.func is None:
            o = base.pyobj
            if isinstance(o, (type, types.ModuleType)):
                try:
                    raw = inspect.getattr_static(o, name)
                except AttributeError:
                    raise Unsupported(f"{o!r} has no attribute {name}")
                if isinstance(raw, classmethod):
                    return AV(func=raw.__func__, bound=base)
                if isinstance(raw, staticmethod):
                    return AV(func=raw.__func__)
                if isinstance(raw, types.FunctionType):
                    return AV(func=raw)       # unbound: Class.method(obj, ...)
                val = getattr(o, name)
                return self.pyvalue(val, f"{getattr(o, '__name__', o)}.{name}")
            if self.is_immutable_pyobj(o):
                return AV(ty=PRIM)
            base = self.materialise(base)
        if base.func is not None:
            raise Unsupported("attribute of a function")
        if base.items is not None:
            raise Unsupported("attribute of a tuple display")
        if base.is_prim():
            return AV(ty=PRIM)
        ty = base.ty
        if ty[0] in ("list", "dict", "htuple"):
            return AV(bmeth=name, bound=base)
        if ty[0] == "inst" and (ty[1].__module__ or "") in ("re", "builtins", "decimal", "fractions", "datetime"):
            if name in PURE_METHOD_NAMES or name in LIST_READERS:
                return AV(bmeth=name, bound=base)
            raise Unsupported(f"attribute {name} of a {ty[1].__module__}.{ty[1].__name__} object")
        if ty[0] == "inst":
            cls = ty[1]
            try:
                raw = inspect.getattr_static(cls, name)
            except AttributeError:
                raw = None
            fields = getattr(cls, "model_fields", None) or {}
            if name in fields:
                hints = {}
                try:
                    hints = typing.get_type_hints(cls)
                except Exception:
                    pass
                fty = ty_of_annotation(hints.get(name, fields[name].annotation), vars(sys.modules[cls.__module__]))
                if fty == PRIM:
                    return AV(ty=PRIM)
                x = self.tmp(name)
                self.emit(("load", x, base.var, fid(name)))
                return AV(var=x, ty=fty)
            if not base.exact and isinstance(raw, (property, types.FunctionType)) or \
                    (not base.exact and getattr(raw, "__isabstractmethod__", False)):
                impls = self.implementations(cls, name)
                if len(impls) > 1 or (impls and impls[0][1] is not raw):
                    if all(isinstance(r, property) for _, r in impls):
                        return self.one_of([self.call_function(r.fget, [base], {}, self_cls=c) for c, r in impls])
                    if all(isinstance(r, types.FunctionType) for _, r in impls):
                        return AV(func=impls[0][1], bound=base, alts=[(c, r) for c, r in impls])
                    raise Unsupported(f"{cls.__name__}.{name} is overridden with different kinds of attribute")
                if not impls:
                    raise Unsupported(f"{cls.__name__}.{name} has no concrete implementation")
            if isinstance(raw, property):
                return self.call_function(raw.fget, [base], {}, self_cls=cls)
            if isinstance(raw, types.FunctionType):
                return AV(func=raw, bound=base)
            if isinstance(raw, classmethod):
                return AV(func=raw.__func__, bound=AV(pyobj=cls, has_pyobj=True))
            if isinstance(raw, staticmethod):
                return AV(func=raw.__func__)
            if raw is not None and self.is_immutable_pyobj(raw) and not isinstance(raw, type):
                return AV(ty=PRIM)
            if raw is None or not callable(raw):
                # instance attribute of a plain class (set in __init__), or a class-level object
                aty = (base.attrs or {}).get(name) or self.plain_attr_types(cls).get(name, UNKNOWN)
                if aty == PRIM:
                    return AV(ty=PRIM)
                x = self.tmp(name)
                self.emit(("load", x, base.var, fid(name)))
                return AV(var=x, ty=aty)
            raise Unsupported(f"attribute {cls.__name__}.{name} of kind {type(raw).__name__}")
        if ty == PUREOBJ:
            x = self.tmp(name)
            self.emit(("ext", x))
            return AV(var=x, ty=PUREOBJ)
        if ty == UNKNOWN:
            if name in LIST_MUTATORS or name in LIST_POPS or name in LIST_READERS or name in PURE_METHOD_NAMES or \
                    name in ("model_copy", "model_dump"):
                # a value of unknown type: the method is taken by NAME (builtin containers, strings, pydantic models)
                return AV(bmeth=name, bound=base)
            x = self.tmp(name)
            self.emit(("load", x, base.var, fid(name)))
            return AV(var=x, ty=UNKNOWN, bmeth=None)
        raise Unsupported(f"attribute {name} of {ty}")

    def call(self, e: ast.Call) -> AV:
        fr = self.frame
        # super()
        if isinstance(e.func, ast.Attribute) and isinstance(e.func.value, ast.Call) and \
                isinstance(e.func.value.func, ast.Name) and e.func.value.func.id == "super" and "super" not in fr.locals:
            selfav = fr.locals.get("self") or fr.locals.get("cls")
            dc = defining_class(fr.fn, fr.self_cls)
            if dc is None or selfav is None:
                raise Unsupported("super() outside a method")
            mro = fr.self_cls.__mro__
            nxt = mro[mro.index(dc) + 1:]
            raw = None
            for c in nxt:
                if e.func.attr in c.__dict__:
                    raw = c.__dict__[e.func.attr]
                    break
            if raw is None:
                raise Unsupported(f"super().{e.func.attr} not found")
            args, kwargs = self.arguments(e)
            if e.func.attr == "model_copy":
                return self.model_copy(selfav, kwargs)
            f = raw.__func__ if isinstance(raw, (classmethod, staticmethod)) else raw
            return self.call_function(f, [selfav] + args, kwargs, self_cls=fr.self_cls)
        folded = self.try_fold_any(e)
        if folded is not None:
            return folded
        callee = self.expr(e.func)
        args, kwargs = self.arguments(e)
        self.call_key = (id(e), tuple(id(f) for f in self.stack))
        try:
            return self.apply(callee, args, kwargs, e)
        finally:
            self.call_key = None

    def arguments(self, e: ast.Call):
        args = []
        for a in e.args:
            if isinstance(a, ast.Starred):
                raise Unsupported("*args at a call")
            args.append(self.expr(a))
        kwargs = {}
        for k in e.keywords:
            if k.arg is None:
                if "**" in kwargs:
                    raise Unsupported("two ** arguments at a call")
                kwargs["**"] = self.expr(k.value)
                continue
            kwargs[k.arg] = self.expr(k.value)
        return args, kwargs

    def model_copy(self, recv: AV, kwargs) -> AV:
        deep = kwargs.get("deep")
        m = self.materialise(recv)
        v = self.tmp("copy")
        if deep is not None and deep.has_pyobj and deep.pyobj is True:
            self.emit(("copy", v, m.var))
        else:
            if deep is not None and not (deep.has_pyobj and deep.pyobj is False):
                raise Unsupported("model_copy with a non-constant deep flag")
            # shallow copy: a new object holding the same references
            self.emit(("newShallow", v))
            t = self.tmp("fld")
            self.emit(("load", t, m.var, fid(ELEM)))
            self.emit(("store", v, fid(ELEM), t))
        upd = kwargs.get("update")
        if upd is not None:
            u = self.materialise(upd)
            t = self.tmp("upd")
            self.emit(("load", t, u.var, fid(ELEM)))
            self.emit(("store", v, fid(ELEM), t))
        return AV(var=v, ty=m.ty)

    def apply(self, callee: AV, args, kwargs, node) -> AV:
        fr = self.frame
        # builtin container methods
        if callee.bmeth is not None:
            return self.container_method(callee.bound, callee.bmeth, args, kwargs)
        if callee.func is not None and callee.alts:
            # a method that subclasses override: any of the implementations may run
            results = []
            ret = None
            alts_ir = None
            for c, f in callee.alts:
                self.push()
                narrowed = AV(var=callee.bound.var, ty=Inst(c), attrs=callee.bound.attrs) if callee.bound.var is not None \
                    else callee.bound
                r = self.apply(AV(func=f, bound=narrowed), args, kwargs, node)
                if ret is None:
                    ret = self.fresh_shape(r)
                self.move_into(ret, r)
                one = self.pop()
                alts_ir = one if alts_ir is None else choice(alts_ir, one)
            self.emit(alts_ir)
            return ret
        if callee.func is not None:
            fn = callee.func
            recv = callee.bound
            name = fn.__name__
            full = [recv] + args if recv is not None else args
            self_cls = None
            if recv is not None:
                if recv.has_pyobj and isinstance(recv.pyobj, type):
                    self_cls = recv.pyobj
                elif recv.ty[0] == "inst":
                    self_cls = recv.ty[1]
            elif args and args[0].ty[0] == "inst":
                self_cls = args[0].ty[1]
            if name in ("model_copy",) and recv is not None:
                return self.model_copy(recv, kwargs)
            if name == "deepcopy" and recv is not None and (fn.__module__ or "").startswith("simaple.simulate.component.base"):
                m = self.materialise(recv)
                v = self.tmp("copy")
                self.emit(("copy", v, m.var))
                return AV(var=v, ty=m.ty)
            if name in ("model_validate", "model_validate_json", "model_construct", "parse_obj") and \
                    (fn.__module__ or "").startswith("pydantic") and recv is not None and recv.has_pyobj:
                # pydantic builds a new model from plain data
                for a in list(args) + list(kwargs.values()):
                    if a.var is None and not a.is_prim():
                        self.materialise(a)
                cls_ = recv.pyobj
                v = self.tmp(cls_.__name__)
                self.alloc(v, "new" if self.is_deep_class(cls_) else "newShallow")
                for a in args:
                    if not a.is_prim():
                        t = self.tmp("fld")
                        self.emit(("load", t, self.materialise(a).var, fid(ELEM)))
                        self.emit(("store", v, fid(ELEM), t))
                return AV(var=v, ty=Inst(cls_), exact=True)
            if name in ("model_dump", "dict", "model_dump_json", "json") and (fn.__module__ or "").startswith("pydantic"):
                v = self.tmp("dump")
                self.emit(("new", v))
                return AV(var=v, ty=DictOf(PRIM))
            if is_generator(fn) and (fn.__module__ or "").startswith(INLINE_MODULES):
                return AV(gen=(fn, full, kwargs, self_cls))
            return self.call_function(fn, full, kwargs, self_cls=self_cls)
        if callee.has_pyobj:
            o = callee.pyobj
            if isinstance(o, type):
                return self.construct(o, args, kwargs)
            if isinstance(o, types.BuiltinFunctionType) or callable(o) and getattr(o, "__module__", "") in ("builtins", "math", "typing"):
                return self.builtin(o, args, kwargs, node)
            raise Unsupported(f"call of object {o!r}")
        if callee.is_prim() and callee.func is None and not callee.has_pyobj and (callee.attrs or {}).get("__callable__"):
            # a lambda / nested function of this method: its body was lowered where it was written
            for a in list(args) + list(kwargs.values()):
                if a.var is None and not a.is_prim():
                    self.materialise(a)
            x = self.tmp("called")
            self.emit(("ext", x))
            return AV(var=x, ty=UNKNOWN)
        if callee.is_prim() and callee.func is None and not callee.has_pyobj:
            # a method of an immutable value (str.format, float.is_integer, ...)
            for a in list(args) + list(kwargs.values()):
                if a.var is None and not a.is_prim():
                    self.materialise(a)
            return AV(ty=PRIM)
        if callee.ty == PUREOBJ and callee.var is not None:
            for a in list(args) + list(kwargs.values()):
                if a.var is None and not a.is_prim():
                    self.materialise(a)
            x = self.tmp("libcall")
            self.emit(("ext", x))
            return AV(var=x, ty=PUREOBJ)
        if callee.ty == UNKNOWN and callee.var is not None:
            raise Unsupported(f"call through a value of unknown type ({ast.unparse(node.func)}) in {fr.fn.__qualname__}")
        raise Unsupported(f"call of {ast.unparse(node.func)}")

    def builtin(self, o, args, kwargs, node) -> AV:
        name = getattr(o, "__name__", "")
        if name in ("cast",):
            return args[1]
        if name == "getattr":
            if args[1].has_pyobj and isinstance(args[1].pyobj, str):
                return self.attribute(args[0], args[1].pyobj)
            # a computed attribute name: any data field of the object may be read
            recv = args[0]
            if recv.is_prim():
                return AV(ty=PRIM)
            m = self.materialise(recv)
            if m.ty[0] == "inst" and getattr(m.ty[1], "model_fields", None):
                cls_ = m.ty[1]
                try:
                    hints = typing.get_type_hints(cls_)
                except Exception:  # noqa: BLE001
                    hints = {}
                tys = [ty_of_annotation(hints.get(k, f.annotation), vars(sys.modules[cls_.__module__]))
                       for k, f in cls_.model_fields.items()]
                if all(t == PRIM for t in tys):
                    return AV(ty=PRIM)
            x = self.tmp("attr")
            self.emit(("load", x, m.var, fid(ELEM)))
            return AV(var=x, ty=UNKNOWN)
        if name in ("min", "max"):
            if all(a.is_prim() for a in args):
                return AV(ty=PRIM)
            if len(args) == 1:
                el = self.elements(args[0])
                return el if not el.is_prim() else AV(ty=PRIM)
            return self.one_of(args)
        if name == "sum":
            el = self.elements(args[0]) if not args[0].is_prim() else AV(ty=PRIM)
            if el.is_prim():
                return AV(ty=PRIM)
            v = self.tmp("sum")
            self.emit(("new", v))
            return AV(var=v, ty=el.ty)
        if name in ("sorted", "reversed", "list", "set", "frozenset", "tuple") and args and \
                (args[0].gen is not None or (args[0].iterkind is not None and args[0].iterkind[0] not in ("range", "keys"))):
            # list(zip(..)) / list(enumerate(..)) / list(generator()): iterate it here
            d = self.tmp(name)
            self.alloc(d, "newShallow")
            if args[0].gen is not None:
                fn_, gargs, gkw, gcls = args[0].gen

                def handler(y):
                    if not y.is_prim():
                        self.emit(("store", d, fid(ELEM), self.materialise(y).var))
                self.call_function(fn_, gargs, gkw, self_cls=gcls, yield_handler=handler)
            else:
                self.push()
                el = self.elements(args[0])
                if not el.is_prim():
                    self.emit(("store", d, fid(ELEM), self.materialise(el).var))
                self.emit(("loop", self.pop()))
            return AV(var=d, ty=ListOf(UNKNOWN))
        if name in ("sorted", "reversed", "list", "set", "frozenset", "tuple"):
            if not args:
                v = self.tmp(name)
                self.emit(("new", v))
                return AV(var=v, ty=ListOf(PRIM))
            if args[0].is_prim():
                return AV(ty=PRIM) if name == "tuple" else self.build_container([], [], "list")
            return self.build_container([], [args[0] if args[0].items is None else self.materialise(args[0])], "list")
        if name == "dict":
            if not args and not kwargs:
                v = self.tmp("dict")
                self.emit(("new", v))
                return AV(var=v, ty=DictOf(PRIM))
            return self.build_container(list(kwargs.values()), [a for a in args], "dict")
        if name in ("map", "filter") and len(args) >= 2:
            # the function argument is a lambda (already lowered where it was written) or a library function
            f = args[0]
            srcs = [a if a.items is None else self.materialise(a) for a in args[1:]]
            if f.func is not None:
                self.push()
                self.no_split = getattr(self, "no_split", 0) + 1
                els = [self.elements(x) for x in srcs]
                r = self.apply(f, els if name == "map" else els[:1], {}, node)
                if not r.is_prim():
                    self.materialise(r)
                self.no_split -= 1
                self.emit(("loop", self.pop()))
            if name == "filter":
                return self.build_container([], [srcs[0]], "list")
            v = self.tmp("map")
            self.emit(("ext", v))
            return AV(var=v, ty=ListOf(UNKNOWN))
        if name == "range":
            return AV(iterkind=("range",))
        if name == "enumerate":
            return AV(iterkind=("enumerate", args[0]))
        if name == "zip":
            return AV(iterkind=("zip", args))
        if name in PURE_BUILTINS or getattr(o, "__module__", "") == "math":
            return AV(ty=PRIM)
        raise Unsupported(f"builtin {name}")

    def construct(self, cls, args, kwargs) -> AV:
        if is_prim_class(cls):
            return AV(ty=PRIM)
        if cls in (list, set, frozenset, tuple, dict, range, enumerate, zip, map, filter, reversed):
            return self.builtin(cls, args, kwargs, None)
        mod = cls.__module__ or ""
        if mod == "collections" and cls.__name__ in ("defaultdict", "OrderedDict", "deque", "Counter"):
            # a new container of its own; the default factory of a defaultdict is a class (no object), initial items
            # are stored as elements.  What is later loaded from it is unknown (`shared`), as for any shallow container
            d = self.tmp(cls.__name__)
            self.emit(("newShallow", d))
            for a in list(args) + list(kwargs.values()):
                if a.is_prim() or a.has_pyobj:
                    continue
                self.push()
                el = self.elements(a if a.items is None else self.materialise(a))
                if not el.is_prim():
                    self.emit(("store", d, fid(ELEM), self.materialise(el).var))
                self.emit(("loop", self.pop()))
            return AV(var=d, ty=DictOf(UNKNOWN) if cls.__name__ != "deque" else ListOf(UNKNOWN))
        if mod == "itertools":
            # combinations / product / chain / ...: a new iterable whose items are built from the arguments' items
            d = self.tmp(cls.__name__)
            self.emit(("newShallow", d))
            for a in list(args) + list(kwargs.values()):
                if a.is_prim() or (a.iterkind is not None and a.iterkind[0] in ("range", "keys")):
                    continue
                self.push()
                el = self.elements(a if a.items is None else self.materialise(a))
                if not el.is_prim():
                    self.emit(("store", d, fid(ELEM), self.materialise(el).var))
                self.emit(("loop", self.pop()))
            return AV(var=d, ty=ListOf(UNKNOWN))
        is_model = hasattr(cls, "model_fields")
        if is_model:
            if args:
                raise Unsupported(f"positional arguments to the model {cls.__name__}")
            deep = self.is_deep_class(cls)
            v = self.tmp(cls.__name__)
            self.alloc(v, "new" if deep else "newShallow")
            for k, a in kwargs.items():
                if a.is_prim():
                    continue
                m = self.materialise(a)
                self.emit(("store", v, fid(k), m.var))
            return AV(var=v, ty=Inst(cls), exact=True)
        if mod.startswith(INLINE_MODULES):
            init = cls.__dict__.get("__init__") or next((c.__dict__["__init__"] for c in cls.__mro__ if "__init__" in c.__dict__ and c is not object), None)
            v = self.tmp(cls.__name__)
            self.alloc(v, "newShallow")
            obj = AV(var=v, ty=Inst(cls), attrs={}, exact=True)
            if init is not None:
                self.call_function(init, [obj] + args, kwargs, self_cls=cls)
            return obj
        raise Unsupported(f"construction of {mod}.{cls.__name__}")

    @staticmethod
    def is_deep_class(cls) -> bool:
        from simaple.simulate.base import Entity
        from simaple.simulate.component.base import ReducerState
        return issubclass(cls, (Entity, ReducerState)) or (cls.__module__ or "").startswith("simaple.core")

    def container_method(self, recv: AV, name: str, args, kwargs) -> AV:
        if name == "model_copy":
            return self.model_copy(recv, kwargs)
        if name == "model_dump":
            v = self.tmp("dump")
            self.emit(("new", v))
            return AV(var=v, ty=DictOf(PRIM))
        m = self.materialise(recv)
        ety = m.ty[1] if m.ty[0] in ("list", "dict") else UNKNOWN
        if name in LIST_MUTATORS or name in LIST_POPS:
            recv.dfields = recv.shadow = None     # the static contents are no longer known
            m.dfields = m.shadow = None
        if name in LIST_MUTATORS:
            vals = list(args) + list(kwargs.values())
            stored = False
            for a in vals:
                if a.is_prim():
                    continue
                if name in ("extend", "update") and a.items is None:
                    self.push()
                    el = self.elements(a)
                    if not el.is_prim():
                        self.emit(("store", m.var, fid(ELEM), self.materialise(el).var))
                    else:
                        self.emit(("store", m.var, fid(ELEM), self.prim("v").var))
                    self.emit(("loop", self.pop()))
                else:
                    self.emit(("store", m.var, fid(ELEM), self.materialise(a).var))
                stored = True
            if not stored:
                self.emit(("store", m.var, fid(ELEM), self.prim("v").var))
            if name == "setdefault":
                return self.load_elem(m, ety)
            return AV(ty=PRIM)
        if name in LIST_POPS:
            r = self.load_elem(m, ety)
            self.emit(("store", m.var, fid(ELEM), self.prim("v").var))
            return r
        if name == "get":
            r = self.load_elem(m, ety)
            if len(args) > 1 and not args[1].is_prim():
                return self.one_of([r, args[1]])
            return r
        if name == "items":
            return AV(iterkind=("items", m))
        if name == "keys":
            return AV(iterkind=("keys", m))
        if name == "values":
            return AV(var=m.var, ty=ListOf(ety))
        if name == "copy":
            return self.build_container([], [m], "list" if m.ty[0] != "dict" else "dict")
        if name in ("index", "count", "__len__", "__contains__"):
            return AV(ty=PRIM)
        if name in PURE_METHOD_NAMES:
            for a in list(args) + list(kwargs.values()):
                if a.var is None and not a.is_prim():
                    self.materialise(a)
            if m.ty == PRIM:
                return AV(ty=PRIM)
            x = self.tmp(name)
            self.emit(("ext", x))     # e.g. a match object / a new string: never a target of a store below
            return AV(var=x, ty=UNKNOWN)
        raise Unsupported(f"container method {name}")

    def load_elem(self, m: AV, ety) -> AV:
        if ety == PRIM:
            return AV(ty=PRIM)
        x = self.tmp("elem")
        self.emit(("load", x, m.var, fid(ELEM)))
        return AV(var=x, ty=ety)


# ------------------------------------------------------------------------------------------------ driver
def component_classes():
    import simaple.simulate.component.common as common
    import simaple.simulate.component.specific as specific
    from simaple.simulate.component.base import Component
    for pkg in (common, specific):
        for m in pkgutil.iter_modules(pkg.__path__):
            importlib.import_module(pkg.__name__ + "." + m.name)

    def allsub(c):
        for s in c.__subclasses__():
            yield s
            yield from allsub(s)

    out = []
    for c in sorted(set(allsub(Component)), key=lambda c: (c.__module__, c.__name__)):
        if inspect.isabstract(c) and not (getattr(c, "__reducers__", None) or getattr(c, "__views__", None)):
            continue
        out.append(c)
    return out


def methods_of(cls):
    for name in sorted(getattr(cls, "__reducers__", ())):
        yield name, "reducer"
    for name in sorted(getattr(cls, "__views__", ())):
        yield name, "view"


def lower_all():
    """-> list of entries {cls, method, kind, nvars, prog | None, error, args, self, result, ambient}"""
    entries = []
    for cls in component_classes():
        for name, kind in methods_of(cls):
            ent = {"cls": cls.__name__, "module": cls.__module__, "method": name, "kind": kind}
            # first the plain lowering; if the checker rejects it, once more with return-site splitting (the statement
            # lists are then lowered once per return site of the calls they make, which keeps e.g. "the state is a
            # copy" correlated with "the events hold no rejection")
            for split in (False, True):
                prog = Program()
                lw = Lowerer(prog)
                lw.split_mode = split
                try:
                    res, argvars, selfv = lw.lower_method(cls, name, kind)
                    ir = seq(lw.blocks[0])
                    if kind == "reducer":
                        if res.items is None or len(res.items) != 2:
                            raise Unsupported("a reducer must return (state, events)")
                        st = lw.materialise(res.items[0])
                        ir = seq([ir] + lw.blocks[0][len(lw.blocks[0]):])
                        ent["result"] = st.var
                    else:
                        ent["result"] = None
                    lost = lost_stores(lw, [ir])
                    if lost:
                        raise Unsupported(f"the lowering lost the attribute assignment(s) {lost} that the bytecode contains")
                    ir, taint = choose_kinds(ir, prog)
                    ent.update({"prog": ir, "taint": taint, "nvars": len(prog.varnames), "args": argvars, "self": selfv,
                                "ambient": sorted(set(lw.ambient)), "global_reads": sorted(set(lw.global_reads)),
                                "error": None, "split": lw.splits})
                    if py_check(ir, ["shared"] * len(prog.varnames), prog.varnames, T=taint) is not None:
                        break
                except Unsupported as ex:
                    if "prog" not in ent or ent.get("prog") is None:
                        ent.update({"prog": None, "error": str(ex)})
                    break
                except RecursionError:
                    ent.update({"prog": None, "error": "recursion limit"})
                    break
            entries.append(ent)
    entries.extend(lower_hooks())
    return entries


HOOK_KINDS = ("validators", "field_validators", "root_validators", "field_serializers", "model_serializers",
              "model_validators", "computed_fields")
SPECIAL_METHODS = ("model_post_init", "__init__", "__setattr__", "__getattr__", "__getattribute__", "__deepcopy__",
                   "__copy__", "__eq__", "__hash__", "__delattr__", "__set_name__", "__init_subclass__")


def lower_hooks():
    """code that runs IMPLICITLY around a reducer or view call: pydantic validators / serializers / computed fields and
    special methods of every entity, state and component class (a state object is constructed from the store's own
    entities on every dispatch, so a validator that assigns to an entity writes the store behind the reducer's back).
    Each is lowered like a method with every argument pre-existing; special methods that change how attributes behave
    are not modelled at all and are reported as not lowered."""
    import pydantic
    from simaple.simulate.base import Entity
    from simaple.simulate.component.base import Component, ReducerState
    component_classes()

    def subs(c):
        for x in c.__subclasses__():
            yield x
            yield from subs(x)
    classes = sorted(set(subs(Entity)) | set(subs(ReducerState)) | set(subs(Component)), key=lambda c: (c.__module__, c.__name__))
    out = []
    seen = set()
    for c in classes:
        if not (c.__module__ or "").startswith("simaple."):
            continue
        found = []
        d = getattr(c, "__pydantic_decorators__", None)
        for kind in HOOK_KINDS:
            for n, dec in (getattr(d, kind, {}) or {}).items():
                f = dec.func
                f = getattr(f, "__func__", f)
                found.append((n, f, kind))
        for special in SPECIAL_METHODS:
            for k in c.__mro__:
                if k in (pydantic.BaseModel, object) or (k.__module__ or "").startswith(("pydantic", "abc", "typing")):
                    break
                if special in k.__dict__:
                    f = k.__dict__[special]
                    found.append((special, getattr(f, "__func__", f), "special"))
                    break
        for n, f, kind in found:
            key = (getattr(f, "__code__", None), c if kind != "special" else None)
            if key in seen:
                continue
            seen.add(key)
            ent = {"cls": c.__name__, "module": c.__module__, "method": n, "kind": "hook"}
            if kind == "special" and n not in ("model_post_init", "__init__"):
                ent.update({"prog": None, "error": f"{n} is overridden: attribute access / copying is no longer what the model assumes"})
                out.append(ent)
                continue
            prog = Program()
            lw = Lowerer(prog)
            try:
                if not isinstance(f, types.FunctionType):
                    raise Unsupported(f"{kind} {n} is not a plain function")
                node = func_ast(f)
                params = [a.arg for a in node.args.posonlyargs + node.args.args]
                avs = []
                for i, pn in enumerate(params):
                    v = prog.newvar(pn)
                    if i == 0 and pn == "self":
                        avs.append(AV(var=v, ty=Inst(c)))
                    elif i == 0 and pn == "cls":
                        avs.append(AV(pyobj=c, has_pyobj=True))
                    else:
                        avs.append(AV(var=v, ty=UNKNOWN))
                lw.call_function(f, avs, {}, self_cls=c)
                ir, taint = choose_kinds(seq(lw.blocks[0]), prog)
                ent.update({"prog": ir, "taint": taint, "nvars": len(prog.varnames), "result": None, "error": None, "split": 0})
            except Unsupported as ex:
                ent.update({"prog": None, "error": str(ex)})
            out.append(ent)
    return out


def patch_classes():
    """every concrete subclass of simaple.spec.patch.Patch defined in the library"""
    import simaple.data.jobs.patch  # noqa: F401
    import simaple.data.jobs.definitions as defs
    from simaple.spec.patch import Patch
    for m in pkgutil.walk_packages(defs.__path__, defs.__name__ + "."):
        importlib.import_module(m.name)

    def allsub(c):
        for sub in c.__subclasses__():
            yield sub
            yield from allsub(sub)
    return sorted((c for c in set(allsub(Patch)) if not inspect.isabstract(c) and
                   c.__module__ in ("simaple.spec.patch", "simaple.data.jobs.patch")),
                  key=lambda c: (c.__module__, c.__name__))


def lower_patches():
    """`apply(raw)` of every patch class: entry program + the recursive procedure it calls (if any)"""
    entries = []
    from simaple.spec.repository import SpecRepository
    from simaple.spec.spec import Spec
    def subs(c):
        for x in c.__subclasses__():
            yield x
            yield from subs(x)
    repos = sorted((c for c in set(subs(SpecRepository)) if not inspect.isabstract(c) and c.__module__.startswith("simaple.")),
                   key=lambda c: c.__name__)
    targets = [(cls, "apply") for cls in patch_classes()] + [(Spec, "interpret")] + \
              [(r, m) for r in repos for m in ("get", "get_all")]
    for cls, meth in targets:
        prog = Program()
        lw = Lowerer(prog)
        lw.proc_names = set(PATCH_PROCEDURE_NAMES)
        ent = {"cls": cls.__name__, "module": cls.__module__, "method": meth, "kind": "patch"}
        try:
            res, argvars, selfv = lw.lower_method(cls, meth, "patch")
            ir = seq(lw.blocks[0])
            centry, cbody, taint, nv, _me, nprocs = finish_entry(lw, prog, ir, cls)
            ent.update({"prog": centry, "body": cbody, "taint": taint, "nvars": nv, "error": None, "procedures": nprocs,
                        "recursive": lw.rec_fn[0].__qualname__ if lw.rec_fn else None})
        except Unsupported as ex:
            ent.update({"prog": None, "error": str(ex)})
        except RecursionError:
            ent.update({"prog": None, "error": "recursion limit"})
        entries.append(ent)
    return entries


def lower_rec_body(lw, prog, entry_cls):
    """the recursive procedure found while lowering (lw.rec_fn) as a program of its own"""
    fn, scls = lw.rec_fn
    saved = lw.blocks
    lw.blocks = [[]]
    node = func_ast(fn)
    params = [a.arg for a in node.args.posonlyargs + node.args.args]
    try:
        hints = typing.get_type_hints(fn)
    except Exception:  # noqa: BLE001
        hints = {}
    avs = []
    for i, pn in enumerate(params):
        v = prog.newvar(f"{pn}@rec")
        if i == 0 and scls is not None and pn in ("self", "cls"):
            avs.append(AV(var=v, ty=Inst(scls), exact=(scls is entry_cls)))
            continue
        ty = ty_of_annotation(hints.get(pn, inspect.Parameter.empty), fn.__globals__)
        if ty == PRIM:
            lw.emit(("havoc", v))
        avs.append(AV(var=v, ty=ty))
    lw.stack = []
    names, lw.proc_names = lw.proc_names, lw.proc_names - {fn.__name__}
    try:
        lw.call_function(fn, avs, {}, self_cls=scls)
    finally:
        lw.proc_names = names
    body = seq(lw.blocks[0])
    lw.blocks = saved
    return body


def finish_entry(lw, prog, ir, entry_cls, keep=()):
    """entry program + the procedures its `call` statements may run (separately lowered callees and the recursive
    procedure, if any): kinds and taint chosen on all of them together, then every program numbered densely on its
    own.  -> (entry, body, taint, nvars, variable map of the entry, number of procedures)"""
    rec = lower_rec_body(lw, prog, entry_cls) if lw.rec_fn is not None else None
    procs = [p_ for p_ in lw.procs.values() if p_ is not None] + ([rec] if rec is not None else [])
    joint = seq([ir] + procs)
    _res, taint = choose_kinds(joint, prog)
    flex = prog.last_flex
    centry, cprocs, nv, me = compact(resolve(ir, flex), [resolve(p_, flex) for p_ in procs], keep=keep)
    cbody = ("skip",)
    for p_ in cprocs:            # `call` runs ANY of the procedures: their choice is the procedure body
        cbody = p_ if cbody == ("skip",) else ("choice", cbody, p_)
    return centry, cbody, taint, nv, me, len(procs)


# the patch chain: every `apply` / `modify` that is pure on its own is a procedure; one that writes the document it is
# given is inlined where `Spec.interpret` calls it (on the deep copy)
PATCH_PROCEDURE_NAMES = ("apply", "modify", "evaluate", "translate", "get_skill_level")

# methods that a property says must not alter what they are given: (property, module, class, method, result must be new)
# methods lowered as separately checked procedures instead of being inlined into the pure targets (they are
# themselves pure: started from arbitrary pre-existing arguments they write nothing they were given)
PROCEDURE_NAMES = ("calculate_improvement", "get_single_starforce_improvement", "get_increment", "get_starforce_increment",
                   "max_star")
PURE_TARGETS = [
    ("C17", "simaple.gear.blueprint.gear_blueprint", "GeneralizedGearBlueprint", "build", False),
    ("C17", "simaple.gear.blueprint.gear_blueprint", "PracticalGearBlueprint", "build", False),
    ("C11", "simaple.core.base", "Stat", "__add__", True),
    ("C11", "simaple.core.base", "Stat", "sum", True),
    ("C11", "simaple.core.base", "Stat", "stack", True),
    ("C11", "simaple.core.base", "ActionStat", "__add__", True),
    ("C11", "simaple.core.base", "LevelStat", "__add__", True),
    ("C11", "simaple.core.base", "LevelStat", "get_stat", True),
    ("C11", "simaple.core.base", "ExtendedStat", "__add__", True),
    ("C11", "simaple.core.base", "ExtendedStat", "compute_by_level", True),
]


# module-level functions a property says must not alter what they are given nor keep anything between calls
# (property, module, function): the skill-set build path of C16
PURE_FUNCTION_TARGETS = [
    ("C16", "simaple.data.jobs.builtin", "build_skills"),
    ("C16", "simaple.data.jobs.builtin", "_exclude_hexa_skill"),
    ("C16", "simaple.container.simulation", "get_skill_components"),
    # the rest of what an engine / report is built from (the frame hypothesis of C02's schedule theorem for the build path)
    ("C02", "simaple.container.simulation", "get_damage_calculator"),
    ("C02", "simaple.data.jobs.builtin", "get_damage_logic"),
    ("C02", "simaple.data.jobs.builtin", "get_skill_profile"),
    ("C02", "simaple.data.jobs.builtin", "get_builtin_strategy"),
]


def lower_function_target(mod: str, name: str):
    fn = getattr(importlib.import_module(mod), name)
    prog = Program()
    lw = Lowerer(prog)
    lw.proc_names = set(PATCH_PROCEDURE_NAMES)
    sig_fn = inspect.unwrap(fn)
    hints = typing.get_type_hints(sig_fn)
    args = []
    for p_ in inspect.signature(sig_fn).parameters.values():
        if p_.kind in (inspect.Parameter.VAR_KEYWORD, inspect.Parameter.VAR_POSITIONAL):
            continue
        v = prog.newvar(p_.name)
        ty = ty_of_annotation(hints.get(p_.name, p_.annotation), sig_fn.__globals__)
        if ty == PRIM:
            lw.emit(("havoc", v))
        args.append(AV(var=v, ty=ty))
    lw.call_function(fn, args, {}, self_cls=None)
    ir = seq(lw.blocks[0])
    return finish_entry(lw, prog, ir, None)


def lower_pure_targets():
    entries = []
    for prop, mod, fname in PURE_FUNCTION_TARGETS:
        ent = {"prop": prop, "cls": mod.rsplit(".", 1)[1], "method": fname, "fresh": False}
        try:
            if not hasattr(importlib.import_module(mod), fname):
                continue            # an optional target that this tree does not have
            centry, cbody, taint, nv, _me, nprocs = lower_function_target(mod, fname)
            ent.update({"prog": centry, "body": cbody, "taint": taint, "nvars": nv, "result": None, "error": None,
                        "procedures": nprocs})
        except Unsupported as ex:
            ent.update({"prog": None, "error": str(ex)})
        except RecursionError:
            ent.update({"prog": None, "error": "recursion limit"})
        entries.append(ent)
    for prop, mod, cn, meth, fresh in PURE_TARGETS:
        ent = {"prop": prop, "cls": cn, "method": meth, "fresh": fresh}
        try:
            cls = getattr(importlib.import_module(mod), cn)
            prog = Program()
            lw = Lowerer(prog)
            lw.proc_names = set(PROCEDURE_NAMES)
            res, argvars, selfv = lw.lower_method(cls, meth, "pure")
            rv = None
            if res is not None and res.items is None and not res.is_prim():
                rv = lw.materialise(res).var
            ir = seq(lw.blocks[0])
            centry, cbody, taint, nv, me, nprocs = finish_entry(lw, prog, ir, cls, keep=(rv,))
            ent.update({"prog": centry, "body": cbody, "taint": taint, "nvars": nv,
                        "result": None if rv is None else me[rv], "error": None, "procedures": nprocs})
        except Unsupported as ex:
            ent.update({"prog": None, "error": str(ex)})
        except RecursionError:
            ent.update({"prog": None, "error": "recursion limit"})
        entries.append(ent)
    return entries


VAR_POS = {"copy": (1, 2), "new": (1,), "newShallow": (1,), "load": (1, 2), "store": (1, 3), "mov": (1, 2), "havoc": (1,),
           "ext": (1,), "call": (1,), "alloc": (1,)}


def vars_of(ir, acc):
    k = ir[0]
    if k == "seq":
        for p in ir[1]:
            vars_of(p, acc)
    elif k == "choice":
        vars_of(ir[1], acc); vars_of(ir[2], acc)
    elif k == "loop":
        vars_of(ir[1], acc)
    else:
        for i in VAR_POS.get(k, ()):
            if ir[i] not in acc:
                acc[ir[i]] = len(acc)
    return acc


def rename(ir, m):
    k = ir[0]
    if k == "seq":
        return ("seq", [rename(p, m) for p in ir[1]])
    if k == "choice":
        return ("choice", rename(ir[1], m), rename(ir[2], m))
    if k == "loop":
        return ("loop", rename(ir[1], m))
    pos = VAR_POS.get(k, ())
    return tuple(m[x] if i in pos else x for i, x in enumerate(ir))


def compact(entry, procs, keep=()):
    """number the variables of the entry program and of every procedure densely from 0, each on its own: a procedure
    starts from an arbitrary environment and the caller's environment is restored after the call (Model/Effect.lean,
    `Exec.call`), so the programs may use the same variable numbers.  -> (entry, procs, number of variables, map of
    the entry)"""
    me = vars_of(entry, {})
    for v in keep:
        if v is not None and v not in me:
            me[v] = len(me)
    n = len(me)
    out = []
    for p_ in procs:
        mp = vars_of(p_, {})
        n = max(n, len(mp))
        out.append(rename(p_, mp))
    return rename(entry, me), out, max(n, 1), me


def bytecode_attribute_stores(codes) -> set:
    """an independent look at the same functions: every attribute name that some STORE_ATTR / DELETE_ATTR instruction of
    the inlined functions (their lambdas, comprehensions and nested functions included) assigns"""
    import dis
    out, todo, seen = set(), list(codes), set()
    while todo:
        c = todo.pop()
        if c in seen:
            continue
        seen.add(c)
        for ins in dis.get_instructions(c):
            if ins.opname in ("STORE_ATTR", "DELETE_ATTR"):
                out.add(ins.argval)
        todo.extend(k for k in c.co_consts if isinstance(k, types.CodeType))
    return out


def lost_stores(lw, irs) -> list:
    """attribute names the bytecode of the inlined functions assigns but no `store` of the program mentions"""
    inv = {v: k for k, v in FIELDS.items()}
    have = set()
    for ir in irs:
        have |= {inv.get(f, "?") for f in stores_of(ir)}
    return sorted(bytecode_attribute_stores(lw.inlined) - have)


def to_lean(ir) -> str:
    k = ir[0]
    if k == "skip":
        return ".skip"
    if k == "abort":
        return ".abort"
    if k == "call":
        return f".call {ir[1]}"
    if k == "seq":
        parts = ir[1]
        if len(parts) > 8:
            # a balanced tree (the elaborator's recursion depth is limited; `seq` is associative in `Exec`)
            mid = len(parts) // 2
            return f".seq ({to_lean(('seq', parts[:mid]))}) ({to_lean(('seq', parts[mid:]))})"
        if len(parts) == 1:
            return to_lean(parts[0])
        s = to_lean(parts[-1])
        for p in reversed(parts[:-1]):
            s = f".seq ({to_lean(p)}) ({s})"
        return s
    if k == "choice":
        return f".choice ({to_lean(ir[1])}) ({to_lean(ir[2])})"
    if k == "loop":
        return f".loop ({to_lean(ir[1])})"
    return "." + k + " " + " ".join(str(x) for x in ir[1:])


def stores_of(ir, acc=None):
    acc = set() if acc is None else acc
    k = ir[0]
    if k == "store":
        acc.add(ir[2])
    elif k == "seq":
        for p in ir[1]:
            stores_of(p, acc)
    elif k == "choice":
        stores_of(ir[1], acc)
        stores_of(ir[2], acc)
    elif k == "loop":
        stores_of(ir[1], acc)
    return acc


def generate(repo: str) -> str:
    if repo not in sys.path:
        sys.path.insert(0, repo)
    entries = lower_all()
    bad = [e for e in entries if e["prog"] is None]
    progs: dict[str, str] = {}
    lines = ["/- GENERATED by tools/py2lean/gen_effects.py from simaple/simulate/component/** -- do not edit -/",
             "import Simaple.Model.Effect", "", "namespace Simaple.Gen.Effects", "open Simaple.Effect", ""]
    table = []
    sizes = []
    for e in entries:
        if e["prog"] is None:
            continue
        body = to_lean(e["prog"])
        h = "p_" + hashlib.sha1(body.encode()).hexdigest()[:12]
        if h not in progs:
            progs[h] = body
            lines.append(f"def {h} : Stmt :=\n  {body}\n")
        res = "none" if e["result"] is None else f"some {e['result']}"
        table.append(f'  ⟨"{e["cls"]}", "{e["method"]}", "{e["kind"]}", {e["taint"]}, {e["nvars"]}, {h}, {res}⟩')
        sizes.append(len(body))
    fields = sorted(FIELDS.items(), key=lambda kv: kv[1])
    lines.insert(6, "structure Entry where\n  cls : String\n  method : String\n  kind : String\n  taint : List Field\n"
                    "  nvars : Nat\n  prog : Stmt\n  result : Option Var\n")
    lines.append("def fieldNames : List String := [" + ", ".join('"' + k.replace('"', "'") + '"' for k, _ in fields) + "]\n")
    # the table in NCHUNKS parts of about equal total size, so that the kernel checks them in parallel files
    chunks = [[] for _ in range(NCHUNKS)]
    load = [0] * NCHUNKS
    for row, sz in sorted(zip(table, sizes), key=lambda t: -t[1]):
        k = load.index(min(load))
        chunks[k].append(row)
        load[k] += sz
    for k, rows in enumerate(chunks):
        lines.append(f"def table{k} : List Entry := [\n" + ",\n".join(sorted(rows)) + "\n]\n")
    lines.append("def table : List Entry := " + " ++ ".join(f"table{k}" for k in range(NCHUNKS)) + "\n")
    # ---- the patch classes (C02: building never writes the shared specs it reads)
    pents = lower_patches()
    prow = []
    for e in pents:
        if e["prog"] is None:
            continue
        pb, bb = to_lean(e["prog"]), to_lean(e["body"])
        for nm, txt in (("q_" + hashlib.sha1(pb.encode()).hexdigest()[:12], pb), ("q_" + hashlib.sha1(bb.encode()).hexdigest()[:12], bb)):
            if nm not in progs:
                progs[nm] = txt
                lines.append(f"def {nm} : Stmt :=\n  {txt}\n")
        api = "true" if e["cls"] == "Spec" or "Repository" in e["cls"] else "false"
        prow.append(f'  ⟨"{e["cls"]}.{e["method"]}", {api}, {e["taint"]}, {e["nvars"]}, q_{hashlib.sha1(bb.encode()).hexdigest()[:12]}, '
                    f'q_{hashlib.sha1(pb.encode()).hexdigest()[:12]}⟩')
    lines.append("structure PatchEntry where\n  cls : String\n  api : Bool\n  taint : List Field\n  nvars : Nat\n  body : Stmt\n  prog : Stmt\n")
    lines.append("/-- `apply(raw)` of every patch class of the library, with the recursive procedure it calls -/")
    lines.append("def patchTable : List PatchEntry := [\n" + ",\n".join(prow) + "\n]\n")
    lines.append("def patchesNotLowered : List (String × String) := [" +
                 ", ".join(f'("{e["cls"]}", "{(e["error"] or "").replace(chr(34), chr(39))[:120]}")' for e in pents if e["prog"] is None) + "]\n")
    # ---- methods a property says must not alter what they are given (C11 operators, C17 blueprint building)
    pure = lower_pure_targets()
    purerows = []
    for e in pure:
        if e["prog"] is None:
            continue
        pb, bb = to_lean(e["prog"]), to_lean(e["body"])
        nm = "r_" + hashlib.sha1(pb.encode()).hexdigest()[:12]
        bn = "r_" + hashlib.sha1(bb.encode()).hexdigest()[:12]
        for n_, t_ in ((nm, pb), (bn, bb)):
            if n_ not in progs:
                progs[n_] = t_
                lines.append(f"def {n_} : Stmt :=\n  {t_}\n")
        res = "none" if e["result"] is None else f"some {e['result']}"
        purerows.append(f'  ⟨{int(e["prop"][1:])}, "{e["cls"]}.{e["method"]}", {"true" if e["fresh"] else "false"}, {e["taint"]}, '
                        f'{e["nvars"]}, {bn}, {nm}, {res}⟩')
    lines.append("structure PureEntry where\n  prop : Nat\n  name : String\n  freshResult : Bool\n  taint : List Field\n"
                 "  nvars : Nat\n  body : Stmt\n  prog : Stmt\n  result : Option Var\n")
    lines.append("def pureTable : List PureEntry := [\n" + ",\n".join(purerows) + "\n]\n")
    lines.append("def pureNotLowered : List (String × String) := [" +
                 ", ".join(f'("{e["cls"]}.{e["method"]}", "{(e["error"] or "").replace(chr(34), chr(39))[:120]}")' for e in pure if e["prog"] is None) + "]\n")
    bad = bad  # components
    lines.append("/-- methods the translator could not lower (must be empty for the coverage theorem) -/")
    lines.append("def notLowered : List (String × String × String) := [" +
                 ", ".join(f'("{e["cls"]}", "{e["method"]}", "{(e["error"] or "").replace(chr(34), chr(39))[:120]}")' for e in bad) + "]\n")
    lines.append("end Simaple.Gen.Effects")
    return "\n".join(lines) + "\n"


def resolve(ir, flex):
    k = ir[0]
    if k == "alloc":
        return (flex[ir[1]], ir[1])
    if k == "seq":
        return ("seq", [resolve(p, flex) for p in ir[1]])
    if k == "choice":
        return ("choice", resolve(ir[1], flex), resolve(ir[2], flex))
    if k == "loop":
        return ("loop", resolve(ir[1], flex))
    return ir


def mov_edges(ir, acc, loads=False):
    k = ir[0]
    if k == "mov" or (loads and k == "load"):
        acc.setdefault(ir[1], set()).add(ir[2])
    elif k == "seq":
        for p in ir[1]:
            mov_edges(p, acc, loads)
    elif k == "choice":
        mov_edges(ir[1], acc, loads); mov_edges(ir[2], acc, loads)
    elif k == "loop":
        mov_edges(ir[1], acc, loads)
    return acc


def ancestors(v, edges):
    seen, todo = {v}, [v]
    while todo:
        x = todo.pop()
        for y in edges.get(x, ()):
            if y not in seen:
                seen.add(y); todo.append(y)
    return seen


def choose_kinds(ir, prog: Program):
    """pick new / newShallow for the free allocation sites, and the tainted fields, so that the checker accepts
    (untrusted search: the two kinds have the same concrete semantics, the taint set is a parameter of the
    theorem, and the result is checked in Lean).  -> (resolved ir, sorted taint list)"""
    flex = dict(prog.flex)
    edges = mov_edges(ir, {})
    load_edges = mov_edges(ir, {}, loads=True)
    names = prog.varnames
    tried = set()
    taint: set[int] = set()
    for _ in range(80):
        rep = []
        env = py_check(resolve(ir, flex), ["shared"] * len(names), names, report=rep, T=taint)
        if env is not None or not rep:
            break
        tv, sv, tt, st, fld, _msg = rep[0]
        cands = []
        if tt == "fresh" and st not in ("fresh", "prim"):
            cands += [(s, "newShallow") for s in ancestors(tv, edges) if flex.get(s) == "new"]
            cands += [(s, "new") for s in ancestors(sv, edges) if flex.get(s) == "newShallow"]
        if tt == "shared":
            # the target was loaded out of an object allocated here as `newShallow`: make that object deep (what it
            # holds of pre-existing objects then has to sit in tainted fields, found by the next rounds)
            cands += [(s, "new") for s in ancestors(tv, load_edges) if flex.get(s) == "newShallow"]
        cands = [c for c in cands if c not in tried]
        if not cands:
            if tt == "fresh" and fld != FIELDS[ELEM] and fld not in taint:
                taint.add(fld)      # a named attribute that may hold a reference to a pre-existing object
                continue
            break
        # prefer making the source deep (keeps more of the result `fresh`)
        cands.sort(key=lambda c: 0 if c[1] == "new" else 1)
        tried.add(cands[0])
        flex[cands[0][0]] = cands[0][1]
    prog.last_flex = flex
    return resolve(ir, flex), sorted(taint)


def chosen_flex(ir, prog: Program, taint):
    """the allocation kinds picked by the last choose_kinds call on this program"""
    return prog.last_flex


# ------------------------------------------------------------------------------------------------ diagnostics
def py_check(ir, env, names, path="", report=None, T=()):
    """mirror of Simaple.Effect.check (diagnostics only: says WHICH store is rejected); env: list of tags"""
    k = ir[0]
    J = lambda a, b: a if a == b else (b if a == "prim" else (a if b == "prim" else "shared"))
    deep = lambda t: t in ("prim", "fresh")
    if k == "skip":
        return env
    if k == "abort":
        return ["prim"] * len(env)
    if k == "havoc":
        e = list(env); e[ir[1]] = "prim"; return e
    if k in ("copy", "new"):
        e = list(env); e[ir[1]] = "fresh"; return e
    if k == "newShallow":
        e = list(env); e[ir[1]] = "shallow"; return e
    if k in ("ext", "call"):
        e = list(env); e[ir[1]] = "shared"; return e
    if k == "load":
        e = list(env); e[ir[1]] = "fresh" if deep(env[ir[2]]) and ir[3] not in T else "shared"; return e
    if k == "mov":
        e = list(env); e[ir[1]] = env[ir[2]]; return e
    if k == "store":
        t = env[ir[1]]
        ok = t in ("shallow", "prim") or (t == "fresh" and (deep(env[ir[3]]) or ir[2] in T))
        if not ok:
            if report is not None:
                report.append((ir[1], ir[3], t, env[ir[3]], ir[2],
                               f"store {names[ir[1]]}(v{ir[1]}:{t}).{ir[2]} := {names[ir[3]]}(v{ir[3]}:{env[ir[3]]})"))
            return None
        return env
    if k == "seq":
        for p in ir[1]:
            env = py_check(p, env, names, path, report, T)
            if env is None:
                return None
        return env
    if k == "choice":
        a = py_check(ir[1], env, names, path, report, T)
        b = py_check(ir[2], env, names, path, report, T)
        if a is None or b is None:
            return None
        return [J(x, y) for x, y in zip(a, b)]
    if k == "loop":
        e = env
        for _ in range(3 * len(env) + 2):
            e2 = py_check(ir[1], e, names, path, report, T)
            if e2 is None:
                return None
            j = [J(x, y) for x, y in zip(e, e2)]
            if j == e:
                return e
            e = j
        return None
    raise ValueError(k)


def show(ir, names, ind=0):
    pad = "  " * ind
    k = ir[0]
    if k == "seq":
        for p in ir[1]:
            show(p, names, ind)
    elif k == "choice":
        print(pad + "choice {"); show(ir[1], names, ind + 1); print(pad + "} or {"); show(ir[2], names, ind + 1); print(pad + "}")
    elif k == "loop":
        print(pad + "loop {"); show(ir[1], names, ind + 1); print(pad + "}")
    else:
        inv = {v: k2 for k2, v in FIELDS.items()}
        parts = []
        for i, x in enumerate(ir[1:]):
            if k in ("load", "store") and i == (2 if k == "load" else 1):
                parts.append("." + inv.get(x, str(x)))
            else:
                parts.append(f"{names[x]}#{x}")
        print(pad + k + " " + " ".join(parts))


def diagnose(cls_name, method):
    for cls in component_classes():
        if cls.__name__ != cls_name:
            continue
        prog = Program(); lw = Lowerer(prog)
        kind = "reducer" if method in cls.__reducers__ else "view"
        res, argvars, selfv = lw.lower_method(cls, method, kind)
        ir, taint = choose_kinds(seq(lw.blocks[0]), prog)
        show(ir, prog.varnames)
        print("taint:", taint)
        rep = []
        env = py_check(ir, ["shared"] * len(prog.varnames), prog.varnames, report=rep, T=taint)
        print("CHECK:", "ok" if env is not None else "REJECTED", [r[-1] for r in rep[:5]])


if __name__ == "__main__":
    repo = sys.argv[1] if len(sys.argv) > 1 else "/repo"
    sys.path.insert(0, repo)
    ents = lower_all()
    ok = [e for e in ents if e["prog"] is not None]
    print(f"{len(ok)}/{len(ents)} methods lowered")
    pe = lower_patches()
    print(f"{sum(1 for e in pe if e['prog'] is not None)}/{len(pe)} patch classes lowered")
    for e in pe:
        if e["prog"] is None:
            print("  ", e["cls"], e["error"])
        else:
            rep = []
            names = ["?"] * e["nvars"]
            ok = py_check(seq([e["prog"], e["body"]]), ["shared"] * e["nvars"], names, report=rep, T=e["taint"])
            print("  ", e["cls"] + "." + e["method"], "recursive:", e["recursive"], "taint", e["taint"], "nvars", e["nvars"],
                  "procs", e.get("procedures"), "size", len(str(e["prog"])) // 20, "+", len(str(e["body"])) // 20,
                  "WF" if ok is not None else ("REJECTED " + str([r[-1] for r in rep[:2]])))
    for e in lower_pure_targets():
        print("  pure target", e["prop"], e["cls"] + "." + e["method"],
              f"ok size {len(str(e['prog'])) // 20}+{len(str(e['body'])) // 20} nvars {e['nvars']} procs {e.get('procedures')}"
              if e["prog"] is not None else e["error"])
    print("externals (not inlined, trusted not to write their arguments):", EXTERNALS)
    import collections
    errs = collections.Counter(e["error"] for e in ents if e["prog"] is None)
    for k, v in errs.most_common():
        print(v, k)
    if len(sys.argv) > 3 and sys.argv[2] == "--patch":
        for e in pe:
            if e["cls"] == sys.argv[3] and e["prog"] is not None:
                names = [f"v{i}" for i in range(e["nvars"])]
                print("ENTRY"); show(e["prog"], names); print("BODY"); show(e["body"], names)
    elif len(sys.argv) > 3:
        diagnose(sys.argv[2], sys.argv[3])
