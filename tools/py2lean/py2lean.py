"""py2lean -- a small Python-AST -> Lean 4 translator for a restricted, documented subset.

It is used to *regenerate* parts of the Lean model from /repo's current source on every run
(see DESIGN.md 1.2).  Anything outside the subset raises `Unsupported`; the caller then emits
no definition and the check treats that like a broken proof obligation.

Subset
------
* pydantic-style class bodies: `name: float|int = <number>` -> a Lean `structure` over `Rat`
  with defaults, plus `fieldNames`, `toList`, `ofList`, `fields`.
* methods whose body is a sequence of
    x = e | x += e (also -= *=) | self.f = e | self.f += e
    if/elif/else (translated by duplicating the continuation)
    for v in xs: <accumulator updates>      (-> List.foldl)
    return e | return self | return Cls(kw=e, ...)
    raise ...   (only if statically unreachable after enum constant folding, or mapped to
                 an `Except` error when the function is declared `partial_ok`)
* expressions: numbers (exact decimal -> Rat), names, attributes, + - * / // % ** (nat literal
  exponent), unary -, min/max/abs/sum([comprehension])/float/int/len, comparisons, and/or/not,
  conditional expressions, constructor calls with keywords, method calls (emitted as calls to
  the generated definition; calls with enum-constant arguments are partially evaluated).
All numbers are `Rat`: Python floats are modelled by exact rationals (0.01 -> 1/100).
"""
from __future__ import annotations

import ast
from decimal import Decimal
from fractions import Fraction
from typing import Callable, Optional


class Unsupported(Exception):
    pass


LEAN_KEYWORDS = {
    "from", "at", "end", "in", "do", "then", "else", "if", "let", "fun", "have", "show",
    "with", "match", "where", "structure", "def", "theorem", "instance", "class", "open",
    "namespace", "section", "variable", "universe", "import", "for", "by", "Type", "Prop",
    "Sort", "mutual", "private", "protected", "partial", "unsafe", "macro", "syntax",
    "notation", "infix", "prefix", "postfix", "deriving", "extends", "abbrev", "axiom",
    "example", "inductive", "set_option", "attribute", "return", "local", "stack",
}


def lname(n: str) -> str:
    if n in LEAN_KEYWORDS:
        return "«" + n + "»"
    return n


def rat_lit(v) -> str:
    if isinstance(v, bool):
        raise Unsupported("bool constant in numeric position")
    if isinstance(v, int):
        fr = Fraction(v)
    elif isinstance(v, float):
        fr = Fraction(Decimal(repr(v)))
    else:
        raise Unsupported(f"constant {v!r}")
    if fr.denominator == 1:
        if fr.numerator < 0:
            return f"(-{-fr.numerator} : Rat)"
        return f"({fr.numerator} : Rat)"
    if fr.numerator < 0:
        return f"(-{-fr.numerator} / {fr.denominator} : Rat)"
    return f"({fr.numerator} / {fr.denominator} : Rat)"


class ClassInfo:
    def __init__(self, node: ast.ClassDef):
        self.node = node
        self.name = node.name
        self.bases = [b.id for b in node.bases if isinstance(b, ast.Name)]
        self.fields: list[tuple[str, str, Optional[ast.expr]]] = []  # (name, annotation, default)
        self.methods: dict[str, ast.FunctionDef] = {}
        self.enum_members: list[str] = []
        for st in node.body:
            if isinstance(st, ast.AnnAssign) and isinstance(st.target, ast.Name):
                self.fields.append((st.target.id, ast.unparse(st.annotation), st.value))
            elif isinstance(st, ast.FunctionDef):
                self.methods[st.name] = st
            elif isinstance(st, ast.Assign) and len(st.targets) == 1 and isinstance(st.targets[0], ast.Name):
                self.enum_members.append(st.targets[0].id)


class Module:
    def __init__(self, source: str):
        self.tree = ast.parse(source)
        self.classes: dict[str, ClassInfo] = {}
        self.assigns: dict[str, ast.expr] = {}
        self.functions: dict[str, ast.FunctionDef] = {}
        for st in self.tree.body:
            if isinstance(st, ast.ClassDef):
                self.classes[st.name] = ClassInfo(st)
            elif isinstance(st, ast.Assign) and len(st.targets) == 1 and isinstance(st.targets[0], ast.Name):
                self.assigns[st.targets[0].id] = st.value
            elif isinstance(st, ast.AnnAssign) and isinstance(st.target, ast.Name) and st.value is not None:
                self.assigns[st.target.id] = st.value
            elif isinstance(st, ast.FunctionDef):
                self.functions[st.name] = st


class Ctx:
    """Translation context of one function body."""

    def __init__(self, tr: "Translator", cls: Optional[str], self_name: Optional[str],
                 types: dict[str, str], consts: dict[str, str]):
        self.tr = tr
        self.cls = cls            # Lean namespace / python class the method is emitted for
        self.self_name = self_name
        self.types = dict(types)  # python local name -> class name (for method-call resolution)
        self.consts = dict(consts)  # python local name -> enum constant "Enum.member"


class Translator:
    def __init__(self):
        self.modules: dict[str, Module] = {}
        self.classes: dict[str, ClassInfo] = {}
        self.enums: set[str] = set()
        self.struct_fields: dict[str, list[str]] = {}
        self.struct_field_types: dict[str, dict[str, str]] = {}
        self.out: list[str] = []
        self.emitted: set[str] = set()
        self.pending: list[Callable[[], None]] = []
        # python class -> resolved method table (with inheritance)
        self.extra_numeric_attrs: dict[str, list[str]] = {}

    # ------------------------------------------------------------------ loading
    def load(self, name: str, source: str):
        m = Module(source)
        self.modules[name] = m
        for c in m.classes.values():
            self.classes[c.name] = c
            if "enum.Enum" in [ast.unparse(b) for b in c.node.bases] or "Enum" in c.bases:
                self.enums.add(c.name)
        return m

    def resolve_method(self, cls: str, meth: str) -> tuple[str, ast.FunctionDef]:
        """method lookup with single inheritance among loaded classes"""
        c = self.classes.get(cls)
        seen = set()
        while c is not None and c.name not in seen:
            seen.add(c.name)
            if meth in c.methods:
                return c.name, c.methods[meth]
            nxt = None
            for b in c.bases:
                if b in self.classes:
                    nxt = self.classes[b]
                    break
            c = nxt
        raise Unsupported(f"method {cls}.{meth} not found")

    def all_fields(self, cls: str) -> list[tuple[str, str, Optional[ast.expr]]]:
        c = self.classes[cls]
        fields = []
        for b in c.bases:
            if b in self.classes:
                fields.extend(self.all_fields(b))
        fields.extend(f for f in c.fields if f[0] != "model_config")
        return fields

    # ------------------------------------------------------------------ structures
    def emit(self, text: str):
        self.out.append(text)

    def emit_enum(self, cls: str):
        if cls in self.emitted:
            return
        self.emitted.add(cls)
        c = self.classes[cls]
        self.emit(f"inductive {cls} where")
        for m in c.enum_members:
            self.emit(f"  | {lname(m)}")
        self.emit("deriving DecidableEq, Repr\n")

    def emit_structure(self, cls: str, lean_name: Optional[str] = None):
        lean_name = lean_name or cls
        if lean_name in self.emitted:
            return
        self.emitted.add(lean_name)
        fields = self.all_fields(cls)
        names = []
        ftypes = {}
        lines = [f"structure {lean_name} where"]
        all_rat = True
        for (n, ann, default) in fields:
            ann_s = ann.strip()
            if ann_s in ("float", "int"):
                d = ""
                if default is not None:
                    d = " := " + rat_lit(self.const_number(default))
                lines.append(f"  {lname(n)} : Rat{d}")
                ftypes[n] = "Rat"
            elif ann_s in self.classes and ann_s not in self.enums:
                self.emit_structure(ann_s)
                lines.append(f"  {lname(n)} : {ann_s} := {{}}")
                ftypes[n] = ann_s
                all_rat = False
            else:
                raise Unsupported(f"field {cls}.{n}: {ann_s}")
            names.append(n)
        lines.append("deriving DecidableEq, Repr\n")
        self.struct_fields[lean_name] = names
        self.struct_field_types[lean_name] = ftypes
        self.emit("\n".join(lines))
        q = lambda s: '"' + s + '"'
        self.emit(f"def {lean_name}.fieldNames : List String := [{', '.join(q(n) for n in names)}]\n")
        if all_rat:
            self.emit(f"def {lean_name}.toList (s : {lean_name}) : List Rat := [{', '.join('s.' + lname(n) for n in names)}]\n")
            pat = ", ".join(f"x{i}" for i in range(len(names)))
            body = ", ".join(f"{lname(n)} := x{i}" for i, n in enumerate(names))
            self.emit(f"def {lean_name}.ofList : List Rat → Option {lean_name}\n  | [{pat}] => some {{ {body} }}\n  | _ => none\n")
            self.emit(
                f"def {lean_name}.fields : List (String × ({lean_name} → Rat)) := ["
                + ", ".join(f"({q(n)}, fun s => s.{lname(n)})" for n in names) + "]\n")
        else:
            # nested: flatten
            parts = []
            for n in names:
                if ftypes[n] == "Rat":
                    parts.append(f"[s.{lname(n)}]")
                else:
                    parts.append(f"s.{lname(n)}.toList")
            self.emit(f"def {lean_name}.toList (s : {lean_name}) : List Rat := {' ++ '.join(parts)}\n")

    def const_number(self, node: ast.expr):
        if isinstance(node, ast.Constant) and isinstance(node.value, (int, float)) and not isinstance(node.value, bool):
            return node.value
        if isinstance(node, ast.UnaryOp) and isinstance(node.op, ast.USub):
            return -self.const_number(node.operand)
        raise Unsupported(f"non-constant default {ast.unparse(node)}")

    # ------------------------------------------------------------------ expressions
    def enum_const(self, node: ast.expr, ctx: Ctx) -> Optional[str]:
        """statically evaluate an expression to an enum constant 'Enum.member' if possible"""
        if isinstance(node, ast.Attribute) and isinstance(node.value, ast.Name) and node.value.id in self.enums:
            return f"{node.value.id}.{node.attr}"
        if isinstance(node, ast.Name) and node.id in ctx.consts:
            return ctx.consts[node.id]
        if isinstance(node, ast.Call) and isinstance(node.func, ast.Attribute) and isinstance(node.func.value, ast.Name):
            recv = node.func.value.id
            cls = ctx.cls if recv == ctx.self_name else ctx.types.get(recv)
            if cls and not node.args and not node.keywords:
                try:
                    _, fn = self.resolve_method(cls, node.func.attr)
                except Unsupported:
                    return None
                body = [s for s in fn.body if not (isinstance(s, ast.Expr) and isinstance(s.value, ast.Constant))]
                if len(body) == 1 and isinstance(body[0], ast.Return) and body[0].value is not None:
                    sub = Ctx(self, cls, fn.args.args[0].arg, {}, {})
                    return self.enum_const(body[0].value, sub)
        return None

    def expr(self, node: ast.expr, ctx: Ctx) -> str:
        E = lambda n: self.expr(n, ctx)
        if isinstance(node, ast.Constant):
            return rat_lit(node.value)
        if isinstance(node, ast.Name):
            return lname(node.id)
        if isinstance(node, ast.Attribute):
            return f"{E(node.value)}.{lname(node.attr)}"
        if isinstance(node, ast.UnaryOp):
            if isinstance(node.op, ast.USub):
                return f"(-{E(node.operand)})"
            if isinstance(node.op, ast.UAdd):
                return E(node.operand)
            raise Unsupported(ast.unparse(node))
        if isinstance(node, ast.BinOp):
            a, b = E(node.left), E(node.right)
            op = node.op
            if isinstance(op, ast.Add):
                return f"({a} + {b})"
            if isinstance(op, ast.Sub):
                return f"({a} - {b})"
            if isinstance(op, ast.Mult):
                return f"({a} * {b})"
            if isinstance(op, ast.Div):
                return f"({a} / {b})"
            if isinstance(op, ast.FloorDiv):
                return f"(pyFloorDiv {a} {b})"
            if isinstance(op, ast.Mod):
                return f"(pyMod {a} {b})"
            if isinstance(op, ast.Pow):
                if isinstance(node.right, ast.Constant) and isinstance(node.right.value, int) and node.right.value >= 0:
                    return f"({a} ^ {node.right.value})"
                raise Unsupported("non-literal exponent: " + ast.unparse(node))
            raise Unsupported(ast.unparse(node))
        if isinstance(node, ast.IfExp):
            return f"(if {self.cond(node.test, ctx)} then {E(node.body)} else {E(node.orelse)})"
        if isinstance(node, ast.Call):
            return self.call(node, ctx)
        raise Unsupported(f"expression {ast.unparse(node)}")

    def cond(self, node: ast.expr, ctx: Ctx) -> str:
        if isinstance(node, ast.Compare):
            parts = []
            left = node.left
            for op, right in zip(node.ops, node.comparators):
                lc, rc = self.enum_const(left, ctx), self.enum_const(right, ctx)
                if lc is not None and rc is not None and isinstance(op, (ast.Eq, ast.NotEq)):
                    val = (lc == rc) if isinstance(op, ast.Eq) else (lc != rc)
                    parts.append("True" if val else "False")
                else:
                    sym = {ast.Lt: "<", ast.LtE: "≤", ast.Gt: ">", ast.GtE: "≥", ast.Eq: "=", ast.NotEq: "≠"}.get(type(op))
                    if sym is None:
                        raise Unsupported(ast.unparse(node))
                    parts.append(f"({self.expr(left, ctx)} {sym} {self.expr(right, ctx)})")
                left = right
            return parts[0] if len(parts) == 1 else "(" + " ∧ ".join(parts) + ")"
        if isinstance(node, ast.BoolOp):
            j = " ∧ " if isinstance(node.op, ast.And) else " ∨ "
            return "(" + j.join(self.cond(v, ctx) for v in node.values) + ")"
        if isinstance(node, ast.UnaryOp) and isinstance(node.op, ast.Not):
            return f"(¬ {self.cond(node.operand, ctx)})"
        if isinstance(node, ast.Constant) and isinstance(node.value, bool):
            return "True" if node.value else "False"
        if isinstance(node, ast.Name) and ctx.types.get(node.id) == "bool":
            return f"({lname(node.id)} = true)"
        raise Unsupported(f"condition {ast.unparse(node)}")

    def static_cond(self, node: ast.expr, ctx: Ctx) -> Optional[bool]:
        try:
            c = self.cond(node, ctx)
        except Unsupported:
            return None
        if c == "True":
            return True
        if c == "False":
            return False
        return None

    def call(self, node: ast.Call, ctx: Ctx) -> str:
        E = lambda n: self.expr(n, ctx)
        f = node.func
        if isinstance(f, ast.Name):
            if f.id in ("min", "max"):
                if node.keywords or len(node.args) < 2:
                    raise Unsupported(ast.unparse(node))
                fn = "pyMin" if f.id == "min" else "pyMax"
                acc = E(node.args[0])
                for a in node.args[1:]:
                    acc = f"({fn} {acc} {E(a)})"
                return acc
            if f.id == "abs" and len(node.args) == 1:
                return f"(pyAbs {E(node.args[0])})"
            if f.id == "float" and len(node.args) == 1:
                return E(node.args[0])
            if f.id == "int" and len(node.args) == 1:
                return f"(pyTrunc {E(node.args[0])})"
            if f.id == "sum" and len(node.args) == 1:
                a = node.args[0]
                if isinstance(a, (ast.ListComp, ast.GeneratorExp)) and len(a.generators) == 1 \
                        and not a.generators[0].ifs and isinstance(a.generators[0].target, ast.Name) \
                        and isinstance(a.generators[0].iter, ast.Name):
                    g = a.generators[0]
                    v = g.target.id
                    sub = Ctx(self, ctx.cls, ctx.self_name, ctx.types, ctx.consts)
                    it_t = ctx.types.get(g.iter.id, "")
                    if it_t.startswith("list[") and it_t.endswith("]"):
                        sub.types[v] = it_t[5:-1]
                    return f"(pySum (({lname(g.iter.id)}).map (fun {lname(v)} => {self.expr(a.elt, sub)})))"
                raise Unsupported(ast.unparse(node))
            if f.id in self.classes and f.id not in self.enums:
                return self.ctor(f.id, node, ctx)
            raise Unsupported(f"call {ast.unparse(node)}")
        if isinstance(f, ast.Attribute):
            # method call  recv.m(args)
            recv = f.value
            if isinstance(recv, ast.Name):
                cls = ctx.cls if recv.id == ctx.self_name else ctx.types.get(recv.id)
                if cls in self.classes:
                    return self.method_call(cls, recv, f.attr, node, ctx)
            if isinstance(recv, ast.Attribute) and isinstance(recv.value, ast.Name) and recv.value.id == ctx.self_name:
                ft = self.struct_field_types.get(ctx.cls, {}).get(recv.attr) or self.attr_type(ctx.cls, recv.attr)
                if ft in self.classes:
                    return self.method_call(ft, recv, f.attr, node, ctx)
            raise Unsupported(f"call {ast.unparse(node)}")
        raise Unsupported(f"call {ast.unparse(node)}")

    def attr_type(self, cls: Optional[str], attr: str) -> Optional[str]:
        if cls is None or cls not in self.classes:
            return None
        for (n, ann, _d) in self.all_fields(cls):
            if n == attr:
                return ann.strip()
        return None

    def ctor(self, cls: str, node: ast.Call, ctx: Ctx) -> str:
        if node.args:
            raise Unsupported("positional constructor args: " + ast.unparse(node))
        self.emit_structure(cls)
        known = set(self.struct_fields[cls])
        parts = []
        for kw in node.keywords:
            if kw.arg is None or kw.arg not in known:
                raise Unsupported(f"constructor {cls}: unknown field {kw.arg}")
            parts.append(f"{lname(kw.arg)} := {self.expr(kw.value, ctx)}")
        return "({ " + ", ".join(parts) + " } : " + cls + ")"

    def method_call(self, cls: str, recv: ast.expr, meth: str, node: ast.Call, ctx: Ctx) -> str:
        owner, fn = self.resolve_method(cls, meth)
        params = [a.arg for a in fn.args.args][1:]
        args = list(node.args)
        kwargs = {k.arg: k.value for k in node.keywords}
        # defaults
        defaults = fn.args.defaults
        dmap = {}
        for p, d in zip(params[len(params) - len(defaults):], defaults):
            dmap[p] = d
        actual: list[tuple[str, ast.expr, Ctx]] = []
        for i, p in enumerate(params):
            if i < len(args):
                actual.append((p, args[i], ctx))
            elif p in kwargs:
                actual.append((p, kwargs[p], ctx))
            elif p in dmap:
                actual.append((p, dmap[p], ctx))
            else:
                raise Unsupported(f"missing arg {p} in {ast.unparse(node)}")
        consts = {}
        lean_args = []
        suffix = ""
        for (p, a, c) in actual:
            ec = self.enum_const(a, c)
            if ec is not None:
                consts[p] = ec
                suffix += "_" + ec.split(".")[1]
            else:
                lean_args.append(self.expr(a, c))
        lean_fn = self.ensure_method(cls, meth, consts, suffix)
        return "(" + " ".join([lean_fn, self.expr(recv, ctx)] + lean_args) + ")"

    # ------------------------------------------------------------------ statements
    def block(self, stmts: list[ast.stmt], ctx: Ctx, tail: Optional[str], ind: str) -> str:
        if not stmts:
            if tail is None:
                raise Unsupported("function falls off the end")
            return ind + tail
        st, rest = stmts[0], stmts[1:]
        if isinstance(st, ast.Expr) and isinstance(st.value, ast.Constant):
            return self.block(rest, ctx, tail, ind)  # docstring
        if isinstance(st, ast.Pass):
            return self.block(rest, ctx, tail, ind)
        if isinstance(st, ast.Return):
            if st.value is None:
                raise Unsupported("bare return")
            return ind + self.expr(st.value, ctx)
        if isinstance(st, ast.Raise):
            raise Unsupported("reachable raise: " + ast.unparse(st))
        if isinstance(st, (ast.Assign, ast.AnnAssign, ast.AugAssign)):
            if isinstance(st, ast.Assign):
                if len(st.targets) != 1:
                    raise Unsupported(ast.unparse(st))
                target, value = st.targets[0], self.expr(st.value, ctx)
            elif isinstance(st, ast.AnnAssign):
                if st.value is None:
                    return self.block(rest, ctx, tail, ind)
                target, value = st.target, self.expr(st.value, ctx)
            else:
                target = st.target
                sym = {ast.Add: "+", ast.Sub: "-", ast.Mult: "*", ast.Div: "/"}.get(type(st.op))
                if sym is None:
                    raise Unsupported(ast.unparse(st))
                value = f"({self.expr(target, ctx)} {sym} {self.expr(st.value, ctx)})"
            if isinstance(target, ast.Name):
                head = f"let {lname(target.id)} := {value}"
            elif isinstance(target, ast.Attribute) and isinstance(target.value, ast.Name):
                obj = lname(target.value.id)
                head = f"let {obj} := {{ {obj} with {lname(target.attr)} := {value} }}"
            else:
                raise Unsupported(ast.unparse(st))
            return ind + head + "\n" + self.block(rest, ctx, tail, ind)
        if isinstance(st, ast.If):
            sc = self.static_cond(st.test, ctx)
            if sc is True:
                return self.block(st.body + rest, ctx, tail, ind)
            if sc is False:
                return self.block(st.orelse + rest, ctx, tail, ind)
            c = self.cond(st.test, ctx)
            a = self.block(st.body + rest, ctx, tail, ind + "  ")
            b = self.block(st.orelse + rest, ctx, tail, ind + "  ")
            return f"{ind}if {c} then (\n{a})\n{ind}else (\n{b})"
        if isinstance(st, ast.For):
            if st.orelse or not isinstance(st.target, ast.Name) or not isinstance(st.iter, ast.Name):
                raise Unsupported(ast.unparse(st))
            assigned = []
            for s in ast.walk(st):
                if isinstance(s, (ast.Assign, ast.AugAssign, ast.AnnAssign)):
                    ts = s.targets if isinstance(s, ast.Assign) else [s.target]
                    for t in ts:
                        if not isinstance(t, ast.Name):
                            raise Unsupported("loop writes non-local: " + ast.unparse(s))
                        if t.id not in assigned:
                            assigned.append(t.id)
            if len(assigned) != 1:
                raise Unsupported("loop with != 1 accumulator: " + ast.unparse(st))
            acc = lname(assigned[0])
            sub = Ctx(self, ctx.cls, ctx.self_name, ctx.types, ctx.consts)
            it_t = ctx.types.get(st.iter.id, "")
            if it_t.startswith("list[") and it_t.endswith("]"):
                sub.types[st.target.id] = it_t[5:-1]
            body = self.block(st.body, sub, acc, ind + "    ")
            head = f"let {acc} : Rat := ({lname(st.iter.id)}).foldl (fun {acc} {lname(st.target.id)} =>\n{body}) {acc}"
            return ind + head + "\n" + self.block(rest, ctx, tail, ind)
        raise Unsupported(f"statement {ast.unparse(st)}")

    # ------------------------------------------------------------------ definitions
    def lean_type(self, ann: Optional[ast.expr]) -> str:
        if ann is None:
            return "Rat"
        s = ast.unparse(ann).strip()
        if s in ("float", "int"):
            return "Rat"
        if s == "bool":
            return "Bool"
        if s in self.enums:
            self.emit_enum(s)
            return s
        if s in self.classes:
            self.emit_structure(s)
            return s
        if s.startswith("list[") and s.endswith("]"):
            inner = s[5:-1]
            if inner in ("float", "int"):
                return "List Rat"
            if inner in self.classes:
                self.emit_structure(inner)
                return f"List {inner}"
        raise Unsupported(f"type {s}")

    def ensure_method(self, cls: str, meth: str, consts: Optional[dict[str, str]] = None,
                      suffix: str = "", lean_ns: Optional[str] = None) -> str:
        consts = consts or {}
        lean_ns = lean_ns or cls
        lean_fn = f"{lean_ns}.{lname(meth.strip('_') if meth.startswith('__') else meth)}{suffix}"
        if lean_fn in self.emitted:
            return lean_fn
        self.emitted.add(lean_fn)
        owner, fn = self.resolve_method(cls, meth)
        is_cm = any(isinstance(d, ast.Name) and d.id == "classmethod" for d in fn.decorator_list)
        args = fn.args.args
        self_name = args[0].arg
        params = args[1:]
        types = {}
        binder = []
        if cls not in self.emitted and cls not in self.enums:
            self.emit_structure(cls)
        if not is_cm:
            binder.append(f"({lname(self_name)} : {lean_ns})")
        for p in params:
            if p.arg in consts:
                continue
            ann_s = ast.unparse(p.annotation).strip() if p.annotation is not None else "float"
            lt = self.lean_type(p.annotation)
            types[p.arg] = ann_s
            binder.append(f"({lname(p.arg)} : {lt})")
        ctx = Ctx(self, cls, None if is_cm else self_name, types, consts)
        ret = None
        if fn.returns is not None:
            try:
                ret = self.lean_type(fn.returns)
            except Unsupported:
                ret = None
        # `return self` in __iadd__-style methods
        body_src = self.block(list(fn.body), ctx, None, "  ")
        # emit any definitions requested while translating the body first (they were emitted
        # eagerly by ensure_method, so ordering is already dependency-first)
        rt = f" : {ret}" if ret else ""
        if ret is None:
            # infer: methods returning self
            last = fn.body[-1]
            if isinstance(last, ast.Return) and isinstance(last.value, ast.Name) and last.value.id == self_name:
                rt = f" : {lean_ns}"
            elif isinstance(last, ast.Return) and isinstance(last.value, ast.Call) \
                    and isinstance(last.value.func, ast.Name) and last.value.func.id in self.classes:
                rt = f" : {last.value.func.id}"
            else:
                rt = " : Rat"
        self.emit(f"def {lean_fn} {' '.join(binder)}{rt} :=\n{body_src}\n")
        return lean_fn

    def ensure_function(self, module: str, name: str, lean_name: Optional[str] = None) -> str:
        fn = self.modules[module].functions[name]
        lean_fn = lean_name or name
        if lean_fn in self.emitted:
            return lean_fn
        self.emitted.add(lean_fn)
        types = {}
        binder = []
        for p in fn.args.args:
            ann_s = ast.unparse(p.annotation).strip() if p.annotation is not None else "float"
            types[p.arg] = ann_s
            binder.append(f"({lname(p.arg)} : {self.lean_type(p.annotation)})")
        ctx = Ctx(self, None, None, types, {})
        body_src = self.block(list(fn.body), ctx, None, "  ")
        ret = self.lean_type(fn.returns) if fn.returns is not None else "Rat"
        self.emit(f"def {lean_fn} {' '.join(binder)} : {ret} :=\n{body_src}\n")
        return lean_fn

    # ------------------------------------------------------------------ tables
    def number_list(self, node: ast.expr) -> list[Fraction]:
        if not isinstance(node, (ast.List, ast.Tuple)):
            raise Unsupported("not a list literal: " + ast.unparse(node)[:60])
        out = []
        for e in node.elts:
            out.append(Fraction(Decimal(repr(self.const_number(e)))))
        return out

    def render(self, header: str) -> str:
        return header + "\n" + "\n".join(self.out) + "\n"


PRELUDE_IMPORT = "import Simaple.Model.PyPrelude\nopen Simaple.Py\n"
