-- This module serves as the root of the `Simaple` library.
-- Import modules here that should be built as part of the library.
import Simaple.Basic
