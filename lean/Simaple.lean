-- root of the `Simaple` library; modules are built individually by the checks (see ../setup.sh)
import Simaple.Model.PyPrelude
