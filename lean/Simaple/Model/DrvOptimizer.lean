import Simaple.Model.JsonUtil
import Simaple.Model.Optimizer
import Std.Data.HashMap
/-! driver entry points for the optimizer model (C19): replay over a recorded oracle -/
namespace Simaple.Drv
open Lean Simaple.J Simaple.Optimizer

def natList (j : Json) : Except String (List Nat) := do
  let a ← j.getArr?
  a.toList.mapM fun x => do
    let i ← Simaple.J.int x
    if i < 0 then throw "negative level" else pure i.toNat

def ofNat (n : Nat) : Json := Json.num (JsonNumber.fromNat n)
def ofNats (l : List Nat) : Json := .arr (l.map ofNat).toArray

/-- the recorded answers of the real target: state ↦ (cost, value?) -/
abbrev Oracle := Std.HashMap (List Nat) (Rat × Option Rat)

def readOracle (j : Json) : Except String Oracle := do
  let rows ← list j
  rows.foldlM (init := (∅ : Oracle)) fun m row => do
    let cells ← list row
    match cells with
    | [s, c, v] =>
      let st ← natList s
      let cost ← rat c
      let value ← (match v with | .null => pure none | _ => do pure (some (← rat v)))
      pure (m.insert st (cost, value))
    | _ => throw "oracle row: [state, cost, value]"

/-- sentinel answers for states the real target was never asked about (reported as `misses`) -/
def oracleCost (o : Oracle) (s : State) : Rat := match o[s]? with | some (c, _) => c | none => 0
def oracleValue (o : Oracle) (s : State) : Rat := match o[s]? with | some (_, some v) => v | _ => 0

def readProblem (j : Json) (o : Oracle) : Except String Problem := do
  pure { n := (← int (← field j "n")).toNat, maxStep := (← int (← field j "maxStep")).toNat,
         stepSize := (← int (← field j "stepSize")).toNat, maxIter := (← int (← field j "maxIter")).toNat,
         budget := ← rat (← field j "budget"), cost := oracleCost o, value := oracleValue o }

/-- states the model asks the oracle about while in state `s` and that were never recorded -/
def missesAt (P : Problem) (o : Oracle) (s : State) : Nat :=
  let own := match o[s]? with | some (_, some _) => 0 | _ => 1
  P.increments.foldl (init := own) fun acc inc =>
    match getSteppedTarget P.maxStep s inc with
    | .ok (some s') =>
      match o[s']? with
      | none => acc + 1
      | some (c, none) => if c > P.budget then acc else acc + 1
      | some (_, some _) => acc
    | _ => acc

/-- the states visited by a trace -/
def visited (P : Problem) (s0 : State) (trace : List (List Nat × Rat)) : List State :=
  (trace.foldl (init := ([s0], s0)) fun (acc, s) (inc, _) =>
    match getSteppedTarget P.maxStep s inc with
    | .ok (some s') => (s' :: acc, s')
    | _ => (acc, s)).1.reverse

def optimizer (fn : String) (j : Json) : Option (Except String Json) :=
  match fn with
  | "opt_iterator" => some do
      let n := (← int (← field j "n")).toNat
      let d := (← int (← field j "depth")).toNat
      pure (Json.arr ((cumulatedIterator n d).map ofNats).toArray)
  | "opt_stepped" => some do
      let s ← natList (← field j "state")
      let inc ← natList (← field j "inc")
      let m := (← int (← field j "maxStep")).toNat
      match getSteppedTarget m s inc with
      | .ok (some s') => pure (ofNats s')
      | .ok none => pure Json.null
      | .error e => pure (Json.str e.name)
  | "opt_replay" => some do
      let o ← readOracle (← field j "table")
      let P ← readProblem j o
      let s0 ← natList (← field j "init")
      let (trace, res) := optimizeTrace P P.maxIter s0 []
      let direct := optimize P s0
      let states := visited P s0 trace
      let misses := states.foldl (fun a s => a + missesAt P o s) 0
      let resJ := match res with
        | .ok s => Json.mkObj [("state", ofNats s)]
        | .error e => Json.mkObj [("error", Json.str e.name)]
      let per ← (match fieldD j "states" Json.null with
        | .null => pure []
        | js => do (← list js).mapM natList)
      let perJ := per.map fun s =>
        match bestLoop P s (P.cost s) (P.value s) P.increments [] INITIAL_REWARD with
        | .ok (inc, r) => Json.arr #[ofNats inc, ofRat r]
        | .error e => Json.str e.name
      let same := match res, direct with
        | .ok a, .ok b => a == b
        | .error a, .error b => a == b
        | _, _ => false
      pure (Json.mkObj [("result", resJ), ("trace_agrees_with_optimize", Json.bool same),
        ("trace", Json.arr (trace.map fun (inc, r) => Json.arr #[ofNats inc, ofRat r]).toArray),
        ("states", Json.arr (states.map ofNats).toArray), ("per_state", Json.arr perJ.toArray),
        ("misses", ofNat (misses))])
  | "opt_best" => some do      -- one call of get_optimal_increment at a given state
      let o ← readOracle (← field j "table")
      let P ← readProblem j o
      let s ← natList (← field j "state")
      match bestLoop P s (P.cost s) (P.value s) P.increments [] INITIAL_REWARD with
      | .ok (inc, r) => pure (Json.mkObj [("inc", ofNats inc), ("reward", ofRat r),
          ("misses", ofNat (missesAt P o s))])
      | .error e => pure (Json.mkObj [("error", Json.str e.name)])
  | "opt_clone" => some do
      let kind ← (match (← str (← field j "kind")) with
        | "hyperstat" => pure Kind.hyperstat | "unionSquad" => pure Kind.unionSquad
        | "unionOccupation" => pure Kind.unionOccupation | "linkSkill" => pure Kind.linkSkill
        | k => throw s!"kind {k}")
      let len := (← int (← field j "length")).toNat
      let jobs ← natList (← field j "preempted")        -- jobs are given by their slot index
      let st ← natList (← field j "state")
      let ops : ProtoOps Nat Nat := { length := fun p => p, getIndex := fun _ job => job }
      let mk (armor : Option Rat) : Target Unit Unit Nat Nat := match armor with
        | some a => Target.new ops kind () () len jobs a
        | none => Target.new ops kind () () len jobs
      let armor ← (match fieldD j "armor" Json.null with | .null => pure none | a => do pure (some (← rat a)))
      let t0 := mk armor
      let c := (t0.setState st).clone ops
      pure (Json.mkObj [("initial_state", ofNats t0.state), ("state", ofNats c.state), ("armor", ofRat c.armor),
        ("maximum_step", ofNat (c.maximum_step)), ("state_length", ofNat (c.state_length))])
  | "weapon_replay" => some do
      let tiers ← (← list (← field j "tiers")).mapM natList
      let useful ← natList (← field j "useful")
      let boss ← natList (← field j "boss")
      let ied ← natList (← field j "ied")
      let rows ← list (← field j "table")
      let tbl ← rows.foldlM (init := (∅ : Std.HashMap (List Nat) Rat)) fun m row => do
        match (← list row) with
        | [k, v] => pure (m.insert (← natList k) (← rat v))
        | _ => throw "weapon row: [key, reward]"
      let rows1 ← list (fieldD j "table1" (Json.arr #[]))
      let tbl1 ← rows1.foldlM (init := (∅ : Std.HashMap (List Nat) Rat)) fun m row => do
        match (← list row) with
        | [k, v] => pure (m.insert (← natList k) (← rat v))
        | _ => throw "weapon row: [key, reward]"
      let W : WeaponProblem Nat :=
        { isBoss := fun x => boss.contains x, isIed := fun x => ied.contains x,
          useful := fun x => useful.contains x, tiers := tiers,
          reward := fun w s e => tbl.getD (w ++ s ++ e) 0,
          reward1 := fun c => tbl1.getD c 0 }
      let misses := (W.triples.filter fun (w, s, e) => !tbl.contains (w ++ s ++ e)).length
      let full := match W.getFullOptimalPotential with
        | some (w, s, e) => Json.arr #[ofNats w, ofNats s, ofNats e]
        | none => Json.null
      let single := match W.getOptimalPotential with
        | some c => ofNats c
        | none => Json.null
      pure (Json.mkObj [("full", full), ("single", single), ("misses", ofNat (misses)),
        ("candidates", Json.arr ((W.potentialCandidates false).map ofNats).toArray),
        ("emblem_candidates", Json.arr ((W.potentialCandidates true).map ofNats).toArray)])
  | _ => none

end Simaple.Drv
