import Simaple.Model.JsonUtil
import Simaple.Model.DrvCore
import Simaple.Model.DamageCalc
/-! driver entry points for `DamageCalculator.get_damage` and a bulk level-advantage grid (C12) -/
namespace Simaple.Drv
open Lean Simaple.J Simaple.Gen Simaple.Py Simaple.Model.DamageCalc

def factorFns (kind : String) (arc mastery : Rat) :
    Except String ((Stat → Rat → Rat) × (Stat → Rat → Rat)) :=
  match kind with
  | "STRBasedDamageLogic" =>
    let l : STRBasedDamageLogic := ⟨arc, mastery⟩; .ok (l.get_damage_factor, l.get_dot_factor)
  | "INTBasedDamageLogic" =>
    let l : INTBasedDamageLogic := ⟨arc, mastery⟩; .ok (l.get_damage_factor, l.get_dot_factor)
  | "DEXBasedDamageLogic" =>
    let l : DEXBasedDamageLogic := ⟨arc, mastery⟩; .ok (l.get_damage_factor, l.get_dot_factor)
  | "LUKBasedDamageLogic" =>
    let l : LUKBasedDamageLogic := ⟨arc, mastery⟩; .ok (l.get_damage_factor, l.get_dot_factor)
  | "LUKBasedDualSubDamageLogic" =>
    let l : LUKBasedDualSubDamageLogic := ⟨arc, mastery⟩; .ok (l.get_damage_factor, l.get_dot_factor)
  | _ => .error "kind"

def damageCalc (fn : String) (j : Json) : Option (Except String Json) :=
  match fn with
  | "get_damage" => some do
      let (f, g) ← factorFns (← str (← field j "kind")) (← rat (← field j "arc")) (← rat (← field j "mastery"))
      let dc : Calculator := {
        character_spec := ← getStat (← field j "spec"), damageFactor := f, dotFactor := g,
        armor := ← rat (← field j "armor"), level_advantage := ← rat (← field j "la"),
        force_advantage := ← rat (← field j "fa") }
      let log : Log := { damage := ← rat (← field j "damage"), hit := ← rat (← field j "hit"),
                         buff := ← getStat (← field j "buff"), tag := ← str (← field j "tag") }
      pure (ofRat (← getDamage dc log))
  | "level_advantage_grid" => some do
      -- every pair (mob, char) with lo ≤ mob, char ≤ hi, row by row (mob outer); "IndexError" for `none`
      let lo ← int (← field j "lo"); let hi ← int (← field j "hi")
      let n := (hi - lo + 1).toNat
      let levels := (List.range n).map (fun (k : Nat) => lo + Int.ofNat k)
      pure (Json.arr (levels.map (fun m => Json.arr (levels.map (fun c =>
        match LevelAdvantage.get_advantage m c with
        | some r => ofRat r
        | none => Json.str "IndexError")).toArray)).toArray)
  | _ => none

end Simaple.Drv
