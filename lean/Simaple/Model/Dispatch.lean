/-!
L3: the component dispatcher of simaple/simulate/component/base.py (core Lean only):
`StoreAdapter` (bound names, get/set state), `_find_mapping_name` (exact match, then `$` wildcard),
`tag_events_by_method_name` (ACCEPT tagging), `ReducerMethodWrappingDispatcher.__call__`, and the
address resolution of `AddressedStore`.  Entities and payloads are abstract.
-/
namespace Simaple.Dispatch

def tagREJECT : String := "global.reject"
def tagACCEPT : String := "global.accept"

/-- an event as returned by a reducer / dispatcher; `tag = ""` and `handler = ""` stand for `None` -/
structure Ev where
  name : String
  method : String
  tag : String
  handler : String
  payload : String
deriving DecidableEq, Repr

/-- one event of `tag_events_by_method_name`: the method is set, a missing tag becomes the method name -/
def retag (methodName : String) (e : Ev) : Ev :=
  { name := e.name, payload := e.payload, method := methodName,
    tag := (if e.tag = "" then methodName else e.tag), handler := e.handler }

/-- `tag_events_by_method_name` -/
def tagEvents (compName methodName : String) (events : List Ev) : List Ev :=
  let tagged := events.map (retag methodName)
  if events.all (fun e => e.tag ≠ tagREJECT && e.tag ≠ tagACCEPT) then
    tagged ++ [{ name := compName, method := methodName, tag := tagACCEPT, payload := "{}", handler := "" }]
  else tagged

/-- Python `pat in target` for strings -/
def isInfix (pat target : String) : Bool :=
  pat.isEmpty || (target.splitOn pat).length > 1

/-- `_find_mapping_name`: the exact signature if it is a key, else the first key (in dict order) that
    starts with `$` and whose text without `$` occurs in the signature -/
def findMapping (keys : List String) (target : String) : Option String :=
  if keys.contains target then some target
  else keys.find? (fun k => k.front == '$' && !k.isEmpty && isInfix (k.replace "$" "") target)

/-- `AddressedStore._resolve_address` for the store `store.local(compName)` of a root store:
    names without a period are local, names with a period are global -/
def resolve (compName name : String) : String :=
  if name.toList.any (· == '.') then name else "." ++ compName ++ "." ++ name

section
variable {ε : Type}   -- entities

/-- the store: address ↦ entity (the order of Python's dict plays no role in any lookup) -/
abbrev Store (ε : Type) := String → Option ε

def Store.get (s : Store ε) (a : String) : Option ε := s a

def Store.set (s : Store ε) (a : String) (e : ε) : Store ε := fun b => if b = a then some e else s b

/-- a component as the dispatcher sees it: its name, its own entity names with defaults, and its binds
    (state field ↦ address; `dynamics ↦ global.dynamics` is always among them) -/
structure Comp (ε : Type) where
  name : String
  defaults : List (String × ε)
  binds : List (String × String)

/-- `_get_bound_names`: own entity names map to themselves, then binds override/extend -/
def Comp.boundNames (c : Comp ε) : List (String × String) :=
  let own := c.defaults.map (fun d => (d.1, d.1))
  c.binds.foldl (fun acc b =>
    if acc.any (fun p => p.1 == b.1) then acc.map (fun p => if p.1 == b.1 then b else p) else acc ++ [b]) own

def Comp.boundAddrs (c : Comp ε) : List String := c.boundNames.map (fun p => resolve c.name p.2)

/-- the `setdefault` side of `get_state`: a bound address that is missing takes the component's default
    for that state field (if it has one), in bound-name order -/
def initDefaults (c : Comp ε) (s : Store ε) : Store ε :=
  c.boundNames.foldl (fun acc p =>
    let addr := resolve c.name p.2
    match acc.get addr with
    | some _ => acc
    | none =>
      match (c.defaults.find? (fun d => d.1 == p.1)).map (·.2) with
      | some d => acc.set addr d
      | none => acc) s

/-- the reading side of `get_state` (after the defaults are in place); a bound address that is still
    missing raises ValueError (`none`) -/
def readList (c : Comp ε) (s : Store ε) : List (String × String) → Option (List (String × ε))
  | [] => some []
  | p :: ps =>
    match s.get (resolve c.name p.2), readList c s ps with
    | some e, some rest => some ((p.1, e) :: rest)
    | _, _ => none

def readAll (c : Comp ε) (s : Store ε) : Option (List (String × ε)) := readList c s c.boundNames

/-- `set_state`: write back every field of the returned state that is a bound name -/
def setState (c : Comp ε) (s : Store ε) (state : List (String × ε)) : Store ε :=
  state.foldl (fun acc f =>
    match c.boundNames.find? (fun p => p.1 == f.1) with
    | some p => acc.set (resolve c.name p.2) f.2
    | none => acc) s

/-- `ReducerMethodWrappingDispatcher.__call__` for an action whose signature maps to reducer `methodName`
    (the reducer itself is a parameter: state ↦ (state, events)) -/
def dispatch (c : Comp ε) (methodName : String) (reducer : List (String × ε) → List (String × ε) × List Ev)
    (s : Store ε) : Option (Store ε × List Ev) :=
  let s1 := initDefaults c s
  match readAll c s1 with
  | none => none       -- ValueError: a bound entity does not exist
  | some st =>
    let r := reducer st
    some (setState c s1 r.1, tagEvents c.name methodName r.2)

end
end Simaple.Dispatch
