import Simaple.Model.DrvComponent
import Simaple.Model.ComponentWind
/-! driver entry points for the `Wind` group of L2 component models (same requests as DrvComponent:
    `reducer` and `cview`; answers only for the classes of this group, `none` otherwise).
    A request whose state violates the invariant the per-class theorems assume is answered with an error,
    so that the correspondence run also checks the invariants on every harvested real state. -/
namespace Simaple.DrvComponentWind
open Lean Simaple.J Simaple.Entity Simaple.Comp Simaple.DrvEntity Simaple.DrvComponent

def ratLists (j : Json) : Except String (List (List Rat)) := do (← list j).mapM ratList

/-! codecs -/
def orbP (p : Json) : Except String CosmicOrb.P := do pure ⟨← pint p "default_max_stack"⟩
def orbS (s : Json) : Except String CosmicOrb.S := do
  pure ⟨← getLastingStack (← field s "orb"), ← getLasting (← field s "cosmic_forge_lasting")⟩
def orbSJ (s : CosmicOrb.S) : Json :=
  Json.mkObj [("orb", lastingStackJson s.orb), ("cosmic_forge_lasting", lastingJson s.cosmicForgeLasting)]

def elyP (p : Json) : Except String Elysion.P := do
  pure ⟨← pint p "cd_eff", ← pint p "lasting_duration", ← pint p "delay", ← prat p "crack_damage",
        ← prat p "crack_hit", ← pint p "crack_cooldown"⟩
def elyS (s : Json) : Except String Elysion.S := do
  pure ⟨← getCooldown (← field s "cooldown"), ← getLasting (← field s "lasting"),
        ← getLastingStack (← field s "stack"), ← getCooldown (← field s "crack_cooldown")⟩
def elySJ (s : Elysion.S) : Json :=
  Json.mkObj [("cooldown", cooldownJson s.cooldown), ("lasting", lastingJson s.lasting),
    ("stack", lastingStackJson s.stack), ("crack_cooldown", cooldownJson s.crackCooldown)]

def styxP (p : Json) : Except String CrossTheStyx.P := do
  pure ⟨← prat p "damage", ← prat p "hit", ← pint p "delay"⟩
def styxS (s : Json) : Except String CrossTheStyx.S := do pure ⟨← getLasting (← field s "elysion_lasting")⟩
def styxSJ (s : CrossTheStyx.S) : Json := Json.mkObj [("elysion_lasting", lastingJson s.elysionLasting)]

def burstP (p : Json) : Except String CosmicBurst.P := do
  pure ⟨← pint p "cd_eff", ← prat p "damage", ← prat p "hit", ← prat p "damage2", ← pint p "cooltime_reduce_per_orb"⟩
def burstS (s : Json) : Except String CosmicBurst.S := do
  pure ⟨← getCooldown (← field s "cooldown"), ← getLastingStack (← field s "orb")⟩
def burstSJ (s : CosmicBurst.S) : Json :=
  Json.mkObj [("cooldown", cooldownJson s.cooldown), ("orb", lastingStackJson s.orb)]

def showerP (p : Json) : Except String CosmicShower.P := do
  pure ⟨← pint p "cd_eff", ← pint p "delay", ← prat p "periodic_damage", ← prat p "periodic_hit",
        ← pint p "lasting_duration", ← pint p "duration_increase_per_orb"⟩
def showerS (s : Json) : Except String CosmicShower.S := do
  pure ⟨← getCooldown (← field s "cooldown"), ← getPeriodic (← field s "periodic"), ← getLastingStack (← field s "orb")⟩
def showerSJ (s : CosmicShower.S) : Json :=
  Json.mkObj [("cooldown", cooldownJson s.cooldown), ("periodic", periodicJson s.periodic), ("orb", lastingStackJson s.orb)]

def cosmosP (p : Json) : Except String Cosmos.P := do
  pure ⟨← pint p "cd_eff", ← pint p "delay", ← pint p "periodic_interval", ← prat p "periodic_damage",
        ← prat p "periodic_hit", ← pint p "periodic_interval_decrement_per_orb", ← pint p "lasting_duration"⟩
def cosmosS (s : Json) : Except String Cosmos.S := do
  pure ⟨← getCooldown (← field s "cooldown"), ← getPeriodic (← field s "periodic"), ← getLastingStack (← field s "orb")⟩
def cosmosSJ (s : Cosmos.S) : Json :=
  Json.mkObj [("cooldown", cooldownJson s.cooldown), ("periodic", periodicJson s.periodic), ("orb", lastingStackJson s.orb)]

def flareP (p : Json) : Except String FlareSlash.P := do
  pure ⟨← pint p "cd_eff", ← pint p "delay", ← prat p "damage", ← prat p "hit",
        ← pint p "cooldown_reduce_stance", ← pint p "cooldown_reduce_styx"⟩

def finalCutP (p : Json) : Except String FinalCut.P := do
  pure ⟨← pint p "cd_eff", ← pint p "delay", ← prat p "damage", ← prat p "hit", ← prat p "keep"⟩

def stormP (p : Json) : Except String BladeStorm.P := do
  pure ⟨← pint p "cd_eff", ← pint p "maximum_keydown_time", ← pint p "prepare_delay", ← prat p "damage", ← prat p "hit",
        ← pint p "end_delay", ← prat p "prepare_damage", ← prat p "prepare_hit"⟩

def udsP (p : Json) : Except String UltimateDarkSight.P := do
  pure ⟨← pint p "cd_eff", ← pint p "lasting_duration", ← pint p "delay"⟩

def karmaP (p : Json) : Except String KarmaBlade.P := do
  pure ⟨← pint p "cooldown_duration", ← prat p "damage", ← prat p "hit", ← pint p "triggable_count",
        ← pint p "lasting_duration", ← prat p "finish_damage", ← prat p "finish_hit"⟩
def karmaS (s : Json) : Except String KarmaBlade.S := do
  pure ⟨← getCooldown (← field s "cooldown"), ← getLastingStack (← field s "lasting_stack")⟩
def karmaSJ (s : KarmaBlade.S) : Json :=
  Json.mkObj [("cooldown", cooldownJson s.cooldown), ("lasting_stack", lastingStackJson s.lastingStack)]

def galeP (p : Json) : Except String HowlingGale.P := do
  pure ⟨← pint p "delay", ← ratLists (← field p "periodic_damage"), ← ratLists (← field p "periodic_hit"),
        ← pint p "lasting_duration"⟩
def galeS (s : Json) : Except String HowlingGale.S := do
  pure ⟨← getConsumable (← field s "consumable"), ← getInteger (← field s "consumed"), ← getPeriodic (← field s "periodic")⟩
def galeSJ (s : HowlingGale.S) : Json :=
  Json.mkObj [("consumable", consumableJson s.consumable), ("consumed", integerJson s.consumed),
    ("periodic", periodicJson s.periodic)]

def cygP (p : Json) : Except String CygnusBlessing.P := do pure ⟨← pint p "lasting_duration", ← pint p "delay"⟩
def cygS (s : Json) : Except String CygnusBlessing.S := do
  pure ⟨← getLasting (← field s "lasting"), ← getConsumable (← field s "consumable")⟩
def cygSJ (s : CygnusBlessing.S) : Json :=
  Json.mkObj [("lasting", lastingJson s.lasting), ("consumable", consumableJson s.consumable)]

def outE {σ : Type} (enc : σ → Json) (r : Except String (σ × List REv)) : Json :=
  match r with
  | .ok r => out (enc r.1) r.2
  | .error e => DrvComponent.raised e

def reducer (cls m : String) (p s : Json) (payload : Json) : Except String Json := do
  match cls with
  | "CosmicOrb" =>
    let pp ← orbP p; let st ← orbS s
    match m with
    | "increase" => let r := CosmicOrb.increase pp st; pure (out (orbSJ r.1) r.2)
    | "maximize" => let r := CosmicOrb.maximize pp st; pure (out (orbSJ r.1) r.2)
    | _ => throw s!"unknown reducer {cls}.{m}"
  | "Elysion" =>
    let pp ← elyP p; let st ← elyS s
    match m with
    | "use" => let r := Elysion.use pp st; pure (out (elySJ r.1) r.2)
    | "elapse" => let r := Elysion.elapse pp (← int payload) st; pure (out (elySJ r.1) r.2)
    | "crack" => let r := Elysion.crack pp st; pure (out (elySJ r.1) r.2)
    | _ => throw s!"unknown reducer {cls}.{m}"
  | "CrossTheStyx" =>
    let pp ← styxP p; let st ← styxS s
    match m with
    | "use" => let r := CrossTheStyx.use pp st; pure (out (styxSJ r.1) r.2)
    | _ => throw s!"unknown reducer {cls}.{m}"
  | "CosmicBurst" =>
    let pp ← burstP p; let st ← burstS s
    match m with
    | "elapse" => let r := CosmicBurst.elapse pp (← int payload) st; pure (out (burstSJ r.1) r.2)
    | "trigger" => let r := CosmicBurst.trigger pp st; pure (out (burstSJ r.1) r.2)
    | _ => throw s!"unknown reducer {cls}.{m}"
  | "CosmicShower" =>
    let pp ← showerP p; let st ← showerS s
    if ¬ CosmicShower.Inv st then throw s!"{cls}: state outside the invariant (Periodic.WF)" else
    match m with
    | "use" => pure (outE showerSJ (CosmicShower.use pp st))
    | "elapse" => let r := CosmicShower.elapse pp (← int payload) st; pure (out (showerSJ r.1) r.2)
    | _ => throw s!"unknown reducer {cls}.{m}"
  | "Cosmos" =>
    let pp ← cosmosP p; let st ← cosmosS s
    if ¬ Cosmos.Inv st then throw s!"{cls}: state outside the invariant (Periodic.WF)" else
    match m with
    | "use" => pure (outE cosmosSJ (Cosmos.use pp st))
    | "elapse" => let r := Cosmos.elapse pp (← int payload) st; pure (out (cosmosSJ r.1) r.2)
    | _ => throw s!"unknown reducer {cls}.{m}"
  | "FlareSlash" =>
    let pp ← flareP p; let st ← attackS s
    match m with
    | "elapse" => let r := FlareSlash.elapse pp (← int payload) st; pure (out (attackSJ r.1) r.2)
    | "change_stance_trigger" => let r := FlareSlash.changeStanceTrigger pp st; pure (out (attackSJ r.1) r.2)
    | "styx_trigger" => let r := FlareSlash.styxTrigger pp st; pure (out (attackSJ r.1) r.2)
    | _ => throw s!"unknown reducer {cls}.{m}"
  | "FinalCutComponent" =>
    let pp ← finalCutP p; let st ← attackS s
    match m with
    | "use" => let r := FinalCut.use pp st; pure (out (attackSJ r.1) r.2)
    | "elapse" => let r := FinalCut.elapse pp (← int payload) st; pure (out (attackSJ r.1) r.2)
    | "sudden_raid" =>
      match FinalCut.suddenRaid pp st with
      | some r => pure (out (attackSJ r.1) r.2)
      | none => pure (Json.mkObj [("offgrid", .bool true)])
    | _ => throw s!"unknown reducer {cls}.{m}"
  | "BladeStormComponent" =>
    let pp ← stormP p; let st ← kdS s
    if ¬ BladeStorm.Inv st then throw s!"{cls}: state outside the invariant (Keydown.Inv)" else
    match m with
    | "use" => let r := BladeStorm.use pp st; pure (out (kdSJ r.1) r.2)
    | "elapse" => let r := BladeStorm.elapse pp (← int payload) st; pure (out (kdSJ r.1) r.2)
    | "stop" => let r := BladeStorm.stop pp st; pure (out (kdSJ r.1) r.2)
    | _ => throw s!"unknown reducer {cls}.{m}"
  | "UltimateDarkSightComponent" =>
    let pp ← udsP p; let st ← buffS s
    match m with
    | "use" => let r := UltimateDarkSight.use pp st; pure (out (buffSJ r.1) r.2)
    | "elapse" => let r := UltimateDarkSight.elapse pp (← int payload) st; pure (out (buffSJ r.1) r.2)
    | _ => throw s!"unknown reducer {cls}.{m}"
  | "KarmaBladeTriggerComponent" =>
    let pp ← karmaP p; let st ← karmaS s
    match m with
    | "use" => let r := KarmaBlade.use pp st; pure (out (karmaSJ r.1) r.2)
    | "elapse" => let r := KarmaBlade.elapse pp (← int payload) st; pure (out (karmaSJ r.1) r.2)
    | "trigger" => let r := KarmaBlade.trigger pp st; pure (out (karmaSJ r.1) r.2)
    | _ => throw s!"unknown reducer {cls}.{m}"
  | "HowlingGaleComponent" =>
    let pp ← galeP p; let st ← galeS s
    if ¬ HowlingGale.Inv pp st then throw s!"{cls}: state outside the invariant" else
    match m with
    | "use" => pure (outE galeSJ (HowlingGale.use pp st))
    | "elapse" => pure (outE galeSJ (HowlingGale.elapse pp (← int payload) st))
    | _ => throw s!"unknown reducer {cls}.{m}"
  | "TranscendentCygnusBlessing" =>
    let pp ← cygP p; let st ← cygS s
    if ¬ CygnusBlessing.Inv st then throw s!"{cls}: state outside the invariant (Consumable.WF)" else
    match m with
    | "use" => let r := CygnusBlessing.use pp st; pure (out (cygSJ r.1) r.2)
    | "elapse" => let r := CygnusBlessing.elapse pp (← int payload) st; pure (out (cygSJ r.1) r.2)
    | _ => throw s!"unknown reducer {cls}.{m}"
  | _ => throw s!"unknown class {cls}"

def keydownJsonV (k : KeydownView) : Json := Json.mkObj [("time_left", ofInt k.timeLeft), ("running", .bool k.running)]

def cview (cls v : String) (p s : Json) : Except String Json := do
  match cls, v with
  | "CosmicOrb", "buff" => pure (.bool (CosmicOrb.buffOn (← orbS s)))
  | "Elysion", "validity" => pure (validityJson (Elysion.validity (← elyP p) (← elyS s)))
  | "Elysion", "running" => pure (runningJson (Elysion.running (← elyS s)))
  | "CrossTheStyx", "validity" => pure (validityJson (CrossTheStyx.validity (← styxP p) (← styxS s)))
  | "CosmicShower", "validity" => pure (validityJson (CosmicShower.validity (← showerP p) (← showerS s)))
  | "CosmicShower", "running" => pure (runningJson (CosmicShower.running (← showerP p) (← showerS s)))
  | "Cosmos", "validity" => pure (validityJson (Cosmos.validity (← cosmosP p) (← cosmosS s)))
  | "Cosmos", "running" => pure (runningJson (Cosmos.running (← cosmosP p) (← cosmosS s)))
  | "FlareSlash", "validity" => pure (validityJson (FlareSlash.validity (← flareP p) (← attackS s)))
  | "FinalCutComponent", "validity" => pure (validityJson (FinalCut.validity (← finalCutP p) (← attackS s)))
  | "BladeStormComponent", "validity" => pure (validityJson (BladeStorm.validity (← stormP p) (← kdS s)))
  | "BladeStormComponent", "keydown" => pure (keydownJsonV (BladeStorm.keydownView (← kdS s)))
  | "UltimateDarkSightComponent", "validity" => pure (validityJson (UltimateDarkSight.validity (← udsP p) (← buffS s)))
  | "UltimateDarkSightComponent", "buff" => pure (.bool (UltimateDarkSight.buffOn (← buffS s)))
  | "UltimateDarkSightComponent", "running" => pure (runningJson (UltimateDarkSight.running (← buffS s)))
  | "KarmaBladeTriggerComponent", "validity" => pure (validityJson (KarmaBlade.validity (← karmaP p) (← karmaS s)))
  | "KarmaBladeTriggerComponent", "running" => pure (runningJson (KarmaBlade.running (← karmaP p) (← karmaS s)))
  | "HowlingGaleComponent", "validity" => pure (validityJson (HowlingGale.validity (← galeP p) (← galeS s)))
  | "HowlingGaleComponent", "running" => pure (runningJson (HowlingGale.running (← galeP p) (← galeS s)))
  | "TranscendentCygnusBlessing", "validity" => pure (validityJson (CygnusBlessing.validity (← cygP p) (← cygS s)))
  | "TranscendentCygnusBlessing", "buff" => pure (.bool (CygnusBlessing.buffOn (← cygS s)))
  | "TranscendentCygnusBlessing", "running" => pure (runningJson (CygnusBlessing.running (← cygS s)))
  | _, _ => throw s!"unknown view {cls}.{v}"

def modelledClasses : List String :=
  ["CosmicOrb", "Elysion", "CrossTheStyx", "CosmicBurst", "CosmicShower", "Cosmos", "FlareSlash",
   "FinalCutComponent", "BladeStormComponent", "UltimateDarkSightComponent", "KarmaBladeTriggerComponent",
   "HowlingGaleComponent", "TranscendentCygnusBlessing"]

def component (fn : String) (j : Json) : Option (Except String Json) :=
  match fn with
  | "reducer" =>
      match j.getObjVal? "cls" >>= Json.getStr? with
      | .ok c => if modelledClasses.contains c then some do
            reducer c (← str (← field j "method")) (← field j "params") (← field j "state") (fieldD j "payload" .null)
          else none
      | .error _ => none
  | "cview" =>
      match j.getObjVal? "cls" >>= Json.getStr? with
      | .ok c => if modelledClasses.contains c then some do
            cview c (← str (← field j "view")) (← field j "params") (← field j "state")
          else none
      | .error _ => none
  | "modelled_classes_wind" => some (pure (.arr (modelledClasses.map Json.str).toArray))
  | "fl64" => some do pure (ofRat (Wind.fl64 (← rat (← field j "x"))))
  | _ => none

end Simaple.DrvComponentWind
