import Simaple.Model.JsonUtil
import Simaple.Model.Levels
import Simaple.Model.ProviderLevels
import Simaple.Gen.Levels
/-! driver entry points for the level-configuration models (C16) -/
namespace Simaple.DrvLevels
open Lean Simaple.J Simaple.Py Simaple.Model.Levels Simaple.Gen.Levels

def jint (i : Int) : Json := Json.num (JsonNumber.fromInt i)

def optInt (j : Json) : Except String (Option Int) :=
  match j with
  | .null => pure none
  | _ => do pure (some (← int j))

def optStr (j : Json) : Except String (Option String) :=
  match j with
  | .null => pure none
  | _ => do pure (some (← str j))

/-- `[[name, level], …]` -/
def getLevels (j : Json) : Except String (List (String × Int)) := do
  (← list j).mapM fun p => do
    match ← list p with
    | [k, v] => pure (← str k, ← int v)
    | _ => throw "pair expected"

def getPairs (j : Json) : Except String (List (String × String)) := do
  (← list j).mapM fun p => do
    match ← list p with
    | [k, v] => pure (← str k, ← str v)
    | _ => throw "pair expected"

/-- `{name: "num/den", …}`; a variable that is not given is 0 -/
def getVars (j : Json) : Except String (String → Rat) := do
  match j with
  | .obj kvs =>
    let ps ← kvs.toList.mapM fun (k, v) => do pure (k, ← rat v)
    pure fun n => match ps.find? (fun p => p.1 == n) with
      | some p => p.2
      | none => 0
  | _ => pure noVars

def formulaJson (f : Formula) : Json :=
  Json.mkObj [("ident", .str f.ident), ("file", .str f.file), ("group", .str f.group), ("skill", .str f.skill),
    ("field", .str f.field), ("source", .str f.source), ("configurable", .bool f.configurable),
    ("default", match f.defaultLevel with | some v => jint v | none => .null), ("passive", .bool f.passive),
    ("combat", .bool f.combat), ("lo", jint f.lo), ("hi", jint f.hi), ("check", .bool f.check),
    ("analysis_up", .bool f.ex.abs.up), ("safe", .bool f.ex.safe)]

def getOrigin (j : Json) : Except String Origin := do
  pure { name := ← optStr (fieldD j "name" .null), defaultLevel := ← optInt (fieldD j "default" .null),
         passiveEnabled := (← (fieldD j "passive_enabled" (.bool false)).getBool?),
         combatEnabled := (← (fieldD j "combat_enabled" (.bool false)).getBool?) }

def levels (fn : String) (j : Json) : Option (Except String Json) :=
  match fn with
  | "levels_formulas" => some (pure (Json.arr (formulas.map formulaJson).toArray))
  | "levels_eval" => some do
      -- points: [[ident, level], …] -> the value of the generated function (and of its parse tree) at that level
      let vars ← getVars (fieldD j "vars" .null)
      let pts ← list (← field j "points")
      let out ← pts.mapM fun p => do
        match ← list p with
        | [i, l] =>
          let ident ← str i
          let l ← int l
          match formulas.find? (fun f => f.ident == ident) with
          | some f => pure (Json.arr #[ofRat (f.fn vars l), ofRat (f.ex.eval vars l)])
          | none => pure Json.null
        | _ => throw "point: [ident, level] expected"
      pure (Json.arr out.toArray)
  | "levels_skill_level" => some do
      let d ← getLevels (← field j "levels")
      let p ← int (← field j "passive")
      let c ← int (← field j "combat")
      let os ← (← list (← field j "origins")).mapM getOrigin
      pure (Json.arr (os.map fun o => jint (getSkillLevel d p c o)).toArray)
  | "levels_exclude" => some do
      let names ← (← list (← field j "names")).mapM str
      let repl ← getPairs (← field j "repl")
      let d ← getLevels (← field j "levels")
      match excludeHexa names repl d with
      | .ok kept => pure (Json.mkObj [("kept", Json.arr (kept.map Json.str).toArray)])
      | .error (.lowMissing n) => pure (Json.mkObj [("assert", .str ("low:" ++ n))])
      | .error (.highMissing n) => pure (Json.mkObj [("assert", .str ("high:" ++ n))])
  | "levels_provider" => some do    -- a provider's skill_levels / hexa_improvement_levels for a profile
      let pj ← field j "profile"
      let p : Profile := {
        vSkillNames := ← (← list (← field pj "v")).mapM str,
        hexaSkillNames := ← (← list (← field pj "hexa")).mapM str,
        hexaMastery := ← getPairs (← field pj "mastery"),
        hexaImprovementNames := ← (← list (← field pj "imp")).mapM str }
      let cfgs ← list (← field j "cfgs")
      let outs ← cfgs.mapM fun cj => do
        let c : ProviderLevels := {
          vSkillLevel := ← int (← field cj "v"), hexaSkillLevel := ← int (← field cj "h"),
          hexaMasteryLevel := ← int (← field cj "m"), hexaImprovementsLevel := ← int (← field cj "imp"),
          hexaMasterySkillLevels := ← getLevels (← field cj "em"), hexaSkillLevels := ← getLevels (← field cj "eh"),
          hexaImprovementLevels := ← getLevels (← field cj "ei") }
        let dump (r : Except String (List (String × Int))) : Json := match r with
          | .ok d => Json.arr (d.map fun (k, v) => Json.arr #[.str k, jint v]).toArray
          | .error n => Json.mkObj [("assert", .str n)]
        pure (Json.mkObj [("skill_levels", dump (c.skillLevels p)), ("improvements", dump (c.improvementLevels p))])
      pure (Json.arr outs.toArray)
  | "levels_hexa" => some do
      let ls ← intList (← field j "levels")
      pure (Json.arr (ls.map fun l => match hexaFinalDamage l with | some v => ofRat v | none => .null).toArray)
  | "levels_v" => some do
      let s ← rat (← field j "scale")
      let prevFd ← rat (← field j "prev_fd")
      let prevIgn ← rat (← field j "prev_ign")
      let ls ← intList (← field j "levels")
      pure (Json.arr (ls.map fun l =>
        Json.arr #[ofRat (vFinalDamage s l), ofRat (vIgnoredDefence l),
                   ofRat (fdmAdd prevFd (vFinalDamage s l)), ofRat (ignAdd prevIgn (vIgnoredDefence l))]).toArray)
  | "levels_hexa_modifier" => some do
      let prevFd ← rat (← field j "prev_fd")
      let ls ← intList (← field j "levels")
      pure (Json.arr (ls.map fun l => match hexaFinalDamage l with
        | some v => ofRat (fdmAdd prevFd v) | none => .null).toArray)
  | _ => none

end Simaple.DrvLevels
