/-
Hand-written model of the composition order of
  simaple/gear/blueprint/gear_blueprint.py   GeneralizedGearBlueprint.build,
                                             PracticalGearBlueprint.translate_into_generalized_gear_blueprint
over the GENERATED `Simaple.Gen.Stat` (`Stat.add` = `__add__`, `Stat.iadd` = `__iadd__`).

What each spell trace / scroll / bonus / exceptional part contributes (`x.calculate_improvement(self.meta)`) is an
input of the model (a `Stat`); the model is about how `build` composes them, and where star force is computed.
Star force works on the eight integer fields of `Model.Starforce.SF`; the scrolled gear stat is converted with
`SF.ofStat` (floor -- exact on the integral stats gear has; the harness checks integrality of what it feeds).
-/
import Simaple.Gen.Core
import Simaple.Model.Starforce

namespace Simaple.Model.GearBlueprint
open Simaple.Gen Simaple.Model.Starforce

/-- the star-force result as a full stat block (all other fields 0) -/
def SF.toStat (x : SF) : Stat :=
  { STR := x.STR, DEX := x.DEX, INT := x.INT, LUK := x.LUK, attack_power := x.attack_power,
    magic_attack := x.magic_attack, MHP := x.MHP, MMP := x.MMP }

/-- the fields of a stat block star force reads (`ref_stat`) -/
def SF.ofStat (s : Stat) : SF :=
  { STR := s.STR.floor, DEX := s.DEX.floor, INT := s.INT.floor, LUK := s.LUK.floor,
    attack_power := s.attack_power.floor, magic_attack := s.magic_attack.floor,
    MHP := s.MHP.floor, MMP := s.MMP.floor }

/-- builtin `sum(xs, Stat())`: repeated `__add__` starting from the empty block -/
def pySum (xs : List Stat) : Stat := xs.foldl Stat.add Stat.zero

/-- `GeneralizedGearBlueprint` with the parts' own contributions already evaluated -/
structure Blueprint where
  «meta» : Meta
  /-- `meta.base_stat` -/
  base : Stat
  /-- `spell_trace.calculate_improvement(meta)` for each entry of `spell_traces`, in order -/
  spell_traces : List Stat := []
  /-- `scroll.calculate_improvement(meta)` for each entry of `scrolls`, in order -/
  scrolls : List Stat := []
  /-- `starforce.star` -/
  star : Int := 0
  /-- `bonus.calculate_improvement(meta)` for each bonus spec, in order -/
  bonuses : List Stat := []
  /-- `exceptional_enhancement.calculate_improvement(meta)` if one is given -/
  exceptional : Option Stat := none

/-- the gear stat after spell traces and scrolls: what star force is computed on -/
def scrolled (bp : Blueprint) : Stat :=
  bp.base.iadd ((pySum bp.spell_traces).add (pySum bp.scrolls))

/-- `GeneralizedGearBlueprint.build().stat`, statement by statement -/
def build (bp : Blueprint) : Except Err Stat :=
  let gear_stat := bp.base                                            -- self.meta.base_stat.model_copy()
  let spell_trace_and_scroll_stat := (pySum bp.spell_traces).add (pySum bp.scrolls)
  let gear_stat := gear_stat.iadd spell_trace_and_scroll_stat         -- gear_stat += ...
  match calculate_improvement bp.meta (SF.ofStat gear_stat) bp.star with
  | .error e => .error e
  | .ok sf =>
    let gear_stat := gear_stat.iadd (SF.toStat sf)                    -- gear_stat += starforce...(ref_stat=gear_stat)
    let bonus_stat := pySum bp.bonuses
    let gear_stat := gear_stat.iadd bonus_stat                        -- gear_stat += bonus_stat
    match bp.exceptional with
    | some e => .ok (gear_stat.iadd e)                                -- if self.exceptional_enhancement: +=
    | none => .ok gear_stat

/-- `PracticalGearBlueprint` (one spell trace or else one scroll, applied `max_scroll_chance` times) -/
structure Practical where
  «meta» : Meta
  base : Stat
  spell_trace : Option Stat := none
  scroll : Option Stat := none
  star : Int := 0
  bonuses : List Stat := []

/-- `translate_into_generalized_gear_blueprint` (`range(n)` is empty for `n ≤ 0`; the stars are cut to the cap) -/
def Practical.toGeneralized (p : Practical) : Blueprint :=
  let n := p.meta.max_scroll_chance.toNat
  { «meta» := p.meta, base := p.base,
    spell_traces := match p.spell_trace with
      | some s => List.replicate n s
      | none => [],
    scrolls := match p.spell_trace, p.scroll with
      | none, some s => List.replicate n s
      | _, _ => [],
    star := starCutoff p.meta p.star,
    bonuses := p.bonuses,
    exceptional := none }

def Practical.build (p : Practical) : Except Err Stat := GearBlueprint.build p.toGeneralized

end Simaple.Model.GearBlueprint
