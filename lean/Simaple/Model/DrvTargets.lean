import Simaple.Model.JsonUtil
import Simaple.Model.Targets
/-! driver entry points for the concrete optimizer targets (C19, part "Targets") -/
namespace Simaple.DrvTargets
open Lean Simaple.J Simaple.Gen Simaple.Py Simaple.Optimizer Simaple.Targets

def natList (j : Json) : Except String (List Nat) := do
  let a ← j.getArr?
  a.toList.mapM fun x => do
    let i ← Simaple.J.int x
    if i < 0 then throw "negative level" else pure i.toNat

def ofNat (n : Nat) : Json := Json.num (JsonNumber.fromNat n)
def ofNats (l : List Nat) : Json := .arr (l.map ofNat).toArray
def ofStrs (l : List String) : Json := .arr (l.map Json.str).toArray
def ofStat (s : Stat) : Json := ofRats s.toList
def ofAction (s : ActionStat) : Json := ofRats s.toList
def optJson {α : Type} (f : α → Json) : Option α → Json
  | some x => f x
  | none => Json.null

def getStat (j : Json) : Except String Stat := do
  match Stat.ofList (← ratList j) with | some s => pure s | none => throw "Stat: wrong field count"

def getLogic (j : Json) : Except String Logic := do
  let arc ← rat (← field j "arc")
  let m ← rat (← field j "mastery")
  match ← str (← field j "kind") with
  | "STRBasedDamageLogic" => pure (.str ⟨arc, m⟩)
  | "INTBasedDamageLogic" => pure (.int ⟨arc, m⟩)
  | "DEXBasedDamageLogic" => pure (.dex ⟨arc, m⟩)
  | "LUKBasedDamageLogic" => pure (.luk ⟨arc, m⟩)
  | "LUKBasedDualSubDamageLogic" => pure (.lukDual ⟨arc, m⟩)
  | k => throw s!"unknown damage logic {k}"

def getKind (s : String) : Except String Kind :=
  match s with
  | "hyperstat" => pure .hyperstat
  | "unionSquad" => pure .unionSquad
  | "unionOccupation" => pure .unionOccupation
  | "linkSkill" => pure .linkSkill
  | k => throw s!"unknown target kind {k}"

/-- `get_cost()` / `get_value()` of the target of the given kind in the given state
    (`large` = the `large_block_jobs` the union squad prototype was built with) -/
def costOf (kind : Kind) (state : State) : Option Int :=
  match kind with
  | .hyperstat => HyperstatTarget.get_cost kmsHyperstat state
  | .unionSquad => some (UnionSquadTarget.get_cost state)
  | .unionOccupation => some (UnionOccupationTarget.get_cost state)
  | .linkSkill => some (LinkSkillTarget.get_cost state)

def valueOf (kind : Kind) (c : Config) (large : List String) (state : State) : Option Rat :=
  match kind with
  | .hyperstat => HyperstatTarget.get_value c kmsHyperstat state
  | .unionSquad => UnionSquadTarget.get_value c (createWithSomeLargeBlocks large) state
  | .unionOccupation => UnionOccupationTarget.get_value c defaultUnionOccupation state
  | .linkSkill => LinkSkillTarget.get_value c kmsLinkSkillset state

def statOf (kind : Kind) (large : List String) (state : State) : Option Stat :=
  match kind with
  | .hyperstat => (kmsHyperstat.get_level_rearranged state).bind Hyperstat.get_stat
  | .unionSquad => ((createWithSomeLargeBlocks large).get_masked state).get_stat
  | .unionOccupation => (defaultUnionOccupation.get_occupation_rearranged state).bind UnionOccupation.get_stat
  | .linkSkill => (kmsLinkSkillset.get_masked state).get_stat

def problemOf (kind : Kind) (c : Config) (large : List String) (budget : Rat) (stepSize maxIter : Nat) : Problem :=
  match kind with
  | .hyperstat => hyperstatProblem c budget stepSize maxIter
  | .unionSquad => unionSquadProblem c (createWithSomeLargeBlocks large) budget stepSize maxIter
  | .unionOccupation => unionOccupationProblem c budget stepSize maxIter
  | .linkSkill => linkSkillProblem c budget stepSize maxIter

def targets (fn : String) (j : Json) : Option (Except String Json) :=
  match fn with
  | "tgt_tables" => some do
      pure (Json.mkObj [
        ("hyperstat_cost", ofInts Systems.hyperstat_cost),
        ("hyperstat_options", Json.arr (Systems.hyperstat_options.map fun o =>
            Json.arr #[Json.str o.1, Json.arr (o.2.map ofStat).toArray]).toArray),
        ("union_blocks", Json.arr (allBlocks.map fun b =>
            Json.arr #[Json.str b.job, Json.arr (b.options.map ofStat).toArray,
                       Json.arr (b.action_stat_options.map ofAction).toArray]).toArray),
        ("union_default_size", ofNat Systems.union_default_size),
        ("union_large_size", ofNat Systems.union_large_size),
        ("union_occupation_values", Json.arr (Systems.union_occupation_values.map fun row =>
            Json.arr (row.map fun c => Json.arr #[ofStat c.1, ofAction c.2]).toArray).toArray),
        ("union_occupation_empty_state", ofNats Systems.union_occupation_empty_state),
        ("union_occupation_buff_duration_state", ofNats Systems.union_occupation_buff_duration_state),
        ("link_skills", Json.arr (allLinkSkills.map fun l =>
            Json.arr #[Json.str l.name, ofStrs l.providing_jobs, Json.arr (l.options.map ofStat).toArray]).toArray),
        ("link_levels", ofNats kmsLinkSkillset.link_levels),
        ("maximum_step", Json.mkObj ([Kind.hyperstat, .unionSquad, .unionOccupation, .linkSkill].map fun k =>
            (className k, ofNat (maximumStep k)))),
        ("state_length", Json.mkObj [
            ("HyperstatTarget", ofNat kmsHyperstat.length), ("UnionSquadTarget", ofNat (createWithSomeLargeBlocks []).length),
            ("UnionOccupationTarget", ofNat defaultUnionOccupation.length), ("LinkSkillTarget", ofNat kmsLinkSkillset.length)])])
  | "tgt_max_cost" => some do
      let lv ← intList (← field j "levels")
      pure (ofInts (lv.map Hyperstat.get_maximum_cost_from_level))
  | "tgt_index" => some do
      let kind ← getKind (← str (← field j "kind"))
      let large ← (← list (fieldD j "large" (Json.arr #[]))).mapM str
      let jobs ← (← list (← field j "jobs")).mapM str
      match kind with
      | .unionSquad => pure (Json.arr (jobs.map fun jb => optJson ofNat ((createWithSomeLargeBlocks large).get_index jb)).toArray)
      | .linkSkill => pure (Json.arr (jobs.map fun jb => optJson ofNat (kmsLinkSkillset.get_index jb)).toArray)
      | _ => throw "get_index: union squad and link skills only"
  | "tgt_squad_sizes" => some do
      let large ← (← list (← field j "large")).mapM str
      pure (ofNats (createWithSomeLargeBlocks large).block_size)
  | "tgt_eval" => some do
      let kind ← getKind (← str (← field j "kind"))
      let large ← (← list (fieldD j "large" (Json.arr #[]))).mapM str
      let c : Config := { default_stat := ← getStat (← field j "default"), damage_logic := ← getLogic (← field j "logic"),
                          armor := ← rat (← field j "armor") }
      let states ← (← list (← field j "states")).mapM natList
      pure (Json.arr (states.map fun s => Json.mkObj [
        ("cost", optJson ofInt (costOf kind s)),
        ("value", optJson ofRat (valueOf kind c large s)),
        ("stat", optJson ofStat (statOf kind large s))]).toArray)
  | "tgt_optimize" => some do
      let kind ← getKind (← str (← field j "kind"))
      let large ← (← list (fieldD j "large" (Json.arr #[]))).mapM str
      let c : Config := { default_stat := ← getStat (← field j "default"), damage_logic := ← getLogic (← field j "logic"),
                          armor := ← rat (← field j "armor") }
      let P := problemOf kind c large (← rat (← field j "budget")) (← int (← field j "stepSize")).toNat
        (← int (fieldD j "maxIter" (Json.str "999"))).toNat
      let s0 ← natList (← field j "init")
      match optimize P s0 with
      | .ok r => pure (Json.mkObj [("state", ofNats r), ("cost", ofRat (P.cost r)), ("value", ofRat (P.value r)),
                                   ("n", ofNat P.n), ("maxStep", ofNat P.maxStep)])
      | .error e => pure (Json.mkObj [("error", Json.str e.name)])
  | "tgt_steps" => some do     -- the model's judgement of given steps: reward of the given increment, best increment, best reward
      let kind ← getKind (← str (← field j "kind"))
      let large ← (← list (fieldD j "large" (Json.arr #[]))).mapM str
      let c : Config := { default_stat := ← getStat (← field j "default"), damage_logic := ← getLogic (← field j "logic"),
                          armor := ← rat (← field j "armor") }
      let P := problemOf kind c large (← rat (← field j "budget")) (← int (← field j "stepSize")).toNat
        (← int (fieldD j "maxIter" (Json.str "999"))).toNat
      let states ← (← list (← field j "states")).mapM natList
      let incs ← (← list (← field j "incs")).mapM natList
      pure (Json.arr ((states.zip incs).map fun (s, inc) =>
        let chosen := if inc.length = 0 then Json.null else
          match getReward P s inc (P.cost s) (P.value s) with
          | .ok r => ofRat r
          | .error e => Json.str e.name
        match bestLoop P s (P.cost s) (P.value s) P.increments [] INITIAL_REWARD with
        | .ok (best, r) => Json.mkObj [("chosen", chosen), ("best", ofNats best), ("bestReward", ofRat r)]
        | .error e => Json.mkObj [("chosen", chosen), ("error", Json.str e.name)]).toArray)
  | _ => none

end Simaple.DrvTargets
