import Simaple.Gen.Core
/-!
`DamageCalculator.get_damage` of simaple/simulate/report/dpm.py (hand-written, statement by statement;
the damage logic is a parameter: its two factor functions, which are the generated definitions of
`Simaple.Gen.Core` at every use).

```python
def get_damage(self, log: DamageLog):
    buffed_stat = self.character_spec + log.buff
    if log.tag == Tag.DAMAGE:   damage_factor = self.damage_logic.get_damage_factor(buffed_stat, self.armor)
    elif log.tag == Tag.DOT:    damage_factor = self.damage_logic.get_dot_factor(buffed_stat, self.armor)
    else:                       raise ValueError
    return (log.damage * 0.01) * log.hit * damage_factor * self.level_advantage * self.force_advantage
```
-/
namespace Simaple.Model.DamageCalc
open Simaple.Gen

def tagDamage : String := "global.damage"
def tagDot : String := "global.dot"

/-- the returned product, in the order Python multiplies -/
def damageFormula (damage hit factor levelAdvantage forceAdvantage : Rat) : Rat :=
  ((((damage * (1 / 100 : Rat)) * hit) * factor) * levelAdvantage) * forceAdvantage

structure Calculator where
  character_spec : Stat
  damageFactor : Stat → Rat → Rat
  dotFactor : Stat → Rat → Rat
  armor : Rat := 300
  level_advantage : Rat := 1
  force_advantage : Rat := 1

structure Log where
  damage : Rat
  hit : Rat
  buff : Stat
  tag : String

def getDamage (self : Calculator) (log : Log) : Except String Rat :=
  let buffed_stat := self.character_spec.add log.buff
  if log.tag = tagDamage then
    .ok (damageFormula log.damage log.hit (self.damageFactor buffed_stat self.armor)
      self.level_advantage self.force_advantage)
  else if log.tag = tagDot then
    .ok (damageFormula log.damage log.hit (self.dotFactor buffed_stat self.armor)
      self.level_advantage self.force_advantage)
  else .error "ValueError"

end Simaple.Model.DamageCalc
