import Simaple.Model.JsonUtil
import Simaple.Model.Dispatch
import Simaple.Model.Strategy
/-! driver entry points for the L3 dispatch model -/
namespace Simaple.DrvDispatch
open Lean Simaple.J Simaple.Dispatch

def getEv (j : Json) : Except String Ev := do
  pure ⟨← str (← field j "name"), ← str (← field j "method"), ← str (← field j "tag"),
        ← str (← field j "handler"), ← str (← field j "payload")⟩

def evJson (e : Ev) : Json :=
  Json.mkObj [("name", .str e.name), ("method", .str e.method), ("tag", .str e.tag),
    ("handler", .str e.handler), ("payload", .str e.payload)]

def strList (j : Json) : Except String (List String) := do (← list j).mapM str

def pairList (j : Json) : Except String (List (String × String)) := do
  (← list j).mapM (fun p => do
    match ← list p with
    | [a, b] => pure (← str a, ← str b)
    | _ => throw "pair expected")

def dispatch (fn : String) (j : Json) : Option (Except String Json) :=
  match fn with
  | "tag_events" => some do
      let evs ← (← list (← field j "events")).mapM getEv
      pure (.arr ((tagEvents (← str (← field j "comp")) (← str (← field j "method")) evs).map evJson).toArray)
  | "find_mapping" => some do
      let keys ← strList (← field j "keys")
      let targets ← strList (← field j "targets")
      pure (.arr (targets.map (fun t => match findMapping keys t with | some k => Json.str k | none => Json.null)).toArray)
  | "resolve" => some do
      let names ← strList (← field j "names")
      let c ← str (← field j "comp")
      pure (.arr (names.map (fun n => Json.str (resolve c n))).toArray)
  | "bound_addrs" => some do
      -- entity content is irrelevant for the bound addresses: ε := Unit
      let defaults ← strList (← field j "defaults")
      let binds ← pairList (← field j "binds")
      let c : Comp Unit := ⟨← str (← field j "comp"), defaults.map (fun d => (d, ())), binds⟩
      pure (Json.mkObj [("names", .arr (c.boundNames.map (fun p => Json.arr #[.str p.1, .str p.2])).toArray),
                        ("addrs", .arr (c.boundAddrs.map Json.str).toArray)])
  | "cast_by_priority" => some do
      let order ← strList (← field j "order")
      let vs ← (← list (← field j "validity")).mapM (fun v => do
        pure (⟨← str (← field v "name"), ← (← field v "valid").getBool?⟩ : Simaple.Strategy.V))
      let rs ← (← list (← field j "running")).mapM (fun r => do
        match ← list r with
        | [n, t] => pure (← str n, ← int t)
        | _ => throw "running pair")
      pure (match Simaple.Strategy.castByPriority order vs rs with | some n => Json.str n | none => Json.null)
  | _ => none

end Simaple.DrvDispatch
