import Simaple.Model.JsonUtil
import Simaple.Gen.Core
/-! driver entry points for the generated core definitions (translator self-check, C11/C12) -/
namespace Simaple.Drv
open Lean Simaple.J Simaple.Gen Simaple.Py

def getStat (j : Json) : Except String Stat := do
  match Stat.ofList (← ratList j) with | some s => pure s | none => throw "Stat: wrong field count"
def getAction (j : Json) : Except String ActionStat := do
  match ActionStat.ofList (← ratList j) with | some s => pure s | none => throw "ActionStat: wrong field count"
def getLevel (j : Json) : Except String LevelStat := do
  match LevelStat.ofList (← ratList j) with | some s => pure s | none => throw "LevelStat: wrong field count"

def logicFns (kind : String) (arc mastery : Rat) (fn : String) (s : Stat) (armor : Rat) : Except String Rat :=
  match kind with
  | "STRBasedDamageLogic" =>
    let l : STRBasedDamageLogic := ⟨arc, mastery⟩
    match fn with
    | "get_damage_factor" => .ok (l.get_damage_factor s armor)
    | "get_dot_factor" => .ok (l.get_dot_factor s armor)
    | "get_maximum_attack_range" => .ok (l.get_maximum_attack_range s)
    | "get_minimum_attack_range" => .ok (l.get_minimum_attack_range s)
    | "get_armor_factor" => .ok (l.get_armor_factor s armor)
    | "get_critical_factor" => .ok (l.get_critical_factor s)
    | "get_base_stat_factor" => .ok (l.get_base_stat_factor s)
    | "get_major_stat" => .ok (l.get_major_stat s)
    | _ => .error "fn"
  | "INTBasedDamageLogic" =>
    let l : INTBasedDamageLogic := ⟨arc, mastery⟩
    match fn with
    | "get_damage_factor" => .ok (l.get_damage_factor s armor)
    | "get_dot_factor" => .ok (l.get_dot_factor s armor)
    | "get_maximum_attack_range" => .ok (l.get_maximum_attack_range s)
    | "get_minimum_attack_range" => .ok (l.get_minimum_attack_range s)
    | "get_armor_factor" => .ok (l.get_armor_factor s armor)
    | "get_critical_factor" => .ok (l.get_critical_factor s)
    | "get_base_stat_factor" => .ok (l.get_base_stat_factor s)
    | "get_major_stat" => .ok (l.get_major_stat s)
    | _ => .error "fn"
  | "DEXBasedDamageLogic" =>
    let l : DEXBasedDamageLogic := ⟨arc, mastery⟩
    match fn with
    | "get_damage_factor" => .ok (l.get_damage_factor s armor)
    | "get_dot_factor" => .ok (l.get_dot_factor s armor)
    | "get_maximum_attack_range" => .ok (l.get_maximum_attack_range s)
    | "get_minimum_attack_range" => .ok (l.get_minimum_attack_range s)
    | "get_armor_factor" => .ok (l.get_armor_factor s armor)
    | "get_critical_factor" => .ok (l.get_critical_factor s)
    | "get_base_stat_factor" => .ok (l.get_base_stat_factor s)
    | "get_major_stat" => .ok (l.get_major_stat s)
    | _ => .error "fn"
  | "LUKBasedDamageLogic" =>
    let l : LUKBasedDamageLogic := ⟨arc, mastery⟩
    match fn with
    | "get_damage_factor" => .ok (l.get_damage_factor s armor)
    | "get_dot_factor" => .ok (l.get_dot_factor s armor)
    | "get_maximum_attack_range" => .ok (l.get_maximum_attack_range s)
    | "get_minimum_attack_range" => .ok (l.get_minimum_attack_range s)
    | "get_armor_factor" => .ok (l.get_armor_factor s armor)
    | "get_critical_factor" => .ok (l.get_critical_factor s)
    | "get_base_stat_factor" => .ok (l.get_base_stat_factor s)
    | "get_major_stat" => .ok (l.get_major_stat s)
    | _ => .error "fn"
  | "LUKBasedDualSubDamageLogic" =>
    let l : LUKBasedDualSubDamageLogic := ⟨arc, mastery⟩
    match fn with
    | "get_damage_factor" => .ok (l.get_damage_factor s armor)
    | "get_dot_factor" => .ok (l.get_dot_factor s armor)
    | "get_maximum_attack_range" => .ok (l.get_maximum_attack_range s)
    | "get_minimum_attack_range" => .ok (l.get_minimum_attack_range s)
    | "get_armor_factor" => .ok (l.get_armor_factor s armor)
    | "get_critical_factor" => .ok (l.get_critical_factor s)
    | "get_base_stat_factor" => .ok (l.get_base_stat_factor s)
    | "get_major_stat" => .ok (l.get_major_stat s)
    | _ => .error "fn"
  | _ => .error "kind"

def core (fn : String) (j : Json) : Option (Except String Json) :=
  match fn with
  | "stat_fields" => some (pure (Json.arr (Stat.fieldNames.map Json.str).toArray))
  | "action_fields" => some (pure (Json.arr (ActionStat.fieldNames.map Json.str).toArray))
  | "level_fields" => some (pure (Json.arr (LevelStat.fieldNames.map Json.str).toArray))
  | "stat_add" => some do
      let a ← getStat (← field j "a"); let b ← getStat (← field j "b"); pure (ofRats (a.add b).toList)
  | "stat_iadd" => some do
      let a ← getStat (← field j "a"); let b ← getStat (← field j "b"); pure (ofRats (a.iadd b).toList)
  | "stat_stack" => some do
      let a ← getStat (← field j "a"); let n ← rat (← field j "n"); pure (ofRats (a.stack n).toList)
  | "stat_sum" => some do
      let xs ← (← list (← field j "xs")).mapM getStat; pure (ofRats (Stat.sum xs).toList)
  | "action_add" => some do
      let a ← getAction (← field j "a"); let b ← getAction (← field j "b"); pure (ofRats (a.add b).toList)
  | "action_iadd" => some do
      let a ← getAction (← field j "a"); let b ← getAction (← field j "b"); pure (ofRats (a.iadd b).toList)
  | "cooldown" => some do
      let a ← getAction (← field j "a"); let c ← rat (← field j "cd"); pure (ofRat (a.calculate_cooldown c))
  | "buff_duration" => some do
      let a ← getAction (← field j "a"); let c ← rat (← field j "d"); pure (ofRat (a.calculate_buff_duration c))
  | "level_add" => some do
      let a ← getLevel (← field j "a"); let b ← getLevel (← field j "b"); pure (ofRats (a.add b).toList)
  | "level_get_stat" => some do
      let a ← getLevel (← field j "a"); let l ← rat (← field j "level"); pure (ofRats (a.get_stat l).toList)
  | "ext_add" => some do
      let a : ExtendedStat := ⟨← getStat (← field j "as"), ← getAction (← field j "aa"), ← getLevel (← field j "al")⟩
      let b : ExtendedStat := ⟨← getStat (← field j "bs"), ← getAction (← field j "ba"), ← getLevel (← field j "bl")⟩
      pure (ofRats (a.add b).toList)
  | "ext_compute_by_level" => some do
      let a : ExtendedStat := ⟨← getStat (← field j "as"), ← getAction (← field j "aa"), ← getLevel (← field j "al")⟩
      let l ← rat (← field j "level"); pure (ofRats (a.compute_by_level l).toList)
  | "logic" => some do
      let r ← logicFns (← str (← field j "kind")) (← rat (← field j "arc")) (← rat (← field j "mastery"))
        (← str (← field j "m")) (← getStat (← field j "stat")) (← rat (← field j "armor"))
      pure (ofRat r)
  | "level_advantage" => some do
      match LevelAdvantage.get_advantage (← int (← field j "mob")) (← int (← field j "char")) with
      | some r => pure (ofRat r)
      | none => throw "IndexError"
  | _ => none

end Simaple.Drv
