import Lean.Data.Json
import Simaple.Model.PyPrelude
/-! JSON helpers for the line-protocol driver. Numbers travel as strings "num/den". -/
namespace Simaple.J
open Lean Simaple.Py

def rat (j : Json) : Except String Rat :=
  match j with
  | .str s => match parseRat? s with
    | some r => .ok r
    | none => .error s!"bad rational {s}"
  | .num n => .ok ((n.mantissa : Rat) / ((10 : Rat) ^ n.exponent))
  | _ => .error "rational expected"

def int (j : Json) : Except String Int :=
  match j with
  | .str s => match parseInt? s with
    | some r => .ok r
    | none => .error s!"bad int {s}"
  | _ => j.getInt?

def ratList (j : Json) : Except String (List Rat) := do
  let a ← j.getArr?
  a.toList.mapM rat

def intList (j : Json) : Except String (List Int) := do
  let a ← j.getArr?
  a.toList.mapM int

def field (j : Json) (k : String) : Except String Json := j.getObjVal? k

def fieldD (j : Json) (k : String) (d : Json) : Json :=
  match j.getObjVal? k with | .ok v => v | .error _ => d

def str (j : Json) : Except String String := j.getStr?

def list (j : Json) : Except String (List Json) := do
  let a ← j.getArr?
  pure a.toList

def ofRat (r : Rat) : Json := .str (showRat r)
def ofRats (rs : List Rat) : Json := .arr (rs.map ofRat).toArray
def ofInt (i : Int) : Json := .str (toString i)
def ofInts (rs : List Int) : Json := .arr (rs.map ofInt).toArray
def ok (j : Json) : Json := Json.mkObj [("ok", j)]
def err (s : String) : Json := Json.mkObj [("err", .str s)]

end Simaple.J
