/-!
# Bonus options ("추가옵션") of a gear and their inference from an observed stat

Hand model (core Lean only, `Int` arithmetic) of

* `simaple/gear/improvements/bonus.py`  — the improvement of one option `(kind, grade)`,
* `simaple/gear/bonus_factory.py`       — the 17 `BonusType`s,
* `simaple/gear/compute/bonus.py`       — `SDIL`, `SDILTableBuilder`, `CachedBonusTypeTable`,
  `StatBonusCalculator` (`_search_bonus`, `_search_bonus_recursive`, `_calculate_sdil`) and
  `BonusCalculator.compute`.

The Python is followed statement by statement, including
* the greedy single-valued stage (first grade *in probability order* whose value matches),
* the `remaining_sdil` that is **not reset** between the combinations of dual types
  (`remaining_sdil = remaining_sdil - sdil_dual` inside the `combinations` loop),
* the recursive search with its candidate kinds looked up by the non-zero mask of the remainder.

Modelling conventions
* All bonus values are integers (checked by the harness on every gear of the repository: base attack values
  are integral and the float expression `ceil(basis * mult * level_mult / 100)` equals the exact rational
  ceiling on all 3616 weapons x grades), so a `Stat` is modelled by the integer fields that a bonus option can
  touch (`Obs`); every other `Stat` field is 0 in every improvement.
* `req_level >= 0` on all data; then `//` and `%` by the (positive) bases are Lean's `/` and `%` on `Int`.
* `dict[BonusType, list[SDIL]]` (`_sdil_table`) is modelled as the function `lookup`; it is only ever indexed
  with grades `0..7`.
* Exceptions are values: `compute : Except String _`, the searches return `Option` like the Python (`None`).
  `Bonus.validate_grade` (boss reward and grade < 3) is `validateGrade`; it cannot fire inside `compute` because
  the grade lists for boss rewards start at 3 (`gradeRange`, `grades`).
-/
namespace Simaple.Bonus

/-- `BonusType` (same order as the enum) -/
inductive Kind where
  | allstat | str | dex | int | luk
  | strDex | strInt | strLuk | dexInt | dexLuk | intLuk
  | mmp | mhp | matt | att | boss | dmg
  deriving DecidableEq, Repr, Inhabited

/-- `SDIL.value`: (STR, DEX, INT, LUK) -/
@[ext] structure V4 where
  s : Int
  d : Int
  i : Int
  l : Int
  deriving DecidableEq, Repr, Inhabited

namespace V4
def zero : V4 := ⟨0, 0, 0, 0⟩
/-- `SDIL.__add__` -/
def add (a b : V4) : V4 := ⟨a.s + b.s, a.d + b.d, a.i + b.i, a.l + b.l⟩
/-- `SDIL.__sub__` -/
def sub (a b : V4) : V4 := ⟨a.s - b.s, a.d - b.d, a.i - b.i, a.l - b.l⟩
instance : Add V4 := ⟨add⟩
instance : Sub V4 := ⟨sub⟩
/-- `SDIL.is_zero` -/
def isZero (a : V4) : Bool := a.s == 0 && a.d == 0 && a.i == 0 && a.l == 0
/-- `SDIL.has_negative` -/
def hasNeg (a : V4) : Bool := decide (a.s < 0) || decide (a.d < 0) || decide (a.i < 0) || decide (a.l < 0)
/-- `max(self.value)` -/
def maxValue (a : V4) : Int :=
  let m1 := if a.d > a.s then a.d else a.s
  let m2 := if a.i > m1 then a.i else m1
  if a.l > m2 then a.l else m2
/-- `SDIL.max_type`: `self.value.index(max(self.value))` is the *first* position holding the maximum -/
def maxType (a : V4) : Kind :=
  let mv := a.maxValue
  if a.s = mv then .str else if a.d = mv then .dex else if a.i = mv then .int else .luk
/-- `SDIL.get_index`: bit `p` is set iff `value[p]` is truthy (non-zero), `for power in range(4)` -/
def index (a : V4) : Nat :=
  (if a.s ≠ 0 then 1 <<< 0 else 0) + (if a.d ≠ 0 then 1 <<< 1 else 0)
    + (if a.i ≠ 0 then 1 <<< 2 else 0) + (if a.l ≠ 0 then 1 <<< 3 else 0)
end V4

/-- the fields of `Stat` that a bonus option can touch -/
@[ext] structure Obs where
  /-- STR, DEX, INT, LUK -/
  sdil : V4
  /-- STR_multiplier, DEX_multiplier, INT_multiplier, LUK_multiplier -/
  mul : V4
  mhp : Int
  mmp : Int
  att : Int
  matt : Int
  boss : Int
  dmg : Int
  deriving DecidableEq, Repr, Inhabited

namespace Obs
def zero : Obs := ⟨.zero, .zero, 0, 0, 0, 0, 0, 0⟩
/-- `Stat.__add__` restricted to these (additive) fields -/
def add (a b : Obs) : Obs :=
  ⟨a.sdil + b.sdil, a.mul + b.mul, a.mhp + b.mhp, a.mmp + b.mmp, a.att + b.att, a.matt + b.matt,
   a.boss + b.boss, a.dmg + b.dmg⟩
instance : Add Obs := ⟨add⟩
end Obs

/-- what `AttackTypeBonus.calculate_improvement` reads from `meta.type` -/
inductive WClass where
  | notWeapon   -- `not meta.type.is_weapon()`
  | weapon      -- weapon other than Zero's swords
  | swordZB     -- `GearType.sword_zb`
  | swordZL     -- `GearType.sword_zl`
  deriving DecidableEq, Repr, Inhabited

/-- the part of `GearMeta` read by the bonus code -/
structure Meta where
  reqLevel : Int
  bossReward : Bool
  wclass : WClass
  /-- `meta.base_stat.attack_power` (integral on all data) -/
  baseAtt : Int
  /-- `meta.base_stat.magic_attack` -/
  baseMatt : Int
  deriving DecidableEq, Repr, Inhabited

abbrev Opt := Kind × Int

/-! ## improvements/bonus.py -/

/-- `Bonus.validate_grade` does not raise -/
def validateGrade (m : Meta) (g : Int) : Bool := !(m.bossReward && decide (g < 3))

/-- a grade that can exist on the gear: `conint(ge=1, le=7)` and not below 3 on a boss reward -/
def validGrade (m : Meta) (g : Int) : Bool :=
  decide (1 ≤ g) && decide (g ≤ 7) && validateGrade m g

/-- `SingleStatBonus.calculate_basis` -/
def singleBasis (reqLevel : Int) : Int := reqLevel / 20 + 1
/-- `DualStatBonus.calculate_basis` -/
def dualBasis (reqLevel : Int) : Int := reqLevel / 40 + 1

/-- `grade_multiplier[self.grade - 1]` times 10^4 (`[0, 0, 1, 1.4666, 2.0166, 2.663, 3.4166]` for boss rewards,
    `[1, 2.222, 3.63, 5.325, 7.32, 8.777, 10.25]` otherwise); grades outside 1..7 (negative-index wrap-around /
    IndexError in Python) never occur and give 0 here -/
def gradeMultiplierE4 (boss : Bool) (g : Int) : Int :=
  if boss then
    (if g = 1 then 0 else if g = 2 then 0 else if g = 3 then 10000 else if g = 4 then 14666
     else if g = 5 then 20166 else if g = 6 then 26630 else if g = 7 then 34166 else 0)
  else
    (if g = 1 then 10000 else if g = 2 then 22220 else if g = 3 then 36300 else if g = 4 then 53250
     else if g = 5 then 73200 else if g = 6 then 87770 else if g = 7 then 102500 else 0)

/-- the `basis` remapping of `GearType.sword_zl` (unknown values are kept; Python only prints a message) -/
def zlBasis (b : Int) : Int :=
  if b = 100 then 102 else if b = 103 then 105 else if b = 105 then 107 else if b = 112 then 114
  else if b = 117 then 121 else if b = 135 then 139 else if b = 169 then 173 else if b = 203 then 207
  else if b = 293 then 297 else if b = 337 then 342 else b

/-- `math.ceil(n / d)` for `d > 0` -/
def ceilDiv (n d : Int) : Int := -((-n) / d)

/-- the value of `AttackTypeBonus.calculate_improvement` -/
def attackValue (m : Meta) (g : Int) : Int :=
  match m.wclass with
  | .notWeapon => g
  | wc =>
    let gm := gradeMultiplierE4 m.bossReward g
    let basis0 := if m.baseAtt > m.baseMatt then m.baseAtt else m.baseMatt
    let zero := decide (wc = .swordZB) || decide (wc = .swordZL)
    let basis := if wc = .swordZL then zlBasis basis0 else basis0
    let levelMultiplier : Int :=
      if zero then
        (if m.reqLevel > 180 then 6 else if m.reqLevel > 160 then 5 else if m.reqLevel > 110 then 4 else 3)
      else if m.bossReward then
        (if m.reqLevel > 160 then 18 else if m.reqLevel > 150 then 15 else if m.reqLevel > 110 then 12 else 9)
      else (if m.reqLevel > 110 then 4 else 3)
    -- ceil(basis * grade_multiplier * level_multiplier / 100)
    ceilDiv (basis * gm * levelMultiplier) 1000000

def ofSdil (v : V4) : Obs := { Obs.zero with sdil := v }

/-- `BonusFactory.create(kind, grade).calculate_improvement(meta)` when `validate_grade` passes -/
def improve (m : Meta) (k : Kind) (g : Int) : Obs :=
  let sb := singleBasis m.reqLevel * g
  let db := dualBasis m.reqLevel * g
  match k with
  | .str => ofSdil ⟨sb, 0, 0, 0⟩
  | .dex => ofSdil ⟨0, sb, 0, 0⟩
  | .int => ofSdil ⟨0, 0, sb, 0⟩
  | .luk => ofSdil ⟨0, 0, 0, sb⟩
  | .strDex => ofSdil ⟨db, db, 0, 0⟩
  | .strInt => ofSdil ⟨db, 0, db, 0⟩
  | .strLuk => ofSdil ⟨db, 0, 0, db⟩
  | .dexInt => ofSdil ⟨0, db, db, 0⟩
  | .dexLuk => ofSdil ⟨0, db, 0, db⟩
  | .intLuk => ofSdil ⟨0, 0, db, db⟩
  | .allstat => { Obs.zero with mul := ⟨g, g, g, g⟩ }            -- Stat.all_stat_multiplier(grade)
  | .boss => { Obs.zero with boss := g * 2 }
  | .dmg => { Obs.zero with dmg := g }
  | .mhp => { Obs.zero with mhp := m.reqLevel / 10 * 30 * g }
  | .mmp => { Obs.zero with mmp := m.reqLevel / 10 * 30 * g }
  | .att => { Obs.zero with att := attackValue m g }
  | .matt => { Obs.zero with matt := attackValue m g }

/-- `calculate_improvement` with its `ValueError` -/
def improveChecked (m : Meta) (k : Kind) (g : Int) : Except String Obs :=
  if validateGrade m g then .ok (improve m k g) else .error "boss reward cannot assigned less than 3"

/-- the sum of the improvements of a list of options -/
def sumImprove (m : Meta) : List Opt → Obs
  | [] => .zero
  | o :: os => improve m o.1 o.2 + sumImprove m os

/-! ## compute/bonus.py -/

/-- `_stat_types` -/
def statTypes : List Kind := [.str, .dex, .int, .luk, .strDex, .strInt, .strLuk, .dexInt, .dexLuk, .intLuk]

/-- `grades` / `self._grades`: probability order -/
def grades (m : Meta) : List Int := if m.bossReward then [5, 4, 6, 3, 7] else [5, 4, 6, 3, 2, 1, 7]
/-- `grade_range` of `SDILTableBuilder.build` -/
def gradeRange (m : Meta) : List Int := if m.bossReward then [3, 4, 5, 6, 7] else [1, 2, 3, 4, 5, 6, 7]

/-- `self._sdil_table[t][g]` as built by `SDILTableBuilder.build`: the sentinel `(-1,-1,-1,-1)` for a grade
    outside the range, `SDIL.from_stat(improvement)` otherwise -/
def lookup (m : Meta) (t : Kind) (g : Int) : V4 :=
  if g ∈ gradeRange m then (improve m t g).sdil else ⟨-1, -1, -1, -1⟩

/-- the kinds sorted by `BonusType.value` (string order), as `sorted(list(bonus_types), key=lambda x: x.value)` -/
def statTypesByValue : List Kind :=
  [.dex, .dexInt, .dexLuk, .int, .intLuk, .luk, .str, .strDex, .strInt, .strLuk]

/-- `CachedBonusTypeTable._get_bonus_types` -/
def getBonusTypes (i : Nat) : List Kind :=
  statTypesByValue.filter fun t =>
    (decide (i &&& (1 <<< 0) ≠ 0) && decide (t ∈ [Kind.str, .strDex, .strInt, .strLuk]))
    || (decide (i &&& (1 <<< 1) ≠ 0) && decide (t ∈ [Kind.dex, .strDex, .dexInt, .dexLuk]))
    || (decide (i &&& (1 <<< 2) ≠ 0) && decide (t ∈ [Kind.int, .strInt, .dexInt, .intLuk]))
    || (decide (i &&& (1 <<< 3) ≠ 0) && decide (t ∈ [Kind.luk, .strLuk, .dexLuk, .intLuk]))

/-- `CachedBonusTypeTable.lookup` -/
def candLookup : List (List Kind) := (List.range 16).map getBonusTypes

/-- `CachedBonusTypeTable.get_types` -/
def getTypes (v : V4) : List Kind := candLookup[v.index]?.getD []

/-- `itertools.product(grades, repeat=n)` (first component varies slowest) -/
def product (gs : List Int) : Nat → List (List Int)
  | 0 => [[]]
  | n + 1 => gs.flatMap fun g => (product gs n).map (g :: ·)

/-- `itertools.combinations(xs, k)` -/
def combinations {α : Type} : List α → Nat → List (List α)
  | _, 0 => [[]]
  | [], _ + 1 => []
  | x :: xs, k + 1 => (combinations xs k).map (x :: ·) ++ combinations xs (k + 1)

/-- `SDIL.decompose_into_grades` (the generator as the list of what it yields, in order) -/
def decompose (gs : List Int) (left : Nat) (sb db maxV : Int) : List (Int × Option (List Int)) :=
  (List.range' 1 left).flatMap fun count =>
    gs.flatMap fun g =>
      let lv := maxV - g * sb
      (if lv = 0 then [(g, none)] else [])
      ++ (if lv % db = 0 then
            ((product gs (count - 1)).filter (fun tup => tup.sum = lv / db)).map (fun tup => (g, some tup))
          else [])

/-- `_dual_bonus_types[max_type]` -/
def dualTypes : Kind → List Kind
  | .str => [.strDex, .strInt, .strLuk]
  | .dex => [.strDex, .dexInt, .dexLuk]
  | .int => [.strInt, .dexInt, .intLuk]
  | .luk => [.strLuk, .dexLuk, .intLuk]
  | _ => []

/-- `_calculate_sdil` -/
def calcSdil (m : Meta) (ts : List Kind) (gs : List Int) : V4 :=
  (List.zip ts gs).foldl (fun acc tg => acc + lookup m tg.1 tg.2) V4.zero

/-- `_search_bonus_recursive`; `left` is a natural number because it only ever counts down from the number of
    free slots (`left <= 0` is `left = 0`) -/
def searchRec (m : Meta) : Nat → V4 → List Kind → Option (List Opt)
  | left, rem, forbidden =>
    if rem.isZero then some []
    else match left with
      | 0 => none
      | left' + 1 =>
        if rem.hasNeg then none
        else
          (getTypes rem).findSome? fun t =>
            if t ∈ forbidden then none
            else
              (grades m).findSome? fun g =>
                (searchRec m left' (rem - lookup m t g) (forbidden ++ [t])).map (· ++ [(t, g)])

/-- the `for dual_stat_types in combinations(...)` loop of `_search_bonus`; `rem` is the `remaining_sdil`
    carried from one combination to the next (it is **not** recomputed from the target) -/
def comboLoop (m : Meta) (leftCount : Nat) (mt : Kind) (g : Int) (duals : List Int) :
    V4 → List (List Kind) → Option (List Opt)
  | _, [] => none
  | rem, c :: cs =>
    let rem' := rem - calcSdil m c duals
    match searchRec m leftCount rem' ([mt] ++ c) with
    | some r => some (r ++ [(mt, g)] ++ List.zip c duals)
    | none => comboLoop m leftCount mt g duals rem' cs

/-- the body of the `for single_stat_grade, dual_stat_grades in decompose_into_grades(...)` loop -/
def tryDecomposition (m : Meta) (target : V4) (left : Nat) (mt : Kind) (x : Int × Option (List Int)) :
    Option (List Opt) :=
  let g := x.1
  let remaining := target - lookup m mt g
  match x.2 with
  | none =>
    (searchRec m (left - 1) remaining [mt]).map (· ++ [(mt, g)])
  | some duals =>
    comboLoop m (left - (1 + duals.length)) mt g duals remaining (combinations (dualTypes mt) duals.length)

/-- `StatBonusCalculator._search_bonus` -/
def searchBonus (m : Meta) (target : V4) (left : Nat) : Option (List Opt) :=
  if target.isZero then some []
  else
    let sb := singleBasis m.reqLevel
    let db := dualBasis m.reqLevel
    let mt := target.maxType
    match (decompose (grades m) left sb db target.maxValue).findSome? (tryDecomposition m target left mt) with
    | some r => some r
    | none => searchRec m left target []

/-- `single_properties` (by bonus kind) -/
def singleProps : List Kind := [.mhp, .mmp, .att, .matt, .boss, .dmg, .allstat]

/-- `stat.get(stat_type)` for the stat type paired with a single-valued kind (`STR_multiplier` for all-stat) -/
def readProp (k : Kind) (o : Obs) : Int :=
  match k with
  | .mhp => o.mhp | .mmp => o.mmp | .att => o.att | .matt => o.matt
  | .boss => o.boss | .dmg => o.dmg | .allstat => o.mul.s
  | _ => 0

/-- the `for single_property in single_properties` loop of `BonusCalculator.compute`;
    state = (`bonus_list`, `bonus_count_left`) -/
def greedy (m : Meta) (obs : Obs) : List Kind → List Opt → Int → Except String (List Opt × Int)
  | [], acc, left => .ok (acc, left)
  | k :: ks, acc, left =>
    if readProp k obs > 0 then
      match (grades m).find? (fun g => readProp k (improve m k g) == readProp k obs) with
      | some g => greedy m obs ks (acc ++ [(k, g)]) (left - 1)
      | none => .error "gear stat has invalid bonus"
    else greedy m obs ks acc left

/-- `bonus_key_func` -/
def bonusKey (o : Opt) : Int :=
  match o.1 with
  | .str => 0 * 100 + o.2 | .dex => 2 * 100 + o.2 | .int => 3 * 100 + o.2 | .luk => 4 * 100 + o.2
  | .strDex => 1000 + (0 + 2) * 100 + o.2 | .strInt => 1000 + (0 + 3) * 100 + o.2
  | .strLuk => 1000 + (0 + 4) * 100 + o.2 | .dexInt => 1000 + (2 + 3) * 100 + o.2
  | .dexLuk => 1000 + (2 + 4) * 100 + o.2 | .intLuk => 1000 + (3 + 4) * 100 + o.2
  | .mhp => 10000 + 0 * 100 + o.2 | .mmp => 10000 + 1 * 100 + o.2
  | .att => 100000 + 0 * 100 + o.2 | .matt => 100000 + 1 * 100 + o.2
  | .boss => 1000000 + o.2 | .dmg => 10000000 + o.2 | .allstat => 100000000 + o.2

/-- stable insertion into a list sorted by `bonusKey` -/
def insertByKey (x : Opt) : List Opt → List Opt
  | [] => [x]
  | y :: ys => if bonusKey y < bonusKey x then y :: insertByKey x ys else x :: y :: ys

/-- `sorted(bonus_list, key=bonus_key_func)` (stable) -/
def sortByKey (l : List Opt) : List Opt := l.foldr insertByKey []

/-- `_MAX_BONUS` -/
def maxBonus : Int := 4

/-- `BonusCalculator.compute(stat, gear)` -/
def compute (m : Meta) (obs : Obs) : Except String (List Opt) :=
  match greedy m obs singleProps [] maxBonus with
  | .error e => .error e
  | .ok (bonusList, left) =>
    if left < 0 then .error "gear stat has too many bonus values"
    else
      -- StatBonusCalculator.compute
      match searchBonus m obs.sdil left.toNat with
      | none => .error "gear stat has invalid bonus value or has too many bonus values"
      | some r => .ok (sortByKey (bonusList ++ r))

/-! ## the vocabulary of the property -/

/-- the gear data the model is faithful for (true of every gear of the repository) -/
def Meta.WellFormed (m : Meta) : Prop := 0 ≤ m.reqLevel

instance (m : Meta) : Decidable m.WellFormed := by unfold Meta.WellFormed; infer_instance

/-- a well-formed observed bonus stat: the single-valued fields are not negative and the four all-stat
    multipliers agree (`compute` reads only `STR_multiplier` and only positive values) -/
def Obs.WellFormed (o : Obs) : Prop :=
  0 ≤ o.mhp ∧ 0 ≤ o.mmp ∧ 0 ≤ o.att ∧ 0 ≤ o.matt ∧ 0 ≤ o.boss ∧ 0 ≤ o.dmg ∧ 0 ≤ o.mul.s
    ∧ o.mul.d = o.mul.s ∧ o.mul.i = o.mul.s ∧ o.mul.l = o.mul.s

instance (o : Obs) : Decidable o.WellFormed := by unfold Obs.WellFormed; infer_instance

/-- at most four options, of pairwise distinct kinds, each with a grade that can exist on the gear
    (1..7, and at least 3 on a boss reward) -/
def ValidOptions (m : Meta) (l : List Opt) : Prop :=
  l.length ≤ 4 ∧ (l.map Prod.fst).Nodup ∧ ∀ o ∈ l, validGrade m o.2 = true

instance (m : Meta) (l : List Opt) : Decidable (ValidOptions m l) := by unfold ValidOptions; infer_instance

deriving instance DecidableEq for Except

end Simaple.Bonus
