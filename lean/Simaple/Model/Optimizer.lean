/-!
# Model of `simaple/optimizer` (C19)

Hand-written, import-free, executable.  Follows

* `simaple/optimizer/step_iterator.py`   (`Iterator`)
* `simaple/optimizer/optimizer.py`       (`DiscreteTarget.get_stepped_target`, `StepwizeOptimizer`)
* the `clone()` methods of the four targets (`*_optimizer.py`)
* `simaple/optimizer/weapon_potential_optimizer.py` (candidate pruning, legality rule, brute force)

statement by statement.  The target is ABSTRACT: a state is one level per slot and the target
answers `cost` and `value` for a state (`get_cost()`, `get_value()` of the target whose `state` is
that list).  Python floats are exact rationals; Python exceptions are values of `Err`.
-/
namespace Simaple.Optimizer

abbrev State := List Nat

/-! ## step_iterator.py -/

/-- `single_iterator`: `(i,)` for `i in range(length)` -/
def singleIterator (n : Nat) : List (List Nat) := (List.range n).map fun i => [i]

/-- `itertools.combinations(l, 2)` as pairs, in the order itertools yields them -/
def comb2 : List Nat → List (Nat × Nat)
  | [] => []
  | x :: xs => xs.map (fun y => (x, y)) ++ comb2 xs

/-- `itertools.combinations(l, k)` (lexicographic in positions) -/
def combinations : List Nat → Nat → List (List Nat)
  | _, 0 => [[]]
  | [], _ + 1 => []
  | x :: xs, k + 1 => (combinations xs k).map (fun c => x :: c) ++ combinations (xs) (k + 1)

/-- `itertools.permutations(range(n), 2)` -/
def permutations2 (n : Nat) : List (Nat × Nat) :=
  (List.range n).flatMap fun i => ((List.range n).filter fun j => j != i).map fun j => (i, j)

/-- `double_iterator`: `(i, i)` then all 2-combinations -/
def doubleIterator (n : Nat) : List (List Nat) :=
  (List.range n).map (fun i => [i, i]) ++ (comb2 (List.range n)).map (fun p => [p.1, p.2])

/-- `triple_iterator` -/
def tripleIterator (n : Nat) : List (List Nat) :=
  (List.range n).map (fun i => [i, i, i])
    ++ (permutations2 n).map (fun p => [p.1, p.1, p.2])
    ++ combinations (List.range n) 3

/-- `quadruple_iterator` -/
def quadrupleIterator (n : Nat) : List (List Nat) :=
  (List.range n).map (fun i => [i, i, i, i])
    ++ (permutations2 n).map (fun p => [p.1, p.1, p.1, p.2])
    ++ (comb2 (List.range n)).map (fun p => [p.1, p.1, p.2, p.2])
    ++ (List.range n).flatMap (fun i =>
          (comb2 ((List.range n).filter fun idx => idx != i)).map fun p => [i, i, p.1, p.2])
    ++ combinations (List.range n) 4

/-- `cumulated_iterator(length, maximum_depth)` -/
def cumulatedIterator (n depth : Nat) : List (List Nat) :=
  (if depth ≥ 1 then singleIterator n else [])
    ++ (if depth ≥ 2 then doubleIterator n else [])
    ++ (if depth ≥ 3 then tripleIterator n else [])
    ++ (if depth ≥ 4 then quadrupleIterator n else [])

/-! ## optimizer.py -/

/-- the exceptions that the modelled code can raise -/
inductive Err where
  | zeroDivision                    -- `value / original_value`, `… / (cost - original_cost)`
  | indexError                      -- `new_state[step] += 1` with `step` out of range
  | typeError                       -- `raise TypeError` in `optimize`
  | maximumOptimizationStepExceed   -- the iteration guard
  deriving DecidableEq, Repr

def Err.name : Err → String
  | .zeroDivision => "ZeroDivisionError"
  | .indexError => "IndexError"
  | .typeError => "TypeError"
  | .maximumOptimizationStepExceed => "MaximumOptimizationStepExceed"

/-- `new_state[i] += 1` (for `i` in range) -/
def incr : State → Nat → State
  | [], _ => []
  | x :: xs, 0 => (x + 1) :: xs
  | x :: xs, i + 1 => x :: incr xs i

/-- the loop of `DiscreteTarget.get_stepped_target`:
    `for step in steps: new_state[step] += 1; if new_state[step] > self.maximum_step: return None`.
    `ok none` is Python's `None`; `ok (some s')` is the cloned target with state `s'`. -/
def getSteppedTarget (maxStep : Nat) : State → List Nat → Except Err (Option State)
  | s, [] => .ok (some s)
  | s, i :: rest =>
    if i < s.length then
      let s' := incr s i
      if s'.getD i 0 > maxStep then .ok none else getSteppedTarget maxStep s' rest
    else .error .indexError

/-- a `StepwizeOptimizer` together with the (abstract) target prototype it was given -/
structure Problem where
  /-- `target_prototype.state_length` -/
  n : Nat
  /-- `target_prototype.maximum_step` (`NO_MAXIMUM_STEP = 999999` when the target gave none) -/
  maxStep : Nat
  /-- `step_size` -/
  stepSize : Nat
  /-- `_maximum_iteration_count` (default 999) -/
  maxIter : Nat
  /-- `maximum_cost` -/
  budget : Rat
  /-- `get_cost()` of the target in the given state -/
  cost : State → Rat
  /-- `get_value()` of the target in the given state -/
  value : State → Rat

def NO_TARGET_REWARD : Rat := -999
def COST_EXCEED : Rat := -999
def INITIAL_REWARD : Rat := -1
def NO_MAXIMUM_STEP : Nat := 999999

/-- `get_increment_iterator` -/
def Problem.increments (P : Problem) : List (List Nat) := cumulatedIterator P.n P.stepSize

/-- `get_reward(target, increments, original_cost, original_value)`; `s` is `target.state` -/
def getReward (P : Problem) (s : State) (inc : List Nat) (c0 v0 : Rat) : Except Err Rat :=
  match getSteppedTarget P.maxStep s inc with
  | .error e => .error e
  | .ok none => .ok NO_TARGET_REWARD
  | .ok (some s') =>
    let cost := P.cost s'
    if cost > P.budget then .ok COST_EXCEED
    else
      let value := P.value s'
      if v0 = 0 then .error .zeroDivision                 -- value / original_value
      else
        let totalIncrement := value / v0 - 1
        if cost - c0 = 0 then .error .zeroDivision          -- total_increment / (cost - original_cost)
        else .ok (totalIncrement / (cost - c0))

/-- the `for increments in …` loop of `get_optimal_increment`, carrying
    `(best_increments, best_reward)` -/
def bestLoop (P : Problem) (s : State) (c0 v0 : Rat) :
    List (List Nat) → List Nat → Rat → Except Err (List Nat × Rat)
  | [], best, br => .ok (best, br)
  | inc :: rest, best, br =>
    match getReward P s inc c0 v0 with
    | .error e => .error e
    | .ok r => if r > br then bestLoop P s c0 v0 rest inc r else bestLoop P s c0 v0 rest best br

/-- `get_optimal_increment(target)`: the first increment with the strictly largest reward among
    those with reward `> INITIAL_REWARD = -1`; `[]` (Python `tuple()`) if there is none -/
def getOptimalIncrement (P : Problem) (s : State) : Except Err (List Nat) :=
  match bestLoop P s (P.cost s) (P.value s) P.increments [] INITIAL_REWARD with
  | .error e => .error e
  | .ok (best, _) => .ok best

/-- one pass through the body of `while True:` up to `target = new_target`;
    `ok none` = `break` -/
def stepOnce (P : Problem) (s : State) : Except Err (Option State) :=
  match getOptimalIncrement P s with
  | .error e => .error e
  | .ok inc =>
    if inc.length = 0 then .ok none
    else match getSteppedTarget P.maxStep s inc with
      | .error e => .error e
      | .ok none => .error .typeError
      | .ok (some s') => .ok (some s')

/-- the `while True:` loop; `fuel = _maximum_iteration_count - iteration_count`.  After a step
    `iteration_count += 1; if iteration_count > max: raise` — i.e. the step is fatal when no fuel
    is left. -/
def optimizeLoop (P : Problem) : Nat → State → Except Err State
  | 0, s =>
    match stepOnce P s with
    | .error e => .error e
    | .ok none => .ok s
    | .ok (some _) => .error .maximumOptimizationStepExceed
  | fuel + 1, s =>
    match stepOnce P s with
    | .error e => .error e
    | .ok none => .ok s
    | .ok (some s') => optimizeLoop P fuel s'

/-- `optimize()`; `s0` is the state of `target_prototype` (`clone()` keeps it); the result is
    `output.state` -/
def optimize (P : Problem) (s0 : State) : Except Err State := optimizeLoop P P.maxIter s0

/-- the same loop, also returning the accepted increments with their rewards (driver only) -/
def optimizeTrace (P : Problem) : Nat → State → List (List Nat × Rat) →
    List (List Nat × Rat) × Except Err State
  | fuel, s, acc =>
    match bestLoop P s (P.cost s) (P.value s) P.increments [] INITIAL_REWARD with
    | .error e => (acc.reverse, .error e)
    | .ok (inc, r) =>
      if inc.length = 0 then (acc.reverse, .ok s)
      else match getSteppedTarget P.maxStep s inc with
        | .error e => (acc.reverse, .error e)
        | .ok none => (acc.reverse, .error .typeError)
        | .ok (some s') =>
          match fuel with
          | 0 => (((inc, r) :: acc).reverse, .error .maximumOptimizationStepExceed)
          | fuel + 1 => optimizeTrace P fuel s' ((inc, r) :: acc)

/-! ## the four targets' constructor and `clone()`

`S`, `L`, `Pr`, `J` are the types of the reference stat block, the damage logic, the prototype
(`Hyperstat`, `UnionSquad`, `UnionOccupation`, `LinkSkillset`) and job ids; they stay abstract. -/

inductive Kind where
  | hyperstat | unionSquad | unionOccupation | linkSkill
  deriving DecidableEq, Repr

/-- the attributes a target object carries -/
structure Target (S L Pr J : Type) where
  kind : Kind
  default_stat : S
  damage_logic : L
  prototype : Pr
  preempted_jobs : List J
  armor : Rat
  maximum_step : Nat
  state_length : Nat
  state : State

/-- what the constructors need to know about the prototype: its `length()` and `get_index(job)` -/
structure ProtoOps (Pr J : Type) where
  length : Pr → Nat
  getIndex : Pr → J → Nat

/-- `maximum_step` each constructor passes to `DiscreteTarget.__init__`
    (hyperstat passes none: `-1` becomes `NO_MAXIMUM_STEP`) -/
def Kind.maximumStep : Kind → Nat
  | .hyperstat => NO_MAXIMUM_STEP
  | .unionSquad => 1
  | .unionOccupation => 40
  | .linkSkill => 1

/-- `self.state[index] = 1` -/
def setOne : State → Nat → State
  | [], _ => []
  | _ :: xs, 0 => 1 :: xs
  | x :: xs, i + 1 => x :: setOne xs i

/-- `__init__` of the four targets.  `armor` defaults to 300 in Python. -/
def Target.new {S L Pr J : Type} (ops : ProtoOps Pr J) (kind : Kind) (default_stat : S)
    (damage_logic : L) (prototype : Pr) (preempted_jobs : List J) (armor : Rat := 300) :
    Target S L Pr J :=
  let len := ops.length prototype
  let zero : State := List.replicate len 0
  { kind, default_stat, damage_logic, prototype, preempted_jobs, armor,
    maximum_step := kind.maximumStep,
    state_length := len,
    state := match kind with
      | .unionSquad | .linkSkill =>      -- initialize_state_from_preempted_jobs
        preempted_jobs.foldl (fun st job => setOne st (ops.getIndex prototype job)) zero
      | _ => zero }

def Target.setState {S L Pr J : Type} (t : Target S L Pr J) (s : State) : Target S L Pr J :=
  { t with state := s }

/-- `clone()`: rebuild from the stored attributes (including `armor=self.armor`), then
    `set_state(self.state)` -/
def Target.clone {S L Pr J : Type} (ops : ProtoOps Pr J) (t : Target S L Pr J) : Target S L Pr J :=
  (Target.new ops t.kind t.default_stat t.damage_logic t.prototype t.preempted_jobs t.armor).setState
    t.state

/-- the objective of a target: what `get_cost` / `get_value` read -/
structure Objective (S L Pr : Type) where
  /-- `get_cost()`: from the prototype and the state -/
  cost : Kind → Pr → State → Rat
  /-- `get_value()`: `damage_logic.get_damage_factor(default_stat + stat_of(prototype, state), armor)` -/
  value : Kind → S → L → Pr → State → Rat → Rat

def Target.getCost {S L Pr J : Type} (o : Objective S L Pr) (t : Target S L Pr J) : Rat :=
  o.cost t.kind t.prototype t.state
def Target.getValue {S L Pr J : Type} (o : Objective S L Pr) (t : Target S L Pr J) : Rat :=
  o.value t.kind t.default_stat t.damage_logic t.prototype t.state t.armor

/-! ## weapon_potential_optimizer.py

`α` is the type of one potential line (a `Stat` of `_WEAPON_POTENTIALS`). -/

structure WeaponProblem (α : Type) where
  /-- `stat.boss_damage_multiplier > 0` -/
  isBoss : α → Bool
  /-- `stat.ignored_defence > 0` -/
  isIed : α → Bool
  /-- the test of `get_useful_candidates`: the factor next to the protection stat rises -/
  useful : α → Bool
  /-- `[_WEAPON_POTENTIALS[tier] for tier in self.tiers]` -/
  tiers : List (List α)
  /-- `get_reward(weapon.get_stat() + sub_weapon.get_stat() + emblem.get_stat())` -/
  reward : List α → List α → List α → Rat
  /-- `get_reward(potential.get_stat())` (single potential, `get_optimal_potential`) -/
  reward1 : List α → Rat

/-- `itertools.product(*lists)` -/
def product {α : Type} : List (List α) → List (List α)
  | [] => [[]]
  | l :: ls => l.flatMap fun x => (product ls).map fun c => x :: c

/-- `get_useful_candidates(tier)` -/
def WeaponProblem.usefulCandidates {α : Type} (W : WeaponProblem α) (tier : List α) : List α :=
  tier.filter W.useful

/-- the two `continue` tests of `get_potential_candidates` -/
def WeaponProblem.legal {α : Type} (W : WeaponProblem α) (emblem : Bool) (stats : List α) : Bool :=
  let boss := stats.countP W.isBoss
  let ied := stats.countP W.isIed
  if emblem && boss > 0 then false
  else if boss > 2 || ied > 2 then false
  else true

/-- `get_potential_candidates(tiers, emblem)` -/
def WeaponProblem.potentialCandidates {α : Type} (W : WeaponProblem α) (emblem : Bool) :
    List (List α) :=
  (product (W.tiers.map W.usefulCandidates)).filter (W.legal emblem)

/-- `if reward > maximum_reward: maximum_reward, optimal = reward, x` over a list of candidates;
    `none` is the initial `Potential()` -/
def argmaxLoop {β : Type} (f : β → Rat) : List β → Option β → Rat → Option β × Rat
  | [], best, m => (best, m)
  | x :: xs, best, m => if f x > m then argmaxLoop f xs (some x) (f x) else argmaxLoop f xs best m

/-- `get_optimal_potential()` -/
def WeaponProblem.getOptimalPotential {α : Type} (W : WeaponProblem α) : Option (List α) :=
  (argmaxLoop W.reward1 (W.potentialCandidates false) none 0).1

/-- the three nested `for` loops of `get_full_optimal_potential` share one accumulator, i.e. they
    are one loop over the triples in this order -/
def WeaponProblem.triples {α : Type} (W : WeaponProblem α) : List (List α × List α × List α) :=
  (W.potentialCandidates false).flatMap fun w =>
    (W.potentialCandidates false).flatMap fun s =>
      (W.potentialCandidates true).map fun e => (w, s, e)

/-- `get_full_optimal_potential()`; `none` = `(Potential(), Potential(), Potential())` -/
def WeaponProblem.getFullOptimalPotential {α : Type} (W : WeaponProblem α) :
    Option (List α × List α × List α) :=
  (argmaxLoop (fun t => W.reward t.1 t.2.1 t.2.2) W.triples none 0).1

end Simaple.Optimizer
