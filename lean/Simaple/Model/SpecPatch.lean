import Simaple.Model.SpecMath
/-!
Model of `simaple/spec/patch.py` (`DFSTraversePatch._apply`, `ArithmeticPatch`, `StringPatch`,
`KeywordExtendPatch`) and `simaple/spec/spec.py` (`Spec.interpret`).

Documents are the values `yaml.safe_load` produces: scalars (None / bool / number / str), lists, dicts with
insertion order and scalar keys.  ints and floats are one kind of number (exact `Rat`); Python's key equality
`True == 1 == 1.0` is `pyEq`.  The code is followed branch by branch:

* a list is rebuilt element by element;
* a scalar that is an int / float / str / bool goes through `patch_value`; `raw if patch is None else patch`;
* anything else is treated as a dict - so a `None` list element (or root) raises AttributeError;
* in a dict, `exclude` must be a list (else TypeError); keys equal to an element of it, and the key `exclude`,
  are dropped; a dict- or list-valued entry keeps its key *unpatched* and recurses into the value; any other
  entry goes through `patch_dict(k, v)`, whose result (a dict) is merged with `update`.
-/
namespace Simaple.Spec

inductive Scalar
  | null
  | bool (b : Bool)
  | num (q : Rat)
  | str (s : Str)
  deriving DecidableEq

inductive Doc
  | leaf (s : Scalar)
  | list (xs : List Doc)
  | dict (kvs : List (Scalar × Doc))

/-- Python `==` on scalars (bool is an int) -/
def pyEq : Scalar → Scalar → Bool
  | .null, .null => true
  | .bool a, .bool b => a == b
  | .num a, .num b => a == b
  | .str a, .str b => a == b
  | .bool a, .num q => q == (if a then 1 else 0)
  | .num q, .bool a => q == (if a then 1 else 0)
  | _, _ => false

/-- `d[k] = v` on an insertion-ordered dict: an equal key keeps its place (and the old key object) -/
def dictSet (d : List (Scalar × Doc)) (k : Scalar) (v : Doc) : List (Scalar × Doc) :=
  match d with
  | [] => [(k, v)]
  | (k', v') :: rest => if pyEq k' k then (k', v) :: rest else (k', v') :: dictSet rest k v

def dictGet (d : List (Scalar × Doc)) (k : Scalar) : Option Doc :=
  match d with
  | [] => none
  | (k', v') :: rest => if pyEq k' k then some v' else dictGet rest k

/-- `d.update(pairs)` where the values are scalars -/
def dictUpdate (d : List (Scalar × Doc)) (pairs : List (Scalar × Scalar)) : List (Scalar × Doc) :=
  pairs.foldl (fun a kv => dictSet a kv.1 (.leaf kv.2)) d

def excludeKey : Scalar := .str ['e', 'x', 'c', 'l', 'u', 'd', 'e']

/-- `raw.get("exclude", []) + ["exclude"]`; list + non-list raises TypeError -/
def excludedKeys (kvs : List (Scalar × Doc)) : Except Err (List Doc) :=
  match dictGet kvs excludeKey with
  | none => .ok [.leaf excludeKey]
  | some (.list xs) => .ok (xs ++ [.leaf excludeKey])
  | some _ => .error .typeError

/-- `k in excluded_keys` -/
def isExcluded (ex : List Doc) (k : Scalar) : Bool :=
  ex.any (fun d => match d with
    | .leaf s => pyEq k s
    | _ => false)

/-- the two hooks of `DFSTraversePatch`; `origin` is the document `apply` was called on -/
structure Traverse where
  patchValue : Scalar → Doc → Except Err (Option Scalar)
  patchDict : Scalar → Scalar → Doc → Except Err (Option (List (Scalar × Scalar)))

mutual
/-- `DFSTraversePatch._apply(raw, origin)` -/
def applyT (p : Traverse) (origin : Doc) : Doc → Except Err Doc
  | .list xs =>
    match applyList p origin xs with
    | .ok ys => .ok (.list ys)
    | .error e => .error e
  | .leaf .null => .error .attributeError
  | .leaf s =>
    match p.patchValue s origin with
    | .ok none => .ok (.leaf s)
    | .ok (some s') => .ok (.leaf s')
    | .error e => .error e
  | .dict kvs => applyDict p origin kvs
def applyList (p : Traverse) (origin : Doc) : List Doc → Except Err (List Doc)
  | [] => .ok []
  | x :: xs =>
    match applyT p origin x with
    | .ok y =>
      match applyList p origin xs with
      | .ok ys => .ok (y :: ys)
      | .error e => .error e
    | .error e => .error e
/-- the dict branch of `_apply` -/
def applyDict (p : Traverse) (origin : Doc) (kvs : List (Scalar × Doc)) : Except Err Doc :=
  match excludedKeys kvs with
  | .ok ex =>
    match applyEntries p origin ex kvs [] with
    | .ok r => .ok (.dict r)
    | .error e => .error e
  | .error e => .error e
/-- the `for k, v in raw.items()` loop; `acc` is `interpreted` -/
def applyEntries (p : Traverse) (origin : Doc) (ex : List Doc) :
    List (Scalar × Doc) → List (Scalar × Doc) → Except Err (List (Scalar × Doc))
  | [], acc => .ok acc
  | (k, v) :: rest, acc =>
    if isExcluded ex k then applyEntries p origin ex rest acc
    else
      match applyValue p origin k v acc with
      | .ok acc' => applyEntries p origin ex rest acc'
      | .error e => .error e
/-- the loop body for an entry that is not excluded -/
def applyValue (p : Traverse) (origin : Doc) (k : Scalar) :
    Doc → List (Scalar × Doc) → Except Err (List (Scalar × Doc))
  | .leaf sv, acc =>
    match p.patchDict k sv origin with
    | .ok none => .ok (dictSet acc k (.leaf sv))
    | .ok (some pairs) => .ok (dictUpdate acc pairs)
    | .error e => .error e
  | .list xs, acc =>
    match applyList p origin xs with
    | .ok ys => .ok (dictSet acc k (.list ys))
    | .error e => .error e
  | .dict kvs, acc =>
    match applyDict p origin kvs with
    | .ok d => .ok (dictSet acc k d)
    | .error e => .error e
end

/-- `DFSTraversePatch.apply(raw)` -/
def Traverse.apply (p : Traverse) (raw : Doc) : Except Err Doc := applyT p raw raw

/-! ### ArithmeticPatch -/

/-- Python `\s` of `re` on `str` (= `str.isspace`) -/
def pyIsSpace (c : Char) : Bool :=
  let n := c.toNat
  (9 ≤ n && n ≤ 13) || (28 ≤ n && n ≤ 32) || n == 0x85 || n == 0xA0 || n == 0x1680 ||
  (0x2000 ≤ n && n ≤ 0x200A) || n == 0x2028 || n == 0x2029 || n == 0x202F || n == 0x205F || n == 0x3000

/-- `re.compile(r"^\s*{{(.+)}}\s*$").search(value)` → `group(1)`: after the leading whitespace comes `{{`, the
    last two non-blank characters are `}}`, and what lies between is non-empty and has no newline -/
def templateBody (s : Str) : Option Str :=
  match s.dropWhile pyIsSpace with
  | c1 :: c2 :: rest =>
    if c1 == '{' && c2 == '{' then
      match rest.reverse.dropWhile pyIsSpace with
      | d1 :: d2 :: bodyRev =>
        if d1 == '}' && d2 == '}' && !bodyRev.isEmpty && !bodyRev.any (· == '\n') then some bodyRev.reverse
        else none
      | _ => none
    else none
  | _ => none

/-- `ArithmeticPatch.evaluate` -/
def evaluate (env : Env) : Scalar → Except Err Scalar
  | .str t =>
    match templateBody t with
    | some body =>
      match evaluateChars env body with
      | .ok q => .ok (.num q)
      | .error e => .error e
    | none => .ok (.str t)
  | s => .ok s

def arithmetic (env : Env) : Traverse where
  patchValue v _ :=
    match evaluate env v with
    | .ok r => .ok (some r)
    | .error e => .error e
  patchDict k v _ :=
    match evaluate env k with
    | .ok k' =>
      match evaluate env v with
      | .ok v' => .ok (some [(k', v')])
      | .error e => .error e
    | .error e => .error e

/-- `ArithmeticPatch(variables=env).apply(raw)` -/
def applyArith (env : Env) (raw : Doc) : Except Err Doc := (arithmetic env).apply raw

/-! ### StringPatch, KeywordExtendPatch -/

def isPrefix : Str → Str → Bool
  | [], _ => true
  | _ :: _, [] => false
  | a :: as, b :: bs => a == b && isPrefix as bs

/-- `s.replace(old, new)` for non-empty `old`: leftmost non-overlapping occurrences (`skip` characters of a
    matched occurrence are still to be dropped) -/
def replaceGo (old new : Str) : Str → Nat → Str
  | [], _ => []
  | _ :: cs, skip + 1 => replaceGo old new cs skip
  | c :: cs, 0 => if isPrefix old (c :: cs) then new ++ replaceGo old new cs (old.length - 1)
                  else c :: replaceGo old new cs 0

/-- Python `str.replace` -/
def pyReplace (s old new : Str) : Str :=
  if old.isEmpty then new ++ s.flatMap (fun c => c :: new) else replaceGo old new s 0

def isInfix (pat : Str) : Str → Bool
  | [] => pat.isEmpty
  | c :: cs => isPrefix pat (c :: cs) || isInfix pat cs

/-- `StringPatch.translate` -/
def translate (asIs toBe : List Str) : Scalar → Scalar
  | .str s => .str ((asIs.zip toBe).foldl (fun out p => pyReplace out p.1 p.2) s)
  | x => x

def stringPatch (asIs toBe : List Str) : Traverse where
  patchValue v _ := .ok (some (translate asIs toBe v))
  patchDict k v _ := .ok (some [(translate asIs toBe k, translate asIs toBe v)])

/-- the dict comprehension `{k.replace(kw, r): v for r in extends}` -/
def comprehension (pairs : List (Scalar × Scalar)) : List (Scalar × Scalar) :=
  pairs.foldl (fun d kv =>
    if d.any (fun e => pyEq e.1 kv.1) then d.map (fun e => if pyEq e.1 kv.1 then (e.1, kv.2) else e)
    else d ++ [kv]) []

def keywordExtend (kw : Str) (exts : List Str) : Traverse where
  patchValue _ _ := .ok none
  patchDict k v _ :=
    match k with
    | .str ks =>
      if isInfix kw ks then .ok (some (comprehension (exts.map (fun r => (.str (pyReplace ks kw r), v)))))
      else .ok none
    | _ => .error .typeError   -- `self.target_keyword in k` on a non-string

/-! ### Spec.interpret -/

/-- a patch as `interpret` sees it: its class name and its `apply` -/
structure Patch where
  name : String
  run : Doc → Except Err Doc

def Patch.arithmetic (env : Env) : Patch := ⟨"ArithmeticPatch", applyArith env⟩
def Patch.string (asIs toBe : List Str) : Patch := ⟨"StringPatch", (stringPatch asIs toBe).apply⟩
def Patch.keywordExtend (kw : Str) (exts : List Str) : Patch := ⟨"KeywordExtendPatch", (Simaple.Spec.keywordExtend kw exts).apply⟩

structure Spec where
  data : List (Scalar × Doc)
  patch : Option (List String) := none
  ignoreOverflowingPatch : Bool := true

/-- the two-pointer loop of `is_patch_fits_with_overflow` -/
def alignPatches : List String → List Patch → Bool × List Patch
  | [], _ => (true, [])
  | _ :: _, [] => (false, [])
  | n :: ns, p :: ps =>
    if p.name = n then
      let r := alignPatches ns ps
      (r.1, p :: r.2)
    else alignPatches (n :: ns) ps

def fitsWithOverflow (s : Spec) (patches : Option (List Patch)) : Bool × List Patch :=
  match s.patch, patches with
  | none, _ => (true, [])
  | some _, none => (false, [])
  | some names, some ps => alignPatches names ps

def fitsExactly (s : Spec) (patches : Option (List Patch)) : Bool :=
  match s.patch, patches with
  | none, none => true
  | none, some _ => false
  | some _, none => false
  | some names, some ps => ps.length == names.length && (ps.map (·.name)) == names

def runPatches : List Patch → Doc → Except Err Doc
  | [], d => .ok d
  | p :: ps, d =>
    match p.run d with
    | .ok d' => runPatches ps d'
    | .error e => .error e

/-- `Spec.interpret(patches)` -/
def interpret (s : Spec) (patches : Option (List Patch)) : Except Err Doc :=
  if s.ignoreOverflowingPatch then
    match fitsWithOverflow s patches with
    | (true, aligned) => runPatches aligned (.dict s.data)
    | (false, _) => .error .patchMismatch
  else
    if fitsExactly s patches then
      match patches with
      | none => .ok (.dict s.data)
      | some ps => runPatches ps (.dict s.data)
    else .error .patchMismatch

/-- `repository.get(i).interpret(patches)` as a step on the store of specs: result and store afterwards.
    `interpret` is modelled as a function of the stored spec and the patches only; that it really leaves
    `Spec.data` untouched (no aliasing between result and store) is what `check_C15.py` observes on the real
    objects. -/
def load (db : List Spec) (i : Nat) (ps : Option (List Patch)) : Except Err Doc × List Spec :=
  (match db[i]? with
    | some s => interpret s ps
    | none => .error .patchMismatch, db)

/-! ### what interpretation means: the specification -/

def isTemplate : Scalar → Bool
  | .str t => (templateBody t).isSome
  | _ => false

/-- the meaning of a scalar: a `{{ e }}` string is the number `e` evaluates to; anything else is itself -/
def subst (env : Env) : Scalar → Except Err Scalar
  | .str t =>
    match templateBody t with
    | some body =>
      match parseChars body with
      | .ok e =>
        match eval env e with
        | .ok q => .ok (.num q)
        | .error err => .error err
      | .error err => .error err
    | none => .ok (.str t)
  | s => .ok s

/-- the keys a dict asks to drop: the elements of its `exclude` list, and `exclude` itself -/
def excludeList (kvs : List (Scalar × Doc)) : List Doc :=
  match dictGet kvs excludeKey with
  | some (.list xs) => xs ++ [.leaf excludeKey]
  | _ => [.leaf excludeKey]

mutual
/-- every template anywhere (leaf, list element, dict key, dict value) replaced by its value, everything else
    kept, excluded keys dropped; a dict is rebuilt by inserting its (translated) entries in order -/
def specDoc (env : Env) : Doc → Except Err Doc
  | .leaf s =>
    match subst env s with
    | .ok s' => .ok (.leaf s')
    | .error e => .error e
  | .list xs =>
    match specList env xs with
    | .ok ys => .ok (.list ys)
    | .error e => .error e
  | .dict kvs =>
    match specEntries env (excludeList kvs) kvs with
    | .ok es => .ok (.dict (es.foldl (fun d kv => dictSet d kv.1 kv.2) []))
    | .error e => .error e
def specList (env : Env) : List Doc → Except Err (List Doc)
  | [] => .ok []
  | x :: xs =>
    match specDoc env x with
    | .ok y =>
      match specList env xs with
      | .ok ys => .ok (y :: ys)
      | .error e => .error e
    | .error e => .error e
def specEntries (env : Env) (ex : List Doc) : List (Scalar × Doc) → Except Err (List (Scalar × Doc))
  | [] => .ok []
  | (k, v) :: rest =>
    if isExcluded ex k then specEntries env ex rest
    else
      match subst env k with
      | .ok k' =>
        match specDoc env v with
        | .ok v' =>
          match specEntries env ex rest with
          | .ok es => .ok ((k', v') :: es)
          | .error e => .error e
        | .error e => .error e
      | .error e => .error e
end

def Doc.isContainer : Doc → Bool
  | .leaf _ => false
  | _ => true

def excludeOk (kvs : List (Scalar × Doc)) : Bool :=
  match dictGet kvs excludeKey with
  | none => true
  | some (.list _) => true
  | some _ => false

mutual
/-- documents `_apply` handles the way the specification says: no `None` as a list element,
    `exclude` (when present) is a list, and no template key in front of a dict or list value
    (the code does not pass such a key to `patch_dict`; see `template_key_of_container_not_replaced`) -/
def Doc.wf : Doc → Bool
  | .leaf s => s != .null
  | .list xs => Doc.wfList xs
  | .dict kvs => excludeOk kvs && Doc.wfEntries kvs
def Doc.wfList : List Doc → Bool
  | [] => true
  | x :: xs => Doc.wf x && Doc.wfList xs
def Doc.wfEntries : List (Scalar × Doc) → Bool
  | [] => true
  | (k, v) :: rest => Doc.wfValue k v && Doc.wfEntries rest
def Doc.wfValue (k : Scalar) : Doc → Bool
  | .leaf _ => true
  | .list xs => !isTemplate k && Doc.wfList xs
  | .dict kvs => !isTemplate k && excludeOk kvs && Doc.wfEntries kvs
end

end Simaple.Spec
