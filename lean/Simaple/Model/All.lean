import Simaple.Model.DrvCore
