import Simaple.Model.DrvComponent
import Simaple.Model.ComponentCommon
/-! driver entry points for the part `Common` of the L2 component models: the SAME fns `"reducer"` and
    `"cview"` as `DrvComponent.component`, answering only for the classes modelled in
    `Simaple/Model/ComponentCommon.lean` (and `MobComponent`), `none` for every other class.

    Every request first evaluates the decidable well-formedness / reachability predicates that the
    theorems of `Props/C0x_Common.lean` assume (`Inv`) on the harvested real state and parameters, and
    answers an error when one fails, so that the correspondence check also establishes that real runs
    satisfy the hypotheses. -/
namespace Simaple.DrvComponentCommon
open Lean Simaple.J Simaple.Entity Simaple.Comp Simaple.DrvEntity Simaple.DrvComponent

def pairList (j : Json) : Except String (List (Rat × Rat)) := do
  (← list j).mapM (fun e => do
    match ← list e with
    | [d, h] => pure (← rat d, ← rat h)
    | _ => throw "[damage, hit] expected")
def ppair (p : Json) (k : String) : Except String (Rat × Rat) := do
  match ← list (← field p k) with
  | [d, h] => pure (← rat d, ← rat h)
  | _ => throw "[damage, hit] expected"

def need (c : Bool) (what : String) : Except String Unit := if c then pure () else throw s!"hypothesis violated: {what}"

/-! codecs -/
def synP (p : Json) : Except String SynergySkill.P := do
  pure ⟨← pint p "cd_eff", ← pint p "lasting_duration", ← pint p "delay", ← prat p "damage", ← prat p "hit",
        ← pbool p "disable_validity"⟩
def clS (s : Json) : Except String SynergySkill.S := do
  pure ⟨← getCooldown (← field s "cooldown"), ← getLasting (← field s "lasting")⟩
def clSJ (s : SynergySkill.S) : Json := Json.mkObj [("cooldown", cooldownJson s.cooldown), ("lasting", lastingJson s.lasting)]

def hlP (p : Json) : Except String HitLimited.P := do
  pure ⟨← pint p "cd_eff", ← pint p "delay", ← prat p "periodic_damage", ← prat p "periodic_hit",
        ← pint p "lasting_duration", ← pint p "max_count"⟩
def hlS (s : Json) : Except String HitLimited.S := do
  pure ⟨← getCooldown (← field s "cooldown"), ← getPeriodic (← field s "periodic")⟩
def hlSJ (s : HitLimited.S) : Json :=
  Json.mkObj [("cooldown", cooldownJson s.cooldown), ("periodic", periodicJson s.periodic)]

def phP (p : Json) : Except String PeriodicHexa.P := do
  pure ⟨← pint p "cd_eff", ← pint p "delay", ← pairList (← field p "damage_and_hits"), ← prat p "periodic_damage",
        ← prat p "periodic_hit", ← pint p "lasting_duration", ← pbool p "disable_validity"⟩

def thP (p : Json) : Except String TripleHexa.P := do
  pure ⟨← pint p "cd_eff", ← pint p "delay", ← pairList (← field p "damage_and_hits"), ← ppair p "f1", ← ppair p "f2",
        ← ppair p "f3", ← pint p "lasting_duration", ← pbool p "disable_validity"⟩
def thS (s : Json) : Except String TripleHexa.S := do
  pure ⟨← getCooldown (← field s "cooldown"), ← getPeriodic (← field s "periodic_01"),
        ← getPeriodic (← field s "periodic_02"), ← getPeriodic (← field s "periodic_03")⟩
def thSJ (s : TripleHexa.S) : Json :=
  Json.mkObj [("cooldown", cooldownJson s.cooldown), ("periodic_01", periodicJson s.p1),
    ("periodic_02", periodicJson s.p2), ("periodic_03", periodicJson s.p3)]

def mhP (p : Json) : Except String MultipleHit.P := do
  pure ⟨← pint p "cd_eff", ← pint p "delay", ← pairList (← field p "damage_and_hits"), ← pbool p "disable_validity"⟩

def cbP (p : Json) : Except String ConsumableBuff.P := do
  pure ⟨← pint p "last_eff", ← pint p "delay", ← pint p "lasting_duration"⟩
def cbS (s : Json) : Except String ConsumableBuff.S := do
  pure ⟨← getConsumable (← field s "consumable"), ← getLasting (← field s "lasting")⟩
def cbSJ (s : ConsumableBuff.S) : Json :=
  Json.mkObj [("consumable", consumableJson s.consumable), ("lasting", lastingJson s.lasting)]

def sbP (p : Json) : Except String StackableBuff.P := do
  pure ⟨← pint p "cd_eff", ← pint p "last_eff", ← pint p "delay", ← pbool p "disable_validity"⟩
def sbS (s : Json) : Except String StackableBuff.S := do
  pure ⟨← getCooldown (← field s "cooldown"), ← getLasting (← field s "lasting"), ← getStack (← field s "stack")⟩
def sbSJ (s : StackableBuff.S) : Json :=
  Json.mkObj [("cooldown", cooldownJson s.cooldown), ("lasting", lastingJson s.lasting), ("stack", stackJson s.stack)]

def teP (p : Json) : Except String TemporalEnhancing.P := do
  pure ⟨← pint p "cd_eff", ← pint p "reforge_cd_eff", ← pint p "delay", ← prat p "damage", ← prat p "hit",
        ← prat p "reforged_damage", ← prat p "reforged_hit", ← pint p "reforged_multiple", ← pbool p "disable_validity"⟩
def teS (s : Json) : Except String TemporalEnhancing.S := do
  pure ⟨← getCooldown (← field s "cooldown"), ← getCooldown (← field s "reforged_cooldown")⟩
def teSJ (s : TemporalEnhancing.S) : Json :=
  Json.mkObj [("cooldown", cooldownJson s.cooldown), ("reforged_cooldown", cooldownJson s.reforgedCooldown)]

def pfP (p : Json) : Except String PeriodicWithFinish.P := do
  pure ⟨← pint p "cd_eff", ← pint p "delay", ← prat p "periodic_damage", ← prat p "periodic_hit",
        ← prat p "finish_damage", ← prat p "finish_hit", ← pint p "lasting_duration"⟩

def exc (r : Except String (α × List REv)) (enc : α → Json) : Json :=
  match r with
  | .ok r => out (enc r.1) r.2
  | .error e => DrvComponent.raised e

/-- the text Python's `json.dumps` gives the float `d` (table `params.float_text`: "num/den" ↦ text) -/
def floatText (p : Json) (d : Rat) : String :=
  match (do str (← field (← field p "float_text") (Simaple.Py.showRat d)) : Except String String) with
  | .ok s => s
  | .error _ => "?"

def mobS (s : Json) : Except String DOT := do getDot (← field s "dot")
def mobSJ (s : DOT) : Json := Json.mkObj [("dot", dotJson s)]

def reducer (cls m : String) (p s : Json) (payload : Json) : Except String Json := do
  match cls with
  | "SynergySkillComponent" =>
    let pp ← synP p; let st ← clS s
    match m with
    | "use" => let r := SynergySkill.use pp st; pure (out (clSJ r.1) r.2)
    | "elapse" => let r := SynergySkill.elapse pp (← int payload) st; pure (out (clSJ r.1) r.2)
    | _ => throw s!"unknown reducer {cls}.{m}"
  | "HitLimitedPeriodicDamageComponent" =>
    let pp ← hlP p; let st ← hlS s
    need (decide (HitLimited.PInv pp)) "HitLimited.PInv"
    need (decide (HitLimited.Inv pp st)) "HitLimited.Inv"
    match m with
    | "use" => pure (exc (HitLimited.use pp st) hlSJ)
    | "elapse" => let r := HitLimited.elapse pp (← int payload) st; pure (out (hlSJ r.1) r.2)
    | _ => throw s!"unknown reducer {cls}.{m}"
  | "PeriodicDamageConfiguratedHexaSkillComponent" =>
    let pp ← phP p; let st ← periodicS s
    need (decide st.periodic.WF) "Periodic.WF"
    match m with
    | "use" => pure (exc (PeriodicHexa.use pp st) periodicSJ)
    | "elapse" => let r := PeriodicHexa.elapse pp (← int payload) st; pure (out (periodicSJ r.1) r.2)
    | _ => throw s!"unknown reducer {cls}.{m}"
  | "TriplePeriodicDamageHexaComponent" =>
    let pp ← thP p; let st ← thS s
    need (decide (TripleHexa.Inv st)) "TripleHexa.Inv"
    match m with
    | "use" => pure (exc (TripleHexa.use pp st) thSJ)
    | "elapse" => let r := TripleHexa.elapse pp (← int payload) st; pure (out (thSJ r.1) r.2)
    | _ => throw s!"unknown reducer {cls}.{m}"
  | "MultipleHitHexaSkillComponent" =>
    let pp ← mhP p; let st ← attackS s
    match m with
    | "use" => let r := MultipleHit.use pp st; pure (out (attackSJ r.1) r.2)
    | "elapse" => let r := MultipleHit.elapse pp (← int payload) st; pure (out (attackSJ r.1) r.2)
    | _ => throw s!"unknown reducer {cls}.{m}"
  | "ConsumableBuffSkillComponent" =>
    let pp ← cbP p; let st ← cbS s
    need (decide st.consumable.WF) "Consumable.WF"
    match m with
    | "use" => let r := ConsumableBuff.use pp st; pure (out (cbSJ r.1) r.2)
    | "elapse" => let r := ConsumableBuff.elapse pp (← int payload) st; pure (out (cbSJ r.1) r.2)
    | _ => throw s!"unknown reducer {cls}.{m}"
  | "StackableBuffSkillComponent" =>
    let pp ← sbP p; let st ← sbS s
    match m with
    | "use" => let r := StackableBuff.use pp st; pure (out (sbSJ r.1) r.2)
    | "elapse" => let r := StackableBuff.elapse pp (← int payload) st; pure (out (sbSJ r.1) r.2)
    | _ => throw s!"unknown reducer {cls}.{m}"
  | "TemporalEnhancingAttackSkill" =>
    let pp ← teP p; let st ← teS s
    match m with
    | "use" => let r := TemporalEnhancing.use pp st; pure (out (teSJ r.1) r.2)
    | "elapse" => let r := TemporalEnhancing.elapse pp (← int payload) st; pure (out (teSJ r.1) r.2)
    | _ => throw s!"unknown reducer {cls}.{m}"
  | "PeriodicWithFinishSkillComponent" =>
    let pp ← pfP p; let st ← periodicS s
    need (decide st.periodic.WF) "Periodic.WF"
    match m with
    | "use" => pure (exc (PeriodicWithFinish.use pp st) periodicSJ)
    | "elapse" => let r := PeriodicWithFinish.elapse pp (← int payload) st; pure (out (periodicSJ r.1) r.2)
    | _ => throw s!"unknown reducer {cls}.{m}"
  | "MobComponent" =>
    let st ← mobS s
    need (decide st.WF) "DOT.WF"
    match m with
    | "add_dot" =>
      -- the request payload of `add_dot`: {name, damage, lasting_time} (plugin hook `enc_payload`)
      let a := payload
      let r := Mob.addDotEv st (← str (← field a "name")) (← rat (← field a "damage")) (← int (← field a "lasting_time"))
      pure (out (mobSJ r.1) r.2)
    | "elapse" =>
      let r := Mob.elapseEv (floatText p) st (← int payload)
      pure (out (mobSJ r.1) r.2)
    | _ => throw s!"unknown reducer {cls}.{m}"
  | _ => throw s!"unknown class {cls}"

def cview (cls v : String) (p s : Json) : Except String Json := do
  match cls, v with
  | "SynergySkillComponent", "validity" => pure (validityJson (SynergySkill.validity (← synP p) (← clS s)))
  | "SynergySkillComponent", "buff" => pure (.bool (SynergySkill.buffIsSome (← clS s)))
  | "SynergySkillComponent", "running" => pure (runningJson (SynergySkill.running (← clS s)))
  | "HitLimitedPeriodicDamageComponent", "validity" =>
      let pp ← hlP p; let st ← hlS s
      need (decide (HitLimited.PInv pp)) "HitLimited.PInv"
      need (decide (HitLimited.Inv pp st)) "HitLimited.Inv"
      pure (validityJson (HitLimited.validity pp st))
  | "PeriodicDamageConfiguratedHexaSkillComponent", "validity" =>
      pure (validityJson (PeriodicHexa.validity (← phP p) (← periodicS s)))
  | "PeriodicDamageConfiguratedHexaSkillComponent", "running" =>
      pure (runningJson (PeriodicHexa.running (← phP p) (← periodicS s)))
  | "TriplePeriodicDamageHexaComponent", "validity" => pure (validityJson (TripleHexa.validity (← thP p) (← thS s)))
  | "TriplePeriodicDamageHexaComponent", "running" => pure (runningJson (TripleHexa.running (← thP p) (← thS s)))
  | "TriplePeriodicDamageHexaComponent", "buff" => pure (.bool (TripleHexa.buffIsSome (← thS s)))
  | "MultipleHitHexaSkillComponent", "validity" => pure (validityJson (MultipleHit.validity (← mhP p) (← attackS s)))
  | "ConsumableBuffSkillComponent", "validity" => pure (validityJson (ConsumableBuff.validity (← cbP p) (← cbS s)))
  | "ConsumableBuffSkillComponent", "buff" => pure (.bool (ConsumableBuff.buffOn (← cbS s)))
  | "ConsumableBuffSkillComponent", "running" => pure (runningJson (ConsumableBuff.running (← cbP p) (← cbS s)))
  | "StackableBuffSkillComponent", "validity" => pure (validityJson (StackableBuff.validity (← sbP p) (← sbS s)))
  | "StackableBuffSkillComponent", "buff" => pure (.bool (StackableBuff.buffOn (← sbS s)))
  | "StackableBuffSkillComponent", "running" => pure (runningJson (StackableBuff.running (← sbS s)))
  | "TemporalEnhancingAttackSkill", "validity" => pure (validityJson (TemporalEnhancing.validity (← teP p) (← teS s)))
  | "PeriodicWithFinishSkillComponent", "validity" =>
      pure (validityJson (PeriodicWithFinish.validity (← pfP p) (← periodicS s)))
  | "PeriodicWithFinishSkillComponent", "running" =>
      pure (runningJson (PeriodicWithFinish.running (← pfP p) (← periodicS s)))
  | "AlwaysEnabledComponent", "buff" => pure (.bool AlwaysEnabled.buffIsSome)
  | "AlwaysEnabledComponent", "running" => pure (runningJson AlwaysEnabled.running)
  | _, _ => throw s!"unknown view {cls}.{v}"

def modelledClasses : List String :=
  ["SynergySkillComponent", "HitLimitedPeriodicDamageComponent", "PeriodicDamageConfiguratedHexaSkillComponent",
   "TriplePeriodicDamageHexaComponent", "MultipleHitHexaSkillComponent", "ConsumableBuffSkillComponent",
   "StackableBuffSkillComponent", "TemporalEnhancingAttackSkill", "PeriodicWithFinishSkillComponent",
   "AlwaysEnabledComponent", "MobComponent"]

def component (fn : String) (j : Json) : Option (Except String Json) :=
  match fn with
  | "reducer" =>
      match j.getObjVal? "cls" >>= Json.getStr? with
      | .ok c => if modelledClasses.contains c then some do
            reducer c (← str (← field j "method")) (← field j "params") (← field j "state") (fieldD j "payload" .null)
          else none
      | .error _ => none
  | "cview" =>
      match j.getObjVal? "cls" >>= Json.getStr? with
      | .ok c => if modelledClasses.contains c then some do
            cview c (← str (← field j "view")) (← field j "params") (← field j "state")
          else none
      | .error _ => none
  | "modelled_classes_common" => some (pure (.arr (modelledClasses.map Json.str).toArray))
  | _ => none

end Simaple.DrvComponentCommon
