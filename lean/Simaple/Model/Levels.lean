import Simaple.Model.PyPrelude
/-!
C16 -- level configuration of the shipped skill sets: hand models (core Lean only).

* `Ex` / `Ex.eval`: the arithmetic of `simaple/spec/_math.py` (`CalcTransformer`) over exact rationals, with the
  configured skill level as the distinguished variable (`SkillLevelPatch.translate` substitutes the decimal text of
  the level for the word `skill_level` before `ArithmeticPatch` evaluates the `{{ … }}` text).  The generated file
  `Simaple/Gen/Levels.lean` holds one `Ex` (and one directly written Lean function, tied by `rfl`) per shipped
  damage formula.
* `Ex.abs`: a syntactic sign/direction analysis of an `Ex` (proved sound in `Simaple/Proofs/Levels.lean`);
  `Formula.check` accepts a formula if the analysis says "non-decreasing" or, failing that, if it has no other
  variable and every unit step of its level range is non-decreasing (a finite computation).
* `getSkillLevel`: `SkillLevelPatch.get_skill_level` (simaple/data/jobs/patch.py).
* `excludeHexa`: `_exclude_hexa_skill` (simaple/data/jobs/builtin.py).
* `fdmAdd`, `ignAdd`: the two non-additive fields of `Stat.__add__`, as used by the V / hexa improvement patches.
-/
namespace Simaple.Model.Levels
open Simaple.Py

/-! ### the formula language -/

/-- `items[0] > items[1]` used as a number (`True` is `1`) -/
def pyGt (a b : Rat) : Rat := if a > b then 1 else 0
/-- `items[0] < items[1]` used as a number -/
def pyLt (a b : Rat) : Rat := if a < b then 1 else 0
/-- `math.ceil` -/
def pyCeil (a : Rat) : Rat := ((a.ceil : Int) : Rat)
/-- `math.floor` -/
def pyFloor (a : Rat) : Rat := ((a.floor : Int) : Rat)

/-- parse trees of the `_math.py` grammar (without `apply_attack_speed`, which no damage field uses) -/
inductive Ex where
  | num (q : Rat)
  | lvl
  | var (name : String)
  | add (a b : Ex)
  | sub (a b : Ex)
  | mul (a b : Ex)
  | div (a b : Ex)
  | idiv (a b : Ex)
  | gt (a b : Ex)
  | lt (a b : Ex)
  | neg (a : Ex)
  | min (a b : Ex)
  | max (a b : Ex)
  | ceil (a : Ex)
  | floor (a : Ex)
deriving Repr

/-- `CalcTransformer` over exact rationals.  Division by zero raises in Python and is `0` here; `Ex.safe` is the
    syntactic condition under which it cannot happen. -/
def Ex.eval (vars : String → Rat) (l : Int) : Ex → Rat
  | .num q => q
  | .lvl => (l : Rat)
  | .var n => vars n
  | .add a b => a.eval vars l + b.eval vars l
  | .sub a b => a.eval vars l - b.eval vars l
  | .mul a b => a.eval vars l * b.eval vars l
  | .div a b => a.eval vars l / b.eval vars l
  | .idiv a b => pyFloorDiv (a.eval vars l) (b.eval vars l)
  | .gt a b => pyGt (a.eval vars l) (b.eval vars l)
  | .lt a b => pyLt (a.eval vars l) (b.eval vars l)
  | .neg a => - a.eval vars l
  | .min a b => pyMin (a.eval vars l) (b.eval vars l)
  | .max a b => pyMax (a.eval vars l) (b.eval vars l)
  | .ceil a => pyCeil (a.eval vars l)
  | .floor a => pyFloor (a.eval vars l)

/-- no variable other than the level -/
def Ex.closed : Ex → Bool
  | .num _ => true
  | .lvl => true
  | .var _ => false
  | .add a b | .sub a b | .mul a b | .div a b | .idiv a b | .gt a b | .lt a b | .min a b | .max a b =>
    a.closed && b.closed
  | .neg a | .ceil a | .floor a => a.closed

/-- neither a variable nor the level -/
def Ex.const : Ex → Bool
  | .num _ => true
  | .lvl => false
  | .var _ => false
  | .add a b | .sub a b | .mul a b | .div a b | .idiv a b | .gt a b | .lt a b | .min a b | .max a b =>
    a.const && b.const
  | .neg a | .ceil a | .floor a => a.const

def noVars : String → Rat := fun _ => 0

/-- every divisor is a constant expression with a non-zero value: no `ZeroDivisionError` at any level -/
def Ex.safe : Ex → Bool
  | .num _ => true
  | .lvl => true
  | .var _ => true
  | .div a b | .idiv a b => a.safe && b.safe && b.const && decide (b.eval noVars 0 ≠ 0)
  | .add a b | .sub a b | .mul a b | .gt a b | .lt a b | .min a b | .max a b => a.safe && b.safe
  | .neg a | .ceil a | .floor a => a.safe

/-! ### sign / direction analysis -/

/-- what is known of a sub-expression as a function of the level, on levels `≥ 0` and variables `≥ 0`:
    `nn` value `≥ 0`, `np` value `≤ 0`, `up` non-decreasing, `dn` non-increasing (both: constant) -/
structure Abs where
  nn : Bool
  np : Bool
  up : Bool
  dn : Bool
deriving Repr, DecidableEq

def Abs.add (x y : Abs) : Abs := ⟨x.nn && y.nn, x.np && y.np, x.up && y.up, x.dn && y.dn⟩
def Abs.neg (x : Abs) : Abs := ⟨x.np, x.nn, x.dn, x.up⟩
def Abs.mul (x y : Abs) : Abs :=
  ⟨x.nn && y.nn, (x.nn && y.np) || (x.np && y.nn), x.nn && y.nn && x.up && y.up, x.nn && y.nn && x.dn && y.dn⟩
/-- reciprocal, of a constant only -/
def Abs.inv (y : Abs) : Abs := ⟨y.nn, y.np, y.up && y.dn, y.up && y.dn⟩
def Abs.min (x y : Abs) : Abs := ⟨x.nn && y.nn, x.np || y.np, x.up && y.up, x.dn && y.dn⟩
def Abs.max (x y : Abs) : Abs := ⟨x.nn || y.nn, x.np && y.np, x.up && y.up, x.dn && y.dn⟩
def Abs.gt (x y : Abs) : Abs := ⟨true, false, x.up && y.dn, x.dn && y.up⟩

def Ex.abs : Ex → Abs
  | .num q => ⟨decide (0 ≤ q), decide (q ≤ 0), true, true⟩
  | .lvl => ⟨true, false, true, false⟩
  | .var _ => ⟨true, false, true, true⟩
  | .add a b => a.abs.add b.abs
  | .sub a b => a.abs.add b.abs.neg
  | .mul a b => a.abs.mul b.abs
  | .div a b => a.abs.mul b.abs.inv
  | .idiv a b => a.abs.mul b.abs.inv
  | .gt a b => a.abs.gt b.abs
  | .lt a b => b.abs.gt a.abs
  | .neg a => a.abs.neg
  | .min a b => a.abs.min b.abs
  | .max a b => a.abs.max b.abs
  | .ceil a => a.abs
  | .floor a => a.abs

/-! ### formulas with their reachable level range -/

/-- non-decreasing on the integer interval `[lo, hi]` -/
def MonoOn (lo hi : Int) (g : Int → Rat) : Prop := ∀ a b : Int, lo ≤ a → a ≤ b → b ≤ hi → g a ≤ g b

/-- one shipped `{{ … }}` damage formula.  `fn` is the formula written directly in Lean, `ex` its parse tree; the
    generator ties them with `eq := fun _ _ => rfl`. -/
structure Formula where
  ident : String
  file : String
  group : String
  skill : String
  field : String
  source : String
  /-- how `SkillLevelPatch.get_skill_level` obtains the level of this spec -/
  configurable : Bool
  defaultLevel : Option Int
  passive : Bool
  combat : Bool
  lo : Int
  hi : Int
  ex : Ex
  fn : (String → Rat) → Int → Rat
  eq : ∀ vars l, fn vars l = ex.eval vars l

/-- every unit step of `[lo, lo + n]` is non-decreasing -/
def stepsOk (g : Int → Rat) (lo : Int) : Nat → Bool
  | 0 => true
  | n + 1 => stepsOk g lo n && decide (g (lo + n) ≤ g (lo + n + 1))

/-- the decision procedure behind `formula_mono`: the analysis says non-decreasing on levels `≥ 0`, or the formula
    is closed and all unit steps of its range are checked -/
def Formula.check (f : Formula) : Bool :=
  (f.ex.abs.up && decide (0 ≤ f.lo)) ||
  (f.ex.closed && stepsOk (f.ex.eval noVars) f.lo (f.hi - f.lo).toNat)

/-- the statement `formula_mono_<ident>`: for every non-negative assignment of the other variables the formula
    is non-decreasing in the level over the reachable range -/
def Formula.Stmt (f : Formula) : Prop :=
  ∀ vars : String → Rat, (∀ n, 0 ≤ vars n) → MonoOn f.lo f.hi (f.fn vars)

def statements (fs : List Formula) : List (String × Prop) :=
  fs.map fun f => ("formula_mono_" ++ f.ident, f.Stmt)

/-! ### `SkillLevelPatch.get_skill_level` -/

/-- the keys of a spec's `data` that `get_skill_level` reads.  `name = none`: key missing or falsy (`""`);
    `defaultLevel = none`: key missing (`origin.get("default_skill_level", 0)`) -/
structure Origin where
  name : Option String
  defaultLevel : Option Int
  passiveEnabled : Bool
  combatEnabled : Bool
deriving Repr, DecidableEq

/-- Python `dict.get` on an association list (first binding of the key) -/
def lookup (d : List (String × Int)) (k : String) : Option Int :=
  match d with
  | [] => none
  | (k', v) :: rest => if k' = k then some v else lookup rest k

/--
```
if origin.get("name") and origin["name"] in self.default_skill_levels:
    skill_level = self.default_skill_levels[origin["name"]]
else:
    skill_level = origin.get("default_skill_level", 0)
if origin.get("passive_skill_enabled", False): skill_level += self.passive_skill_level
if origin.get("combat_orders_enabled", False): skill_level += self.combat_orders_level
```
-/
def baseLevel (levels : List (String × Int)) (o : Origin) : Int :=
  match o.name.bind (lookup levels) with
  | some v => v
  | none => o.defaultLevel.getD 0

def getSkillLevel (levels : List (String × Int)) (passive combat : Int) (o : Origin) : Int :=
  let l := if o.passiveEnabled then baseLevel levels o + passive else baseLevel levels o
  if o.combatEnabled then l + combat else l

/-- pointwise order of two level dictionaries with the same keys in the same order -/
def LevelsLe : List (String × Int) → List (String × Int) → Prop
  | [], [] => True
  | (k, v) :: r, (k', v') :: r' => k = k' ∧ v ≤ v' ∧ LevelsLe r r'
  | _, _ => False

/-! ### `_exclude_hexa_skill` -/

inductive ExcludeErr where
  | lowMissing (name : String)
  | highMissing (name : String)
deriving Repr, DecidableEq

/-- the loop over `hexa_replacements.items()`: both names must be component names (the two `assert`s); the
    lower-tier name is collected when `skill_levels.get(high_tier, 0) > 0` -/
def collectExcluded (names : List String) (levels : List (String × Int)) :
    List (String × String) → Except ExcludeErr (List String)
  | [] => .ok []
  | (low, high) :: rest =>
    if ¬ (low ∈ names) then .error (.lowMissing low)
    else if ¬ (high ∈ names) then .error (.highMissing high)
    else
      match collectExcluded names levels rest with
      | .error e => .error e
      | .ok ex => if (lookup levels high).getD 0 > 0 then .ok (low :: ex) else .ok ex

/-- `_exclude_hexa_skill` on the list of component names (a component is kept iff its name is) -/
def excludeHexa (names : List String) (repl : List (String × String)) (levels : List (String × Int)) :
    Except ExcludeErr (List String) :=
  match collectExcluded names levels repl with
  | .error e => .error e
  | .ok ex => .ok (names.filter fun n => ¬ (n ∈ ex))

/-! ### the non-additive fields of `Stat.__add__` -/

/-- `final_damage_multiplier` of `a + b` -/
def fdmAdd (a b : Rat) : Rat := a + b + (1 / 100 : Rat) * a * b
/-- `ignored_defence` of `a + b` -/
def ignAdd (a b : Rat) : Rat := 100 - (1 / 100 : Rat) * ((100 - a) * (100 - b))

/-- both defined and ordered -/
def optLe : Option Rat → Option Rat → Bool
  | some x, some y => decide (x ≤ y)
  | _, _ => false

end Simaple.Model.Levels
