import Simaple.Model.JsonUtil
import Simaple.Model.Dsl
/-! driver entry points for the plan DSL model (C14).  Numbers travel as their token text
(`Dsl.tokNum`), the YAML header as its raw text (`Dsl.rawYaml`); the harness applies Python's
`float`/`repr`/`yaml.safe_load` to them. -/
namespace Simaple.Drv
open Lean Simaple.J Simaple.Dsl

def txt (t : Text) : Json := .str (String.ofList t)

def errName : Err → String
  | .syntax => "syntax" | .ambiguous => "ambiguous" | .valueError => "valueError" | .yaml => "yaml"

def cmdJson : Command tokNum → Json
  | .op o => Json.mkObj [("k", "op"), ("command", txt o.command), ("name", txt o.name),
      ("time", match o.time with | some t => txt t | none => Json.null), ("expr", txt o.expr)]
  | .console s => Json.mkObj [("k", "console"), ("text", txt s)]

def cmdsJson (r : Except Err (List (Command tokNum))) : Json :=
  match r with
  | .ok cs => Json.mkObj [("cmds", .arr (cs.map cmdJson).toArray)]
  | .error e => Json.mkObj [("error", .str (errName e))]

def tokJson : Tok → Json
  | .word s => Json.mkObj [("t", "word"), ("s", txt s)]
  | .str s => Json.mkObj [("t", "str"), ("s", txt s)]
  | .num s => Json.mkObj [("t", "num"), ("s", txt s)]
  | .debug => Json.mkObj [("t", "debug")]
  | .white s => Json.mkObj [("t", "white"), ("s", txt s)]
  | .comment s => Json.mkObj [("t", "comment"), ("s", txt s)]

def cmdOfJson (j : Json) : Except String (Command tokNum) := do
  let k ← (← field j "k").getStr?
  if k == "console" then
    pure (.console (← (← field j "text").getStr?).toList)
  else
    let c := (← (← field j "command").getStr?).toList
    let n := (← (← field j "name").getStr?).toList
    let shape ← (← field j "shape").getStr?
    let t := match (fieldD j "time" Json.null) with | .str s => s.toList | _ => []
    match shape with
    | "full" => pure (.op (mkFull tokNum c n t))
    | "time" => pure (.op (mkTime tokNum c t))
    | "skill" => pure (.op (mkSkill tokNum c n))
    | _ => throw "shape"

def dsl (fn : String) (j : Json) : Option (Except String Json) :=
  match fn with
  | "dsl_parse_body" => some do
      let s ← (← field j "text").getStr?
      pure (cmdsJson (parseText tokNum s.toList))
  | "dsl_parse_runtime" => some do
      let s ← (← field j "text").getStr?
      match parseRuntimeText tokNum rawYaml s.toList with
      | .ok (m, cs) =>
        pure (Json.mkObj [("header", txt m), ("cmds", .arr (cs.map cmdJson).toArray)])
      | .error e => pure (Json.mkObj [("error", .str (errName e))])
  | "dsl_lex" => some do
      let s ← (← field j "text").getStr?
      match lex s.toList with
      | some ts => pure (.arr (ts.map tokJson).toArray)
      | none => pure Json.null
  | "dsl_render_plan" => some do
      let d ← (← field j "dumped").getStr?
      let cs ← (← list (← field j "cmds")).mapM cmdOfJson
      pure (txt (renderPlanText d.toList cs))
  | "dsl_is_space" => some do
      let cps ← intList (← field j "cps")
      pure (.arr (cps.map (fun i => Json.bool (isPySpace (Char.ofNat i.toNat)))).toArray)
  | "dsl_strip" => some do
      let s ← (← field j "text").getStr?
      pure (txt (pyStrip s.toList))
  | "dsl_py_int" => some do
      let s ← (← field j "text").getStr?
      pure (match pyInt s.toList with | some i => ofInt i | none => Json.null)
  | _ => none

end Simaple.Drv
