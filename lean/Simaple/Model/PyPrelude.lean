/-! Python built-ins used by generated code, over exact rationals (core Lean only). -/
namespace Simaple.Py

/-- Python `min(a, b)`: returns `b` only if it is strictly smaller. -/
def pyMin (a b : Rat) : Rat := if b < a then b else a
/-- Python `max(a, b)`: returns `b` only if it is strictly larger. -/
def pyMax (a b : Rat) : Rat := if b > a then b else a
def pyAbs (a : Rat) : Rat := if a < 0 then -a else a
/-- Python `sum(xs)`: left fold starting from 0. -/
def pySum (xs : List Rat) : Rat := xs.foldl (· + ·) 0
/-- Python `a // b` on numbers (floor of the quotient); `b = 0` raises in Python and is never
    reached by generated code (denominators are non-zero literals). -/
def pyFloorDiv (a b : Rat) : Rat := ((a / b).floor : Int)
def pyMod (a b : Rat) : Rat := a - b * pyFloorDiv a b
/-- Python `int(x)`: truncation toward zero. -/
def pyTrunc (a : Rat) : Rat := if a < 0 then (((a).ceil : Int) : Rat) else ((a.floor : Int) : Rat)

/-- exact rendering used by the driver: "num/den" -/
def showRat (r : Rat) : String := toString r.num ++ "/" ++ toString r.den

def parseInt? (s : String) : Option Int :=
  if s.startsWith "-" then (s.drop 1).toNat?.map (fun n => - (n : Int)) else s.toNat?

/-- parse "num/den" or "num" -/
def parseRat? (s : String) : Option Rat :=
  match s.splitOn "/" with
  | [n] => (parseInt? n).map (fun i => (i : Rat))
  | [n, d] => do
      let i ← parseInt? n
      let k ← d.toNat?
      if k = 0 then none else some ((i : Rat) / (k : Rat))
  | _ => none

end Simaple.Py
