import Simaple.Model.PyPrelude
/-!
Hand-written executable model of the report layer (C13):

* `simaple/simulate/report/base.py`   — `_create_damage_log`, `SimulationEntry.build`
* `simaple/simulate/report/dpm.py`    — `DamageCalculator.calculate_damage / calculate_total_damage / calculate_dpm`
* `simaple/simulate/report/feature.py`— `DamageShareFeature`, `MaximumDealingIntervalFeature._find_maximum_dealing_interval`

Floats are exact rationals.  `DamageCalculator.get_damage` is a parameter `dmg` (its factor is the
generated `Simaple.Gen.Core` damage logic, property C12); the buff block type `β` and its `+` are parameters
(the driver instantiates them with the generated `Stat`).  Exceptions are values.
Core Lean only.
-/
namespace Simaple.Report
open Simaple.Py

/-- the Python exceptions that this code can raise, plus the fuel marker of the loop model -/
inductive Err where
  | indexError
  | zeroDivisionError
  | outOfFuel
  deriving DecidableEq, Repr

def Err.name : Err → String
  | .indexError => "IndexError"
  | .zeroDivisionError => "ZeroDivisionError"
  | .outOfFuel => "out-of-fuel"

/-! ## Entries (report/base.py) -/

def Tag.DAMAGE : String := "global.damage"
def Tag.DOT : String := "global.dot"
def Tag.REJECT : String := "global.reject"

/-- an engine event as far as the report reads it: `event["name"]`, `event["tag"]` (`None` carried as
    `""`), `event["payload"]["damage"]`, `event["payload"]["hit"]`, `event["payload"].get("modifier")` -/
structure Event (β : Type) where
  name : String
  tag : String
  damage : Rat
  hit : Rat
  modifier : Option β

structure DamageLog (β : Type) where
  name : String
  damage : Rat
  hit : Rat
  buff : β
  tag : String

/-- `_create_damage_log(event, buff)` -/
def createDamageLog {β : Type} (add : β → β → β) (ev : Event β) (buff : β) : Option (DamageLog β) :=
  if ¬ (ev.tag = Tag.DAMAGE ∨ ev.tag = Tag.DOT) then none
  else if ev.damage = 0 ∨ ev.hit = 0 then none
  else
    let buffStat := match ev.modifier with
      | some m => add buff m
      | none => buff
    some { name := ev.name, damage := ev.damage, hit := ev.hit, buff := buffStat, tag := ev.tag }

structure PlayLog (β : Type) where
  clock : Rat
  events : List (Event β)

structure SimulationEntry (β : Type) where
  clock : Rat
  damageLogs : List (DamageLog β)
  accepted : Bool

/-- `SimulationEntry.build(playlog, buff)`: the list of maybe-logs with the `None`s dropped -/
def SimulationEntry.build {β : Type} (add : β → β → β) (pl : PlayLog β) (buff : β) : SimulationEntry β :=
  { clock := pl.clock
    damageLogs := pl.events.filterMap (fun ev => createDamageLog add ev buff)
    accepted := pl.events.all (fun ev => ev.tag != Tag.REJECT) }

/-! ## DamageCalculator (report/dpm.py), `get_damage` abstract -/

/-- `calculate_damage(entry)`: `total = 0; for log in entry.damage_logs: total += get_damage(log)` -/
def calculateDamage {β : Type} (dmg : DamageLog β → Rat) (entry : SimulationEntry β) : Rat :=
  entry.damageLogs.foldl (fun total log => total + dmg log) 0

/-- `calculate_total_damage(entries)`: `sum([calculate_damage(entry) for entry in entries])` -/
def calculateTotalDamage {β : Type} (dmg : DamageLog β → Rat) (entries : List (SimulationEntry β)) : Rat :=
  pySum (entries.map (calculateDamage dmg))

/-- `calculate_dpm(entries)`: `total / entries[-1].clock * 60_000`; `entries[-1]` raises on an empty run,
    the float division raises on clock 0 -/
def calculateDpm {β : Type} (dmg : DamageLog β → Rat) (entries : List (SimulationEntry β)) : Except Err Rat :=
  let total := pySum (entries.map (calculateDamage dmg))
  match entries.getLast? with
  | none => .error .indexError
  | some last => if last.clock = 0 then .error .zeroDivisionError else .ok (total / last.clock * 60000)

/-- the API's `PlayLogResponse.damage_records` (damage column) and `total_damage` of one play log -/
def damageRecords {β : Type} (dmg : DamageLog β → Rat) (entry : SimulationEntry β) : List (String × Rat) :=
  entry.damageLogs.map (fun log => (log.name, dmg log))

/-! ## DamageShareFeature (report/feature.py): `_damage_sum` is an insertion-ordered dict -/

/-- `if name not in d: d[name] = 0.0` then `d[name] += v` -/
def dictAdd : List (String × Rat) → String → Rat → List (String × Rat)
  | [], k, v => [(k, 0 + v)]
  | (k', v') :: t, k, v => if k' = k then (k', v' + v) :: t else (k', v') :: dictAdd t k v

/-- `DamageShareFeature.update(entry)` -/
def shareUpdate {β : Type} (dmg : DamageLog β → Rat) (d : List (String × Rat)) (entry : SimulationEntry β) :
    List (String × Rat) :=
  entry.damageLogs.foldl (fun d log => dictAdd d log.name (dmg log)) d

/-- the dict after `update` has been called with every entry in order -/
def shareSums {β : Type} (dmg : DamageLog β → Rat) (entries : List (SimulationEntry β)) : List (String × Rat) :=
  entries.foldl (shareUpdate dmg) []

/-- `DamageShareFeature.compute()`: `total = sum(values)`; `{name: damage / total}` — the division is only
    evaluated if the dict is non-empty, and raises for total 0 -/
def shareCompute (d : List (String × Rat)) : Except Err (List (String × Rat)) :=
  let total := pySum (d.map (·.2))
  match d with
  | [] => .ok []
  | _ :: _ => if total = 0 then .error .zeroDivisionError else .ok (d.map (fun kv => (kv.1, kv.2 / total)))

/-! ## MaximumDealingIntervalFeature._find_maximum_dealing_interval (report/feature.py)

`damage_seq : list[tuple[clock, damage]]`; indices are never negative, so `damage_seq[i]` raises exactly
when `i ≥ len`. -/

abbrev Seq := List (Rat × Rat)

/-- `damage_seq[i]` -/
def idx (xs : Seq) (i : Nat) : Except Err (Rat × Rat) :=
  match xs[i]? with
  | some p => .ok p
  | none => .error .indexError

/-- `total = 0.0; for clk, damage in damage_seq[start:end]: total += damage`
    (a slice with `start ≥ end` is empty) -/
def sliceDamage (xs : Seq) (s e : Nat) : Rat :=
  ((xs.drop s).take (e - s)).foldl (fun total p => total + p.2) 0

/-- `_compute_dealing(damage_seq, start, end)` -/
def computeDealing (xs : Seq) (s e : Nat) : Except Err (Rat × Rat) :=
  match idx xs s with
  | .error m => .error m
  | .ok sc =>
    match idx xs e with
    | .error m => .error m
    | .ok ec =>
      let interval := ec.1 - sc.1
      if interval = 0 then .ok (0, 0) else .ok (interval, sliceDamage xs s e)

/-- `end + 1 < len(damage_seq) and damage_seq[end + 1][0] == damage_seq[start][0]` (short-circuit) -/
def sameClockAhead (xs : Seq) (s e : Nat) : Except Err Bool :=
  if e + 1 < xs.length then
    match idx xs (e + 1) with
    | .error m => .error m
    | .ok a =>
      match idx xs s with
      | .error m => .error m
      | .ok c => .ok (decide (a.1 = c.1))
  else .ok false

/-- `(best_dealing, best_start, best_end)` -/
structure Best where
  dealing : Rat
  start : Nat
  stop : Nat
  deriving DecidableEq, Repr

/-- outcome of one pass through the `while True:` body -/
inductive Step where
  | done (b : Best)                   -- `break`
  | next (s e : Nat) (b : Best)       -- `continue` / fall off the end of the body

/-- one pass through the loop body with `start = s`, `end = e` -/
def scanStep (L : Rat) (xs : Seq) (s e : Nat) (b : Best) : Except Err Step :=
  if e ≥ xs.length then .ok (.done b)
  else
    match sameClockAhead xs s e with
    | .error m => .error m
    | .ok true => .ok (.next s (e + 1) b)                 -- "Maximize interval size"
    | .ok false =>
      match computeDealing xs s e with
      | .error m => .error m
      | .ok (interval, dealing) =>
        if interval < L then .ok (.next s (e + 1) b)
        else
          let b' : Best := if dealing > b.dealing then ⟨dealing, s, e⟩ else b
          .ok (.next (s + 1) e b')

/-- the `while True:` loop with fuel -/
def scanLoop (L : Rat) (xs : Seq) : Nat → Nat → Nat → Best → Except Err Best
  | 0, _, _, _ => .error .outOfFuel
  | fuel + 1, s, e, b =>
    match scanStep L xs s e b with
    | .error m => .error m
    | .ok (.done r) => .ok r
    | .ok (.next s' e' b') => scanLoop L xs fuel s' e' b'

/-- fuel that is always enough (`Simaple.Proofs.Report.scan_fuel_sufficient`): every pass that does not
    leave the loop advances `start + end` by one while both stay below `len` -/
def scanFuel (xs : Seq) : Nat := 2 * xs.length + 2

/-- `MaximumDealingIntervalFeature(interval=L)._find_maximum_dealing_interval(damage_seq)` -/
def findMaximumDealingInterval (L : Rat) (xs : Seq) : Except Err Best :=
  scanLoop L xs (scanFuel xs) 0 0 ⟨0, 0, 0⟩

/-! ## The exhaustive specification of the best dealing window

"Windows of at least the requested length": from every start index `i` the *shortest* window
`[i, e)` whose clock span `clock[e] - clock[i]` reaches `L` (`e` the least such index `≥ i`); its damage is
`Σ damage[i ..< e]`.  The best window is the maximum of these values and of 0 (no window).  This is the
brute force

```
best = 0
for i in range(n):
    for e in range(i, n):
        if clock[e] - clock[i] >= L:
            best = max(best, sum(damage[i:e])); break
```
-/

def clockAt (xs : Seq) (i : Nat) : Rat := (xs[i]?.getD (0, 0)).1

/-- the least `e` in `range(n)` with `i ≤ e` and `clock[e] - clock[i] ≥ L` -/
def firstEnd (L : Rat) (xs : Seq) (i : Nat) : Option Nat :=
  (List.range xs.length).find? (fun e => decide (i ≤ e) && decide (L ≤ clockAt xs e - clockAt xs i))

/-- the damage of the window of every start that has one -/
def windowValues (L : Rat) (xs : Seq) : List Rat :=
  (List.range xs.length).filterMap (fun i => (firstEnd L xs i).map (fun e => sliceDamage xs i e))

/-- `max(0, *windowValues)` as a left fold -/
def exhaustiveBest (L : Rat) (xs : Seq) : Rat :=
  (windowValues L xs).foldl pyMax 0

/-- clocks never go back (decidable well-formedness of a damage sequence) -/
def ClocksSorted (xs : Seq) : Prop := (xs.map (·.1)).Pairwise (· ≤ ·)

instance (xs : Seq) : Decidable (ClocksSorted xs) := by unfold ClocksSorted; infer_instance

end Simaple.Report
