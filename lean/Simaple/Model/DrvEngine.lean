import Simaple.Model.JsonUtil
import Simaple.Model.Engine
import Std.Data.HashMap
/-! driver entry points for the engine layers: the play function `P`, the clock and the debug view are
    finite tables recorded from real runs (store = checkpoint id) -/
namespace Simaple.DrvEngine
open Lean Simaple.J Simaple.Engine

def getPayload (j : Json) : Except String Payload :=
  match j with
  | .null => pure .none
  | .str s => if s.startsWith "{" then pure (.obj s) else do pure (.num (← rat j))
  | _ => throw "payload"

def getAction (j : Json) : Except String Action := do
  pure ⟨← str (← field j "name"), ← str (← field j "method"), ← getPayload (← field j "payload")⟩

def getEvent (j : Json) : Except String Event := do
  let t := fieldD j "time" .null
  let time ← match t with | .null => pure none | v => do pure (some (← rat v))
  pure ⟨← str (← field j "name"), ← str (← field j "method"), ← str (← field j "tag"),
        ← str (← field j "handler"), ← str (← field j "payload"), time⟩

def getKind (s : String) : Except String Kind :=
  match s with
  | "CAST" => pure .cast | "USE" => pure .use | "ELAPSE" => pure .elapse
  | "KEYDOWNSTOP" => pure .keydownstop | "RESOLVE" => pure .resolve | "CONSOLE" => pure .console
  | _ => throw s!"unknown command kind {s}"

def getCommand (j : Json) : Except String Engine.Command := do
  pure ⟨← getKind (← str (← field j "kind")), ← str (← field j "name"), ← rat (← field j "time"),
        ← str (← field j "expr")⟩

def payloadJson : Payload → Json
  | .none => .null
  | .num r => ofRat r
  | .obj s => .str s

def actionJson (a : Action) : Json :=
  Json.mkObj [("name", .str a.name), ("method", .str a.method), ("payload", payloadJson a.payload)]

def actionKey (a : Action) : String := (actionJson a).compress

def eventJson (e : Event) : Json :=
  Json.mkObj [("name", .str e.name), ("method", .str e.method), ("tag", .str e.tag),
    ("handler", .str e.handler), ("payload", .str e.payload),
    ("time", match e.time with | some t => ofRat t | none => .null)]

def kindStr : Kind → String
  | .cast => "CAST" | .use => "USE" | .elapse => "ELAPSE" | .keydownstop => "KEYDOWNSTOP"
  | .resolve => "RESOLVE" | .console => "CONSOLE"

def commandJson (c : Engine.Command) : Json :=
  Json.mkObj [("kind", .str (kindStr c.kind)), ("name", .str c.name), ("time", ofRat c.time), ("expr", .str c.expr)]

def playlogJson (pl : PlayLog Nat) : Json :=
  Json.mkObj [("clock", ofRat pl.clock), ("action", actionJson pl.action),
    ("events", .arr (pl.events.map eventJson).toArray), ("ckpt", .num pl.ckpt)]

/-- what the real hash covers: the command and the playlogs without their checkpoints -/
def content (l : OpLog Nat) : String :=
  (commandJson l.command).compress ++ "|" ++
    String.intercalate "|" (l.playlogs.map (fun pl =>
      (Json.mkObj [("clock", ofRat pl.clock), ("action", actionJson pl.action),
        ("events", .arr (pl.events.map eventJson).toArray)]).compress))

/-- driver instantiation of the hash (the theorems hold for every hash function) -/
def dhash (l : OpLog Nat) : String := toString (hash (l.prev ++ "#" ++ content l))

def oplogJson (l : OpLog Nat) : Json :=
  Json.mkObj [("command", commandJson l.command), ("playlogs", .arr (l.playlogs.map playlogJson).toArray),
    ("description", match l.description with | some d => .str d | none => .null),
    ("prev", .str l.prev), ("hash", .str (dhash l))]

structure Tables where
  play : Std.HashMap (Nat × String) (Nat × List Event)
  clock : Std.HashMap Nat Rat
  view : Std.HashMap (Nat × String) String

def missStore : Nat := 999999999

def Tables.P (t : Tables) (a : Action) (s : Nat) : Nat × List Event :=
  match t.play.get? (s, actionKey a) with
  | some r => r
  | none => (missStore, [⟨"#MISS", actionKey a, toString s, "", "{}", none⟩])

def Tables.clockOf (t : Tables) (s : Nat) : Rat := (t.clock.get? s).getD (-1)
def Tables.viewOf (t : Tables) (s : Nat) (q : String) : String := (t.view.get? (s, q)).getD "#MISS"

def getTables (j : Json) : Except String Tables := do
  let mut play : Std.HashMap (Nat × String) (Nat × List Event) := {}
  for e in ← list (← field j "play") do
    let s ← (← field e "s").getNat?
    let a ← getAction (← field e "a")
    let s' ← (← field e "s2").getNat?
    let evs ← (← list (← field e "ev")).mapM getEvent
    play := play.insert (s, actionKey a) (s', evs)
  let mut clock : Std.HashMap Nat Rat := {}
  for e in ← list (← field j "clock") do
    clock := clock.insert (← (← field e "s").getNat?) (← rat (← field e "t"))
  let mut view : Std.HashMap (Nat × String) String := {}
  for e in ← list (fieldD j "view" (.arr #[])) do
    view := view.insert (← (← field e "s").getNat?, ← str (← field e "q")) (← str (← field e "out"))
  pure ⟨play, clock, view⟩

inductive DOp where
  | exec (c : Engine.Command)
  | rollback (i : Nat)
  | reload          -- reload the engine from its own current logs (resume from the recorded point)
  | refuse (console : Bool)   -- a command the engine refused with an exception

def getOp (j : Json) : Except String DOp := do
  match j.getObjVal? "exec" with
  | .ok c => pure (.exec (← getCommand c))
  | .error _ =>
    match j.getObjVal? "rollback" with
    | .ok i => pure (.rollback (← i.getNat?))
    | .error _ =>
      match j.getObjVal? "refuse" with
      | .ok k => pure (.refuse ((← str k) == "console"))
      | .error _ => pure .reload

def respJson (r : OpResp Nat Nat) : Json :=
  Json.mkObj [("index", .num r.index), ("command", commandJson r.command),
    ("description", match r.description with | some d => .str d | none => .null),
    ("prev", .str r.prev), ("hash", .str r.hash),
    ("logs", .arr (r.logs.map (fun l => Json.mkObj [("clock", ofRat l.clock), ("action", actionJson l.action),
      ("events", .arr (l.events.map eventJson).toArray), ("rendered", .num l.rendered),
      ("ckpt", match l.ckpt with | some c => .num c | none => .null)])).toArray)]

def engine (fn : String) (j : Json) : Option (Except String Json) :=
  match fn with
  | "engine" => some do
      -- run a sequence of exec / rollback / reload on a fresh engine; answer the logs after every op
      let t ← getTables (← field j "tables")
      let init ← (← field j "init").getNat?
      let ops ← (← list (← field j "ops")).mapM getOp
      let mut e : Engine Nat Nat := initEngine id init
      let mut outs : Array Json := #[]
      for op in ops do
        e := match op with
          | .exec c => exec t.P id id t.clockOf t.viewOf dhash 0 e c
          | .rollback i => rollback e i
          | .reload => reload e.logs
          | .refuse true => refuseConsole id 0 e
          | .refuse false => refuseOp e
        outs := outs.push (Json.mkObj [("n", .num e.logs.length),
          ("last", match e.logs.getLast? with | some l => oplogJson l | none => .null),
          ("buffered", .arr (e.buffered.map eventJson).toArray),
          ("clock", ofRat (t.clockOf (curStore id 0 e)))])
      pure (Json.mkObj [("steps", .arr outs), ("logs", .arr (e.logs.map oplogJson).toArray)])
  | "hint" => some do
      -- a chain of plans: the first is run in full, each later one with the previous output as hint
      let t ← getTables (← field j "tables")
      let init ← (← field j "init").getNat?
      let plans ← (← list (← field j "plans")).mapM (fun p => do (← list p).mapM getCommand)
      let same ← (← list (← field j "same_meta")).mapM (fun b => b.getBool?)
      let render : PlayLog Nat → Nat := fun pl => pl.ckpt
      let mut prev : List Engine.Command := []
      let mut hist : List (OpResp Nat Nat) := []
      let mut outs : Array Json := #[]
      let mut first := true
      let mut idx := 0
      for cmds in plans do
        let res : List (OpResp Nat Nat) :=
          if first then runPlan t.P id id t.clockOf t.viewOf dhash 0 render init cmds
          else runPlanWithHint t.P id id t.clockOf t.viewOf dhash 0 render missStore init
                 (same.getD idx true) prev hist cmds
        let full : List (OpResp Nat Nat) := runPlan t.P id id t.clockOf t.viewOf dhash 0 render init cmds
        outs := outs.push (Json.mkObj [("incremental", .arr (res.map respJson).toArray),
                                       ("full", .arr (full.map respJson).toArray)])
        prev := cmds; hist := res; first := false; idx := idx + 1
      pure (.arr outs)
  | "queue" => some do
      -- the actions `play` offers to the router, given the events of the previous play
      let evs ← (← list (← field j "events")).mapM getEvent
      let a ← getAction (← field j "action")
      pure (.arr ((buildQueue (callbacksOf evs) a).map actionJson).toArray)
  | "first_delay" => some do
      let evs ← (← list (← field j "events")).mapM getEvent
      match j.getObjVal? "name" with
      | .ok n => do
          let n ← str n
          pure (ofRat (firstDelay (evs.filter (fun e => e.name == n))))
      | .error _ => pure (ofRat (firstDelay evs))
  | "elapse_of" => some do
      let acts ← (← list (← field j "actions")).mapM getAction
      pure (ofRats (acts.map elapseOf))
  | "signature" => some do
      let a ← getAction (← field j "action")
      pure (.str (signature a.name a.method))
  | _ => none

end Simaple.DrvEngine
