/-!
Engine layers of simaple, with the router and the store abstract (core Lean only).

* L4 `play`            — simaple/simulate/base.py `play`, `_get_event_callbacks`
* L5 handlers/engine   — simaple/simulate/policy/handlers.py, simaple/simulate/engine.py
                          (`BasicOperationEngine`), simaple/simulate/policy/base.py (`SimulationHistory`)
* L6 api               — simaple/api/base.py `_extract_engine_history_as_response`, `run_plan`,
                          `run_plan_with_hint`; simaple/api/models/simulation.py

The store type `σ`, the router `R : Action → σ → σ × List Event` and the rendering of views are
parameters, so every theorem about these layers holds for all jobs, components and configurations.
Python mutates the store in place; here a store is a value and `R` returns the new one.
-/
namespace Simaple.Engine

/-- payload of an action: `None`, a number (elapse time) or a dict (canonical JSON text) -/
inductive Payload where
  | none
  | num (r : Rat)
  | obj (json : String)
deriving DecidableEq, Repr

structure Action where
  name : String
  method : String
  payload : Payload
deriving DecidableEq, Repr

/-- `tag`/`handler`: `""` stands for Python `None`.  `payload` is the canonical JSON text of the payload
    dict; `time` is `payload["time"]` when present (the only payload field the engine layers read). -/
structure Event where
  name : String
  method : String
  tag : String
  handler : String
  payload : String
  time : Option Rat
deriving DecidableEq, Repr

def tagDELAY : String := "global.delay"

/-- `message_signature` -/
def signature (name method : String) : String :=
  if method.length = 0 then name else name ++ "." ++ method

/-- `_get_event_callbacks`: the two forced actions derived from an event -/
def emittedOf (ev : Event) : Action :=
  { name := ev.name, method := ev.method ++ ".emitted." ++ ev.tag, payload := .obj ev.payload }
def doneOf (ev : Event) : Action :=
  { name := ev.name, method := ev.method ++ ".done." ++ ev.tag, payload := .obj ev.payload }

/-- the time an action asks the timer to add (`timer_delay_dispatcher`, installed for the signature
    `*.elapse`): the payload of an action named `*` with method `elapse` -/
def elapseOf (a : Action) : Rat :=
  if a.name = "*" ∧ a.method = "elapse" then (match a.payload with | .num t => t | _ => 0) else 0

/-! ### L4: play -/
section Play
variable {σ : Type}
-- the router: dispatch one action on a store
variable (R : Action → σ → σ × List Event)
-- the `previous_callbacks` entity of the store: read (default `[]`) and overwrite
variable (getPending : σ → List (Action × Action))
variable (setPending : σ → List (Action × Action) → σ)

/-- the action queue `play` builds: for each pending pair in order, `[emitted] ++ queue ++ [done]` -/
def buildQueue (pending : List (Action × Action)) (a : Action) : List Action :=
  pending.foldl (fun q p => [p.1] ++ q ++ [p.2]) [a]

/-- run the router over a queue, threading the store and concatenating the events -/
def runQueue (s : σ) : List Action → σ × List Event
  | [] => (s, [])
  | a :: q =>
    let r := R a s
    let rest := runQueue r.1 q
    (rest.1, r.2 ++ rest.2)

def callbacksOf (evs : List Event) : List (Action × Action) := evs.map (fun e => (emittedOf e, doneOf e))

/-- `play(store, action, router)` -/
def play (s : σ) (a : Action) : σ × List Event :=
  let q := buildQueue (getPending s) a
  let r := runQueue R s q
  (setPending r.1 (callbacksOf r.2), r.2)

/-- the list of actions offered to the router during `play s a` -/
def dispatched (s : σ) (a : Action) : List Action := buildQueue (getPending s) a

end Play

/-! ### L5: commands, logs, handlers, engine -/

inductive Kind where
  | cast | use | elapse | keydownstop | resolve | console
deriving DecidableEq, Repr

/-- an `Operation` (command word, name, time, expr) or a `ConsoleText` (kind `console`, text in `name`).
    `expr` takes part in equality exactly as in Python (`ELAPSE 10` and `ELAPSE 10.0` are different
    commands for the hint matcher).  Unknown command words (KeyError in `_get_behavior_gen`) and ELAPSE
    without a time are outside the model: the harness generates well-formed commands only. -/
structure Command where
  kind : Kind
  name : String
  time : Rat
  expr : String
deriving DecidableEq, Repr

structure PlayLog (σ : Type) where
  clock : Rat
  action : Action
  events : List Event
  ckpt : σ

structure OpLog (σ : Type) where
  command : Command
  playlogs : List (PlayLog σ)
  description : Option String
  prev : String

/-- `σ`: live stores; `τ`: saved checkpoints -/
structure Engine (σ τ : Type) where
  logs : List (OpLog τ)
  cached : Option σ
  buffered : List Event

section Eng
variable {σ τ : Type}
variable (P : Action → σ → σ × List Event)      -- `play` closed over the router, on a live store
variable (save : σ → τ)                          -- `store.save()` / `Checkpoint.create`
variable (load : τ → σ)                          -- `Checkpoint.restore`
variable (clock : σ → Rat)                       -- the clock view
variable (view : σ → String → String)            -- `!debug` evaluation on the current store
variable (hash : OpLog τ → String)               -- sha1(previous_hash ++ dump without checkpoints)
variable (t0 : τ)                                -- fallback checkpoint (a history without playlogs raises in Python)

/-- `get_next_elapse_time`: payload time of the first DELAY event whose time is positive, else 0 -/
def firstDelay (evs : List Event) : Rat :=
  match evs.find? (fun e => e.tag == tagDELAY && (match e.time with | some t => decide (0 < t) | none => false)) with
  | some e => e.time.getD 0
  | none => 0

def mkPL (a : Action) (r : σ × List Event) : PlayLog τ :=
  { clock := clock r.1, action := a, events := r.2, ckpt := save r.1 }

/-- the behaviour generators of `policy/handlers.py`, run against `play` by `_exec_operation`;
    returns the playlogs and the live store after the last play -/
def execOp (s : σ) (buffered : List Event) (c : Command) : List (PlayLog τ) × σ :=
  match c.kind with
  | .cast =>
    let a1 : Action := ⟨c.name, "use", .none⟩
    let r1 := P a1 s
    let d := firstDelay r1.2
    if d = 0 then ([mkPL save clock a1 r1], r1.1) else
    let a2 : Action := ⟨"*", "elapse", .num d⟩
    let r2 := P a2 r1.1
    ([mkPL save clock a1 r1, mkPL save clock a2 r2], r2.1)
  | .use => let a : Action := ⟨c.name, "use", .none⟩; let r := P a s; ([mkPL save clock a r], r.1)
  | .elapse => let a : Action := ⟨"*", "elapse", .num c.time⟩; let r := P a s; ([mkPL save clock a r], r.1)
  | .keydownstop => let a : Action := ⟨c.name, "stop", .none⟩; let r := P a s; ([mkPL save clock a r], r.1)
  | .resolve =>
    let a : Action := ⟨"*", "elapse", .num (firstDelay (buffered.filter (fun e => e.name == c.name)))⟩
    let r := P a s; ([mkPL save clock a r], r.1)
  | .console => ([], s)

def allPL (logs : List (OpLog τ)) : List (PlayLog τ) := logs.flatMap (·.playlogs)

/-- checkpoint of the most recent playlog of the history (`SimulationHistory.last_playlog`) -/
def lastCkpt (logs : List (OpLog τ)) : τ :=
  match (allPL logs).getLast? with | some pl => pl.ckpt | none => t0

/-- events of the most recent playlog: what `_buffered_events` must hold -/
def lastEvents (logs : List (OpLog τ)) : List Event :=
  match (allPL logs).getLast? with | some pl => pl.events | none => []

def lastHash (logs : List (OpLog τ)) : String :=
  match logs.getLast? with | some l => hash l | none => ""

/-- `SimulationHistory.current_store` -/
def curStore (e : Engine σ τ) : σ := match e.cached with | some s => s | none => load (lastCkpt t0 e.logs)

/-- `BasicOperationEngine.exec` -/
def exec (e : Engine σ τ) (c : Command) : Engine σ τ :=
  let s := curStore load t0 e
  if c.kind = .console then
    { logs := e.logs ++ [⟨c, [], some (view s c.name), lastHash hash e.logs⟩],
      cached := some s, buffered := e.buffered }
  else
    let r := execOp P save clock s e.buffered c
    { logs := e.logs ++ [⟨c, r.1, none, lastHash hash e.logs⟩],
      cached := some r.2,
      buffered := match r.1.getLast? with | some pl => pl.events | none => e.buffered }

/-- `BasicOperationEngine.reload` -/
def reload (logs : List (OpLog τ)) : Engine σ τ :=
  { logs := logs, cached := none, buffered := lastEvents logs }

/-- `BasicOperationEngine.rollback` -/
def rollback (e : Engine σ τ) (i : Nat) : Engine σ τ := reload (e.logs.take (i + 1))

/-- the initial history: one `init` log holding the initial store -/
def initLog (st : τ) : OpLog τ :=
  { command := ⟨.use, "init", 0, "#init"⟩,  -- stands for Operation(command="init", name="init"); never executed
    playlogs := [{ clock := 0, action := ⟨"init", "init", .none⟩, events := [], ckpt := st }],
    description := none, prev := "" }

def initEngine (st : σ) : Engine σ τ := { logs := [initLog (save st)], cached := some st, buffered := [] }

/-- the pure function on histories that `exec` implements: it reads the history only through the
    last checkpoint, the last events and the last hash -/
def stepL (logs : List (OpLog τ)) (c : Command) : List (OpLog τ) :=
  if c.kind = .console then
    logs ++ [⟨c, [], some (view (load (lastCkpt t0 logs)) c.name), lastHash hash logs⟩]
  else
    logs ++ [⟨c, (execOp P save clock (load (lastCkpt t0 logs)) (lastEvents logs) c).1, none, lastHash hash logs⟩]

def execAll (e : Engine σ τ) (cs : List Command) : Engine σ τ :=
  cs.foldl (exec P save load clock view hash t0) e

inductive Op where
  | exec (c : Command)
  | rollback (i : Nat)

/-- the commands that survive a sequence of exec/rollback (index 0 is the initial log) -/
def surviving : List Command → List Op → List Command
  | acc, [] => acc
  | acc, .exec c :: ops => surviving (acc ++ [c]) ops
  | acc, .rollback i :: ops => surviving (acc.take i) ops

def runOps (e : Engine σ τ) : List Op → Engine σ τ
  | [] => e
  | .exec c :: ops => runOps (exec P save load clock view hash t0 e c) ops
  | .rollback i :: ops => runOps (rollback e i) ops

/-! #### commands the engine refuses with an exception

`_exec_operation` takes the store OUT of the history (`move_store()`: the cache is dropped) before the first play; when
that play raises (a malformed `ELAPSE`) or the handler lookup does (an unknown command word; it comes after
`move_store()`), nothing is committed and `_buffered_events`, which is assigned only after a play has returned, keeps
its value.  NOT modelled: an exception in a LATER play of one operation (the `elapse` of a `CAST` after its `use` went
through) — `_buffered_events` would then already hold the events of the plays that returned.  `_console` evaluates on `get_current_viewer()`, which
restores and caches the current store; a raising debug line commits nothing either.  A caller that catches the
exception goes on with the same engine. -/

/-- the engine after an operation that was refused in its first play -/
def refuseOp (e : Engine σ τ) : Engine σ τ := { e with cached := none }

/-- the engine after a debug line whose evaluation raised -/
def refuseConsole (e : Engine σ τ) : Engine σ τ := { e with cached := some (curStore load t0 e) }

/-- a session: commands that run, and commands that are refused (caught by the caller) -/
inductive Step where
  | run (c : Command)
  | refusedOp
  | refusedConsole

def runSteps (e : Engine σ τ) : List Step → Engine σ τ
  | [] => e
  | .run c :: r => runSteps (exec P save load clock view hash t0 e c) r
  | .refusedOp :: r => runSteps (refuseOp e) r
  | .refusedConsole :: r => runSteps (refuseConsole load t0 e) r

/-- the commands of a session that were not refused -/
def accepted : List Step → List Command
  | [] => []
  | .run c :: r => c :: accepted r
  | _ :: r => accepted r

/-- `SimulationHistory.get_hash_index`: first log whose `previous_hash` is `h` (answer: its index − 1),
    else the last log if its hash is `h`, else error (`none`).  Python returns `idx - 1`, which for
    `idx = 0` is `-1`; hence `Int`. -/
def getHashIndex (logs : List (OpLog τ)) (h : String) : Option Int :=
  match logs.findIdx? (fun l => l.prev == h) with
  | some idx => some ((idx : Int) - 1)
  | none =>
    match logs.getLast? with
    | some l => if hash l == h then some ((logs.length : Int) - 1) else none
    | none => none

end Eng

/-! ### L6: responses and the incremental runner -/

/-- what a response keeps of a playlog: everything rendered from it (views, damage, events, clock,
    action — a function `render` of the playlog) and the checkpoint only every 10th log -/
structure PlayResp (σ ρ : Type) where
  rendered : ρ
  clock : Rat
  action : Action
  events : List Event
  ckpt : Option σ

structure OpResp (σ ρ : Type) where
  index : Nat
  logs : List (PlayResp σ ρ)
  hash : String
  prev : String
  command : Command
  description : Option String

section Api
variable {σ τ ρ : Type}
variable (P : Action → σ → σ × List Event)
variable (save : σ → τ)
variable (load : τ → σ)
variable (clock : σ → Rat)
variable (view : σ → String → String)
variable (hash : OpLog τ → String)
variable (t0 : τ)
variable (render : PlayLog τ → ρ)   -- views, damage records, report entry: functions of the playlog and its checkpoint
variable (dummy : τ)     -- `DummyCheckpoint`: restoring it raises in Python; theorems hold for every value

def respOf (idx : Nat) (l : OpLog τ) : OpResp τ ρ :=
  { index := idx,
    logs := l.playlogs.map (fun pl =>
      { rendered := render pl, clock := pl.clock, action := pl.action, events := pl.events,
        ckpt := if idx % 10 = 0 then some pl.ckpt else none }),
    hash := hash l, prev := l.prev, command := l.command, description := l.description }

/-- `_extract_engine_history_as_response(engine, start)` -/
def extractFrom (start : Nat) (logs : List (OpLog τ)) : List (OpResp τ ρ) :=
  (logs.zipIdx.filter (fun p => decide (start ≤ p.2))).map (fun p => respOf hash render p.2 p.1)

/-- `run_plan` (after parsing): fresh engine on store `st`, execute, extract -/
def runPlan (st : σ) (cmds : List Command) : List (OpResp τ ρ) :=
  extractFrom hash render 0 (execAll P save load clock view hash t0 (initEngine save st) cmds).logs

def containsCkpt (r : OpResp τ ρ) : Bool := r.logs.all (fun l => l.ckpt.isSome) && decide (0 < r.logs.length)

/-- `restore_operation_log` -/
def restoreLog (r : OpResp τ ρ) : OpLog τ :=
  { command := r.command,
    playlogs := r.logs.map (fun l => { clock := l.clock, action := l.action, events := l.events,
                                         ckpt := l.ckpt.getD dummy }),
    description := r.description, prev := r.prev }

/-- the common-prefix count of `run_plan_with_hint` (the three-way test) -/
def cacheCount : List Command → List Command → List (OpResp τ ρ) → Nat
  | c :: cs, p :: ps, h :: hs =>
    if p ≠ h.command then 0 else if c = p then cacheCount cs ps hs + 1 else 0
  | _, _, _ => 0

/-- walk back to the last restorable response -/
def walkBack (hist : List (OpResp τ ρ)) : Nat → Nat
  | 0 => 0
  | n + 1 => match hist[n + 1]? with
    | some r => if containsCkpt r then n + 1 else walkBack hist n
    | none => walkBack hist n   -- cannot happen (cache count ≤ history length − 1); Python would raise IndexError

/-- `run_plan_with_hint` (after parsing); `sameMeta` is the comparison of the two metadata dicts -/
def runPlanWithHint (st : σ) (sameMeta : Bool) (prevCmds : List Command) (hist : List (OpResp τ ρ))
    (cmds : List Command) : List (OpResp τ ρ) :=
  if !sameMeta then runPlan P save load clock view hash t0 render st cmds else
  let k := walkBack hist (cacheCount cmds prevCmds (hist.drop 1))
  let e : Engine σ τ := reload ((hist.take (k + 1)).map (restoreLog dummy))
  let e' := execAll P save load clock view hash t0 e (cmds.drop k)
  hist.take (k + 1) ++ extractFrom hash render (k + 1) e'.logs

end Api

end Simaple.Engine
