import Simaple.Model.Component
/-!
L2, group `Mech`: the job-specific component classes the shipped jobs `mechanic` and `adele` instantiate
(simaple/simulate/component/specific/mechanic.py, adele.py, flora.py, pirate.py), written against the entity
library `Simaple.Model.Entity` statement by statement.  Conventions of `Simaple.Model.Component` apply
(time = `Int` in 2⁻¹⁰ ms units, `cdEff`/`lastEff` are the results of `calculate_cooldown` /
`calculate_buff_duration` computed by the real code, reducers return the events before dispatcher tagging,
exceptions are `Except`).  In addition:

* Foreign entities read through `binds` (robot mastery, ether gauge, restore lasting, order sword, the
  barrage key-down …) are fields of the state `S`; the reducer returns them like the Python `ReducerState`.
* A damage event whose `modifier` argument is not `None` carries `modifier + default_modifier`; Stat blocks
  are opaque here (their arithmetic is C11/C12), so the canonical JSON text of that sum is a parameter
  (`robotMod`, `barrageMod`, `exceededMod : Option String`, computed by the real code from the same state;
  `none` = the sum is the component's default modifier, i.e. a plain `.dealt`).
* `lasting_duration * robot_mastery.get_summon_multiplier()` is a float product that is not exact; like
  `cdEff` its result is a parameter (`lastEff` / `lastingEff`), computed by the real code from the same state.
* `int(x)` of a float is truncation toward zero (`Mech.pyInt`); `range(n)` for an `int n` runs `n.toNat` times.
* A reducer that answers `state, event` (a bare event, not a list) is regularised by the dispatcher to a
  one-element list; the model writes the list.
-/
namespace Simaple.Comp
open Simaple.Entity

namespace Mech
/-- Python `int(x)` of a float: truncation toward zero -/
def pyInt (r : Rat) : Int := if r < 0 then -((-r).floor) else r.floor

/-- `event_provider.dealt(damage, hit, modifier)` where `m` is the canonical text of
    `modifier + default_modifier` (`none`: it is the default modifier itself) -/
def dealtWith (m : Option String) (d h : Rat) : REv :=
  match m with
  | none => .dealt d h
  | some t => .dealtMod d h t

/-- `is_keydown_ended(events)` -/
def keydownEnded (evs : List REv) : Bool := evs.any (fun e => e == .keydownEnd)

/-- the `buff` view of a component that shows one of two blocks or nothing -/
inductive BuffSel where
  | advantage
  | disadvantage
deriving DecidableEq, Repr
end Mech
open Mech

/-! ### RobotMasteryComponent (specific/mechanic.py): no reducer, no view; it only owns the entity -/
namespace RobotMasteryComponent
structure P where
  summonIncrement : Rat
  robotDamageIncrement : Rat
deriving Repr, DecidableEq
/-- `get_default_state` -/
def defaultState (p : P) : RobotMastery := { summonIncrement := p.summonIncrement, robotDamageIncrement := p.robotDamageIncrement }
end RobotMasteryComponent

/-! ### RobotSetupBuff (specific/mechanic.py; `BuffTrait`, `CooldownValidityTrait`) -/
namespace RobotSetupBuff
structure P where
  cdEff : Int
  /-- `_get_lasting_duration(state)` = `lasting_duration * robot_mastery.get_summon_multiplier()` (float product,
      computed by the real code from the same state); `use` passes `apply_buff_duration=False` -/
  lastEff : Int
  delay : Int
deriving Repr, DecidableEq
structure S where
  robotMastery : RobotMastery
  cooldown : Cooldown
  lasting : Lasting
deriving Repr, DecidableEq
/-- `use_buff_trait(state, apply_buff_duration=False)` -/
def use (p : P) (s : S) : S × List REv :=
  if !s.cooldown.available then (s, [.rejected]) else
  ({ s with cooldown := s.cooldown.setTimeLeft p.cdEff, lasting := s.lasting.setTimeLeft p.lastEff }, [.delayed p.delay])
/-- `elapse_buff_trait` -/
def elapse (_p : P) (t : Int) (s : S) : S × List REv :=
  ({ s with cooldown := s.cooldown.elapse t, lasting := s.lasting.elapse t }, [.elapsed t])
/-- `validity_in_cooldown_trait` (no `invalidate_if_disabled`) -/
def validity (_p : P) (s : S) : Validity := cooldownValidity s.cooldown
def buffOn (s : S) : Bool := s.lasting.enabled
def running (s : S) : Running := { timeLeft := s.lasting.timeLeft, lastingDuration := s.lasting.assignedDuration }
end RobotSetupBuff

/-! ### RobotSummonSkill (specific/mechanic.py; `PeriodicWithSimpleDamageTrait`, own `elapse`) -/
namespace RobotSummonSkill
structure P where
  cdEff : Int
  delay : Int
  damage : Rat
  hit : Rat
  periodicDamage : Rat
  periodicHit : Rat
  /-- `_get_lasting_duration(state)` = `lasting_duration * robot_mastery.get_summon_multiplier()` -/
  lastingEff : Int
  /-- text of `robot_mastery.get_robot_modifier() + default_modifier` -/
  robotMod : Option String
deriving Repr, DecidableEq
structure S where
  robotMastery : RobotMastery
  cooldown : Cooldown
  periodic : Periodic
deriving Repr, DecidableEq
/-- `use_periodic_damage_trait` of `PeriodicWithSimpleDamageTrait`: the cooldown test comes before the copy;
    `Periodic.set_time_left` may raise ValueError -/
def use (p : P) (s : S) : Except String (S × List REv) :=
  if !s.cooldown.available then .ok (s, [.rejected]) else
  match s.periodic.setTimeLeft p.lastingEff with
  | .error e => .error e
  | .ok per => .ok ({ s with cooldown := s.cooldown.setTimeLeft p.cdEff, periodic := per },
                    [.dealt p.damage p.hit, .delayed p.delay])
def elapse (p : P) (t : Int) (s : S) : S × List REv :=
  let r := s.periodic.elapse' t
  ({ s with cooldown := s.cooldown.elapse t, periodic := r.1 },
   .elapsed t :: List.replicate r.2.toNat (dealtWith p.robotMod p.periodicDamage p.periodicHit))
def validity (_p : P) (s : S) : Validity := cooldownValidity s.cooldown
def running (p : P) (s : S) : Running := { timeLeft := s.periodic.timeLeft, lastingDuration := p.lastingEff }
end RobotSummonSkill

/-! ### HommingMissile (specific/mechanic.py; `UsePeriodicDamageTrait`) -/
namespace HommingMissile
structure P where
  cdEff : Int
  delay : Int
  periodicDamage : Rat
  periodicHit : Rat
  lastingDuration : Int
  /-- text of `Stat(final_damage_multiplier=final_damage_multiplier_during_barrage) + default_modifier` -/
  barrageMod : Option String
deriving Repr, DecidableEq
structure S where
  bomberTime : Lasting
  fullBarrageKeydown : Keydown
  fullBarragePenaltyLasting : Lasting
  cooldown : Cooldown
  periodic : Periodic
deriving Repr, DecidableEq
/-- `use_periodic_damage_trait` of `UsePeriodicDamageTrait` (no damage on use) -/
def use (p : P) (s : S) : Except String (S × List REv) :=
  if !s.cooldown.available then .ok (s, [.rejected]) else
  match s.periodic.setTimeLeft p.lastingDuration with
  | .error e => .error e
  | .ok per => .ok ({ s with cooldown := s.cooldown.setTimeLeft p.cdEff, periodic := per }, [.delayed p.delay])
/-- `get_homming_missile_hit` -/
def missileHit (p : P) (s : S) : Int :=
  let h0 := pyInt p.periodicHit
  let h1 := if s.bomberTime.enabled then h0 + 6 else h0
  let h2 := if s.fullBarrageKeydown.running then h1 + 7 else h1
  if s.fullBarragePenaltyLasting.enabled then 0 else h2
def elapse (p : P) (t : Int) (s : S) : S × List REv :=
  let r := s.periodic.elapse' t
  let s' : S := { s with cooldown := s.cooldown.elapse t, periodic := r.1 }
  (s', .elapsed t :: List.replicate r.2.toNat
        (dealtWith (if s'.fullBarrageKeydown.running then p.barrageMod else none) p.periodicDamage (missileHit p s')))
/-- `pause(payload: DelayPayload)` (listens to another skill's delay) -/
def pause (_p : P) (time : Int) (s : S) : S × List REv :=
  ({ s with periodic := s.periodic.setIntervalCounter time }, [])
def validity (_p : P) (s : S) : Validity := cooldownValidity s.cooldown
def running (p : P) (s : S) : Running := { timeLeft := s.periodic.timeLeft, lastingDuration := p.lastingDuration }
end HommingMissile

/-! ### FullMetalBarrageComponent (specific/mechanic.py; `KeydownSkillTrait` + a penalty `Lasting`) -/
namespace FullMetalBarrage
structure P where
  cdEff : Int
  maximumKeydownTime : Int
  prepareDelay : Int
  damage : Rat
  hit : Rat
  endDelay : Int
  homingPenaltyDuration : Int
deriving Repr, DecidableEq
structure S where
  cooldown : Cooldown
  keydown : Keydown
  penaltyLasting : Lasting
deriving Repr, DecidableEq
/-- the key-down trait's view of the parameters: `_get_keydown_end_damage_hit_delay` is `(0, 0, keydown_end_delay)` -/
def kdP (p : P) : KeydownSkill.P :=
  { cdEff := p.cdEff, maximumKeydownTime := p.maximumKeydownTime, prepareDelay := p.prepareDelay,
    damage := p.damage, hit := p.hit, finishDamage := 0, finishHit := 0, endDelay := p.endDelay }
def kdS (s : S) : KeydownSkill.S := { cooldown := s.cooldown, keydown := s.keydown }
def withKd (s : S) (k : KeydownSkill.S) : S := { s with cooldown := k.cooldown, keydown := k.keydown }
/-- `use_keydown_trait` -/
def use (p : P) (s : S) : S × List REv :=
  let r := KeydownSkill.use (kdP p) (kdS s)
  (withKd s r.1, r.2)
/-- the repaired `elapse`: copy, age the penalty, `elapse_keydown_trait`, and when the key-down ended in this
    call the penalty is started and aged by the time the call ran past the key-down end
    (`max(0, -keydown.time_left)`; `time_left` is non-positive then) -/
def elapse (p : P) (t : Int) (s : S) : S × List REv :=
  let s1 : S := { s with penaltyLasting := s.penaltyLasting.elapse t }
  let r := KeydownSkill.elapse (kdP p) t (kdS s1)
  let s2 := withKd s1 r.1
  if keydownEnded r.2 then
    ({ s2 with penaltyLasting := (s2.penaltyLasting.setTimeLeft p.homingPenaltyDuration).elapse (max 0 (-s2.keydown.timeLeft)) }, r.2)
  else (s2, r.2)
/-- `stop_keydown_trait`, then the penalty starts when the key-down ended -/
def stop (p : P) (s : S) : S × List REv :=
  let r := KeydownSkill.stop (kdP p) (kdS s)
  let s2 := withKd s r.1
  if keydownEnded r.2 then ({ s2 with penaltyLasting := s2.penaltyLasting.setTimeLeft p.homingPenaltyDuration }, r.2)
  else (s2, r.2)
def validity (p : P) (s : S) : Validity := KeydownSkill.validity (kdP p) (kdS s)
def keydownView (s : S) : KeydownView := KeydownSkill.keydownView (kdS s)
end FullMetalBarrage

/-! ### MultipleOptionComponent (specific/mechanic.py) -/
namespace MultipleOption
structure P where
  cdEff : Int
  delay : Int
  lastingDuration : Int
  missileCount : Int
  missileDamage : Rat
  missileHit : Rat
  gatlingCount : Int
  gatlingDamage : Rat
  gatlingHit : Rat
  robotMod : Option String
deriving Repr, DecidableEq
structure S where
  cycle : Cycle
  cooldown : Cooldown
  periodic : Periodic
  robotMastery : RobotMastery
deriving Repr, DecidableEq
/-- `get_damage_event` -/
def damageEvent (p : P) (c : Cycle) : REv :=
  if c.getTick < p.missileCount then dealtWith p.robotMod p.missileDamage p.missileHit
  else dealtWith p.robotMod p.gatlingDamage p.gatlingHit
/-- `for _ in range(n): events.append(get_damage_event(state)); state.cycle.step()`;
    `Cycle.step` raises ZeroDivisionError for `period = 0` (`none`) -/
def ticks (p : P) : Nat → Cycle → Option (Cycle × List REv)
  | 0, c => some (c, [])
  | n + 1, c =>
    match c.step with
    | none => none
    | some c' => (ticks p n c').map (fun r => (r.1, damageEvent p c :: r.2))
def elapse (p : P) (t : Int) (s : S) : Except String (S × List REv) :=
  let r := s.periodic.elapse' t
  match ticks p r.2.toNat s.cycle with
  | none => .error "ZeroDivisionError: integer modulo by zero"
  | some (c, evs) => .ok ({ s with cooldown := s.cooldown.elapse t, periodic := r.1, cycle := c }, .elapsed t :: evs)
def use (p : P) (s : S) : Except String (S × List REv) :=
  if !s.cooldown.available then .ok (s, [.rejected]) else
  match s.periodic.setTimeLeft p.lastingDuration with
  | .error e => .error e
  | .ok per => .ok ({ s with cooldown := s.cooldown.setTimeLeft p.cdEff, periodic := per, cycle := s.cycle.clear },
                    [.delayed p.delay])
def validity (_p : P) (s : S) : Validity := cooldownValidity s.cooldown
def running (p : P) (s : S) : Running := { timeLeft := s.periodic.timeLeft, lastingDuration := p.lastingDuration }
end MultipleOption

/-! ### MecaCarrier (specific/mechanic.py; entity `DynamicIntervalPeriodic`) -/
namespace MecaCarrier
structure P where
  cdEff : Int
  delay : Int
  lastingDuration : Int
  startIntercepter : Int
  damagePerIntercepter : Rat
  hitPerIntercepter : Rat
  robotMod : Option String
deriving Repr, DecidableEq
structure S where
  cooldown : Cooldown
  periodic : DynamicIntervalPeriodic
  robotMastery : RobotMastery
deriving Repr, DecidableEq
/-- `for count in resolving(time): for _ in range(count): dealt(...)` -/
def waves (p : P) (ys : List Int) : List REv :=
  ys.flatMap (fun c => List.replicate c.toNat (dealtWith p.robotMod p.damagePerIntercepter p.hitPerIntercepter))
def elapse (p : P) (t : Int) (s : S) : S × List REv :=
  let r := s.periodic.resolving t
  ({ s with cooldown := s.cooldown.elapse t, periodic := r.1 }, .elapsed t :: waves p r.2)
def use (p : P) (s : S) : S × List REv :=
  if !s.cooldown.available then (s, [.rejected]) else
  ({ s with cooldown := s.cooldown.setTimeLeft p.cdEff,
            periodic := s.periodic.setTimeLeft p.lastingDuration p.startIntercepter }, [.delayed p.delay])
def validity (_p : P) (s : S) : Validity := cooldownValidity s.cooldown
def running (p : P) (s : S) : Running :=
  { timeLeft := s.periodic.timeLeft, lastingDuration := p.lastingDuration,
    stack := some (if 0 < s.periodic.timeLeft then s.periodic.count else 0) }
end MecaCarrier

/-! ### PenalizedBuffSkill (specific/pirate.py; `BuffTrait`, `CooldownValidityTrait`) -/
namespace PenalizedBuff
structure P where
  cdEff : Int
  /-- `calculate_buff_duration(lasting_duration)` if `apply_buff_duration` else `lasting_duration` -/
  lastEff : Int
  delay : Int
deriving Repr, DecidableEq
structure S where
  cooldown : Cooldown
  lasting : Lasting
deriving Repr, DecidableEq
def use (p : P) (s : S) : S × List REv :=
  if !s.cooldown.available then (s, [.rejected]) else
  ({ cooldown := s.cooldown.setTimeLeft p.cdEff, lasting := s.lasting.setTimeLeft p.lastEff }, [.delayed p.delay])
def elapse (_p : P) (t : Int) (s : S) : S × List REv :=
  ({ cooldown := s.cooldown.elapse t, lasting := s.lasting.elapse t }, [.elapsed t])
def validity (_p : P) (s : S) : Validity := cooldownValidity s.cooldown
/-- `buff`: the advantage while it lasts, the disadvantage afterwards until the cooldown is over -/
def buff (s : S) : Option BuffSel :=
  if s.lasting.enabled then some .advantage
  else if !(s.lasting.enabled || s.cooldown.available) then some .disadvantage
  else none
def running (s : S) : Running := { timeLeft := s.lasting.timeLeft, lastingDuration := s.lasting.assignedDuration }
end PenalizedBuff

/-! ### AdeleEtherComponent (specific/adele.py) -/
namespace AdeleEther
structure P where
  stackPerPeriod : Int
  stackPerTrigger : Int
  stackPerResonance : Int
deriving Repr, DecidableEq
structure S where
  etherGauge : EtherGauge
  periodic : Periodic
  restoreLasting : RestoreLasting
deriving Repr, DecidableEq
def elapse (p : P) (t : Int) (s : S) : S × List REv :=
  let r := s.periodic.elapse' t
  ({ s with periodic := r.1, etherGauge := s.etherGauge.liftStack (·.increase (r.2 * p.stackPerPeriod)) }, [.elapsed t])
/-- `increase(int(stack_per_trigger * restore_lasting.get_gain_rate()))` (the product is taken exactly) -/
def trigger (p : P) (s : S) : S × List REv :=
  ({ s with etherGauge := s.etherGauge.liftStack (·.increase (pyInt ((p.stackPerTrigger : Rat) * s.restoreLasting.getGainRate))) }, [])
def resonance (p : P) (s : S) : S × List REv :=
  ({ s with etherGauge := s.etherGauge.liftStack (·.increase p.stackPerResonance) }, [])
def order (_p : P) (s : S) : S × List REv := ({ s with etherGauge := s.etherGauge.decreaseOrder }, [])
/-- `time_left = lasting_duration = 999_999_999` ms -/
def running (s : S) : Running :=
  { timeLeft := ms 999999999, lastingDuration := ms 999999999, stack := some s.etherGauge.getStack }
end AdeleEther

/-! ### AdeleCreationComponent (specific/adele.py; `UseSimpleAttackTrait.use_multiple_damage`) -/
namespace AdeleCreation
structure P where
  cdEff : Int
  delay : Int
  damage : Rat
  hitPerSword : Rat
  disableValidity : Bool := false
deriving Repr, DecidableEq
structure S where
  etherGauge : EtherGauge
  cooldown : Cooldown
deriving Repr, DecidableEq
/-- `use_multiple_damage(state, multiple)` -/
def useMultiple (p : P) (multiple : Int) (s : S) : S × List REv :=
  if !s.cooldown.available then (s, [.rejected]) else
  ({ s with cooldown := s.cooldown.setTimeLeft p.cdEff },
   List.replicate multiple.toNat (.dealt p.damage p.hitPerSword) ++ [.delayed p.delay])
/-- `@ignore_rejected trigger`: `get_creation_count()` is evaluated first (ZeroDivisionError for
    `creation_step = 0`), the rejection of `use_multiple_damage` is filtered out -/
def trigger (p : P) (s : S) : Except String (S × List REv) :=
  match s.etherGauge.getCreationCount with
  | none => .error "ZeroDivisionError: integer division or modulo by zero"
  | some n =>
    let r := useMultiple p n s
    .ok (r.1, r.2.filter (fun e => !e.isReject))
def elapse (_p : P) (t : Int) (s : S) : S × List REv := ({ s with cooldown := s.cooldown.elapse t }, [.elapsed t])
def validity (p : P) (s : S) : Validity := invalidateIfDisabled p.disableValidity (cooldownValidity s.cooldown)
end AdeleCreation

/-! ### AdeleOrderComponent (specific/adele.py; entity `OrderSword`) -/
namespace AdeleOrder
structure P where
  cdEff : Int
  delay : Int
  periodicDamage : Rat
  periodicHit : Rat
  lastingDuration : Int
  maximumStack : Int
  restoreMaximumStack : Int
deriving Repr, DecidableEq
structure S where
  etherGauge : EtherGauge
  restoreLasting : RestoreLasting
  cooldown : Cooldown
  orderSword : OrderSword
deriving Repr, DecidableEq
/-- `_max_sword_count` -/
def maxSwordCount (p : P) (s : S) : Int := if s.restoreLasting.toLasting.enabled then p.restoreMaximumStack else p.maximumStack
def elapse (p : P) (t : Int) (s : S) : S × List REv :=
  let r := s.orderSword.resolving t (maxSwordCount p s)
  ({ s with cooldown := s.cooldown.elapse t, orderSword := r.1 },
   .elapsed t :: List.replicate r.2 (.dealt p.periodicDamage p.periodicHit))
def use (p : P) (s : S) : S × List REv :=
  if !(s.etherGauge.isOrderValid && s.cooldown.available) then (s, [.rejected]) else
  ({ s with cooldown := s.cooldown.setTimeLeft p.cdEff,
            orderSword := s.orderSword.addRunning 0 p.lastingDuration (maxSwordCount p s) },
   [.dealt p.periodicDamage p.periodicHit, .delayed p.delay])
def validity (_p : P) (s : S) : Validity :=
  { timeLeft := s.cooldown.minimumTimeToAvailable, valid := s.cooldown.available && s.etherGauge.isOrderValid }
def running (p : P) (s : S) : Running :=
  { timeLeft := s.orderSword.getTimeLeft, lastingDuration := p.lastingDuration, stack := some s.orderSword.getSwordCount }
end AdeleOrder

/-! ### AdeleGatheringComponent (specific/adele.py) -/
namespace AdeleGathering
structure P where
  cdEff : Int
  delay : Int
  damage : Rat
  hitPerSword : Rat
deriving Repr, DecidableEq
structure S where
  orderSword : OrderSword
  cooldown : Cooldown
deriving Repr, DecidableEq
/-- `use_multiple_damage(state, order_sword.get_sword_count())` -/
def use (p : P) (s : S) : S × List REv :=
  if !s.cooldown.available then (s, [.rejected]) else
  ({ s with cooldown := s.cooldown.setTimeLeft p.cdEff },
   List.replicate s.orderSword.getSwordCount.toNat (.dealt p.damage p.hitPerSword) ++ [.delayed p.delay])
def elapse (_p : P) (t : Int) (s : S) : S × List REv := ({ s with cooldown := s.cooldown.elapse t }, [.elapsed t])
def validity (_p : P) (s : S) : Validity :=
  { timeLeft := s.cooldown.minimumTimeToAvailable, valid := s.cooldown.available && decide (0 < s.orderSword.getSwordCount) }
end AdeleGathering

/-! ### AdeleBlossomComponent (specific/adele.py) -/
namespace AdeleBlossom
structure P where
  cdEff : Int
  delay : Int
  damage : Rat
  hitPerSword : Rat
  /-- text of `exceeded_stat + default_modifier` -/
  exceededMod : Option String
deriving Repr, DecidableEq
structure S where
  orderSword : OrderSword
  cooldown : Cooldown
deriving Repr, DecidableEq
/-- `_is_valid` -/
def isValid (s : S) : Bool := s.cooldown.available && decide (0 < s.orderSword.getSwordCount)
def use (p : P) (s : S) : S × List REv :=
  if !isValid s then (s, [.rejected]) else
  ({ s with cooldown := s.cooldown.setTimeLeft p.cdEff },
   [.dealt p.damage p.hitPerSword]
     ++ List.replicate (s.orderSword.getSwordCount - 1).toNat (dealtWith p.exceededMod p.damage p.hitPerSword)
     ++ [.delayed p.delay])
def elapse (_p : P) (t : Int) (s : S) : S × List REv := ({ s with cooldown := s.cooldown.elapse t }, [.elapsed t])
def validity (_p : P) (s : S) : Validity :=
  { timeLeft := s.cooldown.minimumTimeToAvailable, valid := s.cooldown.available && decide (0 < s.orderSword.getSwordCount) }
end AdeleBlossom

/-! ### AdeleRuinComponent (specific/adele.py; two `Periodic`s) -/
namespace AdeleRuin
structure P where
  cdEff : Int
  delay : Int
  periodicDamageFirst : Rat
  periodicHitFirst : Rat
  lastingDurationFirst : Int
  periodicDamageSecond : Rat
  periodicHitSecond : Rat
  lastingDurationSecond : Int
deriving Repr, DecidableEq
structure S where
  cooldown : Cooldown
  first : Periodic
  second : Periodic
deriving Repr, DecidableEq
def elapse (p : P) (t : Int) (s : S) : S × List REv :=
  let r1 := s.first.elapse' t
  let r2 := s.second.elapse' t
  ({ cooldown := s.cooldown.elapse t, first := r1.1, second := r2.1 },
   .elapsed t :: (List.replicate r1.2.toNat (.dealt p.periodicDamageFirst p.periodicHitFirst)
                  ++ List.replicate r2.2.toNat (.dealt p.periodicDamageSecond p.periodicHitSecond)))
def use (p : P) (s : S) : Except String (S × List REv) :=
  if !s.cooldown.available then .ok (s, [.rejected]) else
  match s.first.setTimeLeft p.lastingDurationFirst with
  | .error e => .error e
  | .ok f =>
    match s.second.setTimeLeft (p.lastingDurationFirst + p.lastingDurationSecond) with
    | .error e => .error e
    | .ok g => .ok ({ cooldown := s.cooldown.setTimeLeft p.cdEff, first := f, second := g }, [.delayed p.delay])
def validity (_p : P) (s : S) : Validity := cooldownValidity s.cooldown
def running (p : P) (s : S) : Running :=
  { timeLeft := s.second.timeLeft, lastingDuration := p.lastingDurationFirst + p.lastingDurationSecond }
end AdeleRuin

/-! ### AdeleRestoreBuffComponent (specific/adele.py; entity `RestoreLasting`; `use` never rejects) -/
namespace AdeleRestoreBuff
structure P where
  /-- `calculate_buff_duration(lasting_duration)` -/
  lastEff : Int
  delay : Int
deriving Repr, DecidableEq
structure S where
  lasting : RestoreLasting
deriving Repr, DecidableEq
def use (p : P) (s : S) : S × List REv :=
  ({ lasting := s.lasting.liftLasting (·.setTimeLeft p.lastEff) }, [.delayed p.delay])
def elapse (_p : P) (t : Int) (s : S) : S × List REv := ({ lasting := s.lasting.liftLasting (·.elapse t) }, [.elapsed t])
def buffOn (s : S) : Bool := s.lasting.toLasting.enabled
def running (s : S) : Running := { timeLeft := s.lasting.timeLeft, lastingDuration := s.lasting.assignedDuration }
end AdeleRestoreBuff

/-! ### AdeleStormComponent (specific/adele.py; `PeriodicWithSimpleDamageTrait`, simple damage `(0, 0)`) -/
namespace AdeleStorm
structure P where
  cdEff : Int
  delay : Int
  periodicDamage : Rat
  periodicHit : Rat
  lastingDuration : Int
deriving Repr, DecidableEq
structure S where
  cooldown : Cooldown
  periodic : Periodic
  stack : Stack
  orderSword : OrderSword
deriving Repr, DecidableEq
/-- `elapse_periodic_damage_trait` with `_get_periodic_damage_hit = (periodic_damage, periodic_hit * stack.stack)` -/
def elapse (p : P) (t : Int) (s : S) : S × List REv :=
  let r := s.periodic.elapse' t
  ({ s with cooldown := s.cooldown.elapse t, periodic := r.1 },
   .elapsed t :: List.replicate r.2.toNat (.dealt p.periodicDamage (p.periodicHit * (s.stack.stack : Rat))))
def use (p : P) (s : S) : Except String (S × List REv) :=
  let swordCount := s.orderSword.getSwordCount
  if swordCount ≤ 0 then .ok (s, [.rejected]) else
  if !s.cooldown.available then .ok (s, [.rejected]) else
  match s.periodic.setTimeLeft p.lastingDuration with
  | .error e => .error e
  | .ok per => .ok ({ s with cooldown := s.cooldown.setTimeLeft p.cdEff, periodic := per, stack := s.stack.reset swordCount },
                    [.dealt 0 0, .delayed p.delay])
def validity (_p : P) (s : S) : Validity :=
  { timeLeft := s.cooldown.minimumTimeToAvailable, valid := s.cooldown.available && decide (0 < s.orderSword.getSwordCount) }
def running (p : P) (s : S) : Running :=
  { timeLeft := s.periodic.timeLeft, lastingDuration := p.lastingDuration, stack := some s.stack.stack }
end AdeleStorm

/-! ### MagicCurcuitFullDriveComponent (specific/flora.py; `PeriodicWithSimpleDamageTrait`, simple damage `(0, 0)`) -/
namespace MagicCurcuit
structure P where
  cdEff : Int
  delay : Int
  periodicDamage : Rat
  periodicHit : Rat
  lastingDuration : Int
deriving Repr, DecidableEq
structure S where
  cooldown : Cooldown
  periodic : Periodic
deriving Repr, DecidableEq
def use (p : P) (s : S) : Except String (S × List REv) :=
  if !s.cooldown.available then .ok (s, [.rejected]) else
  match s.periodic.setTimeLeft p.lastingDuration with
  | .error e => .error e
  | .ok per => .ok ({ cooldown := s.cooldown.setTimeLeft p.cdEff, periodic := per }, [.dealt 0 0, .delayed p.delay])
def elapse (p : P) (t : Int) (s : S) : S × List REv :=
  let r := s.periodic.elapse' t
  ({ cooldown := s.cooldown.elapse t, periodic := r.1 },
   .elapsed t :: List.replicate r.2.toNat (.dealt p.periodicDamage p.periodicHit))
def validity (_p : P) (s : S) : Validity := cooldownValidity s.cooldown
def buffOn (s : S) : Bool := s.periodic.enabled
def running (p : P) (s : S) : Running := { timeLeft := s.periodic.timeLeft, lastingDuration := p.lastingDuration }
end MagicCurcuit

end Simaple.Comp
