import Simaple.Model.JsonUtil
import Simaple.Model.DrvCore
import Simaple.Model.Starforce
import Simaple.Model.GearBlueprint
/-! driver entry points for star force and gear blueprints (C17) -/
namespace Simaple.Drv
open Lean Simaple.J Simaple.Gen Simaple.Model.Starforce Simaple.Model.GearBlueprint

namespace SFDrv
def jint (i : Int) : Json := Json.num (JsonNumber.fromInt i)
def jints (xs : List Int) : Json := Json.arr (xs.map jint).toArray
def jtable (t : List (List Int)) : Json := Json.arr (t.map jints).toArray

/-- `[type, req_level, superior (0/1), req_job, max_scroll_chance]` -/
def getMeta (j : Json) : Except String Meta := do
  match ← intList j with
  | [t, l, s, jb, tuc] =>
    pure { type := t, req_level := l, superior_eqp := s != 0, req_job := jb, max_scroll_chance := tuc }
  | _ => throw "meta: 5 integers expected"

def getSF (j : Json) : Except String SF := do
  match SF.ofList (← intList j) with
  | some s => pure s
  | none => throw "SF: 8 integers expected"

def ofRes : Except Err SF → Json
  | .ok s => jints s.toList
  | .error e => Json.str e.name

def ofStatRes : Except Err Stat → Json
  | .ok s => ofRats s.toList
  | .error e => Json.str e.name

def getStats (j : Json) : Except String (List Stat) := do (← list j).mapM getStat
end SFDrv
open SFDrv

def starforce (fn : String) (j : Json) : Option (Except String Json) :=
  match fn with
  | "sf_tables" => some (pure (Json.mkObj [
      ("tables", Json.mkObj (Simaple.Gen.Starforce.tableNames.map fun (n, t) => (n, jtable t))),
      ("lists", Json.mkObj (Simaple.Gen.Starforce.listNames.map fun (n, t) => (n, jints t))),
      ("star_data", jtable Simaple.Gen.Starforce.star_data),
      ("members", Json.arr (Simaple.Gen.Starforce.GearType.members.map fun (n, v) =>
          Json.arr #[Json.str n, jint v]).toArray)]))
  | "gear_type_preds" => some do
      let codes ← intList (← field j "codes")
      pure (Json.mkObj (Simaple.Gen.Starforce.GearType.predicates.map fun (n, p) =>
        (n, Json.arr (codes.map fun c => Json.bool (p c)).toArray)))
  | "sf_trace" => some do
      let m ← getMeta (← field j "m")
      let ref ← getSF (← field j "ref")
      let n ← int (← field j "n")
      pure (Json.mkObj [("cap", jint (maxStar m)), ("t", Json.arr ((trace m ref n.toNat).map ofRes).toArray)])
  | "sf_improvement" => some do
      let m ← getMeta (← field j "m")
      let ref ← getSF (← field j "ref")
      let n ← int (← field j "star")
      pure (ofRes (calculate_improvement m ref n))
  | "sf_single" => some do
      let m ← getMeta (← field j "m")
      let ref ← getSF (← field j "ref")
      let cur ← getSF (← field j "cur")
      let t ← int (← field j "t")
      if t < 0 then throw "sf_single: negative target star" else
      pure (ofRes (single m ref t.toNat cur))
  | "sf_increment" => some do
      let m ← getMeta (← field j "m")
      let t ← int (← field j "t")
      let amazing := (← int (← field j "amazing")) != 0
      let att := (← int (← field j "att")) != 0
      if t < 0 then throw "sf_increment: negative target star" else
      match get_starforce_increment m t.toNat amazing att with
      | .ok v => pure (jint v)
      | .error e => pure (Json.str e.name)
  | "bp_build" => some do
      let bp : Blueprint := {
        «meta» := ← getMeta (← field j "m"),
        base := ← getStat (← field j "base"),
        spell_traces := ← getStats (← field j "traces"),
        scrolls := ← getStats (← field j "scrolls"),
        star := ← int (← field j "star"),
        bonuses := ← getStats (← field j "bonuses"),
        exceptional := ← (match j.getObjVal? "exc" with
          | .ok .null => pure none
          | .ok e => do pure (some (← getStat e))
          | .error _ => pure none) }
      pure (ofStatRes (build bp))
  | "bp_practical" => some do
      let opt (k : String) : Except String (Option Stat) :=
        match j.getObjVal? k with
        | .ok .null => pure none
        | .ok e => do pure (some (← getStat e))
        | .error _ => pure none
      let p : Practical := {
        «meta» := ← getMeta (← field j "m"),
        base := ← getStat (← field j "base"),
        spell_trace := ← opt "trace",
        scroll := ← opt "scroll",
        star := ← int (← field j "star"),
        bonuses := ← getStats (← field j "bonuses") }
      pure (Json.mkObj [("star", jint p.toGeneralized.star),
                        ("n_traces", jint p.toGeneralized.spell_traces.length),
                        ("n_scrolls", jint p.toGeneralized.scrolls.length),
                        ("stat", ofStatRes p.build)])
  | _ => none

end Simaple.Drv
