import Simaple.Model.Component
/-!
L2 (part `Common`): the remaining component classes of `simaple/simulate/component/common/` that shipped
jobs instantiate.  Same conventions as `Simaple/Model/Component.lean` (time = `Int` in 2⁻¹⁰ ms units,
`calculate_cooldown` / `calculate_buff_duration` results are parameters, reducers return the new state
and the events before dispatcher tagging, exceptions are `Except`).

Classes: SynergySkillComponent, HitLimitedPeriodicDamageComponent,
PeriodicDamageConfiguratedHexaSkillComponent, TriplePeriodicDamageHexaComponent,
MultipleHitHexaSkillComponent, ConsumableBuffSkillComponent, StackableBuffSkillComponent,
TemporalEnhancingAttackSkill, PeriodicWithFinishSkillComponent, AlwaysEnabledComponent.
`MobComponent` is `Simaple.Comp.Mob` of `Component.lean` (`addDot`, `elapse`); its events are the
structured ticks `(name, damage) ↦ hits` of `DOT.elapse`.
-/
namespace Simaple.Comp
open Simaple.Entity

/-- `[self.event_provider.dealt(entry.damage, entry.hit) for entry in self.damage_and_hits]` -/
def Common.dealtAll (dh : List (Rat × Rat)) : List REv := dh.map (fun e => REv.dealt e.1 e.2)
open Common

/-! ### SynergySkillComponent (common/synergy_skill.py; `BuffTrait`, `InvalidatableCooldownTrait`) -/
namespace SynergySkill
structure P where
  cdEff : Int
  /-- `lasting_duration`, used as is ("synergy do not works with dynamic duration") -/
  lastingDuration : Int
  delay : Int
  damage : Rat
  hit : Rat
  disableValidity : Bool := false
deriving Repr, DecidableEq
structure S where
  cooldown : Cooldown
  lasting : Lasting
deriving Repr, DecidableEq

def use (p : P) (s : S) : S × List REv :=
  if !s.cooldown.available then (s, [.rejected]) else
  ({ cooldown := s.cooldown.setTimeLeft p.cdEff, lasting := s.lasting.setTimeLeft p.lastingDuration },
   [.dealt p.damage p.hit, .delayed p.delay])
/-- `elapse_buff_trait` -/
def elapse (_p : P) (t : Int) (s : S) : S × List REv :=
  ({ cooldown := s.cooldown.elapse t, lasting := s.lasting.elapse t }, [.elapsed t])
def validity (p : P) (s : S) : Validity := invalidateIfDisabled p.disableValidity (cooldownValidity s.cooldown)
/-- the `buff` view answers `self.synergy` while the buff lasts and the empty `Stat()` otherwise (never `None`) -/
def synergyOn (s : S) : Bool := s.lasting.enabled
/-- whether the `buff` view answers a stat block at all: always -/
def buffIsSome (_s : S) : Bool := true
def running (s : S) : Running := { timeLeft := s.lasting.timeLeft, lastingDuration := s.lasting.assignedDuration }
end SynergySkill

/-! ### HitLimitedPeriodicDamageComponent (common/hit_limited_periodic_damage.py;
    `UsePeriodicDamageTrait`, `CooldownValidityTrait`) -/
namespace HitLimited
structure P where
  cdEff : Int
  delay : Int
  periodicDamage : Rat
  periodicHit : Rat
  lastingDuration : Int
  maxCount : Int
deriving Repr, DecidableEq
structure S where
  cooldown : Cooldown
  periodic : Periodic
deriving Repr, DecidableEq

/-- `use_periodic_damage_trait` of `UsePeriodicDamageTrait` (no damage on use) -/
def use (p : P) (s : S) : Except String (S × List REv) :=
  if !s.cooldown.available then .ok (s, [.rejected]) else
  match s.periodic.setTimeLeft p.lastingDuration with
  | .error e => .error e
  | .ok per => .ok ({ cooldown := s.cooldown.setTimeLeft p.cdEff, periodic := per }, [.delayed p.delay])

/-- the `while time_to_resolve > 0` loop of `elapse` with fuel: periodic state, time to resolve,
    `previous_count`, number of dealing events so far.  The step that reaches `max_count` breaks out
    BEFORE its tick is dealt. -/
def loop (maxCount : Int) : Nat → Periodic → Int → Int → Nat → Periodic × Nat
  | 0, ps, _, _, k => (ps, k)
  | n + 1, ps, t, prev, k =>
    if t ≤ 0 then (ps, k) else
    let r := ps.step t
    if r.1.count ≥ maxCount then (r.1, k) else
    if prev < r.1.count then loop maxCount n r.1 r.2 r.1.count (k + 1) else loop maxCount n r.1 r.2 prev k

/-- fuel = the time in grid units, as for `Periodic.elapse` (sufficient under `Periodic.WF`) -/
def elapse (p : P) (t : Int) (s : S) : S × List REv :=
  let r := loop p.maxCount t.toNat s.periodic t s.periodic.count 0
  let per := if r.1.count ≥ p.maxCount then r.1.disable else r.1
  ({ cooldown := s.cooldown.elapse t, periodic := per },
   .elapsed t :: List.replicate r.2 (.dealt p.periodicDamage p.periodicHit))
/-- `validity_in_cooldown_trait` (not invalidatable) -/
def validity (_p : P) (s : S) : Validity := cooldownValidity s.cooldown

/-- parameter condition of the chunk-independence theorem: a hit limit of at least one -/
def PInv (p : P) : Prop := 0 < p.maxCount
instance (p : P) : Decidable (PInv p) := by unfold PInv; exact inferInstance
/-- reachability invariant (established by `use`, kept by `elapse`): the periodic is well formed, its
    count never exceeds the limit and a periodic that is still running has not reached it -/
def Inv (p : P) (s : S) : Prop :=
  s.periodic.WF ∧ s.periodic.count ≤ p.maxCount ∧ (0 < s.periodic.timeLeft → s.periodic.count < p.maxCount)
instance (p : P) (s : S) : Decidable (Inv p s) := by unfold Inv; exact inferInstance
end HitLimited

/-! ### PeriodicDamageConfiguratedHexaSkillComponent (common/periodic_damage_configurated_hexa_skill.py) -/
namespace PeriodicHexa
structure P where
  cdEff : Int
  delay : Int
  damageAndHits : List (Rat × Rat)
  periodicDamage : Rat
  periodicHit : Rat
  lastingDuration : Int
  disableValidity : Bool := false
deriving Repr, DecidableEq
abbrev S := PeriodicAttack.S

def use (p : P) (s : S) : Except String (S × List REv) :=
  if !s.cooldown.available then .ok (s, [.rejected]) else
  match s.periodic.setTimeLeft p.lastingDuration with
  | .error e => .error e
  | .ok per => .ok ({ cooldown := s.cooldown.setTimeLeft p.cdEff, periodic := per },
                    dealtAll p.damageAndHits ++ [.delayed p.delay])
/-- `elapse_periodic_damage_trait` -/
def elapse (p : P) (t : Int) (s : S) : S × List REv :=
  let r := s.periodic.elapse' t
  ({ cooldown := s.cooldown.elapse t, periodic := r.1 },
   .elapsed t :: List.replicate r.2.toNat (.dealt p.periodicDamage p.periodicHit))
def validity (p : P) (s : S) : Validity := invalidateIfDisabled p.disableValidity (cooldownValidity s.cooldown)
def running (p : P) (s : S) : Running := { timeLeft := s.periodic.timeLeft, lastingDuration := p.lastingDuration }
end PeriodicHexa

/-! ### TriplePeriodicDamageHexaComponent (common/triple_periodic_damage_hexa_skill.py) -/
namespace TripleHexa
structure P where
  cdEff : Int
  delay : Int
  damageAndHits : List (Rat × Rat)
  /-- `(damage, hit)` of `periodic_01 … periodic_03` -/
  f1 : Rat × Rat
  f2 : Rat × Rat
  f3 : Rat × Rat
  lastingDuration : Int
  disableValidity : Bool := false
deriving Repr, DecidableEq
structure S where
  cooldown : Cooldown
  p1 : Periodic
  p2 : Periodic
  p3 : Periodic
deriving Repr, DecidableEq

/-- the `for periodic, _ in self._get_all_periodics(state): periodic.set_time_left(..)` loop raises at the
    first periodic that refuses -/
def use (p : P) (s : S) : Except String (S × List REv) :=
  if !s.cooldown.available then .ok (s, [.rejected]) else
  match s.p1.setTimeLeft p.lastingDuration with
  | .error e => .error e
  | .ok q1 =>
  match s.p2.setTimeLeft p.lastingDuration with
  | .error e => .error e
  | .ok q2 =>
  match s.p3.setTimeLeft p.lastingDuration with
  | .error e => .error e
  | .ok q3 => .ok ({ cooldown := s.cooldown.setTimeLeft p.cdEff, p1 := q1, p2 := q2, p3 := q3 },
                   dealtAll p.damageAndHits ++ [.delayed p.delay])

def ticks (f : Rat × Rat) (n : Int) : List REv := List.replicate n.toNat (.dealt f.1 f.2)

def elapse (p : P) (t : Int) (s : S) : S × List REv :=
  let r1 := s.p1.elapse' t
  let r2 := s.p2.elapse' t
  let r3 := s.p3.elapse' t
  ({ cooldown := s.cooldown.elapse t, p1 := r1.1, p2 := r2.1, p3 := r3.1 },
   .elapsed t :: (ticks p.f1 r1.2 ++ ticks p.f2 r2.2 ++ ticks p.f3 r3.2))
def validity (p : P) (s : S) : Validity := invalidateIfDisabled p.disableValidity (cooldownValidity s.cooldown)
def running (p : P) (s : S) : Running := { timeLeft := s.p1.timeLeft, lastingDuration := p.lastingDuration }
/-- the `buff` view answers `self.synergy` whatever the state -/
def buffIsSome (_s : S) : Bool := true
/-- the pydantic constraints of the three periodics -/
def Inv (s : S) : Prop := s.p1.WF ∧ s.p2.WF ∧ s.p3.WF
instance (s : S) : Decidable (Inv s) := by unfold Inv; exact inferInstance
end TripleHexa

/-! ### MultipleHitHexaSkillComponent (common/multiple_hit_hexa_skill.py) -/
namespace MultipleHit
structure P where
  cdEff : Int
  delay : Int
  damageAndHits : List (Rat × Rat)
  disableValidity : Bool := false
deriving Repr, DecidableEq
abbrev S := AttackSkill.S

def use (p : P) (s : S) : S × List REv :=
  if !s.cooldown.available then (s, [.rejected]) else
  ({ cooldown := s.cooldown.setTimeLeft p.cdEff }, dealtAll p.damageAndHits ++ [.delayed p.delay])
def elapse (_p : P) (t : Int) (s : S) : S × List REv := ({ cooldown := s.cooldown.elapse t }, [.elapsed t])
def validity (p : P) (s : S) : Validity := invalidateIfDisabled p.disableValidity (cooldownValidity s.cooldown)
end MultipleHit

/-! ### ConsumableBuffSkillComponent (common/consumable_buff_skill.py; `ConsumableBuffTrait`,
    `ConsumableValidityTrait`) -/
namespace ConsumableBuff
structure P where
  /-- `calculate_buff_duration(lasting_duration)` or `lasting_duration` (`apply_buff_duration`) -/
  lastEff : Int
  delay : Int
  /-- the raw `lasting_duration` (shown by the `running` view) -/
  lastingDuration : Int
deriving Repr, DecidableEq
structure S where
  consumable : Consumable
  lasting : Lasting
deriving Repr, DecidableEq

/-- `use_consumable_buff_trait` -/
def use (p : P) (s : S) : S × List REv :=
  if !s.consumable.available then (s, [.rejected]) else
  ({ consumable := s.consumable.consume, lasting := s.lasting.setTimeLeft p.lastEff }, [.delayed p.delay])
/-- `elapse_consumable_buff_trait` -/
def elapse (_p : P) (t : Int) (s : S) : S × List REv :=
  ({ consumable := s.consumable.elapse t, lasting := s.lasting.elapse t }, [.elapsed t])
/-- `validity_in_consumable_trait` -/
def validity (_p : P) (s : S) : Validity :=
  { timeLeft := max 0 s.consumable.timeLeft, valid := s.consumable.available, stack := some s.consumable.stack }
def buffOn (s : S) : Bool := s.lasting.enabled
def running (p : P) (s : S) : Running := { timeLeft := s.lasting.timeLeft, lastingDuration := p.lastingDuration }
end ConsumableBuff

/-! ### StackableBuffSkillComponent (common/stackable_buff_skill.py) — `use` touches the stack BEFORE the
    cooldown test of `use_buff_trait` (known finding F8d; modelled as is) -/
namespace StackableBuff
structure P where
  cdEff : Int
  lastEff : Int
  delay : Int
  disableValidity : Bool := false
deriving Repr, DecidableEq
structure S where
  cooldown : Cooldown
  lasting : Lasting
  stack : Stack
deriving Repr, DecidableEq

/-- `if state.lasting.time_left <= 0: state.stack.reset()`, `state.stack.increase()` -/
def bumped (s : S) : S :=
  let st := if s.lasting.timeLeft ≤ 0 then s.stack.reset else s.stack
  { s with stack := st.increase }
def use (p : P) (s : S) : S × List REv :=
  let s1 := bumped s
  if !s1.cooldown.available then (s1, [.rejected]) else
  ({ s1 with cooldown := s1.cooldown.setTimeLeft p.cdEff, lasting := s1.lasting.setTimeLeft p.lastEff },
   [.delayed p.delay])
def elapse (_p : P) (t : Int) (s : S) : S × List REv :=
  ({ s with cooldown := s.cooldown.elapse t, lasting := s.lasting.elapse t }, [.elapsed t])
def validity (p : P) (s : S) : Validity := invalidateIfDisabled p.disableValidity (cooldownValidity s.cooldown)
def buffOn (s : S) : Bool := s.lasting.enabled
/-- the number of stacks the `buff` view multiplies the stat block by (when on) -/
def buffStack (s : S) : Int := s.stack.stack
def running (s : S) : Running :=
  { timeLeft := s.lasting.timeLeft, lastingDuration := s.lasting.assignedDuration,
    stack := some (if s.lasting.timeLeft > 0 then s.stack.stack else 0) }
end StackableBuff

/-! ### TemporalEnhancingAttackSkill (common/temporal_enhancing_attack_skill.py) -/
namespace TemporalEnhancing
structure P where
  cdEff : Int
  /-- `calculate_cooldown(reforge_cooldown_duration)` -/
  reforgeCdEff : Int
  delay : Int
  damage : Rat
  hit : Rat
  reforgedDamage : Rat
  reforgedHit : Rat
  /-- `range(reforged_multiple)`: a negative value gives no event -/
  reforgedMultiple : Int
  disableValidity : Bool := false
deriving Repr, DecidableEq
structure S where
  cooldown : Cooldown
  reforgedCooldown : Cooldown
deriving Repr, DecidableEq

def use (p : P) (s : S) : S × List REv :=
  if !s.cooldown.available then (s, [.rejected]) else
  let cd := s.cooldown.setTimeLeft p.cdEff
  if s.reforgedCooldown.available then
    ({ cooldown := cd, reforgedCooldown := s.reforgedCooldown.setTimeLeft p.reforgeCdEff },
     List.replicate p.reforgedMultiple.toNat (.dealt p.reforgedDamage p.reforgedHit) ++ [.delayed p.delay])
  else
    ({ cooldown := cd, reforgedCooldown := s.reforgedCooldown }, [.dealt p.damage p.hit] ++ [.delayed p.delay])
def elapse (_p : P) (t : Int) (s : S) : S × List REv :=
  ({ cooldown := s.cooldown.elapse t, reforgedCooldown := s.reforgedCooldown.elapse t }, [.elapsed t])
def validity (p : P) (s : S) : Validity := invalidateIfDisabled p.disableValidity (cooldownValidity s.cooldown)
end TemporalEnhancing

/-! ### PeriodicWithFinishSkillComponent (common/periodic_with_finish_skill.py; `UsePeriodicDamageTrait`,
    `PeriodicElapseTrait`, `CooldownValidityTrait`) -/
namespace PeriodicWithFinish
structure P where
  cdEff : Int
  delay : Int
  periodicDamage : Rat
  periodicHit : Rat
  finishDamage : Rat
  finishHit : Rat
  lastingDuration : Int
deriving Repr, DecidableEq
abbrev S := PeriodicAttack.S

def use (p : P) (s : S) : Except String (S × List REv) :=
  if !s.cooldown.available then .ok (s, [.rejected]) else
  match s.periodic.setTimeLeft p.lastingDuration with
  | .error e => .error e
  | .ok per => .ok ({ cooldown := s.cooldown.setTimeLeft p.cdEff, periodic := per }, [.delayed p.delay])
/-- `elapse_periodic_damage_trait`, then the finishing blow if the periodic was running and is not any more -/
def elapse (p : P) (t : Int) (s : S) : S × List REv :=
  let wasRunning := s.periodic.enabled
  let r := s.periodic.elapse' t
  let evs : List REv := .elapsed t :: List.replicate r.2.toNat (.dealt p.periodicDamage p.periodicHit)
  ({ cooldown := s.cooldown.elapse t, periodic := r.1 },
   if !r.1.enabled && wasRunning then evs ++ [.dealt p.finishDamage p.finishHit] else evs)
def validity (_p : P) (s : S) : Validity := cooldownValidity s.cooldown
def running (p : P) (s : S) : Running := { timeLeft := s.periodic.timeLeft, lastingDuration := p.lastingDuration }
end PeriodicWithFinish

/-! ### AlwaysEnabledComponent (common/always_enabled.py): no state, no reducer -/
namespace AlwaysEnabled
def buffIsSome : Bool := true
/-- `time_left = lasting_duration = 999_999_999` ms -/
def running : Running := { timeLeft := ms 999999999, lastingDuration := ms 999999999 }
end AlwaysEnabled

/-! ### MobComponent (common/mob.py) as reducers with events: `Mob.addDot` / `Mob.elapse` of `Component.lean`
    plus the event lists.  `elapse` answers one `Tag.DOT` event per `(name, damage)` carrying the hit count
    (and NO `elapsed` event); in the `REv` vocabulary this is a `custom` event whose payload is the canonical
    JSON text, with `render` giving Python's text of the float `damage`. -/
namespace Mob
def dotEvent (render : Rat → String) (e : (String × Rat) × Nat) : REv :=
  .custom "global.dot" ("{\"damage\":" ++ render e.1.2 ++ ",\"hit\":" ++ toString e.2 ++ "}")
def addDotEv (s : DOT) (name : String) (damage : Rat) (lasting : Int) : DOT × List REv :=
  (addDot s name damage lasting, [])
def elapseEv (render : Rat → String) (s : DOT) (t : Int) : DOT × List REv :=
  let r := elapse s t
  (r.1, r.2.map (dotEvent render))
end Mob

end Simaple.Comp
