/-!
# The plan DSL of `simaple/simulate/policy/parser.py` (C14)

Hand-written executable model of the Lark grammar and of `TreeToOperation`.  Core Lean only.

The real parser is Lark's **Earley parser with the dynamic (scannerless) lexer**
(`Lark(grammar, start=[...])` defaults).  Its meaning, which this file follows, is:

* a text is accepted iff it can be cut as  `I* T₁ I* T₂ … Tₙ I*`  where `T₁ … Tₙ` is a sentence of the
  grammar, every `Tᵢ` is *the* match Python's `re` finds for that terminal at that position (one
  match per terminal and position: greedy runs, lazy string) and `I` is an ignored terminal: one blank
  `" "` or a comment `#[^\n]*`;
* `WS = [ \t\f\r\n]+` (it contains the newline!), `NEWLINE = (\r?\n)+`, `WORD = [A-Za-z]+`,
  `ESCAPED_STRING = ".*?(?<!\\)(\\\\)*?"`, `SIGNED_NUMBER = [+-]?(INT EXP | DECIMAL EXP? | INT)`;
* `request: multiplier? WS? operation` – the optional `WS` sits *after* the multiplier, so only a
  request without multiplier may be preceded by a `WS`; `console` has none.

A Python `str` is a `List Char` (`Text`).  Numbers are abstract (`NumModel`): the parser keeps the
number token, `float(token)` is `ν.ofTok`, `f"{time}"` (= `repr`) is `ν.repr`.

Pipeline:  `lex` (characters → tokens, blanks and comments kept) → `group` (atoms with the gap that
follows each) → `chunk` (phrases `WORD STR NUM | WORD STR | WORD NUM | !debug STR`) →
`derivsP` (all derivations; the grammar is ambiguous for `x <blanks> N` followed by a line break) →
`pick`.
-/
namespace Simaple.Dsl

abbrev Text := List Char

/-! ## characters and terminals -/

/-- `common.WS` characters `[ \t\f\r\n]` -/
def isWsChar (c : Char) : Bool := c == ' ' || c == '\t' || c == '\x0c' || c == '\r' || c == '\n'

def isSign (c : Char) : Bool := c == '+' || c == '-'
def isExpChar (c : Char) : Bool := c == 'e' || c == 'E'
/-- a character that can start `SIGNED_NUMBER` -/
def isNumStart (c : Char) : Bool := isSign c || c == '.' || c.isDigit

/-- longest prefix whose characters satisfy `p`, and the rest (a greedy character-class run) -/
def spanP (p : Char → Bool) : Text → Text × Text
  | [] => ([], [])
  | c :: cs => if p c then ((c :: (spanP p cs).1), (spanP p cs).2) else ([], c :: cs)

/-- `ESCAPED_STRING` after the opening quote: `.*?(?<!\\)(\\\\)*?"` = up to the first quote preceded by
an even number of backslashes, no newline before it.  `esc` = parity of the backslash run just read.
Returns the raw inner text (escapes are NOT undone, as in `skill`: `s[1:-1]`) and the rest. -/
def scanStr : Bool → Text → Option (Text × Text)
  | _, [] => none
  | esc, c :: cs =>
    if c == '\n' then none
    else if c == '"' && !esc then some ([], cs)
    else match scanStr (if c == '\\' then !esc else false) cs with
      | some (inner, rest) => some (c :: inner, rest)
      | none => none

/-- optional exponent `([eE][+-]?[0-9]+)?` (regex backtracking: absent if no digit follows) -/
def scanExp : Text → Text × Text
  | [] => ([], [])
  | e :: rest =>
    if isExpChar e then
      match rest with
      | [] => ([], [e])
      | s :: r =>
        if isSign s then
          if (spanP Char.isDigit r).1.isEmpty then ([], e :: s :: r)
          else (e :: s :: (spanP Char.isDigit r).1, (spanP Char.isDigit r).2)
        else
          if (spanP Char.isDigit (s :: r)).1.isEmpty then ([], e :: s :: r)
          else (e :: (spanP Char.isDigit (s :: r)).1, (spanP Char.isDigit (s :: r)).2)
    else ([], e :: rest)

/-- after the digits `ip` of an integer part: `. digits* exp?` or `exp?` -/
def scanAfterInt (ip : Text) : Text → Text × Text
  | [] => (ip, [])
  | c :: r2 =>
    if c == '.' then
      (ip ++ '.' :: (spanP Char.isDigit r2).1 ++ (scanExp (spanP Char.isDigit r2).2).1,
       (scanExp (spanP Char.isDigit r2).2).2)
    else (ip ++ (scanExp (c :: r2)).1, (scanExp (c :: r2)).2)

/-- `. digits+ exp?` -/
def scanDotFirst : Text → Option (Text × Text)
  | [] => none
  | c :: r2 =>
    if c == '.' then
      if (spanP Char.isDigit r2).1.isEmpty then none
      else some ('.' :: (spanP Char.isDigit r2).1 ++ (scanExp (spanP Char.isDigit r2).2).1,
                 (scanExp (spanP Char.isDigit r2).2).2)
    else none

/-- unsigned `NUMBER` -/
def scanUnsigned (r0 : Text) : Option (Text × Text) :=
  if (spanP Char.isDigit r0).1.isEmpty then scanDotFirst r0
  else some (scanAfterInt (spanP Char.isDigit r0).1 (spanP Char.isDigit r0).2)

/-- `SIGNED_NUMBER` at the head of the text: the token and the rest -/
def scanNumber : Text → Option (Text × Text)
  | [] => none
  | c :: cs =>
    if isSign c then
      match scanUnsigned cs with
      | some (t, r) => some (c :: t, r)
      | none => none
    else scanUnsigned (c :: cs)

/-- `s` without the prefix `p`, if it starts with it -/
def stripPrefix : Text → Text → Option Text
  | [], s => some s
  | _ :: _, [] => none
  | p :: ps, c :: cs => if p == c then stripPrefix ps cs else none

/-! ## lexer -/

inductive Tok where
  | word (s : Text)
  | str (s : Text)       -- raw text between the quotes
  | num (s : Text)
  | debug                -- the literal `!debug`
  | white (w : Text)     -- maximal run of `WS` characters
  | comment (c : Text)   -- `#` up to (excluding) the next `\n`; text without the `#`
  deriving DecidableEq, Repr

/-- one token starting with `c`, then `k` on the rest -/
def lexStep (k : Text → Option (List Tok)) (c : Char) (cs : Text) : Option (List Tok) :=
  if isWsChar c then
    (k (spanP isWsChar cs).2).map (Tok.white (c :: (spanP isWsChar cs).1) :: ·)
  else if c == '#' then
    (k (spanP (· != '\n') cs).2).map (Tok.comment (spanP (· != '\n') cs).1 :: ·)
  else if c.isAlpha then
    (k (spanP Char.isAlpha cs).2).map (Tok.word (c :: (spanP Char.isAlpha cs).1) :: ·)
  else if c == '"' then
    match scanStr false cs with
    | some (inner, r) => (k r).map (Tok.str inner :: ·)
    | none => none
  else if isNumStart c then
    match scanNumber (c :: cs) with
    | some (t, r) => (k r).map (Tok.num t :: ·)
    | none => none
  else if c == '!' then
    match stripPrefix ['d', 'e', 'b', 'u', 'g'] cs with
    | some r => (k r).map (Tok.debug :: ·)
    | none => none
  else none

/-- tokens of a text; `none` = a character that no terminal can start / unterminated string /
malformed number.  Fuel: every step consumes at least one character (`lexF_of_le`). -/
def lexF : Nat → Text → Option (List Tok)
  | _, [] => some []
  | 0, _ :: _ => none
  | f + 1, c :: cs => lexStep (lexF f) c cs

def lex (cs : Text) : Option (List Tok) := lexF cs.length cs

/-! ## printing tokens (used to state the round-trip theorems) -/

/-- a command word: `[A-Za-z]+` -/
def wordOk (c : Text) : Bool := !c.isEmpty && c.all Char.isAlpha
/-- a text that can stand between the quotes of an `ESCAPED_STRING`: no newline, no quote that is
not escaped, no odd run of backslashes at the end (exactly the parser's range of names) -/
def nameOk (n : Text) : Bool := scanStr false (n ++ ['"']) == some (n, [])
/-- a complete `SIGNED_NUMBER` token -/
def numTokOk (t : Text) : Bool := scanNumber t == some (t, [])
/-- a character after which a number token cannot continue -/
def isTerm (d : Char) : Bool := !d.isDigit && d != '.' && !isExpChar d && !isSign d

def unlexTok : Tok → Text
  | .word s => s
  | .str s => '"' :: s ++ ['"']
  | .num s => s
  | .debug => ['!', 'd', 'e', 'b', 'u', 'g']
  | .white w => w
  | .comment c => '#' :: c

def unlex : List Tok → Text
  | [] => []
  | t :: ts => unlexTok t ++ unlex ts

def nextOk (p : Char → Bool) : Option Char → Bool
  | none => true
  | some d => p d

/-- the token is well formed and the character that follows it (if any) ends it -/
def okTok : Tok → Option Char → Bool
  | .word s, nx => wordOk s && nextOk (fun d => !d.isAlpha) nx
  | .white w, nx => !w.isEmpty && w.all isWsChar && nextOk (fun d => !isWsChar d) nx
  | .comment c, nx => c.all (· != '\n') && nextOk (· == '\n') nx
  | .str n, _ => nameOk n
  | .num t, nx => numTokOk t && nextOk isTerm nx
  | .debug, _ => true

/-- every token is well formed and does not run into the next one -/
def separated : List Tok → Bool
  | [] => true
  | t :: ts => okTok t (unlex ts).head? && separated ts

/-! ## gaps: what lies between two atoms -/

inductive GTok where
  | white (w : Text)
  | comment (c : Text)
  deriving DecidableEq, Repr

inductive Atom where
  | word (s : Text) | str (s : Text) | num (s : Text) | debug
  deriving DecidableEq, Repr

/-- leading gap, then every atom with the gap that follows it -/
def group : List Tok → List GTok × List (Atom × List GTok)
  | [] => ([], [])
  | t :: ts =>
    let r := group ts
    match t with
    | .white w => (GTok.white w :: r.1, r.2)
    | .comment c => (GTok.comment c :: r.1, r.2)
    | .word s => ([], (Atom.word s, r.1) :: r.2)
    | .str s => ([], (Atom.str s, r.1) :: r.2)
    | .num s => ([], (Atom.num s, r.1) :: r.2)
    | .debug => ([], (Atom.debug, r.1) :: r.2)

/-- the whitespace runs of a gap: `R₀ # R₁ # … # Rₙ` (a comment separates two runs) -/
def runsOf : List GTok → List Text
  | [] => [[]]
  | .white w :: rest =>
    match runsOf rest with
    | r :: rs => (w ++ r) :: rs
    | [] => [w]
  | .comment _ :: rest => [] :: runsOf rest

inductive Slot where
  | ws | nl
  deriving DecidableEq, Repr

/-- a slot of a gap pattern: the terminal and whether it is optional -/
abbrev Pat := List (Slot × Bool)

def allSpaces (w : Text) : Bool := w.all (· == ' ')
def dropSpaces (w : Text) : Text := w.dropWhile (· == ' ')

/-- strip `(\r?\n)*` -/
def stripNLs : Text → Text
  | [] => []
  | c :: cs =>
    if c == '\n' then stripNLs cs
    else if c == '\r' then
      match cs with
      | [] => c :: cs
      | c2 :: cs2 => if c2 == '\n' then stripNLs cs2 else c :: cs
    else c :: cs

/-- strip `NEWLINE = (\r?\n)+` (greedy) -/
def stripNL : Text → Option Text
  | [] => none
  | c :: cs =>
    if c == '\n' then some (stripNLs cs)
    else if c == '\r' then
      match cs with
      | [] => none
      | c2 :: cs2 => if c2 == '\n' then some (stripNLs cs2) else none
    else none

/-- can the mandatory slots `ss` be matched, with ignored blanks around them, inside ONE whitespace
run `w` (no comment inside)?  `WS` is greedy so nothing can follow it in the same run. -/
def hosts : List Slot → Text → Bool
  | [], w => allSpaces w
  | [.ws], w => !w.isEmpty
  | [.nl], w => match stripNL (dropSpaces w) with
    | some r => allSpaces r
    | none => false
  | [.nl, .ws], w => match stripNL (dropSpaces w) with
    | some r => !r.isEmpty
    | none => false
  | _, _ => false

/-- the ways of keeping or dropping the optional slots -/
def choices : Pat → List (List Slot)
  | [] => [[]]
  | (s, opt) :: rest =>
    let r := choices rest
    (r.map (s :: ·)) ++ (if opt then r else [])

def hostsAny (p : Pat) (w : Text) : Bool := (choices p).any (hosts · w)

/-- all ways of cutting a pattern into a prefix and a suffix -/
def splits : Pat → List (Pat × Pat)
  | [] => [([], [])]
  | x :: xs => ([], x :: xs) :: (splits xs).map (fun q => (x :: q.1, q.2))

/-- does the gap with whitespace runs `runs` match `I* slot₁ I* slot₂ … I*`?  Every run hosts a
consecutive group of the slots (a comment cannot be inside a terminal). -/
def fits : Pat → List Text → Bool
  | _, [] => false
  | p, [w] => hostsAny p w
  | p, w :: w' :: ws => (splits p).any fun q => hostsAny q.1 w && fits q.2 (w' :: ws)

def gapFits (p : Pat) (g : List GTok) : Bool := fits p (runsOf g)

def patNone : Pat := []
def patWS : Pat := [(.ws, false)]
def patOWS : Pat := [(.ws, true)]
def patNL : Pat := [(.nl, false)]
/-- after the header: `WS? NEWLINE?` -/
def patHdr : Pat := [(.ws, true), (.nl, true)]

/-! ## phrases and derivations -/

/-- what `TreeToOperation` receives, numbers still as tokens -/
inductive RawCmd where
  | full (c n t : Text)     -- full_operation: command, skill, time
  | skill (c n : Text)      -- skill_operation
  | time (c t : Text)       -- time_operation
  | console (s : Text)
  deriving DecidableEq, Repr

def RawCmd.isOp : RawCmd → Bool
  | .console _ => false
  | _ => true

structure Phrase where
  cmd : RawCmd
  /-- every mandatory `WS` inside the phrase is there -/
  innerOk : Bool
  /-- for `x <num>`: the number token and the gap between `x` and it (candidate multiplier) -/
  xnum : Option (Text × List GTok)
  after : List GTok
  deriving DecidableEq, Repr

def chunk : List (Atom × List GTok) → Option (List Phrase)
  | [] => some []
  | (.word c, g1) :: (.str n, g2) :: (.num t, g3) :: rest =>
    (chunk rest).map (⟨.full c n t, gapFits patWS g1 && gapFits patWS g2, none, g3⟩ :: ·)
  | (.word c, g1) :: (.str n, g2) :: rest =>
    (chunk rest).map (⟨.skill c n, gapFits patWS g1, none, g2⟩ :: ·)
  | (.word c, g1) :: (.num t, g2) :: rest =>
    (chunk rest).map
      (⟨.time c t, gapFits patWS g1, if c == ['x'] then some (t, g1) else none, g2⟩ :: ·)
  | (.debug, g1) :: (.str s, g2) :: rest =>
    (chunk rest).map (⟨.console s, gapFits patWS g1, none, g2⟩ :: ·)
  | _ => none

/-- Python `int(token)` on a `SIGNED_NUMBER` token: only `[+-]?[0-9]+`, otherwise `ValueError` -/
def natOfDigits (ds : Text) : Nat := ds.foldl (fun a c => 10 * a + (c.toNat - '0'.toNat)) 0

def pyInt : Text → Option Int
  | [] => none
  | c :: cs =>
    if c == '-' then (if !cs.isEmpty && cs.all Char.isDigit then some (-(natOfDigits cs : Int)) else none)
    else if c == '+' then (if !cs.isEmpty && cs.all Char.isDigit then some (natOfDigits cs : Int) else none)
    else if (c :: cs).all Char.isDigit then some (natOfDigits (c :: cs) : Int) else none

/-- one derivation: the commands, or `none` when `int(multiplier)` raises `ValueError` -/
abbrev Deriv := Option (List RawCmd)

def consD (c : RawCmd) (d : Deriv) : Deriv := d.map (c :: ·)

/-- `[operation for _ in range(multiplier)]` -/
def replD (n : Option Int) (c : RawCmd) (d : Deriv) : Deriv :=
  match n, d with
  | some k, some r => some (List.replicate k.toNat c ++ r)
  | _, _ => none

/-- what may precede an item besides `base`: the `WS?` of a request without multiplier -/
def leadExtra (c : RawCmd) : Pat := if c.isOp then patOWS else []

/-- end of the text after the last item: only ignored blanks / a comment may follow -/
def endD (after : List GTok) : List Deriv := if gapFits patNone after then [some []] else []

/-- `p` read as an item of its own (preceded by `base`, plus `WS?` if it is an operation);
`k` = the derivations of what follows it -/
def plainReading (base : Pat) (before : List GTok) (p : Phrase) (k : List Deriv) : List Deriv :=
  if p.innerOk && gapFits (base ++ leadExtra p.cmd) before then k.map (consD p.cmd) else []

/-- `p = x N` read as the multiplier of the operation `q`; `k` = the derivations of what follows `q` -/
def multReading (base : Pat) (before : List GTok) (p q : Phrase) (k : List Deriv) : List Deriv :=
  match p.xnum with
  | some (tok, g1) =>
    if gapFits patNone g1 && gapFits base before && gapFits patOWS p.after && q.cmd.isOp && q.innerOk then
      k.map (replD (pyInt tok) q.cmd)
    else []
  | none => []

/-- all derivations of the rest of a body: `after` is the gap that follows the previous item
(`(NEWLINE item)*` then the end of the text) -/
def tailD : List Phrase → List GTok → List Deriv
  | [], after => endD after
  | [p], after => plainReading patNL after p (endD p.after)
  | p :: q :: qs, after =>
    plainReading patNL after p (tailD (q :: qs) p.after) ++ multReading patNL after p q (tailD qs q.after)

/-- all derivations of `before p₁ p₂ …` as a body whose first item is preceded by `base`.
The two readings of a phrase `x N`: a time operation of the command `x`, or the multiplier of the
next operation. -/
def derivsP (base : Pat) (before : List GTok) : List Phrase → List Deriv
  | [] => []
  | [p] => plainReading base before p (endD p.after)
  | p :: q :: qs =>
    plainReading base before p (tailD (q :: qs) p.after) ++ multReading base before p q (tailD qs q.after)

inductive Err where
  | syntax       -- Lark: UnexpectedCharacters / UnexpectedEOF
  | ambiguous    -- the grammar has two derivations with different results (Lark picks by insertion order)
  | valueError   -- `int(multiplier)` raised
  | yaml         -- `yaml.safe_load` of the header raised
  deriving DecidableEq, Repr

def pick : List Deriv → Except Err (List RawCmd)
  | [] => .error .syntax
  | d :: ds =>
    if ds.all (· == d) then
      match d with
      | some r => .ok r
      | none => .error .valueError
    else .error .ambiguous

/-- `__PARSER.parse(text, start=…)` + transformer, numbers as tokens; `base` = what may stand between
the start (or the header) and the first item -/
def parseRawWith (base : Pat) (s : Text) : Except Err (List RawCmd) :=
  match lex s with
  | none => .error .syntax
  | some toks =>
    let g := group toks
    match chunk g.2 with
    | none => .error .syntax
    | some ps => pick (derivsP base g.1 ps)

def parseRaw (s : Text) : Except Err (List RawCmd) := parseRawWith patNone s

/-! ## decorated lines: a command list together with a concrete layout

Used to state the layout theorems.  A line is one `request` or `console`; every gap is given as the
list of blank runs and comments that fill it. -/

structure Mult where
  tok : Text            -- the number after `x`
  gapA : List GTok      -- between `x` and the number
  gapB : List GTok      -- between the number and the operation
  deriving DecidableEq, Repr

structure DLine where
  mult : Option Mult
  cmd : RawCmd
  g1 : List GTok        -- after the command word (or after `!debug`)
  g2 : List GTok        -- between skill name and time (full operations only)
  after : List GTok     -- after the last token: up to the next command, or to the end of the text
  deriving DecidableEq, Repr

def cmdAtoms (cmd : RawCmd) (g1 g2 after : List GTok) : List (Atom × List GTok) :=
  match cmd with
  | .full c n t => [(.word c, g1), (.str n, g2), (.num t, after)]
  | .skill c n => [(.word c, g1), (.str n, after)]
  | .time c t => [(.word c, g1), (.num t, after)]
  | .console s => [(.debug, g1), (.str s, after)]

def lineAtoms (l : DLine) : List (Atom × List GTok) :=
  (match l.mult with
   | some m => [(Atom.word ['x'], m.gapA), (Atom.num m.tok, m.gapB)]
   | none => []) ++ cmdAtoms l.cmd l.g1 l.g2 l.after

def itemsOf : List DLine → List (Atom × List GTok)
  | [] => []
  | l :: ls => lineAtoms l ++ itemsOf ls

def Atom.toTok : Atom → Tok
  | .word s => .word s | .str s => .str s | .num s => .num s | .debug => .debug
def GTok.toTok : GTok → Tok
  | .white w => .white w | .comment c => .comment c

def itemToks : List (Atom × List GTok) → List Tok
  | [] => []
  | (a, g) :: r => a.toTok :: (g.map GTok.toTok ++ itemToks r)

/-- the tokens of the decorated plan; its text is `unlex` of them -/
def toksOf (lead : List GTok) (ls : List DLine) : List Tok := lead.map GTok.toTok ++ itemToks (itemsOf ls)

/-- the commands a decorated plan denotes (`none`: some multiplier is not an integer literal) -/
def expandLine (l : DLine) (d : Deriv) : Deriv :=
  match l.mult with
  | none => consD l.cmd d
  | some m => replD (pyInt m.tok) l.cmd d

def expand : List DLine → Deriv
  | [] => some []
  | l :: ls => expandLine l (expand ls)

def innerFits (cmd : RawCmd) (g1 g2 : List GTok) : Bool :=
  match cmd with
  | .full _ _ _ => gapFits patWS g1 && gapFits patWS g2
  | _ => gapFits patWS g1

/-- what the grammar allows in front of the line, after `base` -/
def leadPat (base : Pat) (l : DLine) : Pat :=
  match l.mult with
  | some _ => base
  | none => base ++ leadExtra l.cmd

def lineFits (l : DLine) : Bool :=
  innerFits l.cmd l.g1 l.g2 &&
  (match l.mult with
   | none => true
   | some m => gapFits patNone m.gapA && gapFits patOWS m.gapB && l.cmd.isOp)

/-- every gap of the decorated plan matches the slot pattern the grammar has at that place -/
def layoutOk : Pat → List GTok → List DLine → Bool
  | _, _, [] => false
  | base, before, [l] => gapFits (leadPat base l) before && lineFits l && gapFits patNone l.after
  | base, before, l :: l' :: ls =>
    gapFits (leadPat base l) before && lineFits l && layoutOk patNL l.after (l' :: ls)

/-- the line cannot be read in two ways: a line `x <num>` (command word `x`) is excluded, and the gap
after a multiplier contains no line break (with one, `x N` could also be a time operation of `x`) -/
def unamb (l : DLine) : Bool :=
  match l.mult with
  | none => (match l.cmd with
    | .time c _ => c != ['x']
    | _ => true)
  | some m => !gapFits patNL m.gapB && !gapFits (patNL ++ patOWS) m.gapB

/-- not a line `x <num>` (a time operation of the command word `x`, which the grammar cannot tell
from a multiplier) -/
def xfree (l : DLine) : Bool :=
  match l.mult, l.cmd with
  | none, .time c _ => c != ['x']
  | _, _ => true

/-! ### explicit layout classes (sufficient for `layoutOk`) -/

def blanksOnly (w : Text) : Bool := w.all (fun c => c == ' ' || c == '\t')
/-- after ignored blanks the run starts with a line break -/
def startsNL (w : Text) : Bool := (stripNL (dropSpaces w)).isSome
/-- blanks, line breaks `(\r?\n)+`, blanks: only completely empty lines -/
def emptyLines (w : Text) : Bool := hosts [.nl] w

/-- between two tokens of one line: blanks and tabs -/
def inlineGap : List GTok → Bool
  | [.white w] => !w.isEmpty && blanksOnly w
  | _ => false
/-- between `x` and the number: nothing or blanks -/
def multGapA : List GTok → Bool
  | [] => true
  | [.white w] => allSpaces w
  | _ => false
/-- between the multiplier and its operation: nothing, blanks or tabs -/
def multGapB : List GTok → Bool
  | [] => true
  | [.white w] => blanksOnly w
  | _ => false
/-- after the last command: blanks, then possibly a comment (to the end of the text) -/
def trailGap : List GTok → Bool
  | [] => true
  | [.white w] => allSpaces w
  | [.comment _] => true
  | [.white w, .comment _] => allSpaces w
  | _ => false
/-- in front of an operation line without multiplier: blanks / trailing comment of the previous line,
a line break, blank lines, at most ONE whole-line comment (only empty lines before it), indentation -/
def sepGapOp : List GTok → Bool
  | [.white w] => startsNL w
  | [.comment _, .white w] => startsNL w
  | [.white s, .comment _, .white w] => (allSpaces s || emptyLines s) && startsNL w
  | [.comment _, .white w1, .comment _, .white w2] => emptyLines w1 && startsNL w2
  | [.white s, .comment _, .white w1, .comment _, .white w2] => allSpaces s && emptyLines w1 && startsNL w2
  | _ => false
/-- in front of a `!debug` line or a line with multiplier: only a trailing comment of the previous
line, completely empty lines and indentation by blanks -/
def sepGapStrict : List GTok → Bool
  | [.white w] => emptyLines w
  | [.comment _, .white w] => emptyLines w
  | [.white s, .comment _, .white w] => allSpaces s && emptyLines w
  | _ => false
/-- in front of the first command when it is an operation without multiplier -/
def leadGapOp : List GTok → Bool
  | [] => true
  | [.white _] => true
  | [.comment _, .white w] => !w.isEmpty
  | [.white s, .comment _, .white w] => allSpaces s && !w.isEmpty
  | _ => false
def leadGapStrict : List GTok → Bool
  | [] => true
  | [.white w] => allSpaces w
  | _ => false

def isStrictLine (l : DLine) : Bool := l.mult.isSome || !l.cmd.isOp

def goodLine (l : DLine) : Bool :=
  inlineGap l.g1 &&
  (match l.cmd with | .full _ _ _ => inlineGap l.g2 | _ => true) &&
  (match l.mult with
   | none => true
   | some m => multGapA m.gapA && multGapB m.gapB && l.cmd.isOp)

/-- the explicit layout class of `layout_irrelevant_partial` (body without header) -/
def goodLayoutFrom (first : Bool) : List GTok → List DLine → Bool
  | _, [] => false
  | before, [l] =>
    (if first then (if isStrictLine l then leadGapStrict before else leadGapOp before)
     else (if isStrictLine l then sepGapStrict before else sepGapOp before)) &&
    goodLine l && trailGap l.after
  | before, l :: l' :: ls =>
    (if first then (if isStrictLine l then leadGapStrict before else leadGapOp before)
     else (if isStrictLine l then sepGapStrict before else sepGapOp before)) &&
    goodLine l && goodLayoutFrom false l.after (l' :: ls)

def goodLayout (lead : List GTok) (ls : List DLine) : Bool := goodLayoutFrom true lead ls

/-! ### the canonical layout: one command per line, single blanks -/

/-- a command in its source form with numbers as tokens -/
def renderRaw : RawCmd → Text
  | .full c n t => c ++ ' ' :: '"' :: n ++ '"' :: ' ' :: t
  | .skill c n => c ++ ' ' :: '"' :: n ++ ['"']
  | .time c t => c ++ ' ' :: t
  | .console s => '!' :: 'd' :: 'e' :: 'b' :: 'u' :: 'g' :: ' ' :: '"' :: s ++ ['"']

/-- the parser's range: command a `WORD`, name the inside of an `ESCAPED_STRING`, time a `SIGNED_NUMBER` -/
def rawOk : RawCmd → Bool
  | .full c n t => wordOk c && nameOk n && numTokOk t
  | .skill c n => wordOk c && nameOk n
  | .time c t => wordOk c && numTokOk t
  | .console s => nameOk s

def canonLine (r : RawCmd) (after : List GTok) : DLine :=
  ⟨none, r, [.white [' ']], [.white [' ']], after⟩

def canonLines : List RawCmd → List DLine
  | [] => []
  | [r] => [canonLine r []]
  | r :: r' :: rs => canonLine r [.white ['\n']] :: canonLines (r' :: rs)

/-- `x<m> <operation>` in the canonical layout -/
def multLine (m : Text) (r : RawCmd) : DLine :=
  ⟨some ⟨m, [], [.white [' ']]⟩, r, [.white [' ']], [.white [' ']], []⟩

/-! ## numbers, operations, `expr` -/

structure NumModel where
  N : Type
  /-- Python `float(token)` on a `SIGNED_NUMBER` token -/
  ofTok : Text → N
  /-- Python `f"{x}"` = `repr(x)` of a float -/
  repr : N → Text
  /-- Python `math.isfinite(x)` (since the repair of F16 `TreeToOperation.time` raises `ValueError` otherwise) -/
  finite : N → Bool

structure Operation (ν : NumModel) where
  command : Text
  name : Text
  time : Option ν.N
  expr : Text

inductive Command (ν : NumModel) where
  | op (o : Operation ν)
  | console (text : Text)

/-- `TreeToOperation.full_operation`: `expr=f'{command} "{skill_name}" {time}'` -/
def mkFull (ν : NumModel) (c n : Text) (t : ν.N) : Operation ν :=
  ⟨c, n, some t, c ++ ' ' :: '"' :: n ++ '"' :: ' ' :: ν.repr t⟩
/-- `TreeToOperation.time_operation`: `name=""`, `expr=f"{command} {time}"` -/
def mkTime (ν : NumModel) (c : Text) (t : ν.N) : Operation ν :=
  ⟨c, [], some t, c ++ ' ' :: ν.repr t⟩
/-- `TreeToOperation.skill_operation`: `time=None`, `expr=f'{command} "{skill_name}"'` -/
def mkSkill (ν : NumModel) (c n : Text) : Operation ν :=
  ⟨c, n, none, c ++ ' ' :: '"' :: n ++ ['"']⟩

def interp (ν : NumModel) : RawCmd → Command ν
  | .full c n t => .op (mkFull ν c n (ν.ofTok t))
  | .skill c n => .op (mkSkill ν c n)
  | .time c t => .op (mkTime ν c (ν.ofTok t))
  | .console s => .console s

/-- the time of the operation (if it has one) is a finite float -/
def timeFinite (ν : NumModel) : RawCmd → Bool
  | .full _ _ t => ν.finite (ν.ofTok t)
  | .time _ t => ν.finite (ν.ofTok t)
  | _ => true

/-- the transformer: `TreeToOperation.time` raises `ValueError` for a time literal that overflows to `inf`
(`ELAPSE 1e999`).  Modelled on the commands that are returned; the one case this does not see — an operation
with such a time that a multiplier `x0` / `x-1` then drops — is outside the model (the harness skips it). -/
def interpAll (ν : NumModel) (rs : List RawCmd) : Except Err (List (Command ν)) :=
  if rs.all (timeFinite ν) then .ok (rs.map (interp ν)) else .error .valueError

/-- `parse_dsl_to_command` -/
def parseText (ν : NumModel) (s : Text) : Except Err (List (Command ν)) :=
  match parseRaw s with
  | .error e => .error e
  | .ok rs => interpAll ν rs

/-- the printed form of an operation: the `expr` string `TreeToOperation` built -/
def renderText {ν : NumModel} (o : Operation ν) : Text := o.expr

/-- printed form of a command (a console line has no `expr`; this is its source form) -/
def renderCmd {ν : NumModel} : Command ν → Text
  | .op o => o.expr
  | .console s => '!' :: 'd' :: 'e' :: 'b' :: 'u' :: 'g' :: ' ' :: '"' :: s ++ ['"']

def parse (ν : NumModel) (s : String) : Except Err (List (Command ν)) := parseText ν s.toList
def render {ν : NumModel} (o : Operation ν) : String := String.ofList o.expr

/-! ## the hypothesis on numbers and the parser's range (used by the C14 theorems) -/

/-- `repr(x)` is a complete `SIGNED_NUMBER` token and `float(repr(x)) = x` (true of every finite
Python float; false for `inf`/`nan`, known finding F16) -/
structure NumOk (ν : NumModel) (x : ν.N) : Prop where
  tok : numTokOk (ν.repr x) = true
  roundtrip : ν.ofTok (ν.repr x) = x
  fin : ν.finite x = true

/-- the operations `TreeToOperation` can build: command a `WORD`, name the inside of an
`ESCAPED_STRING` (any text without newline in which every `"` is escaped and that does not end in an odd
run of backslashes), time a finite float or absent; `expr` as built by the transformer -/
inductive InRange (ν : NumModel) : Operation ν → Prop
  | full {c n : Text} {t : ν.N} : wordOk c = true → nameOk n = true → NumOk ν t → InRange ν (mkFull ν c n t)
  | time {c : Text} {t : ν.N} : wordOk c = true → NumOk ν t → InRange ν (mkTime ν c t)
  | skill {c n : Text} : wordOk c = true → nameOk n = true → InRange ν (mkSkill ν c n)

/-- a command the writer may print: an operation in range whose command word is not `x`
(a line `x 3.0` followed by another line is ambiguous in the grammar), or a `!debug` line -/
inductive CmdInRange (ν : NumModel) : Command ν → Prop
  | op {o : Operation ν} : InRange ν o → o.command ≠ ['x'] → CmdInRange ν (.op o)
  | console {s : Text} : nameOk s = true → CmdInRange ν (.console s)

/-! ## the runtime text: header, `---`, body -/

/-- Python `str.isspace()` code points (what `str.strip()` removes) -/
def isPySpace (c : Char) : Bool :=
  let v := c.toNat
  (9 ≤ v && v ≤ 13) || (28 ≤ v && v ≤ 32) || v == 0x85 || v == 0xa0 || v == 0x1680 ||
  (0x2000 ≤ v && v ≤ 0x200a) || v == 0x2028 || v == 0x2029 || v == 0x202f || v == 0x205f || v == 0x3000

def pyStrip (s : Text) : Text := ((s.dropWhile isPySpace).reverse.dropWhile isPySpace).reverse

def startsDashes (s : Text) : Option Text := stripPrefix ['-', '-', '-'] s

/-- the header terminal, regex `(.+)(\n(.*))*\n---`, matched at position 0 (greedy: up to the LAST `\n---`);
returns `full_text[:-3]` and the rest.  The text is stripped, so it does not start with `\n`. -/
def splitHeader : Text → Option (Text × Text)
  | [] => none
  | c :: cs =>
    match splitHeader cs with
    | some (h, r) => some (c :: h, r)
    | none =>
      if c == '\n' then
        match startsDashes cs with
        | some r => some (['\n'], r)
        | none => none
      else none

structure YamlModel where
  M : Type
  /-- `yaml.safe_load` -/
  load : Text → Option M
  /-- `{}` : the context of a text without header -/
  empty : M

/-- `parse_simaple_runtime` -/
def parseRuntimeText (ν : NumModel) (Y : YamlModel) (s : Text) :
    Except Err (Y.M × List (Command ν)) :=
  let s := pyStrip s
  match (match s with
         | [] => none
         | c :: cs => if c == '\n' then none
                      else (splitHeader cs).map fun (p : Text × Text) => (c :: p.1, p.2)) with
  | none => (parseText ν s).map fun (cmds : List (Command ν)) => (Y.empty, cmds)
  | some (ctx, rest) =>
    match parseRawWith patHdr rest with
    | .error e => .error e
    | .ok raw =>
      match interpAll ν raw with        -- the body is transformed before `simaple` loads the header
      | .error e => .error e
      | .ok cmds =>
        match Y.load ctx with
        | none => .error .yaml
        | some m => .ok (m, cmds)

def joinLines : List Text → Text
  | [] => []
  | [l] => l
  | l :: ls => l ++ '\n' :: joinLines ls

/-- the plan text the API writes (`simaple/api/base.py`: `f"---\n{yaml_dump}\n---\n{operations}"`),
with one command per line -/
def renderPlanText {ν : NumModel} (dumped : Text) (cmds : List (Command ν)) : Text :=
  '-' :: '-' :: '-' :: '\n' :: dumped ++ '\n' :: '-' :: '-' :: '-' :: '\n' :: joinLines (cmds.map renderCmd)

/-! ## instance used by the driver: numbers and YAML kept as text -/

def digitsVal (ds : Text) : Nat := ds.foldl (fun a c => a * 10 + (c.toNat - '0'.toNat)) 0

/-- is Python's `float(token)` finite?  IEEE double with correct rounding (ties to even): the result is `inf`
exactly when `|x| ≥ 2^1024 - 2^970` (half an ulp above the largest double, whose mantissa is odd). -/
def tokFinite (t : Text) : Bool :=
  let t := match t with
    | c :: r => if isSign c then r else t
    | [] => []
  let ip := spanP Char.isDigit t
  let fp : Text × Text := match ip.2 with
    | '.' :: r => spanP Char.isDigit r
    | _ => ([], ip.2)
  let expo : Int := match fp.2 with
    | e :: r =>
      if isExpChar e then
        (match r with
         | '-' :: ds => - (digitsVal ds : Int)
         | '+' :: ds => (digitsVal ds : Int)
         | ds => (digitsVal ds : Int))
      else 0
    | [] => 0
  let mant := digitsVal (ip.1 ++ fp.1)           -- |x| = mant * 10 ^ (expo - |fraction digits|)
  if mant == 0 then true
  else
    let e10 : Int := expo - fp.1.length
    let mag : Int := e10 + (Nat.toDigits 10 mant).length      -- 10^(mag-1) ≤ |x| < 10^mag
    if mag > 310 then false
    else if mag < 300 then true
    else
      let thr : Nat := 2 ^ 1024 - 2 ^ 970
      if e10 ≥ 0 then decide (mant * 10 ^ e10.toNat < thr) else decide (mant < thr * 10 ^ (-e10).toNat)

def tokNum : NumModel := ⟨Text, id, id, tokFinite⟩
def rawYaml : YamlModel := ⟨Text, some, []⟩

end Simaple.Dsl
