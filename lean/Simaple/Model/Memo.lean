/-
Model of simaple/container/memoizer.py (C20), statement by statement, over an abstract provider.

  * `Dict V`            a Python `dict[str, V]` as an association list (first match wins on lookup,
                        `set` replaces in place or appends, `update` = repeated `set`);
  * `Iface P V E`       everything the memoizer calls on a provider `p : P` (`get_name`, `get_memoization_key`,
                        `get_memoizable_environment`, `get_memoization_independent_environment`), the validation
                        `SimulationEnvironment.model_validate`, the sha256 digest and the two codecs
                        (`_serialize_output`/`_deserialize_output`, `json.dump`/`json.load` of the store);
                        exceptions are values (`Except String`);
  * `World`             the dict objects alive in the current process (`heap`: `InMemoryMemoizer.memos` are
                        *references*, `export()` returns the same object) and the files on disk;
  * `InMemory.memoize`, `Persistent.memoize`, `computeEnvironment`, `Op`/`step`/`run` (new memoizers, requests,
                        export, json save/load of an exported dict, process restart).

The hand-written control flow below is the one described by `modelInMemoryShape`/`modelPersistentShape`;
`Props/C20.lean` proves that the shapes GENERATED from the current source equal them.
-/
import Simaple.Gen.Memo

namespace Simaple.Memo
open Simaple.Gen.Memo

/-! ### Python dictionaries -/

abbrev Dict (V : Type) := List (String × V)

namespace Dict
variable {V : Type}

/-- `d.get(k)` -/
def get? : Dict V → String → Option V
  | [], _ => none
  | (k', v) :: r, k => if k' = k then some v else get? r k

/-- `k in d` -/
def has (d : Dict V) (k : String) : Bool := (d.get? k).isSome

/-- `d[k] = v` (an existing key keeps its position) -/
def set : Dict V → String → V → Dict V
  | [], k, v => [(k, v)]
  | (k', v') :: r, k, v => if k' = k then (k, v) :: r else (k', v') :: set r k v

/-- `d.update(e)` -/
def update (d e : Dict V) : Dict V := e.foldl (fun acc kv => acc.set kv.1 kv.2) d

def keys (d : Dict V) : List String := d.map (·.1)

end Dict

/-- `dict[str, str]`: memo key ↦ serialized `CharacterProviderMemo`; `S` is the type of serialized memos
    (`str` in the code: the text produced by `model_dump_json`) -/
abbrev Store (S : Type) := Dict S

/-- `CharacterProviderMemo` -/
structure ProviderMemo (V : Type) where
  memoizable_environment : Dict V
  independent_environment : Dict V

/-- what the memoizer uses of its surroundings; `S` = serialized memo (`str`), `T` = content of a memo file
    (text): the storage sits behind the two codecs `ser`/`deser` and `dumpStore`/`loadStore` -/
structure Iface (P V E S T : Type) where
  /-- `p.get_name()` -/
  name : P → String
  /-- `p.get_memoization_key()` -/
  memoKeyStr : P → String
  /-- `p.get_memoizable_environment()` (the expensive part) -/
  memoPart : P → Except String (Dict V)
  /-- `p.get_memoization_independent_environment()` -/
  indepPart : P → Except String (Dict V)
  /-- `SimulationEnvironment.model_validate(d)` -/
  validate : Dict V → Except String E
  /-- `sha256(json.dumps({"setting": setting, "name": name}, sort_keys=True, ...)).hexdigest()` -/
  digest : (setting name : String) → String
  /-- `_serialize_output` -/
  ser : ProviderMemo V → S
  /-- `_deserialize_output` -/
  deser : S → Except String (ProviderMemo V)
  /-- `json.dump(memos, f)` -/
  dumpStore : Store S → T
  /-- `json.load(f)` -/
  loadStore : T → Except String (Store S)

section
variable {P V E S T : Type} (I : Iface P V E S T)

/-- `MemoizableEnvironmentProvider.get_simulation_environment`:
    `d = self.get_memoization_independent_environment(); d.update(self.get_memoizable_environment());
     return SimulationEnvironment.model_validate(d)` -/
def directEnv (p : P) : Except String E := do
  let d ← I.indepPart p
  let m ← I.memoPart p
  I.validate (d.update m)

/-- `CharacterProviderMemo.get_simulation_environment` (same statements over the two stored dictionaries) -/
def memoEnv (x : ProviderMemo V) : Except String E :=
  I.validate (x.independent_environment.update x.memoizable_environment)

/-- `CharacterProviderMemoizer._compute_memo_key`: `f"{name}.{digest}"` -/
def key (p : P) : String := I.name p ++ "." ++ I.digest (I.memoKeyStr p) (I.name p)

/-- the body shared by the two `memoize` methods once the store is at hand:
    returns the answer, the hit flag and the store after the call -/
def memoizeStore (s : Store S) (p : P) : Except String (ProviderMemo V × Bool × Store S) :=
  let memo_key := key I p
  match s.get? memo_key with
  | some txt => do                                   -- `if memo_key in memos:`
    let memoized ← I.deser txt
    let independent ← I.indepPart p
    pure (⟨memoized.memoizable_environment, independent⟩, true, s)
  | none => do
    let memoizable ← I.memoPart p
    let independent ← I.indepPart p
    let output : ProviderMemo V := ⟨memoizable, independent⟩
    pure (output, false, s.set memo_key (I.ser output))

/-! ### the process and the disk -/

structure World (S T : Type) where
  /-- dict objects of the running process; an `InMemoryMemoizer` holds an index into this list -/
  heap : List (Store S)
  /-- path ↦ content -/
  files : Dict T

def World.empty {S T : Type} : World S T := ⟨[], []⟩

/-- a memoizer object -/
inductive Handle where
  | inMemory (ref : Nat)
  | persistent (path : String)
deriving DecidableEq, Repr

namespace InMemory

/-- `InMemoryMemoizer.__init__(saved_memos)`: `None` → a new `{}`; otherwise the SAME dict object -/
def new (w : World S T) (saved : Option Nat) : World S T × Nat :=
  match saved with
  | none => (⟨w.heap ++ [[]], w.files⟩, w.heap.length)
  | some ref => (w, ref)

/-- `InMemoryMemoizer.memoize` -/
def memoize (w : World S T) (ref : Nat) (p : P) : Except String (ProviderMemo V × Bool) × World S T :=
  match w.heap[ref]? with
  | none => (.error "dangling memoizer", w)
  | some memos =>
    let memo_key := key I p
    match memos.get? memo_key with
    | some txt =>
      match I.deser txt with
      | .error e => (.error e, w)
      | .ok memoized =>
        match I.indepPart p with
        | .error e => (.error e, w)
        | .ok independent => (.ok (⟨memoized.memoizable_environment, independent⟩, true), w)
    | none =>
      match I.memoPart p with
      | .error e => (.error e, w)
      | .ok memoizable =>
        match I.indepPart p with
        | .error e => (.error e, w)
        | .ok independent =>
          let output : ProviderMemo V := ⟨memoizable, independent⟩
          (.ok (output, false), ⟨w.heap.set ref (memos.set memo_key (I.ser output)), w.files⟩)

/-- `InMemoryMemoizer.export`: the dict object itself -/
def «export» (ref : Nat) : Nat := ref

end InMemory

namespace Persistent

/-- `PersistentStorageMemoizer.__init__(path)`: creates the file holding `{}` unless it exists -/
def new (w : World S T) (path : String) : World S T :=
  if w.files.has path then w else ⟨w.heap, w.files.set path (I.dumpStore [])⟩

/-- `PersistentStorageMemoizer.memoize` -/
def memoize (w : World S T) (path : String) (p : P) : Except String (ProviderMemo V × Bool) × World S T :=
  let memo_key := key I p
  match w.files.get? path with
  | none => (.error "FileNotFoundError", w)
  | some text =>
    match I.loadStore text with
    | .error e => (.error e, w)
    | .ok memos =>
      match memos.get? memo_key with
      | some txt =>
        match I.deser txt with
        | .error e => (.error e, w)
        | .ok memoized =>
          match I.indepPart p with
          | .error e => (.error e, w)
          | .ok independent => (.ok (⟨memoized.memoizable_environment, independent⟩, true), w)
      | none =>
        match I.memoPart p with
        | .error e => (.error e, w)
        | .ok memoizable =>
          match I.indepPart p with
          | .error e => (.error e, w)
          | .ok independent =>
            let output : ProviderMemo V := ⟨memoizable, independent⟩
            let memos' := memos.set memo_key (I.ser output)
            (.ok (output, false), ⟨w.heap, w.files.set path (I.dumpStore memos')⟩)

end Persistent

/-- `memoizer.memoize(p)` -/
def memoize (w : World S T) (h : Handle) (p : P) : Except String (ProviderMemo V × Bool) × World S T :=
  match h with
  | .inMemory ref => InMemory.memoize I w ref p
  | .persistent path => Persistent.memoize I w path p

/-- `CharacterProviderMemoizer.compute_environment`:
    `memo, _ = self.memoize(p); return memo.get_simulation_environment()` -/
def computeEnvironment (w : World S T) (h : Handle) (p : P) : Except String E × World S T :=
  match memoize I w h p with
  | (.error e, w') => (.error e, w')
  | (.ok (memo, _), w') => (memoEnv I memo, w')

/-- the memoizer object exists in this process / its file exists -/
def Handle.Valid {S T : Type} (w : World S T) : Handle → Prop
  | .inMemory ref => ref < w.heap.length
  | .persistent path => w.files.has path = true

/-! ### histories -/

inductive Op (P : Type) where
  /-- `InMemoryMemoizer(saved)`; `saved = none` → fresh dict; `some r` → the exported / loaded dict `r` -/
  | newInMemory (saved : Option Nat)
  /-- `PersistentStorageMemoizer(path)` -/
  | newPersistent (path : String)
  /-- `h.compute_environment(p)` -/
  | request (h : Handle) (p : P)
  /-- `exported = m.export()` -/
  | «export» (ref : Nat)
  /-- `json.dump(exported, open(path, "w"))` -/
  | saveJson (ref : Nat) (path : String)
  /-- `saved = json.load(open(path))`: a new dict object -/
  | loadJson (path : String)
  /-- the process ends and a new one starts: every in-memory object is gone, files stay -/
  | restart

inductive Res (E : Type) where
  | ref (n : Nat)
  | done
  | answer (hit : Bool) (e : Except String E)
  | raised (msg : String)

def step (w : World S T) : Op P → World S T × Res E
  | .newInMemory saved =>
    match saved with
    | some r => if r < w.heap.length then (w, .ref r) else (w, .raised "dangling dict")
    | none => let (w', r) := InMemory.new w none; (w', .ref r)
  | .newPersistent path => (Persistent.new I w path, .done)
  | .request h p =>
    match memoize I w h p with
    | (.error e, w') => (w', .raised e)
    | (.ok (memo, hit), w') => (w', .answer hit (memoEnv I memo))
  | .export ref => if ref < w.heap.length then (w, .ref (InMemory.export ref)) else (w, .raised "dangling memoizer")
  | .saveJson ref path =>
    match w.heap[ref]? with
    | some s => (⟨w.heap, w.files.set path (I.dumpStore s)⟩, .done)
    | none => (w, .raised "dangling dict")
  | .loadJson path =>
    match w.files.get? path with
    | none => (w, .raised "FileNotFoundError")
    | some text =>
      match I.loadStore text with
      | .error e => (w, .raised e)
      | .ok s => (⟨w.heap ++ [s], w.files⟩, .ref w.heap.length)
  | .restart => (⟨[], w.files⟩, .done)

def run (w : World S T) : List (Op P) → World S T × List (Res E)
  | [] => (w, [])
  | op :: ops =>
    let (w', r) := step I w op
    let (w'', rs) := run w' ops
    (w'', r :: rs)

/-- the world after a history -/
def after (w : World S T) (ops : List (Op P)) : World S T := (run (E := E) I w ops).1

end

/-! ### the control flow implemented above, in the vocabulary of the generated shapes -/

def modelInMemoryShape : MemoizeShape :=
  { readsFile := false, hitMemo := .storedMemo, hitIndep := .requestIndep, hitFlag := true,
    missMemo := .requestMemo, missIndep := .requestIndep, missFlag := false, missStores := true,
    writesFile := false }

def modelPersistentShape : MemoizeShape :=
  { modelInMemoryShape with readsFile := true, writesFile := true }

def modelAssemble : AssembleShape := ⟨.indep, .memo⟩

/-! ### providers of the two generated classes -/

/-- the fields that enter `get_memoization_key` -/
def keyFields (s : Spec) : List String := s.fields.filter (fun f => !s.keyExclude.contains f)

/-- an instance of one of the generated provider classes: the class and the value of every field -/
structure Prov (V : Type) where
  spec : Spec
  known : spec ∈ specs
  val : String → V

/-- `json.loads(self.model_dump_json(exclude=...))` as the list of (field, value) -/
def keyView {V : Type} (p : Prov V) : List (String × V) := (keyFields p.spec).map (fun f => (f, p.val f))

/-- the interface of a generated provider class: `canon` = `json.dumps(.., sort_keys=True)`, `memoFn`/`indepFn`
    the two parts as functions of the class and the field values -/
def provIface {V E S T : Type} (canon : List (String × V) → String)
    (memoFn indepFn : Spec → (String → V) → Except String (Dict V))
    (validate : Dict V → Except String E) (digest : String → String → String)
    (ser : ProviderMemo V → S) (deser : S → Except String (ProviderMemo V))
    (dumpStore : Store S → T) (loadStore : T → Except String (Store S)) : Iface (Prov V) V E S T :=
  { name := fun p => p.spec.name
    memoKeyStr := fun p => canon (keyView p)
    memoPart := fun p => memoFn p.spec p.val
    indepPart := fun p => indepFn p.spec p.val
    validate := validate, digest := digest, ser := ser, deser := deser,
    dumpStore := dumpStore, loadStore := loadStore }

end Simaple.Memo
