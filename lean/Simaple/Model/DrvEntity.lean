import Simaple.Model.JsonUtil
import Simaple.Model.Entity
/-! driver entry points for the entity models (C09 and the component models built on them).

Request  `{"fn":"entity","cls":"Periodic","method":"elapse","state":{…python field names…},"args":[…]}`
Response `{"state": {…}, "result": …}` or `{"raise": "ValueError"}`.
Times are integers in grid units (2^-10 ms) as strings, counts integers as strings, damages "num/den". -/
namespace Simaple.DrvEntity
open Lean Simaple.J Simaple.Entity

def optInt (j : Json) : Except String (Option Int) :=
  match j with
  | .null => pure none
  | v => do pure (some (← int v))

def ofOptInt : Option Int → Json
  | none => .null
  | some i => ofInt i

def arg (args : List Json) (i : Nat) : Except String Json :=
  match args[i]? with
  | some v => pure v
  | none => throw s!"missing argument {i}"

def argInt (args : List Json) (i : Nat) : Except String Int := do int (← arg args i)
def argIntD (args : List Json) (i : Nat) (d : Int) : Except String Int :=
  match args[i]? with
  | some v => int v
  | none => pure d
def argRat (args : List Json) (i : Nat) : Except String Rat := do rat (← arg args i)
def argStr (args : List Json) (i : Nat) : Except String String := do str (← arg args i)

def reply (state : Json) (result : Json := .null) : Json := Json.mkObj [("state", state), ("result", result)]
def raised (e : String) : Json := Json.mkObj [("raise", .str e)]
def bool (b : Bool) : Json := .bool b

/-! ### codecs -/
def getLasting (j : Json) : Except String Lasting := do
  pure { timeLeft := ← int (← field j "time_left"), assignedDuration := ← int (fieldD j "assigned_duration" (.str "0")) }
def lastingJson (s : Lasting) : Json :=
  Json.mkObj [("time_left", ofInt s.timeLeft), ("assigned_duration", ofInt s.assignedDuration)]

def getCooldown (j : Json) : Except String Cooldown := do pure { timeLeft := ← int (← field j "time_left") }
def cooldownJson (s : Cooldown) : Json := Json.mkObj [("time_left", ofInt s.timeLeft)]

def getConsumable (j : Json) : Except String Consumable := do
  pure { maximumStack := ← int (← field j "maximum_stack"), stack := ← int (← field j "stack"),
         cooldownDuration := ← int (← field j "cooldown_duration"), timeLeft := ← int (← field j "time_left") }
def consumableJson (s : Consumable) : Json :=
  Json.mkObj [("maximum_stack", ofInt s.maximumStack), ("stack", ofInt s.stack),
    ("cooldown_duration", ofInt s.cooldownDuration), ("time_left", ofInt s.timeLeft)]

def getCycle (j : Json) : Except String Cycle := do
  pure { tick := ← int (← field j "tick"), period := ← int (← field j "period") }
def cycleJson (s : Cycle) : Json := Json.mkObj [("tick", ofInt s.tick), ("period", ofInt s.period)]

def getPeriodic (j : Json) : Except String Periodic := do
  pure { interval := ← int (← field j "interval"), initialCounter := ← optInt (fieldD j "initial_counter" .null),
         intervalCounter := ← int (← field j "interval_counter"), timeLeft := ← int (← field j "time_left"),
         count := ← int (← field j "count") }
def periodicJson (s : Periodic) : Json :=
  Json.mkObj [("interval", ofInt s.interval), ("initial_counter", ofOptInt s.initialCounter),
    ("interval_counter", ofInt s.intervalCounter), ("time_left", ofInt s.timeLeft), ("count", ofInt s.count)]

def getStack (j : Json) : Except String Stack := do
  pure { stack := ← int (← field j "stack"), maximumStack := ← int (← field j "maximum_stack") }
def stackJson (s : Stack) : Json := Json.mkObj [("stack", ofInt s.stack), ("maximum_stack", ofInt s.maximumStack)]

def getInteger (j : Json) : Except String Integer := do pure { value := ← int (← field j "value") }
def integerJson (s : Integer) : Json := Json.mkObj [("value", ofInt s.value)]

def getLastingStack (j : Json) : Except String LastingStack := do
  pure { stack := ← int (← field j "stack"), maximumStack := ← int (← field j "maximum_stack"),
         duration := ← int (← field j "duration"), timeLeft := ← int (← field j "time_left") }
def lastingStackJson (s : LastingStack) : Json :=
  Json.mkObj [("stack", ofInt s.stack), ("maximum_stack", ofInt s.maximumStack), ("duration", ofInt s.duration),
    ("time_left", ofInt s.timeLeft)]

def getKeydown (j : Json) : Except String Keydown := do
  pure { interval := ← int (← field j "interval"), intervalCounter := ← int (← field j "interval_counter"),
         timeLeft := ← int (← field j "time_left") }
def keydownJson (s : Keydown) : Json :=
  Json.mkObj [("interval", ofInt s.interval), ("interval_counter", ofInt s.intervalCounter), ("time_left", ofInt s.timeLeft)]

def getDot (j : Json) : Except String DOT := do
  let cur ← (← list (← field j "current")).mapM (fun e => do
    let a ← list e
    match a with
    | [n, d, l] => pure (← str n, ← rat d, ← int l)
    | _ => throw "current entry: [name, damage, lasting]")
  pure { current := cur, periodTimeLeft := ← int (← field j "period_time_left"), period := ← int (← field j "period") }
def dotJson (s : DOT) : Json :=
  Json.mkObj [("current", .arr (s.current.map (fun e => Json.arr #[.str e.1, ofRat e.2.1, ofInt e.2.2])).toArray),
    ("period_time_left", ofInt s.periodTimeLeft), ("period", ofInt s.period)]
def emitsJson (em : List ((String × Rat) × Nat)) : Json :=
  .arr (em.map (fun e => Json.arr #[.str e.1.1, ofRat e.1.2, ofInt e.2])).toArray

def getPP (j : Json) : Except String ProgrammedPeriodic := do
  pure { intervalCounter := ← int (← field j "interval_counter"), intervals := ← intList (← field j "intervals"),
         timeLeft := ← int (← field j "time_left"), count := ← int (← field j "count") }
def ppJson (s : ProgrammedPeriodic) : Json :=
  Json.mkObj [("interval_counter", ofInt s.intervalCounter), ("intervals", ofInts s.intervals),
    ("time_left", ofInt s.timeLeft), ("count", ofInt s.count)]

def getDIP (j : Json) : Except String DynamicIntervalPeriodic := do
  pure { intervalCounter := ← int (← field j "interval_counter"), interval := ← int (← field j "interval"),
         timeLeft := ← int (← field j "time_left"), count := ← int (← field j "count"),
         countIntervalPenalty := ← int (← field j "count_interval_penalty"), maxCount := ← int (← field j "max_count") }
def dipJson (s : DynamicIntervalPeriodic) : Json :=
  Json.mkObj [("interval_counter", ofInt s.intervalCounter), ("interval", ofInt s.interval),
    ("time_left", ofInt s.timeLeft), ("count", ofInt s.count),
    ("count_interval_penalty", ofInt s.countIntervalPenalty), ("max_count", ofInt s.maxCount)]

def getOrderSword (j : Json) : Except String OrderSword := do
  let sw ← (← list (← field j "running_swords")).mapM (fun e => do
    match ← intList e with
    | [c, t] => pure (c, t)
    | _ => throw "sword: [counter, time_left]")
  pure { runningSwords := sw, interval := ← int (← field j "interval") }
def orderSwordJson (s : OrderSword) : Json :=
  Json.mkObj [("running_swords", .arr (s.runningSwords.map (fun p => ofInts [p.1, p.2])).toArray),
    ("interval", ofInt s.interval)]

def getCurrentField (j : Json) : Except String CurrentField := do
  pure { fieldPeriodics := ← (← list (← field j "field_periodics")).mapM getPeriodic,
         fieldInterval := ← int (← field j "field_interval"), fieldDuration := ← int (← field j "field_duration"),
         maxCount := ← int (← field j "max_count"), lastForceTriggered := ← int (← field j "last_force_triggered"),
         forceTriggerInterval := ← int (← field j "force_trigger_interval"),
         stableRngCounter := ← rat (← field j "stable_rng_counter") }
def currentFieldJson (s : CurrentField) : Json :=
  Json.mkObj [("field_periodics", .arr (s.fieldPeriodics.map periodicJson).toArray),
    ("field_interval", ofInt s.fieldInterval), ("field_duration", ofInt s.fieldDuration),
    ("max_count", ofInt s.maxCount), ("last_force_triggered", ofInt s.lastForceTriggered),
    ("force_trigger_interval", ofInt s.forceTriggerInterval), ("stable_rng_counter", ofRat s.stableRngCounter)]

def getNova (j : Json) : Except String PoisonNovaEntity := do
  pure { timeLeft := ← int (← field j "time_left"), maximumTimeLeft := ← int (← field j "maximum_time_left") }
def novaJson (s : PoisonNovaEntity) : Json :=
  Json.mkObj [("time_left", ofInt s.timeLeft), ("maximum_time_left", ofInt s.maximumTimeLeft)]

def getFervent (j : Json) : Except String FerventDrainStack := do
  pure { count := ← int (← field j "count"), maxCount := ← int (← field j "max_count") }
def ferventJson (s : FerventDrainStack) : Json := Json.mkObj [("count", ofInt s.count), ("max_count", ofInt s.maxCount)]

def getMark (j : Json) : Except String (DivineMark String) := do
  match fieldD j "advantage" .null with
  | .null => pure { advantage := none }
  | v => pure { advantage := some (← str v) }
def markJson (s : DivineMark String) : Json :=
  Json.mkObj [("advantage", match s.advantage with | some a => .str a | none => .null)]

def getEther (j : Json) : Except String EtherGauge := do
  pure { toStack := ← getStack j, creationStep := ← int (← field j "creation_step"),
         orderConsume := ← int (← field j "order_consume") }
def etherJson (s : EtherGauge) : Json :=
  Json.mkObj [("stack", ofInt s.stack), ("maximum_stack", ofInt s.maximumStack),
    ("creation_step", ofInt s.creationStep), ("order_consume", ofInt s.orderConsume)]

def getRestore (j : Json) : Except String RestoreLasting := do
  pure { toLasting := ← getLasting j, etherMultiplier := ← rat (← field j "ether_multiplier") }
def restoreJson (s : RestoreLasting) : Json :=
  Json.mkObj [("time_left", ofInt s.timeLeft), ("assigned_duration", ofInt s.assignedDuration),
    ("ether_multiplier", ofRat s.etherMultiplier)]

def getRobot (j : Json) : Except String RobotMastery := do
  pure { summonIncrement := ← rat (← field j "summon_increment"),
         robotDamageIncrement := ← rat (← field j "robot_damage_increment") }
def robotJson (s : RobotMastery) : Json :=
  Json.mkObj [("summon_increment", ofRat s.summonIncrement), ("robot_damage_increment", ofRat s.robotDamageIncrement)]

def getClock (j : Json) : Except String Clock := do pure { currentTime := ← int (← field j "current_time") }
def clockJson (s : Clock) : Json := Json.mkObj [("current_time", ofInt s.currentTime)]

/-! ### dispatch -/
def unknown (cls m : String) : Except String Json := throw s!"unknown method {cls}.{m}"

def lastingMethod (s : Lasting) (m : String) (a : List Json) (enc : Lasting → Json) : Option (Except String Json) :=
  match m with
  | "enabled" => some (pure (reply (enc s) (bool s.enabled)))
  | "elapse" => some do pure (reply (enc (s.elapse (← argInt a 0))))
  | "set_time_left" => some do pure (reply (enc (s.setTimeLeft (← argInt a 0))))
  | "get_elapsed_time" => some (pure (reply (enc s) (ofInt s.getElapsedTime)))
  | _ => none

def stackMethod (s : Stack) (m : String) (a : List Json) (enc : Stack → Json) : Option (Except String Json) :=
  match m with
  | "reset" => some do pure (reply (enc (s.reset (← argIntD a 0 0))))
  | "increase" => some do pure (reply (enc (s.increase (← argIntD a 0 1))))
  | "is_full" => some (pure (reply (enc s) (bool s.isFull)))
  | "get_stack" => some (pure (reply (enc s) (ofInt s.getStack)))
  | "decrease" => some do pure (reply (enc (s.decrease (← argIntD a 0 1))))
  | _ => none

def call (cls m : String) (st : Json) (a : List Json) : Except String Json := do
  match cls with
  | "Lasting" =>
    let s ← getLasting st
    match lastingMethod s m a lastingJson with
    | some r => r
    | none => unknown cls m
  | "RestoreLasting" =>
    let s ← getRestore st
    match m with
    | "get_gain_rate" => pure (reply (restoreJson s) (ofRat s.getGainRate))
    | _ =>
      match lastingMethod s.toLasting m a (fun l => restoreJson { s with toLasting := l }) with
      | some r => r
      | none => unknown cls m
  | "Cooldown" =>
    let s ← getCooldown st
    match m with
    | "available" => pure (reply (cooldownJson s) (bool s.available))
    | "elapse" => pure (reply (cooldownJson (s.elapse (← argInt a 0))))
    | "set_time_left" => pure (reply (cooldownJson (s.setTimeLeft (← argInt a 0))))
    | "minimum_time_to_available" => pure (reply (cooldownJson s) (ofInt s.minimumTimeToAvailable))
    | "reduce_by_rate" =>
      match s.reduceByRate (← argRat a 0) with
      | some s' => pure (reply (cooldownJson s'))
      | none => pure (Json.mkObj [("offgrid", .bool true)])
    | "reduce_by_value" => pure (reply (cooldownJson (s.reduceByValue (← argInt a 0))))
    | _ => unknown cls m
  | "Consumable" =>
    let s ← getConsumable st
    match m with
    | "available" => pure (reply (consumableJson s) (bool s.available))
    | "elapse" =>
      let t ← argInt a 0
      if s.cooldownDuration ≤ 0 ∧ s.timeLeft - t ≤ 0 then pure (Json.mkObj [("diverges", .bool true)])
      else pure (reply (consumableJson (s.elapse t)))
    | "get_stack" => pure (reply (consumableJson s) (ofInt s.getStack))
    | "consume" => pure (reply (consumableJson s.consume))
    | _ => unknown cls m
  | "Cycle" =>
    let s ← getCycle st
    match m with
    | "step" => match s.step with
      | some s' => pure (reply (cycleJson s'))
      | none => pure (raised "ZeroDivisionError")
    | "get_tick" => pure (reply (cycleJson s) (ofInt s.getTick))
    | "clear" => pure (reply (cycleJson s.clear))
    | _ => unknown cls m
  | "Periodic" =>
    let s ← getPeriodic st
    match m with
    | "set_time_left_without_delay" =>
      let r := s.setTimeLeftWithoutDelay (← argInt a 0)
      pure (reply (periodicJson r.1) (ofInt r.2))
    | "set_time_left" =>
      match s.setTimeLeft (← argInt a 0) with
      | .ok s' => pure (reply (periodicJson s'))
      | .error _ => pure (raised "ValueError")
    | "set_interval_counter" => pure (reply (periodicJson (s.setIntervalCounter (← argInt a 0))))
    | "enabled" => pure (reply (periodicJson s) (bool s.enabled))
    | "disable" => pure (reply (periodicJson s.disable))
    | "elapse" =>
      if ¬ s.WF then throw "Periodic.elapse: state outside WF (interval, interval_counter > 0)" else
      let r := s.elapse' (← argInt a 0)
      pure (reply (periodicJson r.1) (ofInt r.2))
    | "resolve_step" =>
      if s.interval = 0 then throw "Periodic.resolve_step: interval = 0" else
      let r := s.step (← argInt a 0)
      pure (reply (periodicJson r.1) (ofInt r.2))
    | _ => unknown cls m
  | "Stack" =>
    let s ← getStack st
    match stackMethod s m a stackJson with
    | some r => r
    | none => unknown cls m
  | "EtherGauge" =>
    let s ← getEther st
    match m with
    | "get_creation_count" => match s.getCreationCount with
      | some c => pure (reply (etherJson s) (ofInt c))
      | none => pure (raised "ZeroDivisionError")
    | "is_order_valid" => pure (reply (etherJson s) (bool s.isOrderValid))
    | "decrease_order" => pure (reply (etherJson s.decreaseOrder))
    | _ =>
      match stackMethod s.toStack m a (fun l => etherJson { s with toStack := l }) with
      | some r => r
      | none => unknown cls m
  | "Integer" =>
    let s ← getInteger st
    match m with
    | "get_value" => pure (reply (integerJson s) (ofInt s.getValue))
    | "set_value" => pure (reply (integerJson (s.setValue (← argInt a 0))))
    | _ => unknown cls m
  | "LastingStack" =>
    let s ← getLastingStack st
    match m with
    | "reset" => pure (reply (lastingStackJson s.reset))
    | "enabled" => pure (reply (lastingStackJson s) (bool s.enabled))
    | "increase" => pure (reply (lastingStackJson (s.increase (← argIntD a 0 1))))
    | "get_stack" => pure (reply (lastingStackJson s) (ofInt s.getStack))
    | "decrease" => pure (reply (lastingStackJson (s.decrease (← argIntD a 0 1))))
    | "elapse" => pure (reply (lastingStackJson (s.elapse (← argInt a 0))))
    | "is_maximum" => pure (reply (lastingStackJson s) (bool s.isMaximum))
    | "regulate" => pure (reply (lastingStackJson (s.regulate (← argInt a 0))))
    | _ => unknown cls m
  | "Keydown" =>
    let s ← getKeydown st
    match m with
    | "running" => pure (reply (keydownJson s) (bool s.running))
    | "get_next_delay" => pure (reply (keydownJson s) (ofInt s.getNextDelay))
    | "start" => pure (reply (keydownJson (s.start (← argInt a 0) (← argInt a 1))))
    | "stop" => pure (reply (keydownJson s.stop))
    | "resolving" =>
      if ¬ s.WF then throw "Keydown.resolving: interval must be > 0" else
      let r := s.resolving (← argInt a 0)
      pure (reply (keydownJson r.1) (ofInt r.2))
    | _ => unknown cls m
  | "DOT" =>
    let s ← getDot st
    match m with
    | "new" => pure (reply (dotJson (s.new (← argStr a 0) (← argRat a 1) (← argInt a 2))))
    | "step" =>
      let r := s.step (← argInt a 0)
      pure (reply (dotJson r.1) (Json.arr #[ofInt r.2.1, .arr (r.2.2.map (fun e => Json.arr #[.str e.1, ofRat e.2])).toArray]))
    | "elapse" =>
      if ¬ s.WF then throw "DOT.elapse: period, period_time_left must be > 0" else
      let r := s.elapse (← argInt a 0)
      pure (reply (dotJson r.1) (emitsJson r.2))
    | _ => unknown cls m
  | "ProgrammedPeriodic" =>
    let s ← getPP st
    match m with
    | "set_time_left" => pure (reply (ppJson (s.setTimeLeft (← argInt a 0))))
    | "enabled" => pure (reply (ppJson s) (bool s.enabled))
    | "disable" => pure (reply (ppJson s.disable))
    | "resolving" =>
      if ¬ s.WF then throw "ProgrammedPeriodic.resolving: intervals must be non-empty and positive" else
      let r := s.resolving (← argInt a 0)
      pure (reply (ppJson r.1) (ofInt r.2))
    | _ => unknown cls m
  | "DynamicIntervalPeriodic" =>
    let s ← getDIP st
    match m with
    | "set_time_left" => pure (reply (dipJson (s.setTimeLeft (← argInt a 0) (← argInt a 1))))
    | "enabled" => pure (reply (dipJson s) (bool s.enabled))
    | "disable" => pure (reply (dipJson s.disable))
    | "resolving" =>
      if ¬ s.WF then throw "DynamicIntervalPeriodic.resolving: state outside WF" else
      let r := s.resolving (← argInt a 0)
      pure (reply (dipJson r.1) (ofInts r.2))
    | _ => unknown cls m
  | "OrderSword" =>
    let s ← getOrderSword st
    match m with
    | "get_time_left" => pure (reply (orderSwordJson s) (ofInt s.getTimeLeft))
    | "enabled" => pure (reply (orderSwordJson s) (bool s.enabled))
    | "get_sword_count" => pure (reply (orderSwordJson s) (ofInt s.getSwordCount))
    | "add_running" => pure (reply (orderSwordJson (s.addRunning (← argInt a 0) (← argInt a 1) (← argInt a 2))))
    | "resolving" =>
      if s.interval = 0 then pure (raised "ZeroDivisionError") else
      let r := s.resolving (← argInt a 0) (← argInt a 1)
      pure (reply (orderSwordJson r.1) (ofInt r.2))
    | _ => unknown cls m
  | "CurrentField" =>
    let s ← getCurrentField st
    match m with
    | "stack_rng" =>
      match s.stackRng (← argRat a 0) with
      | .ok r => pure (reply (currentFieldJson r.1) (bool r.2))
      | .error e => pure (raised ((e.splitOn ":").headD e))
    | "create_new_current" =>
      match s.createNewCurrent with
      | .ok r => pure (reply (currentFieldJson r))
      | .error e => pure (raised ((e.splitOn ":").headD e))
    | "elapse" =>
      if ¬ (∀ p ∈ s.fieldPeriodics, p.WF) then throw "CurrentField.elapse: a field outside WF" else
      let r := s.elapse (← argInt a 0)
      pure (reply (currentFieldJson r.1) (ofInt r.2))
    | _ => unknown cls m
  | "PoisonNovaEntity" =>
    let s ← getNova st
    match m with
    | "create_nova" => pure (reply (novaJson (s.createNova (← argInt a 0))))
    | "try_trigger_nova" =>
      let r := s.tryTriggerNova
      pure (reply (novaJson r.1) (bool r.2))
    | "elapse" => pure (reply (novaJson (s.elapse (← argInt a 0))))
    | _ => unknown cls m
  | "FerventDrainStack" =>
    let s ← getFervent st
    match m with
    | "set_max_count" => pure (reply (ferventJson (s.setMaxCount (← argInt a 0))))
    | "get_count" => pure (reply (ferventJson s) (ofInt s.getCount))
    | "set_count" => pure (reply (ferventJson (s.setCount (← argInt a 0))))
    | "get_buff" => pure (reply (ferventJson s) (ofInt s.getBuffFinalDamageMultiplier))
    | _ => unknown cls m
  | "DivineMark" =>
    let s ← getMark st
    match m with
    | "mark" => pure (reply (markJson (s.mark (← argStr a 0))))
    | "consume_mark" =>
      let r := s.consumeMark "Stat()"
      pure (reply (markJson r.1) (.str r.2))
    | _ => unknown cls m
  | "RobotMastery" =>
    let s ← getRobot st
    match m with
    | "get_summon_multiplier" => pure (reply (robotJson s) (ofRat s.getSummonMultiplier))
    | "get_robot_modifier" => pure (reply (robotJson s) (ofRat s.getRobotModifierFinalDamageMultiplier))
    | _ => unknown cls m
  | "Clock" =>
    let s ← getClock st
    match m with
    | "spent" => pure (reply (clockJson (s.spent (← argInt a 0))))
    | _ => unknown cls m
  | _ => throw s!"unknown entity class {cls}"

def entity (fn : String) (j : Json) : Option (Except String Json) :=
  match fn with
  | "entity" => some do
      let cls ← str (← field j "cls")
      let m ← str (← field j "method")
      let st ← field j "state"
      let a ← list (fieldD j "args" (.arr #[]))
      call cls m st a
  | _ => none

end Simaple.DrvEntity
