import Simaple.Model.JsonUtil
import Simaple.Model.Memo
/-! driver entry points for the memoizer model (C20).

`memo_specs`  the generated facts, as JSON (the harness compares them with pydantic's `model_fields`, with the
              attribute reads recorded on live provider objects and with the keys of the real dictionaries);
`memo_run`    runs a history of operations through `Simaple.Memo.step` over a concrete instance of the provider
              interface: a provider is (class name, request id, field ↦ JSON text of its value); its memoizable /
              independent part is the restriction to the GENERATED read set of its class, tagged with the request
              id, so that an answer tells which request's stored entry supplied the memoizable part
              (`memo_origin`) and which request supplied the independent part (`indep_origin`). -/
namespace Simaple.Drv
open Lean Simaple.J Simaple.Memo Simaple.Gen.Memo

structure DProv where
  kind : String
  id : Nat
  fields : List (String × String)

def DProv.val (p : DProv) (f : String) : String :=
  match p.fields.find? (·.1 == f) with | some kv => kv.2 | none => "<unset>"

def DProv.spec? (p : DProv) : Option Spec := specs.find? (·.name == p.kind)

def pairsJson (d : List (String × String)) : Json :=
  Json.arr (d.map fun kv => Json.arr #[Json.str kv.1, Json.str kv.2]).toArray

def pairsOfJson (j : Json) : Except String (List (String × String)) := do
  (← list j).mapM fun e => do
    match (← list e) with
    | [a, b] => pure (← str a, ← str b)
    | _ => throw "pair expected"

def dIface : Iface DProv String (Dict String) String String where
  name := fun p => p.kind
  memoKeyStr := fun p =>
    match p.spec? with
    | some s => (pairsJson ((keyFields s).map fun f => (f, p.val f))).compress
    | none => "?"
  memoPart := fun p =>
    match p.spec? with
    | some s => .ok (("_memo_origin", toString p.id) :: s.memoReads.map fun f => (f, p.val f))
    | none => .error "unknown provider class"
  indepPart := fun p =>
    match p.spec? with
    | some s => .ok (("_indep_origin", toString p.id) :: s.indepReads.map fun f => (f, p.val f))
    | none => .error "unknown provider class"
  validate := fun d => .ok d
  digest := fun setting _ => setting
  ser := fun x => (Json.mkObj [("memoizable_environment", pairsJson x.memoizable_environment),
                               ("independent_environment", pairsJson x.independent_environment)]).compress
  deser := fun t => do
    let j ← Json.parse t
    pure ⟨← pairsOfJson (← field j "memoizable_environment"), ← pairsOfJson (← field j "independent_environment")⟩
  dumpStore := fun s => (pairsJson s).compress
  loadStore := fun t => do pairsOfJson (← Json.parse t)

def getHandle (j : Json) : Except String Handle :=
  match j.getObjVal? "inmem" with
  | .ok r => do pure (.inMemory (← r.getNat?))
  | .error _ => do pure (.persistent (← str (← field j "file")))

def getProv (j : Json) : Except String DProv := do
  pure ⟨← str (← field j "kind"), ← (← field j "id").getNat?, ← pairsOfJson (← field j "fields")⟩

def getOp (j : Json) : Except String (Op DProv) := do
  match (← str (← field j "op")) with
  | "new_inmem" =>
    match j.getObjVal? "saved" with
    | .ok (.null) | .error _ => pure (.newInMemory none)
    | .ok r => pure (.newInMemory (some (← r.getNat?)))
  | "new_file" => pure (.newPersistent (← str (← field j "path")))
  | "request" => pure (.request (← getHandle (← field j "h")) (← getProv (← field j "p")))
  | "export" => pure (.export (← (← field j "ref").getNat?))
  | "save" => pure (.saveJson (← (← field j "ref").getNat?) (← str (← field j "path")))
  | "load" => pure (.loadJson (← str (← field j "path")))
  | "restart" => pure .restart
  | o => throw s!"unknown op {o}"

def natJson (n : Nat) : Json := Json.num (JsonNumber.fromNat n)

def resJson : Res (Dict String) → Json
  | .ref n => Json.mkObj [("kind", "ref"), ("ref", natJson n)]
  | .done => Json.mkObj [("kind", "done")]
  | .raised m => Json.mkObj [("kind", "raised"), ("msg", Json.str m)]
  | .answer hit (.error e) => Json.mkObj [("kind", "answer"), ("hit", Json.bool hit), ("raised", Json.str e)]
  | .answer hit (.ok env) =>
    let g (k : String) : Json := match Dict.get? env k with | some v => Json.str v | none => Json.null
    Json.mkObj [("kind", "answer"), ("hit", Json.bool hit), ("memo_origin", g "_memo_origin"),
                ("indep_origin", g "_indep_origin"), ("env", pairsJson env)]

def worldJson (w : World String String) : List (String × Json) :=
  [("heap_sizes", Json.arr (w.heap.map fun s => natJson s.length).toArray),
   ("file_sizes", Json.arr (w.files.map fun kv =>
      Json.arr #[Json.str kv.1, match dIface.loadStore kv.2 with | .ok s => natJson s.length | .error _ => Json.null]).toArray)]

def memoRun (ops : List (Op DProv)) : List Json :=
  let rec go (w : World String String) : List (Op DProv) → List Json
    | [] => []
    | op :: rest =>
      let (w', r) := step dIface w op
      (match resJson r with
        | Json.obj kvs => Json.obj kvs |>.mergeObj (Json.mkObj (worldJson w'))
        | j => j) :: go w' rest
  go World.empty ops

def strs (xs : List String) : Json := Json.arr (xs.map Json.str).toArray

def specJson (s : Spec) : Json :=
  Json.mkObj [("name", s.name), ("fields", strs s.fields), ("memoReads", strs s.memoReads),
    ("keyExclude", strs s.keyExclude), ("indepInclude", strs s.indepInclude), ("indepReads", strs s.indepReads),
    ("memoKeys", strs s.memoKeys), ("indepKeys", strs s.indepKeys), ("keyFields", strs (keyFields s))]

def memo (fn : String) (j : Json) : Option (Except String Json) :=
  match fn with
  | "memo_specs" => some (pure (Json.mkObj [("specs", Json.arr (specs.map specJson).toArray),
      ("simEnvFields", strs simEnvFields), ("simEnvRequired", strs simEnvRequired),
      ("model_matches_source", Json.bool (decide (inMemoryShape = modelInMemoryShape ∧
        persistentShape = modelPersistentShape ∧ providerAssemble = modelAssemble ∧ memoAssemble = modelAssemble)))]))
  | "memo_run" => some do
      let ops ← (← list (← field j "ops")).mapM getOp
      pure (Json.arr (memoRun ops).toArray)
  | _ => none

end Simaple.Drv
