import Simaple.Model.Component
/-!
L2 component models, group `Wind`: the job-specific classes that the shipped jobs soulmaster, dualblade
and windbreaker instantiate.

Sources: simaple/simulate/component/specific/soulmaster.py (CosmicOrb, Elysion, CrossTheStyx, CosmicBurst,
CosmicShower, Cosmos, FlareSlash), specific/dualblade.py (FinalCutComponent, BladeStormComponent,
KarmaBladeTriggerComponent), specific/thief.py (UltimateDarkSightComponent), specific/windbreaker.py
(HowlingGaleComponent), specific/cygnus.py (TranscendentCygnusBlessing) and the traits of trait/impl.py they
call.  Conventions as in `Simaple.Model.Component`:

* `calculate_cooldown(cooldown_duration)` is the parameter `cdEff`; products of two floats that are not
  time values (e.g. `damage * damage_decrement_after_2nd_hit`) are parameters computed by the real code;
* entities a reducer reads through `binds` (the orb stack of CosmicOrb, the lasting of Elysion / Cosmic
  Forge) are fields of the model state `S`, returned like the Python `ReducerState` returns them;
* `state.deepcopy()` is the identity on values; a reducer that returns its input `state` returns `s`.
-/
namespace Simaple.Comp
open Simaple.Entity

namespace Wind

/-- Python list indexing `xs[i]`: negative indices count from the end; out of range is IndexError (`none`) -/
def pyIndex {α : Type} (xs : List α) (i : Int) : Option α :=
  if 0 ≤ i then xs[i.toNat]?
  else if -i ≤ (xs.length : Int) then xs[((xs.length : Int) + i).toNat]?
  else none

/-- damage events (the "ticks" C09 speaks about) -/
def isDamage : REv → Bool
  | .dealt _ _ => true
  | .dealtMod _ _ _ => true
  | _ => false

def damages (evs : List REv) : List REv := evs.filter isDamage

/-- the times carried by the `elapsed` notifications of an answer, in order -/
def elapsedTimes : List REv → List Int
  | [] => []
  | .elapsed t :: rest => t :: elapsedTimes rest
  | _ :: rest => elapsedTimes rest

/-- `@ignore_rejected`: drop the rejections from the events, keep the state -/
def ignoreRejected {σ : Type} (r : σ × List REv) : σ × List REv := (r.1, r.2.filter (fun e => !e.isReject))

def pow2 (e : Int) : Rat := if 0 ≤ e then ((2 ^ e.toNat : Nat) : Rat) else 1 / ((2 ^ (-e).toNat : Nat) : Rat)

/-- IEEE-754 binary64 round-to-nearest-even of an exact rational (normal range; no overflow handling):
    the float that Python's `*` returns for the exact product given.  `e` is chosen with
    `2^52 ≤ |x| / 2^e < 2^53`, the scaled value is rounded to the nearest integer, ties to even. -/
def fl64 (x : Rat) : Rat :=
  if x = 0 then 0 else
  let a : Rat := if x < 0 then -x else x
  let e0 : Int := (Nat.log2 a.num.natAbs : Int) - (Nat.log2 a.den : Int) - 52
  let e : Int := if a / pow2 e0 < ((2 ^ 52 : Nat) : Rat) then e0 - 1 else e0
  let q : Rat := a / pow2 e
  let m : Int := q.floor
  let frac : Rat := q - (m : Rat)
  let m' : Int := if frac > 1 / 2 then m + 1 else if frac = 1 / 2 then (if m % 2 = 0 then m else m + 1) else m
  let r : Rat := (m' : Rat) * pow2 e
  if x < 0 then -r else r

end Wind

/-! ### CosmicOrb (soulmaster.py) — listens to the stance skills; no `use`, no `elapse`, no validity -/
namespace CosmicOrb
structure P where
  defaultMaxStack : Int
deriving Repr, DecidableEq
structure S where
  orb : LastingStack
  /-- bound: `.코스믹 포지.lasting` -/
  cosmicForgeLasting : Lasting
deriving Repr, DecidableEq

/-- `_regulate_if_no_cosmic_forge` -/
def regulateIfNoCosmicForge (p : P) (s : S) : S :=
  if s.cosmicForgeLasting.enabled then s else { s with orb := s.orb.regulate p.defaultMaxStack }

def increase (p : P) (s : S) : S × List REv :=
  let s1 : S := { s with orb := s.orb.increase 1 }
  let s2 : S := if !s1.cosmicForgeLasting.enabled then { s1 with orb := s1.orb.increase 1 } else s1
  (regulateIfNoCosmicForge p s2, [])

def maximize (p : P) (s : S) : S × List REv :=
  let s1 : S := { s with orb := s.orb.increase 10 }
  (regulateIfNoCosmicForge p s1, [])

/-- the `buff` view: switched on iff `orb.stack > 0` (the stat block is a constant of the component) -/
def buffOn (s : S) : Bool := decide (0 < s.orb.stack)
end CosmicOrb

/-! ### Elysion (soulmaster.py; `BuffTrait` with `apply_buff_duration = False`, `CooldownValidityTrait`) -/
namespace Elysion
structure P where
  cdEff : Int
  lastingDuration : Int
  delay : Int
  crackDamage : Rat
  crackHit : Rat
  crackCooldown : Int
deriving Repr, DecidableEq
structure S where
  cooldown : Cooldown
  lasting : Lasting
  stack : LastingStack
  crackCooldown : Cooldown
deriving Repr, DecidableEq

/-- listened reducer (`크로스 더 스틱스.use.emitted.global.delay`) -/
def crack (p : P) (s : S) : S × List REv :=
  if !s.lasting.enabled || !s.crackCooldown.available then (s, []) else
  let st := s.stack.increase
  if st.isMaximum then
    ({ s with stack := st.reset, crackCooldown := s.crackCooldown.setTimeLeft p.crackCooldown },
     [.dealt p.crackDamage p.crackHit])
  else ({ s with stack := st }, [])

def elapse (_p : P) (t : Int) (s : S) : S × List REv :=
  ({ cooldown := s.cooldown.elapse t, lasting := s.lasting.elapse t,
     stack := s.stack.elapse t, crackCooldown := s.crackCooldown.elapse t }, [.elapsed t])

/-- `use_buff_trait(state, False)` -/
def use (p : P) (s : S) : S × List REv :=
  if !s.cooldown.available then (s, [.rejected]) else
  ({ s with cooldown := s.cooldown.setTimeLeft p.cdEff, lasting := s.lasting.setTimeLeft p.lastingDuration },
   [.delayed p.delay])

def validity (_p : P) (s : S) : Validity := cooldownValidity s.cooldown
def running (s : S) : Running := { timeLeft := s.lasting.timeLeft, lastingDuration := s.lasting.assignedDuration }
end Elysion

/-! ### CrossTheStyx (soulmaster.py) — usable only while Elysion lasts; no entity of its own -/
namespace CrossTheStyx
structure P where
  damage : Rat
  hit : Rat
  delay : Int
deriving Repr, DecidableEq
structure S where
  /-- bound: `.엘리시온.lasting` -/
  elysionLasting : Lasting
deriving Repr, DecidableEq

def use (p : P) (s : S) : S × List REv :=
  if !s.elysionLasting.enabled then (s, [.rejected]) else
  (s, [.dealt p.damage p.hit, .delayed p.delay])

def validity (_p : P) (s : S) : Validity := { timeLeft := 0, valid := s.elysionLasting.enabled }
end CrossTheStyx

/-! ### CosmicBurst (soulmaster.py) — listened `trigger` consumes the orbs -/
namespace CosmicBurst
structure P where
  cdEff : Int
  damage : Rat
  hit : Rat
  /-- `damage * damage_decrement_after_2nd_hit` (a float product, computed by the real code) -/
  damage2 : Rat
  cooltimeReducePerOrb : Int
deriving Repr, DecidableEq
structure S where
  cooldown : Cooldown
  /-- bound: `.엘리멘트: 소울.orb` -/
  orb : LastingStack
deriving Repr, DecidableEq

def elapse (_p : P) (t : Int) (s : S) : S × List REv :=
  ({ s with cooldown := s.cooldown.elapse t }, [.elapsed t])

def trigger (p : P) (s : S) : S × List REv :=
  if !s.cooldown.available || s.orb.stack == 0 then (s, [.rejected]) else
  let orbs := s.orb.stack
  ({ cooldown := s.cooldown.setTimeLeft (p.cdEff - orbs * p.cooltimeReducePerOrb), orb := s.orb.reset },
   [.dealt p.damage p.hit, .dealt p.damage2 (p.hit * ((orbs - 1 : Int) : Rat))])
end CosmicBurst

/-! ### CosmicShower (soulmaster.py; `PeriodicElapseTrait`) — duration grows with the orbs consumed -/
namespace CosmicShower
structure P where
  cdEff : Int
  delay : Int
  periodicDamage : Rat
  periodicHit : Rat
  lastingDuration : Int
  durationIncreasePerOrb : Int
deriving Repr, DecidableEq
structure S where
  cooldown : Cooldown
  periodic : Periodic
  /-- bound: `.엘리멘트: 소울.orb` -/
  orb : LastingStack
deriving Repr, DecidableEq

/-- `elapse_periodic_damage_trait` (the bound orb stack is not aged here) -/
def elapse (p : P) (t : Int) (s : S) : S × List REv :=
  let r := s.periodic.elapse' t
  ({ s with cooldown := s.cooldown.elapse t, periodic := r.1 },
   .elapsed t :: List.replicate r.2.toNat (.dealt p.periodicDamage p.periodicHit))

def use (p : P) (s : S) : Except String (S × List REv) :=
  if !s.cooldown.available || s.orb.stack == 0 then .ok (s, [.rejected]) else
  let orbs := s.orb.stack
  match s.periodic.setTimeLeft (p.lastingDuration + orbs * p.durationIncreasePerOrb) with
  | .error e => .error e
  | .ok per => .ok ({ cooldown := s.cooldown.setTimeLeft p.cdEff, periodic := per, orb := s.orb.reset },
                    [.delayed p.delay])

def validity (_p : P) (s : S) : Validity :=
  { timeLeft := s.cooldown.minimumTimeToAvailable, valid := s.cooldown.available && decide (0 < s.orb.stack) }
def running (p : P) (s : S) : Running := { timeLeft := s.periodic.timeLeft, lastingDuration := p.lastingDuration }
/-- the pydantic constraints of the tick scheduler (`Periodic.WF`) -/
def Inv (s : S) : Prop := s.periodic.WF
instance (s : S) : Decidable (Inv s) := by unfold Inv; exact inferInstance
end CosmicShower

/-! ### Cosmos (soulmaster.py; `PeriodicElapseTrait`) — tick interval shrinks with the orbs consumed -/
namespace Cosmos
structure P where
  cdEff : Int
  delay : Int
  periodicInterval : Int
  periodicDamage : Rat
  periodicHit : Rat
  periodicIntervalDecrementPerOrb : Int
  lastingDuration : Int
deriving Repr, DecidableEq
structure S where
  cooldown : Cooldown
  periodic : Periodic
  /-- bound: `.엘리멘트: 소울.orb` -/
  orb : LastingStack
deriving Repr, DecidableEq

def elapse (p : P) (t : Int) (s : S) : S × List REv :=
  let r := s.periodic.elapse' t
  ({ s with cooldown := s.cooldown.elapse t, periodic := r.1 },
   .elapsed t :: List.replicate r.2.toNat (.dealt p.periodicDamage p.periodicHit))

/-- `state.periodic.interval = …` is a plain attribute assignment (no pydantic validation on assignment) -/
def use (p : P) (s : S) : Except String (S × List REv) :=
  if !s.cooldown.available || s.orb.stack == 0 then .ok (s, [.rejected]) else
  let orbs := s.orb.stack
  let per0 : Periodic := { s.periodic with interval := p.periodicInterval - orbs * p.periodicIntervalDecrementPerOrb }
  match per0.setTimeLeft p.lastingDuration with
  | .error e => .error e
  | .ok per => .ok ({ cooldown := s.cooldown.setTimeLeft p.cdEff, periodic := per, orb := s.orb.reset },
                    [.delayed p.delay])

def validity (_p : P) (s : S) : Validity :=
  { timeLeft := s.cooldown.minimumTimeToAvailable, valid := s.cooldown.available && decide (0 < s.orb.stack) }
def running (p : P) (s : S) : Running := { timeLeft := s.periodic.timeLeft, lastingDuration := p.lastingDuration }
/-- the pydantic constraints of the tick scheduler (`Periodic.WF`); `use` overwrites `interval` without
    validation, so this is an invariant only while `periodic_interval - orbs * decrement` stays positive -/
def Inv (s : S) : Prop := s.periodic.WF
instance (s : S) : Decidable (Inv s) := by unfold Inv; exact inferInstance
end Cosmos

/-! ### FlareSlash (soulmaster.py; `UseSimpleAttackTrait`) — never used directly: two listened triggers reduce
    the cooldown and then try `use_simple_attack`; both are wrapped in `@ignore_rejected` (repair F8e) -/
namespace FlareSlash
structure P where
  cdEff : Int
  delay : Int
  damage : Rat
  hit : Rat
  cooldownReduceWhenStanceChanged : Int
  cooldownReduceWhenCrossTheStyxHit : Int
deriving Repr, DecidableEq
abbrev S := AttackSkill.S

/-- `use_simple_attack` -/
def useSimpleAttack (p : P) (s : S) : S × List REv :=
  if !s.cooldown.available then (s, [.rejected]) else
  ({ cooldown := s.cooldown.setTimeLeft p.cdEff }, [.dealt p.damage p.hit, .delayed p.delay])

def elapse (_p : P) (t : Int) (s : S) : S × List REv := ({ cooldown := s.cooldown.elapse t }, [.elapsed t])

def changeStanceTrigger (p : P) (s : S) : S × List REv :=
  Wind.ignoreRejected (useSimpleAttack p { cooldown := s.cooldown.reduceByValue p.cooldownReduceWhenStanceChanged })

def styxTrigger (p : P) (s : S) : S × List REv :=
  Wind.ignoreRejected (useSimpleAttack p { cooldown := s.cooldown.reduceByValue p.cooldownReduceWhenCrossTheStyxHit })

/-- `valid=False` always -/
def validity (_p : P) (s : S) : Validity := { timeLeft := s.cooldown.minimumTimeToAvailable, valid := false }
end FlareSlash

/-! ### FinalCutComponent (dualblade.py; `UseSimpleAttackTrait`, `CooldownValidityTrait`) -/
namespace FinalCut
structure P where
  cdEff : Int
  delay : Int
  damage : Rat
  hit : Rat
  /-- the float `1 - sudden_raid_cooltime_reduce * 0.01` as the real code computes it -/
  keep : Rat
deriving Repr, DecidableEq
abbrev S := AttackSkill.S

def use (p : P) (s : S) : S × List REv :=
  if !s.cooldown.available then (s, [.rejected]) else
  ({ cooldown := s.cooldown.setTimeLeft p.cdEff }, [.dealt p.damage p.hit, .delayed p.delay])

def elapse (_p : P) (t : Int) (s : S) : S × List REv := ({ cooldown := s.cooldown.elapse t }, [.elapsed t])

/-- `Cooldown.reduce_by_rate`: `time_left *= keep` in binary64 (time_left in ms).  The rounded product is in
    general not on the 2^-10 ms grid; the model answers only when it is. -/
def reduceCooldown (keep : Rat) (c : Cooldown) : Option Cooldown :=
  let r : Rat := Wind.fl64 ((c.timeLeft : Rat) / 1024 * keep) * 1024
  if r.den = 1 then some { timeLeft := r.num } else none

/-- listened reducer `sudden_raid` -/
def suddenRaid (p : P) (s : S) : Option (S × List REv) :=
  match reduceCooldown p.keep s.cooldown with
  | some c => some ({ cooldown := c }, [])
  | none => none

def validity (_p : P) (s : S) : Validity := cooldownValidity s.cooldown
end FinalCut

/-! ### BladeStormComponent (dualblade.py; `KeydownSkillTrait`) — the prepare hit is dealt only when the
    use was not rejected; the key-down end deals `(0, 0)` -/
namespace BladeStorm
structure P where
  cdEff : Int
  maximumKeydownTime : Int
  prepareDelay : Int
  damage : Rat
  hit : Rat
  endDelay : Int
  prepareDamage : Rat
  prepareHit : Rat
deriving Repr, DecidableEq
abbrev S := KeydownSkill.S

/-- the key-down trait parameters: `_get_keydown_end_damage_hit_delay` is `(0, 0, keydown_end_delay)` -/
def kd (p : P) : KeydownSkill.P :=
  { cdEff := p.cdEff, maximumKeydownTime := p.maximumKeydownTime, prepareDelay := p.prepareDelay,
    damage := p.damage, hit := p.hit, finishDamage := 0, finishHit := 0, endDelay := p.endDelay }

def use (p : P) (s : S) : S × List REv :=
  let r := KeydownSkill.use (kd p) s
  if !rejectedIn r.2 then (r.1, r.2 ++ [.dealt p.prepareDamage p.prepareHit]) else r

def elapse (p : P) (t : Int) (s : S) : S × List REv := KeydownSkill.elapse (kd p) t s
def stop (p : P) (s : S) : S × List REv := KeydownSkill.stop (kd p) s
def validity (p : P) (s : S) : Validity := KeydownSkill.validity (kd p) s
def keydownView (s : S) : KeydownView := KeydownSkill.keydownView s
/-- reachable key-downs (this is `Simaple.Entity.Keydown.Inv` of Proofs/EntityTimers.lean): a positive tick
    interval, and a counter `≤ 0` only once the key-down is over -/
def Inv (s : S) : Prop :=
  0 < s.keydown.interval ∧ (0 ≤ s.keydown.intervalCounter ∨ s.keydown.timeLeft < s.keydown.intervalCounter)
instance (s : S) : Decidable (Inv s) := by unfold Inv; exact inferInstance
end BladeStorm

/-! ### UltimateDarkSightComponent (thief.py; `BuffTrait` with `apply_buff_duration = False`) -/
namespace UltimateDarkSight
structure P where
  cdEff : Int
  lastingDuration : Int
  delay : Int
deriving Repr, DecidableEq
abbrev S := BuffSkill.S

def use (p : P) (s : S) : S × List REv :=
  if !s.cooldown.available then (s, [.rejected]) else
  ({ cooldown := s.cooldown.setTimeLeft p.cdEff, lasting := s.lasting.setTimeLeft p.lastingDuration }, [.delayed p.delay])
def elapse (_p : P) (t : Int) (s : S) : S × List REv :=
  ({ cooldown := s.cooldown.elapse t, lasting := s.lasting.elapse t }, [.elapsed t])
def validity (_p : P) (s : S) : Validity := cooldownValidity s.cooldown
def buffOn (s : S) : Bool := s.lasting.enabled
def running (s : S) : Running := { timeLeft := s.lasting.timeLeft, lastingDuration := s.lasting.assignedDuration }
end UltimateDarkSight

/-! ### KarmaBladeTriggerComponent (dualblade.py) — `use` and `trigger` are listened; `elapse` emits NO
    `elapsed` event; the trigger cooldown is the raw `cooldown_duration` -/
namespace KarmaBlade
structure P where
  cooldownDuration : Int
  damage : Rat
  hit : Rat
  triggableCount : Int
  lastingDuration : Int
  finishDamage : Rat
  finishHit : Rat
deriving Repr, DecidableEq
structure S where
  cooldown : Cooldown
  lastingStack : LastingStack
deriving Repr, DecidableEq

def elapse (p : P) (t : Int) (s : S) : S × List REv :=
  let cd := s.cooldown.elapse t
  let wasRunning := s.lastingStack.enabled
  let ls := s.lastingStack.elapse t
  if wasRunning && !ls.enabled then
    ({ cooldown := cd, lastingStack := ls.reset }, [.dealt p.finishDamage p.finishHit])
  else ({ cooldown := cd, lastingStack := ls }, [])

def use (p : P) (s : S) : S × List REv :=
  ({ s with lastingStack := s.lastingStack.reset.increase p.triggableCount }, [])

def trigger (p : P) (s : S) : S × List REv :=
  if !s.lastingStack.enabled then (s, []) else
  if !s.cooldown.available then (s, []) else
  let cd := s.cooldown.setTimeLeft p.cooldownDuration
  let ls := s.lastingStack.decrease 1
  if ls.stack ≤ 0 then
    ({ cooldown := cd, lastingStack := ls.reset },
     [.dealt p.damage p.hit, .dealt p.finishDamage p.finishHit])
  else ({ cooldown := cd, lastingStack := ls }, [.dealt p.damage p.hit])

def validity (_p : P) (s : S) : Validity := cooldownValidity s.cooldown
def running (p : P) (s : S) : Running :=
  { timeLeft := s.lastingStack.timeLeft, lastingDuration := p.lastingDuration, stack := some s.lastingStack.stack }
end KarmaBlade

/-! ### HowlingGaleComponent (windbreaker.py; `ConsumableValidityTrait`) — consumes up to
    `len(periodic_damage)` stacks; the tick rows depend on the number consumed -/
namespace HowlingGale
structure P where
  delay : Int
  periodicDamage : List (List Rat)
  periodicHit : List (List Rat)
  lastingDuration : Int
deriving Repr, DecidableEq
structure S where
  consumable : Consumable
  consumed : Integer
  periodic : Periodic
deriving Repr, DecidableEq

/-- `_get_lasting_duration`: `lasting_duration + delay` -/
def lasting (p : P) : Int := p.lastingDuration + p.delay

/-- one tick: `zip(periodic_damage[consumed - 1], periodic_hit[consumed - 1])` -/
def row (ds hs : List Rat) : List REv := (ds.zip hs).map (fun x => REv.dealt x.1 x.2)

/-- the rows are indexed only inside the tick loop: no tick, no IndexError -/
def elapse (p : P) (t : Int) (s : S) : Except String (S × List REv) :=
  let cons := s.consumable.elapse t
  let consumed := s.consumed.getValue
  let r := s.periodic.elapse' t
  let st : S := { s with consumable := cons, periodic := r.1 }
  if r.2.toNat = 0 then .ok (st, [.elapsed t]) else
  match Wind.pyIndex p.periodicDamage (consumed - 1), Wind.pyIndex p.periodicHit (consumed - 1) with
  | some ds, some hs => .ok (st, .elapsed t :: (List.replicate r.2.toNat (row ds hs)).flatten)
  | _, _ => .error "IndexError"

def use (p : P) (s : S) : Except String (S × List REv) :=
  if !s.consumable.available then .ok (s, [.rejected]) else
  let consumed := min s.consumable.getStack (p.periodicDamage.length : Int)
  match s.periodic.setTimeLeft (lasting p) with
  | .error e => .error e
  | .ok per =>
    .ok ({ consumable := { s.consumable with stack := s.consumable.stack - consumed },
           consumed := s.consumed.setValue consumed, periodic := per }, [.delayed p.delay])

/-- `validity_in_consumable_trait` -/
def validity (_p : P) (s : S) : Validity :=
  { timeLeft := max 0 s.consumable.timeLeft, valid := s.consumable.available, stack := some s.consumable.stack }
def running (p : P) (s : S) : Running := { timeLeft := s.periodic.timeLeft, lastingDuration := lasting p }
/-- reachable states of shipped data: well-formed timers, as many hit rows as damage rows (at least one), and
    while the gale runs the number of consumed stacks selects an existing row -/
def Inv (p : P) (s : S) : Prop :=
  s.periodic.WF ∧ s.consumable.WF ∧ p.periodicHit.length = p.periodicDamage.length ∧ 0 < p.periodicDamage.length ∧
  (0 < s.periodic.timeLeft → 1 ≤ s.consumed.value ∧ s.consumed.value ≤ (p.periodicDamage.length : Int))
instance (p : P) (s : S) : Decidable (Inv p s) := by unfold Inv; exact inferInstance
end HowlingGale

/-! ### TranscendentCygnusBlessing (cygnus.py; `ConsumableBuffTrait` with `apply_buff_duration = False`) -/
namespace CygnusBlessing
structure P where
  lastingDuration : Int
  delay : Int
deriving Repr, DecidableEq
structure S where
  lasting : Lasting
  consumable : Consumable
deriving Repr, DecidableEq

/-- `use_consumable_buff_trait(state, False)` -/
def use (p : P) (s : S) : S × List REv :=
  if !s.consumable.available then (s, [.rejected]) else
  ({ consumable := s.consumable.consume, lasting := s.lasting.setTimeLeft p.lastingDuration }, [.delayed p.delay])
/-- `elapse_consumable_buff_trait` -/
def elapse (_p : P) (t : Int) (s : S) : S × List REv :=
  ({ consumable := s.consumable.elapse t, lasting := s.lasting.elapse t }, [.elapsed t])
def validity (_p : P) (s : S) : Validity :=
  { timeLeft := max 0 s.consumable.timeLeft, valid := s.consumable.available, stack := some s.consumable.stack }
/-- the `buff` view is switched on while the buff lasts (its size, `get_infinity_effect`, is not modelled) -/
def buffOn (s : S) : Bool := s.lasting.enabled
def running (s : S) : Running := { timeLeft := s.lasting.timeLeft, lastingDuration := s.lasting.assignedDuration }
/-- `0 < cooldown_duration` (otherwise `Consumable.elapse` does not terminate) -/
def Inv (s : S) : Prop := s.consumable.WF
instance (s : S) : Decidable (Inv s) := by unfold Inv; exact inferInstance
end CygnusBlessing

end Simaple.Comp
