/-
Hand-written executable model of star force
  simaple/gear/improvements/starforce.py            (Enhancement.max_star, Starforce.calculate_improvement,
                                                     Starforce.get_single_starforce_improvement)
  simaple/gear/improvements/starforce_configuration.py  (get_starforce_increment and the increment providers)
over the GENERATED tables / GearType predicates of `Simaple.Gen.Starforce`.

Stats are `Int`-valued: every shipped base stat, every table cell and every spell-trace value is an integer and
star force only ever adds table cells and `x // 50 + 1` (the harness checks integrality of everything it feeds).
Only the eight `Stat` fields star force can touch are kept (`SF`); all other fields of the Python result are 0
(checked by the harness on every call).

Python exceptions are values: `Err.typeError` (star beyond the cap), `Err.valueError` (no level band),
`Err.indexError` (a table row too short).
-/
import Simaple.Gen.Starforce

namespace Simaple.Model.Starforce
open Simaple.Gen.Starforce

inductive Err where
  | typeError | valueError | indexError
deriving DecidableEq, Repr

def Err.name : Err → String
  | .typeError => "TypeError" | .valueError => "ValueError" | .indexError => "IndexError"

/-- the eight fields of `Stat` star force reads or writes -/
structure SF where
  STR : Int := 0
  DEX : Int := 0
  INT : Int := 0
  LUK : Int := 0
  attack_power : Int := 0
  magic_attack : Int := 0
  MHP : Int := 0
  MMP : Int := 0
deriving DecidableEq, Repr

namespace SF
def zero : SF := {}
/-- `Stat.__add__` / `__iadd__` on these (purely additive) fields -/
def add (a b : SF) : SF :=
  { STR := a.STR + b.STR, DEX := a.DEX + b.DEX, INT := a.INT + b.INT, LUK := a.LUK + b.LUK,
    attack_power := a.attack_power + b.attack_power, magic_attack := a.magic_attack + b.magic_attack,
    MHP := a.MHP + b.MHP, MMP := a.MMP + b.MMP }
def toList (s : SF) : List Int :=
  [s.STR, s.DEX, s.INT, s.LUK, s.attack_power, s.magic_attack, s.MHP, s.MMP]
def ofList : List Int → Option SF
  | [a, b, c, d, e, f, g, h] =>
    some { STR := a, DEX := b, INT := c, LUK := d, attack_power := e, magic_attack := f, MHP := g, MMP := h }
  | _ => none
def fieldNames : List String := ["STR", "DEX", "INT", "LUK", "attack_power", "magic_attack", "MHP", "MMP"]
/-- field-wise `≤` -/
def le (a b : SF) : Prop :=
  a.STR ≤ b.STR ∧ a.DEX ≤ b.DEX ∧ a.INT ≤ b.INT ∧ a.LUK ≤ b.LUK ∧
  a.attack_power ≤ b.attack_power ∧ a.magic_attack ≤ b.magic_attack ∧ a.MHP ≤ b.MHP ∧ a.MMP ≤ b.MMP
instance (a b : SF) : Decidable (SF.le a b) := by unfold SF.le; infer_instance
def nonneg (a : SF) : Prop := SF.le zero a
instance (a : SF) : Decidable (SF.nonneg a) := by unfold SF.nonneg; infer_instance
end SF

/-- `StatProps.STR/DEX/INT/LUK` -/
inductive BaseStat where
  | STR | DEX | INT | LUK
deriving DecidableEq, Repr

/-- `stat.get(prop_type)` -/
def SF.get (s : SF) : BaseStat → Int
  | .STR => s.STR | .DEX => s.DEX | .INT => s.INT | .LUK => s.LUK
/-- `Stat.model_validate({prop_type.value: v})` -/
def SF.only (p : BaseStat) (v : Int) : SF :=
  match p with
  | .STR => { STR := v } | .DEX => { DEX := v } | .INT => { INT := v } | .LUK => { LUK := v }

/-- the part of `GearMeta` star force looks at (`type` is the GearType integer code) -/
structure Meta where
  type : Int
  req_level : Int
  superior_eqp : Bool := false
  req_job : Int := 0
  max_scroll_chance : Int
deriving DecidableEq, Repr

/-! ### Enhancement.max_star -/

/-- `for item in star_data: if meta.req_level >= item[0]: data = item  else: break` -/
def starRow : List (List Int) → Int → Option (List Int) → Option (List Int)
  | [], _, acc => acc
  | item :: rest, lvl, acc => if lvl ≥ item.getD 0 0 then starRow rest lvl (some item) else acc

/-- `Enhancement.max_star`.  (`getD`: the rows of `star_data` have three entries -- proved in
    `Props.C17.tables_in_range` -- so the default is never used.) -/
def maxStar (m : Meta) : Int :=
  if m.max_scroll_chance ≤ 0 then 0
  else if GearType.is_mechanic_gear m.type || GearType.is_dragon_gear m.type then 0
  else match starRow star_data m.req_level none with
    | none => 0
    | some data => data.getD (if m.superior_eqp then 2 else 1) 0

/-! ### get_starforce_increment -/

/-- `xs[i]` for `i ≥ 0` -/
def pyIndex (xs : List Int) (i : Nat) : Except Err Int :=
  match xs[i]? with
  | some v => .ok v
  | none => .error .indexError

/-- `for item in rows: if level >= item[0]: return item` … `raise ValueError` (rows already reversed) -/
def findRow : List (List Int) → Int → Except Err (List Int)
  | [], _ => .error .valueError
  | item :: rest, lvl =>
    match item[0]? with
    | none => .error .indexError
    | some t => if lvl ≥ t then .ok item else findRow rest lvl

/-- the table selection at the top of `get_starforce_increment` -/
def incrementTable (m : Meta) (amazing att : Bool) : List (List Int) :=
  if m.superior_eqp then
    (if att then superior_att_increments else superior_stat_increments)
  else if !amazing then
    (if att then
      (if GearType.is_improved_as_weapon m.type then starforce_weapon_att_increments
       else starforce_att_increments)
     else starforce_stat_increments)
  else
    (if att then amazing_att_increments else amazing_stat_increments)

def get_starforce_increment (m : Meta) (target_star : Nat) (amazing att : Bool) : Except Err Int :=
  match findRow (incrementTable m amazing att).reverse m.req_level with
  | .error e => .error e
  | .ok item => pyIndex item target_star

/-! ### the increment providers -/

def job_stat : List (List BaseStat) :=
  [[.STR, .DEX], [.INT, .LUK], [.DEX, .STR], [.LUK, .DEX], [.STR, .DEX]]

/-- `meta.req_job & (1 << i) != 0` (bit `i` of the two's complement representation; floor division) -/
def jobBit (req_job : Int) (i : Nat) : Bool := (req_job / (2 : Int) ^ i) % 2 != 0

/-- `StarforceStatIncrementProvider._get_target_stats` (as a list; only membership is used) -/
def targetStats (m : Meta) : List BaseStat :=
  if m.req_job = 0 then [.STR, .DEX, .INT, .LUK]
  else (List.range 5).flatMap fun i => if jobBit m.req_job i then job_stat.getD i [] else []

/-- `req_job // 2 % 2 == 1` -/
def magicJob (req_job : Int) : Bool := req_job / 2 % 2 == 1

def statInc (m : Meta) (t : Nat) (g : SF) : Except Err SF :=
  match get_starforce_increment m t false false with
  | .error e => .error e
  | .ok inc =>
    .ok ([BaseStat.STR, .DEX, .INT, .LUK].foldl (fun acc p =>
      if (targetStats m).contains p || (decide (t > 15) && decide (g.get p > 0)) then acc.add (SF.only p inc)
      else acc) SF.zero)

def weaponAttackInc (m : Meta) (t : Nat) (g : SF) : Except Err SF :=
  match get_starforce_increment m t false true with
  | .error e => .error e
  | .ok inc =>
    let use_mad := decide (m.req_job = 0) || magicJob m.req_job || decide (g.magic_attack > 0)
    if t > 15 then
      let s := SF.zero.add { attack_power := inc }
      .ok (if use_mad then s.add { magic_attack := inc } else s)
    else
      let s := SF.zero.add { attack_power := g.attack_power / 50 + 1 }
      .ok (if use_mad then s.add { magic_attack := g.magic_attack / 50 + 1 } else s)

def attackInc (m : Meta) (t : Nat) (g : SF) : Except Err SF :=
  if GearType.is_improved_as_weapon m.type then weaponAttackInc m t g
  else
    match get_starforce_increment m t false true with
    | .error e => .error e
    | .ok inc => .ok { attack_power := inc, magic_attack := inc }

def hpGearTypes : List Int :=
  [GearType.cap, GearType.coat, GearType.longcoat, GearType.pants, GearType.cape, GearType.ring,
   GearType.pendant, GearType.belt, GearType.shoulder_pad, GearType.shield]

def hpmpInc (m : Meta) (t : Nat) : Except Err SF :=
  match pyIndex mhp_starforce_bonus t with
  | .error e => .error e
  | .ok bonus =>
    if GearType.is_improved_as_weapon m.type then .ok { MHP := bonus, MMP := bonus }
    else if hpGearTypes.contains m.type then .ok { MHP := bonus }
    else .ok {}

def gloveInc (m : Meta) (t : Nat) : Except Err SF :=
  if m.type ≠ GearType.glove then .ok {}
  else
    match pyIndex glove_starforce_bonus t with
    | .error e => .error e
    | .ok bonus =>
      if m.req_job = 0 then .ok { attack_power := bonus, magic_attack := bonus }
      else if magicJob m.req_job then .ok { magic_attack := bonus }
      else .ok { attack_power := bonus }

def superiorInc (m : Meta) (t : Nat) : Except Err SF :=
  match get_starforce_increment m t true false with
  | .error e => .error e
  | .ok s =>
    match get_starforce_increment m t true true with
    | .error e => .error e
    | .ok a => .ok { attack_power := a, magic_attack := a, LUK := s, STR := s, INT := s, DEX := s }

/-! ### Starforce -/

/-- `Starforce.get_single_starforce_improvement(meta, ref_stat, target_star, current_improvement)` -/
def single (m : Meta) (ref : SF) (target_star : Nat) (cur : SF) : Except Err SF :=
  if (target_star : Int) > maxStar m then .error .typeError
  else
    let g := cur.add ref
    if m.superior_eqp then superiorInc m target_star
    else
      match statInc m target_star g with
      | .error e => .error e
      | .ok a =>
      match attackInc m target_star g with
      | .error e => .error e
      | .ok b =>
      match hpmpInc m target_star with
      | .error e => .error e
      | .ok c =>
      match gloveInc m target_star with
      | .error e => .error e
      | .ok d => .ok ((((SF.zero.add a).add b).add c).add d)

/-- one pass of the loop body `cur = cur + self.get_single_starforce_improvement(meta, ref_stat, i, cur)`
    for `i = n + 1` (an exception raised earlier stays raised) -/
def improvementStep (m : Meta) (ref : SF) (n : Nat) (cur : Except Err SF) : Except Err SF :=
  match cur with
  | .error e => .error e
  | .ok cur =>
    match single m ref (n + 1) cur with
    | .error e => .error e
    | .ok inc => .ok (cur.add inc)

/-- `Starforce(star=n).calculate_improvement(meta, ref_stat)` for `n ≥ 0`: the loop
    `cur = Stat(); for i in range(1, n+1): cur = cur + single(meta, ref, i, cur)` -/
def improvement (m : Meta) (ref : SF) : Nat → Except Err SF
  | 0 => .ok SF.zero
  | n + 1 => improvementStep m ref n (improvement m ref n)

/-- any integer star (`range(1, star+1)` is empty for `star ≤ 0`) -/
def calculate_improvement (m : Meta) (ref : SF) (star : Int) : Except Err SF := improvement m ref star.toNat

/-- `Enhancement.apply_star_cutoff` -/
def starCutoff (m : Meta) (star : Int) : Int := if maxStar m < star then maxStar m else star

/-- the results for 0, 1, …, `fuel` stars in one pass (used by the driver; equals
    `(List.range (fuel+1)).map (improvement m ref)`, see `Proofs.Starforce.trace_eq`) -/
def traceFrom (m : Meta) (ref : SF) : Nat → Nat → Except Err SF → List (Except Err SF)
  | 0, _, cur => [cur]
  | k + 1, i, cur => cur :: traceFrom m ref k (i + 1) (improvementStep m ref i cur)
def trace (m : Meta) (ref : SF) (n : Nat) : List (Except Err SF) := traceFrom m ref n 0 (.ok SF.zero)

end Simaple.Model.Starforce
