import Simaple.Model.JsonUtil
import Simaple.Model.DrvCore
import Simaple.Model.DrvBonus
import Simaple.Model.DrvStarforce
import Simaple.Model.GearParts
/-! driver entry points for the concrete blueprint parts (C17, part file `Props/C17_Parts.lean`) -/
namespace Simaple.DrvGearParts
open Lean Simaple.J Simaple.Gen Simaple.Gen.GearParts Simaple.Model.GearParts
open Simaple.Drv (getStat)
open Simaple.Drv.SFDrv (getMeta jint jints)

def kindOf (s : String) : Except String StatProps :=
  match StatProps.all.find? (fun p => p.value == s) with
  | some p => pure p
  | none => throw s!"unknown StatProps value {s}"

def ofRes : Except PErr Stat → Json
  | .ok s => ofRats s.toList
  | .error e => Json.str e.name

def optField (j : Json) (k : String) : Option Json :=
  match j.getObjVal? k with
  | .ok .null => none
  | .ok v => some v
  | .error _ => none

def optInt (j : Json) : Except String (Option Int) :=
  match j with
  | .null => pure none
  | v => do pure (some (← int v))

/-- `{"m": [type, req_level, superior, req_job, max_scroll_chance], "base": [27 rationals], "boss": bool,
     "exc": bool}` -/
def getGearMeta (j : Json) : Except String GearMeta := do
  pure { sf := ← getMeta (← field j "m"), base_stat := ← getStat (← field j "base"),
         boss_reward := ← (← field j "boss").getBool?, exceptional_enhancement := ← (← field j "exc").getBool? }

/-- `[probability, stat kind value, order]` -/
def getTrace (j : Json) : Except String SpellTrace := do
  match ← list j with
  | [p, k, o] => pure { probability := ← int p, stat_prop_type := ← kindOf (← str k), order := ← int o }
  | _ => throw "spell trace: [probability, kind, order] expected"

/-- `{"stat": [...], "gear_types": [...]}` -/
def getScroll (j : Json) : Except String Scroll := do
  pure { stat := ← getStat (← field j "stat"), gear_types := ← intList (← field j "gear_types") }

/-- `[bonus type value, grade | null, rank | null]` -/
def getSpec (j : Json) : Except String BonusSpec := do
  match ← list j with
  | [k, g, r] => pure { bonus_type := ← Simaple.Drv.BonusJ.kindOf (← str k), grade := ← optInt g, rank := ← optInt r }
  | _ => throw "bonus spec: [kind, grade, rank] expected"

def jdict1 (t : List (Int × List Int)) : Json :=
  Json.arr (t.map fun (k, v) => Json.arr #[jint k, jints v]).toArray
def jdict2 (t : List (Int × List (List Int))) : Json :=
  Json.arr (t.map fun (k, v) => Json.arr #[jint k, Json.arr (v.map jints).toArray]).toArray

def gearParts (fn : String) (j : Json) : Option (Except String Json) :=
  match fn with
  | "gp_tables" => some do
      let levels ← intList (← field j "levels")
      pure (Json.mkObj [
        ("PROBABILITIES", jints PROBABILITIES),
        ("STAT_PROP_TYPES", Json.arr (STAT_PROP_TYPES.map fun p => Json.str p.value).toArray),
        ("StatProps", Json.arr (StatProps.all.map fun p => Json.str p.value).toArray),
        ("tables1", Json.mkObj (tables1.map fun (n, t) => (n, jdict1 t))),
        ("tables2", Json.mkObj (tables2.map fun (n, t) => (n, jdict2 t))),
        ("order_default", jint order_default),
        ("ranks", jints (levels.map get_spell_trace_rank)),
        ("scroll_raises", Json.str scroll_raises), ("exceptional_raises", Json.str exceptional_raises),
        ("grade_range", jints [grade_lo, grade_hi]), ("rank_range", jints [rank_lo, rank_hi]),
        ("rank_offset", jint rank_offset),
        ("bonus_type_values", Json.arr (bonus_type_values.map Json.str).toArray),
        ("bonus_kind_names", Json.arr (Simaple.Drv.BonusJ.kindNames.map fun p => Json.str p.1).toArray)])
  /- the whole grid metas × traces in one request: `[[result for each trace] for each meta]` -/
  | "gp_trace_grid" => some do
      let metas ← (← list (← field j "metas")).mapM getMeta
      let traces ← (← list (← field j "traces")).mapM getTrace
      pure (Json.arr (metas.map fun m =>
        Json.arr (traces.map fun t => ofRes (t.calculate_improvement m)).toArray).toArray)
  | "gp_trace" => some do
      let m ← getMeta (← field j "m")
      let t ← getTrace (← field j "trace")
      pure (Json.mkObj [("legal", Json.bool (decide (TraceLegal m t))), ("r", ofRes (t.calculate_improvement m))])
  | "gp_scroll" => some do
      let m ← getMeta (← field j "m")
      pure (ofRes ((← getScroll (← field j "scroll")).calculate_improvement m))
  | "gp_exceptional" => some do
      let m ← getGearMeta (← field j "meta")
      pure (ofRes (ExceptionalEnhancement.calculate_improvement m { stat := ← getStat (← field j "stat") }))
  | "gp_bonus" => some do
      let m ← getGearMeta (← field j "meta")
      let k ← Simaple.Drv.BonusJ.kindOf (← str (← field j "kind"))
      pure (ofRes (bonusImprovement m k (← int (← field j "grade"))))
  /- all (kind, grade) cases of one gear in one request -/
  | "gp_bonus_grid" => some do
      let m ← getGearMeta (← field j "meta")
      let cases ← (← list (← field j "cases")).mapM fun c => do
        match ← list c with
        | [k, g] => pure ((← Simaple.Drv.BonusJ.kindOf (← str k)), (← int g))
        | _ => throw "case: [kind, grade] expected"
      pure (Json.arr (cases.map fun (k, g) => ofRes (bonusImprovement m k g)).toArray)
  | "gp_spec" => some do
      let s ← getSpec (← field j "spec")
      pure (Json.mkObj [("valid", Json.bool s.valid),
        ("grade", match s.get_grade with | .ok g => jint g | .error e => Json.str e.name)])
  | "gp_build" => some do
      let bp : GeneralizedGearBlueprint := {
        «meta» := ← getGearMeta (← field j "meta"),
        spell_traces := ← (← list (← field j "traces")).mapM getTrace,
        scrolls := ← (← list (← field j "scrolls")).mapM getScroll,
        star := ← int (← field j "star"),
        bonuses := ← (← list (← field j "bonuses")).mapM getSpec,
        exceptional_enhancement := ← (match optField j "exc" with
          | none => pure none
          | some e => do pure (some { stat := ← getStat e })) }
      pure (ofRes bp.build)
  | "gp_practical" => some do
      let p : PracticalGearBlueprint := {
        «meta» := ← getGearMeta (← field j "meta"),
        spell_trace := ← (match optField j "trace" with
          | none => pure none
          | some t => do pure (some (← getTrace t))),
        scroll := ← (match optField j "scroll" with
          | none => pure none
          | some s => do pure (some (← getScroll s))),
        star := ← int (← field j "star"),
        bonuses := ← (← list (← field j "bonuses")).mapM getSpec }
      pure (Json.mkObj [("star", jint p.translate.star), ("n_traces", jint p.translate.spell_traces.length),
                        ("n_scrolls", jint p.translate.scrolls.length), ("stat", ofRes p.build)])
  | _ => none

end Simaple.DrvGearParts
