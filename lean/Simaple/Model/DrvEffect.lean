import Simaple.Model.JsonUtil
import Simaple.Model.Effect
import Simaple.Gen.Effects
/-! driver entry point for the effect programs of the reducers and views (C08) -/
namespace Simaple.DrvEffect
open Lean Simaple.J Simaple.Effect Simaple.Gen.Effects

def tagName : Tag → String
  | .prim => "prim"
  | .fresh => "fresh"
  | .shallow => "shallow"
  | .shared => "shared"

def fieldName (f : Field) : String := fieldNames.getD f "?"

def summary (e : Entry) : Json :=
  Json.mkObj [
    ("cls", Json.str e.cls), ("method", Json.str e.method), ("kind", Json.str e.kind),
    ("wellFormed", Json.bool (wellFormed e.taint e.nvars e.prog)),
    ("resultTag", match e.result.bind (resultTag e.taint e.nvars e.prog ·) with
      | some t => Json.str (tagName t)
      | none => Json.null),
    ("stores", Json.arr ((storeFields e.prog).eraseDups.map (fun f => Json.str (fieldName f))).toArray),
    ("taint", Json.arr (e.taint.map (fun f => Json.str (fieldName f))).toArray),
    ("size", Json.num (JsonNumber.fromNat (size e.prog)))]

def effect (fn : String) (_j : Json) : Option (Except String Json) :=
  match fn with
  | "effects_table" => some (pure (Json.mkObj [
      ("entries", Json.arr (table.map summary).toArray),
      ("notLowered", Json.arr (notLowered.map (fun t => Json.arr #[Json.str t.1, Json.str t.2.1, Json.str t.2.2])).toArray)]))
  | "pure_table" => some (pure (Json.arr (pureTable.map (fun e => Json.mkObj [
      ("name", Json.str e.name), ("prop", Json.num (JsonNumber.fromNat e.prop)),
      ("wellFormed", Json.bool (wellFormedWith e.taint e.nvars e.body e.prog)),
      ("resultNew", match e.result with
        | some x => Json.bool ((resultTag e.taint e.nvars e.prog x).map Tag.deep == some true)
        | none => Json.null),
      ("mustReturnNew", Json.bool e.freshResult),
      ("size", Json.num (JsonNumber.fromNat (size e.prog + size e.body)))])).toArray))
  | "patch_table" => some (pure (Json.mkObj [
      ("entries", Json.arr (patchTable.map (fun e => Json.mkObj [
        ("name", Json.str e.cls), ("api", Json.bool e.api),
        ("wellFormed", Json.bool (wellFormedWith e.taint e.nvars e.body e.prog)),
        ("recursive", Json.bool (size e.body > 1)),
        ("size", Json.num (JsonNumber.fromNat (size e.prog + size e.body)))])).toArray),
      ("notLowered", Json.arr (patchesNotLowered.map (fun t => Json.arr #[Json.str t.1, Json.str t.2])).toArray)]))
  | _ => none

end Simaple.DrvEffect
