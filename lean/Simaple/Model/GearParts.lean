/-
Hand-written executable model of the parts a gear blueprint is made of
  simaple/gear/improvements/spell_trace.py             SpellTrace.calculate_improvement (+ the five get_*_improvement)
  simaple/gear/improvements/scroll.py                  Scroll.calculate_improvement / is_gear_acceptable
  simaple/gear/improvements/exceptional_enhancement.py ExceptionalEnhancement.calculate_improvement
  simaple/gear/blueprint/gear_blueprint.py             BonusSpec.get_grade, _get_bonus_from_spec,
                                                       GeneralizedGearBlueprint.build, PracticalGearBlueprint.build
  simaple/gear/bonus_factory.py + improvements/bonus.py   through the EXISTING `Simaple.Bonus.improve` (C18)
over the GENERATED tables / enumerations of `Simaple.Gen.GearParts` (spell-trace tables, PROBABILITIES,
STAT_PROP_TYPES, StatProps, the rank function, the BonusSpec constants) and `Simaple.Gen.Starforce` (GearType).

The composition itself is the EXISTING `Simaple.Model.GearBlueprint.build`: the concrete `build` below evaluates the
parts (in the order Python evaluates them, so that the first exception raised is the same) and hands their values
to it.

Python exceptions are values (`PErr`).  Table look-ups follow Python: `d[key]` is a KeyError when the key is
absent, `rows[i]` wraps a negative index and is an IndexError outside, tuple unpacking of a row of the wrong
length is a ValueError, and the `if/elif` chain over the gear type that matches no branch leaves the three basis
variables unbound (UnboundLocalError at their first use).
-/
import Simaple.Gen.Core
import Simaple.Gen.Starforce
import Simaple.Gen.GearParts
import Simaple.Model.Starforce
import Simaple.Model.GearBlueprint
import Simaple.Model.Bonus

namespace Simaple.Model.GearParts
open Simaple.Gen Simaple.Gen.GearParts Simaple.Gen.Starforce

abbrev SFMeta := Simaple.Model.Starforce.Meta
abbrev SFErr := Simaple.Model.Starforce.Err

inductive PErr where
  | typeError | valueError | indexError | keyError | unboundLocalError
  /-- what `Scroll.calculate_improvement` raises (class name generated: `scroll_raises`) -/
  | scrollRefused
  /-- what `ExceptionalEnhancement.calculate_improvement` raises (`exceptional_raises`) -/
  | exceptionalRefused
deriving DecidableEq, Repr

def PErr.name : PErr → String
  | .typeError => "TypeError" | .valueError => "ValueError" | .indexError => "IndexError"
  | .keyError => "KeyError" | .unboundLocalError => "UnboundLocalError"
  | .scrollRefused => scroll_raises | .exceptionalRefused => exceptional_raises

/-- an exception of star force seen from `build` -/
def PErr.ofSF : SFErr → PErr
  | .typeError => .typeError | .valueError => .valueError | .indexError => .indexError

/-- the result of the existing composition model seen from the concrete `build` -/
def liftSF : Except SFErr Stat → Except PErr Stat
  | .error e => .error (PErr.ofSF e)
  | .ok s => .ok s

/-- a part evaluated after star force raises `e`: star force's own exception comes first -/
def raiseAfterSF (e : PErr) : Except SFErr Stat → Except PErr Stat
  | .error e' => .error (PErr.ofSF e')
  | .ok _ => .error e

/-- `GearMeta`: the star-force part (`type`, `req_level`, `superior_eqp`, `req_job`, `max_scroll_chance`), the
    base stat and the two flags the bonus / exceptional parts read -/
structure GearMeta where
  sf : SFMeta
  base_stat : Stat
  boss_reward : Bool := false
  exceptional_enhancement : Bool := false
deriving DecidableEq, Repr

/-! ### Python container access -/

/-- `d[key]` on a dict literal (keys are distinct: checked by the generator) -/
def dictGet {α : Type} : List (Int × α) → Int → Except PErr α
  | [], _ => .error .keyError
  | (k, v) :: rest, key => if k = key then .ok v else dictGet rest key

/-- `xs[i]` (a negative index counts from the end) -/
def pyIndex {α : Type} (xs : List α) (i : Int) : Except PErr α :=
  let j := if i < 0 then i + xs.length else i
  if j < 0 then .error .indexError
  else match xs[j.toNat]? with
    | some v => .ok v
    | none => .error .indexError

/-- `int(b)` -/
def boolInt (b : Bool) : Int := if b then 1 else 0

/-! ### SpellTrace -/

structure SpellTrace where
  probability : Int
  stat_prop_type : StatProps
  order : Int := order_default
deriving DecidableEq, Repr

/-- the branch of the `if / elif` chain over `meta.type` in `calculate_improvement` -/
inductive Branch where
  | weapon | glove | armor | accessory | machineHeart | none
deriving DecidableEq, Repr

def Branch.all : List Branch := [.weapon, .glove, .armor, .accessory, .machineHeart, .none]

def branchOf (type : Int) : Branch :=
  if GearType.is_improved_as_weapon type then .weapon           -- if meta.type.is_improved_as_weapon():
  else if type = GearType.glove then .glove                      -- elif meta.type == GearType.glove:
  else if GearType.is_armor type || decide (type = GearType.shoulder_pad) then .armor
  else if GearType.is_accessory type then .accessory             -- elif meta.type.is_accessory():
  else if type = GearType.machine_heart then .machineHeart       -- elif meta.type == GearType.machine_heart:
  else .none                                                     -- (no else: the names stay unbound)

/-- `get_weapon_improvement` -/
def get_weapon_improvement (rank probability : Int) (kind : StatProps) : Except PErr (Int × Int × Int) :=
  match dictGet WEAPON_IMPROVEMENTS_ATT_STAT probability with
  | .error e => .error e
  | .ok rows =>
    match pyIndex rows rank with
    | .error e => .error e
    | .ok [attack_basis, stat_basis] =>
      let stat_basis := if kind = StatProps.MHP then stat_basis * 50 else stat_basis
      .ok (attack_basis, stat_basis, 0)
    | .ok _ => .error .valueError

/-- `get_glove_improvement` -/
def get_glove_improvement (rank probability : Int) : Except PErr (Int × Int × Int) :=
  match dictGet GLOBE_IMPROVEMENTS_ATT probability with
  | .error e => .error e
  | .ok row =>
    match pyIndex row rank with
    | .error e => .error e
    | .ok attack_basis =>
      let stat_basis := if attack_basis = 0 then 1 else 0
      .ok (attack_basis, stat_basis, 0)

/-- `get_armor_improvement` -/
def get_armor_improvement (rank probability : Int) (kind : StatProps) : Except PErr (Int × Int × Int) :=
  match dictGet ARMOR_IMPROVEMENTS_STAT_MHP_PDD probability with
  | .error e => .error e
  | .ok rows =>
    match pyIndex rows rank with
    | .error e => .error e
    | .ok [stat_basis, additional_mhp, _pdd] =>
      if kind = StatProps.MHP then .ok (0, 0, additional_mhp + stat_basis * 50)
      else .ok (0, stat_basis, additional_mhp)
    | .ok _ => .error .valueError

/-- `get_accesory_improvement` -/
def get_accesory_improvement (rank probability : Int) (kind : StatProps) : Except PErr (Int × Int × Int) :=
  match dictGet ACCESORY_IMPROVEMENTS_STAT probability with
  | .error e => .error e
  | .ok row =>
    match pyIndex row rank with
    | .error e => .error e
    | .ok stat_basis =>
      let stat_basis := if kind = StatProps.MHP then stat_basis * 50 else stat_basis
      .ok (0, stat_basis, 0)

/-- `get_machine_heart_improvement` -/
def get_machine_heart_improvement (rank probability : Int) : Except PErr (Int × Int × Int) :=
  match dictGet MACHINE_HEART_IMPROVEMENTS_STAT probability with
  | .error e => .error e
  | .ok row =>
    match pyIndex row rank with
    | .error e => .error e
    | .ok attack_basis => .ok (attack_basis, 0, 0)

/-- `(attack_basis, stat_basis, additional_mhp)` of the branch taken -/
def basis (b : Branch) (rank probability : Int) (kind : StatProps) : Except PErr (Int × Int × Int) :=
  match b with
  | .weapon => get_weapon_improvement rank probability kind
  | .glove => get_glove_improvement rank probability
  | .armor => get_armor_improvement rank probability kind
  | .accessory => get_accesory_improvement rank probability kind
  | .machineHeart => get_machine_heart_improvement rank probability
  | .none => .error .unboundLocalError

/-- the last `if` of `calculate_improvement`: `some (magic_attack, attack_power)` when
    `meta.type.is_armor() and self.order == 4 and meta.type != GearType.glove` -/
def order4 (m : SFMeta) (order : Int) : Option (Int × Int) :=
  if GearType.is_armor m.type && decide (order = 4) && decide (m.type ≠ GearType.glove) then
    some (boolInt (decide (m.req_job = 0) || decide (m.req_job / 2 % 2 = 1)),     -- math.floor(req_job / 2) % 2 == 1
          boolInt (decide (m.req_job = 0) || decide (m.req_job / 2 % 2 = 0)))
  else none

/-- `Stat.model_validate({a.value: x, b.value: y})` -/
def statOfPairs (a : StatProps) (x : Int) (b : StatProps) (y : Int) : Stat :=
  StatProps.assign (StatProps.assign Stat.zero a x) b y

/-- `calculate_improvement` once the branch, the rank and the order-4 extra are known -/
def improvementCore (b : Branch) (rank probability : Int) (kind : StatProps) (o4 : Option (Int × Int)) :
    Except PErr Stat :=
  let improvement := Stat.zero                                            -- improvement = Stat()
  if !PROBABILITIES.contains probability then .error .typeError           -- raise TypeError("Invalid probability")
  else if !STAT_PROP_TYPES.contains kind then .error .typeError           -- raise TypeError("Invalid prop_type")
  else
    let attack_type := if kind = StatProps.INT then StatProps.magic_attack else StatProps.attack_power
    match basis b rank probability kind with
    | .error e => .error e
    | .ok (attack_basis, stat_basis, additional_mhp) =>
      let improvement := improvement.iadd (statOfPairs attack_type attack_basis kind stat_basis)
      let improvement := improvement.iadd { MHP := (additional_mhp : Rat) }
      match o4 with
      | some (ma, ap) => .ok (improvement.iadd { magic_attack := (ma : Rat), attack_power := (ap : Rat) })
      | none => .ok improvement

/-- `SpellTrace.calculate_improvement(meta)` -/
def SpellTrace.calculate_improvement (m : SFMeta) (t : SpellTrace) : Except PErr Stat :=
  improvementCore (branchOf m.type) (get_spell_trace_rank m.req_level) t.probability t.stat_prop_type
    (order4 m t.order)

/-! ### Scroll, ExceptionalEnhancement -/

structure Scroll where
  stat : Stat
  gear_types : List Int := []
deriving DecidableEq, Repr

def Scroll.is_gear_acceptable (s : Scroll) (m : SFMeta) : Bool :=
  if s.gear_types.length = 0 then true else s.gear_types.contains m.type

def Scroll.calculate_improvement (m : SFMeta) (s : Scroll) : Except PErr Stat :=
  if !s.is_gear_acceptable m then .error .scrollRefused else .ok s.stat     -- self.stat.model_copy()

structure ExceptionalEnhancement where
  stat : Stat
deriving DecidableEq, Repr

def ExceptionalEnhancement.calculate_improvement (m : GearMeta) (x : ExceptionalEnhancement) : Except PErr Stat :=
  if !m.exceptional_enhancement then .error .exceptionalRefused else .ok x.stat

/-! ### bonus: BonusSpec, BonusFactory.create(...).calculate_improvement through `Simaple.Bonus.improve` -/

structure BonusSpec where
  bonus_type : Simaple.Bonus.Kind
  grade : Option Int := none
  rank : Option Int := none
deriving DecidableEq, Repr

/-- Python truthiness of an `Optional[int]` -/
def truthy : Option Int → Bool
  | some v => v != 0
  | none => false

/-- the two pydantic validators of `BonusSpec` accept the spec (note `if self.rank:` -- a rank of 0 is
    not range-checked) -/
def BonusSpec.valid (s : BonusSpec) : Bool :=
  (match s.grade with
   | some v => decide (grade_lo ≤ v) && decide (v ≤ grade_hi)
   | none => true)
  && !(truthy s.grade && truthy s.rank)
  && !(s.grade.isNone && s.rank.isNone)
  && (match s.rank with
      | some r => if r != 0 then decide (rank_lo ≤ r) && decide (r ≤ rank_hi) else true
      | none => true)

/-- `BonusSpec.get_grade` -/
def BonusSpec.get_grade (s : BonusSpec) : Except PErr Int :=
  if truthy s.grade then .ok (s.grade.getD 0)
  else match s.rank with
    | none => .error .valueError
    | some r => .ok (rank_offset - r)

/-- what `AttackTypeBonus` reads from `meta.type` -/
def wclassOf (type : Int) : Simaple.Bonus.WClass :=
  if !GearType.is_weapon type then .notWeapon
  else if type = GearType.sword_zb then .swordZB
  else if type = GearType.sword_zl then .swordZL
  else .weapon

/-- the gear as the bonus model sees it (base attack values are integral on all data; floor otherwise) -/
def bonusMeta (m : GearMeta) : Simaple.Bonus.Meta :=
  { reqLevel := m.sf.req_level, bossReward := m.boss_reward, wclass := wclassOf m.sf.type,
    baseAtt := m.base_stat.attack_power.floor, baseMatt := m.base_stat.magic_attack.floor }

/-- the integer-valued bonus stat as a full stat block -/
def obsToStat (o : Simaple.Bonus.Obs) : Stat :=
  { STR := (o.sdil.s : Rat), DEX := (o.sdil.d : Rat), INT := (o.sdil.i : Rat), LUK := (o.sdil.l : Rat),
    STR_multiplier := (o.mul.s : Rat), DEX_multiplier := (o.mul.d : Rat), INT_multiplier := (o.mul.i : Rat),
    LUK_multiplier := (o.mul.l : Rat), MHP := (o.mhp : Rat), MMP := (o.mmp : Rat),
    attack_power := (o.att : Rat), magic_attack := (o.matt : Rat),
    boss_damage_multiplier := (o.boss : Rat), damage_multiplier := (o.dmg : Rat) }

/-- `BonusFactory().create(kind, grade).calculate_improvement(meta)` for ANY integer grade (`create` assigns
    the grade without validation): `validate_grade` first; on a weapon the attack kinds read
    `grade_multiplier[grade - 1]` from a 7-element list (IndexError outside, wrap-around below 1) -/
def bonusImprovement (m : GearMeta) (k : Simaple.Bonus.Kind) (g : Int) : Except PErr Stat :=
  let bm := bonusMeta m
  if !Simaple.Bonus.validateGrade bm g then .error .valueError
  else if (decide (k = .att) || decide (k = .matt)) && decide (bm.wclass ≠ .notWeapon) then
    if g - 1 ≥ 7 || g - 1 < -7 then .error .indexError
    else
      let g' := if g - 1 < 0 then g + 7 else g
      .ok (obsToStat (Simaple.Bonus.improve bm k g'))
  else .ok (obsToStat (Simaple.Bonus.improve bm k g))

/-- `_get_bonus_from_spec`: the bonus kind with the grade `BonusFactory.create` assigns -/
def BonusSpec.toBonus (s : BonusSpec) : Except PErr (Simaple.Bonus.Kind × Int) :=
  match s.get_grade with
  | .error e => .error e
  | .ok g => .ok (s.bonus_type, g)

/-- `bonus.calculate_improvement(self.meta)` -/
def bonusOf (m : GearMeta) (kg : Simaple.Bonus.Kind × Int) : Except PErr Stat := bonusImprovement m kg.1 kg.2

/-! ### blueprints -/

/-- a list comprehension `[f(x) for x in xs]` whose elements may raise: the first exception wins -/
def evalAll {α β : Type} (f : α → Except PErr β) : List α → Except PErr (List β)
  | [] => .ok []
  | x :: xs =>
    match f x with
    | .error e => .error e
    | .ok s =>
      match evalAll f xs with
      | .error e => .error e
      | .ok ss => .ok (s :: ss)

structure GeneralizedGearBlueprint where
  «meta» : GearMeta
  spell_traces : List SpellTrace := []
  scrolls : List Scroll := []
  /-- `starforce.star` -/
  star : Int := 0
  bonuses : List BonusSpec := []
  exceptional_enhancement : Option ExceptionalEnhancement := none
deriving Repr

namespace GeneralizedGearBlueprint

def traceStats (bp : GeneralizedGearBlueprint) : Except PErr (List Stat) :=
  evalAll (SpellTrace.calculate_improvement bp.meta.sf) bp.spell_traces
def scrollStats (bp : GeneralizedGearBlueprint) : Except PErr (List Stat) :=
  evalAll (Scroll.calculate_improvement bp.meta.sf) bp.scrolls
/-- `bonuses = [_get_bonus_from_spec(f, spec) for spec in self.bonuses]` and then
    `[bonus.calculate_improvement(self.meta) for bonus in bonuses]` -/
def bonusStats (bp : GeneralizedGearBlueprint) : Except PErr (List Stat) :=
  match evalAll BonusSpec.toBonus bp.bonuses with
  | .error e => .error e
  | .ok bs => evalAll (bonusOf bp.meta) bs
/-- `if self.exceptional_enhancement: … .calculate_improvement(self.meta)` (a pydantic model is truthy) -/
def exceptionalStat (bp : GeneralizedGearBlueprint) : Except PErr (Option Stat) :=
  match bp.exceptional_enhancement with
  | none => .ok none
  | some x =>
    match x.calculate_improvement bp.meta with
    | .error e => .error e
    | .ok s => .ok (some s)

/-- the blueprint with its parts evaluated, as the EXISTING composition model takes it -/
def evaluated (bp : GeneralizedGearBlueprint) (traces scrolls bonuses : List Stat) (exc : Option Stat) :
    GearBlueprint.Blueprint :=
  { «meta» := bp.meta.sf, base := bp.meta.base_stat, spell_traces := traces, scrolls := scrolls,
    star := bp.star, bonuses := bonuses, exceptional := exc }

/-- `GeneralizedGearBlueprint.build().stat`: spell traces, then scrolls are evaluated first; star force is
    computed (inside the existing `GearBlueprint.build`) before the bonus / exceptional parts are evaluated, so
    an exception of star force wins over one of those -/
def build (bp : GeneralizedGearBlueprint) : Except PErr Stat :=
  match bp.traceStats with
  | .error e => .error e
  | .ok traces =>
  match bp.scrollStats with
  | .error e => .error e
  | .ok scrolls =>
    let later : Except PErr (List Stat × Option Stat) :=
      match bp.bonusStats with
      | .error e => .error e
      | .ok bonuses =>
        match bp.exceptionalStat with
        | .error e => .error e
        | .ok exc => .ok (bonuses, exc)
    match later with
    | .ok (bonuses, exc) => liftSF (GearBlueprint.build (bp.evaluated traces scrolls bonuses exc))
    | .error e => raiseAfterSF e (GearBlueprint.build (bp.evaluated traces scrolls [] none))

end GeneralizedGearBlueprint

structure PracticalGearBlueprint where
  «meta» : GearMeta
  spell_trace : Option SpellTrace := none
  scroll : Option Scroll := none
  star : Int := 0
  bonuses : List BonusSpec := []
deriving Repr

namespace PracticalGearBlueprint

/-- `translate_into_generalized_gear_blueprint` -/
def translate (p : PracticalGearBlueprint) : GeneralizedGearBlueprint :=
  let n := p.meta.sf.max_scroll_chance.toNat                      -- range(self.meta.max_scroll_chance)
  { «meta» := p.meta,
    spell_traces := match p.spell_trace with
      | some t => List.replicate n t
      | none => [],
    scrolls := match p.spell_trace, p.scroll with
      | none, some s => List.replicate n s
      | _, _ => [],
    star := Simaple.Model.Starforce.starCutoff p.meta.sf p.star,   -- starforce.apply_star_cutoff(self.meta)
    bonuses := p.bonuses,
    exceptional_enhancement := none }

def build (p : PracticalGearBlueprint) : Except PErr Stat := p.translate.build

end PracticalGearBlueprint

/-! ### the vocabulary of the part theorems (Props/C17_Parts.lean) -/

/-- the probabilities the table of a branch has an entry for -/
def keysOf : Branch → List Int
  | .weapon => WEAPON_IMPROVEMENTS_ATT_STAT.map (·.1)
  | .glove => GLOBE_IMPROVEMENTS_ATT.map (·.1)
  | .armor => ARMOR_IMPROVEMENTS_STAT_MHP_PDD.map (·.1)
  | .accessory => ACCESORY_IMPROVEMENTS_STAT.map (·.1)
  | .machineHeart => MACHINE_HEART_IMPROVEMENTS_STAT.map (·.1)
  | .none => []

/-- well-formed gear meta for spell traces: the gear type falls in one of the five classes
    `calculate_improvement` knows (weapon-like, glove, armor/shoulder pad, accessory, machine heart) -/
def Traceable (m : SFMeta) : Prop := branchOf m.type ≠ Branch.none
instance (m : SFMeta) : Decidable (Traceable m) := by unfold Traceable; infer_instance

/-- the probabilities that are legal on the gear: members of `PROBABILITIES` its class has a table entry for
    (100/70/30/15 on weapon-likes, 100/70/30 elsewhere) -/
def legalProbabilities (m : SFMeta) : List Int :=
  PROBABILITIES.filter fun p => (keysOf (branchOf m.type)).contains p

/-- a legal spell trace on a traceable gear -/
def TraceLegal (m : SFMeta) (t : SpellTrace) : Prop :=
  Traceable m ∧ t.probability ∈ legalProbabilities m ∧ t.stat_prop_type ∈ STAT_PROP_TYPES
instance (m : SFMeta) (t : SpellTrace) : Decidable (TraceLegal m t) := by unfold TraceLegal; infer_instance

/-- a bonus spec whose grade exists on the gear (1..7, at least 3 on a boss reward) -/
def BonusSpec.wellFormed (m : GearMeta) (s : BonusSpec) : Bool :=
  match s.get_grade with
  | .ok g => Simaple.Bonus.validGrade (bonusMeta m) g
  | .error _ => false

/-- what every scroll slot of a practical blueprint receives: the spell trace if one is given, else the scroll,
    else nothing -/
def PracticalGearBlueprint.slotPart (p : PracticalGearBlueprint) : Except PErr Stat :=
  match p.spell_trace, p.scroll with
  | some t, _ => t.calculate_improvement p.meta.sf
  | none, some s => s.calculate_improvement p.meta.sf
  | none, none => .ok Stat.zero

end Simaple.Model.GearParts
