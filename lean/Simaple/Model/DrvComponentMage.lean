import Simaple.Model.DrvComponent
import Simaple.Model.ComponentMage
/-! driver entry points for the L2 component models of group `Mage` (same protocol as `DrvComponent`:
    fns "reducer" and "cview"; answers only for the classes of the group) -/
namespace Simaple.DrvComponentMage
open Lean Simaple.J Simaple.Entity Simaple.Comp Simaple.DrvEntity Simaple.DrvComponent

def pstr (p : Json) (k : String) : Except String String := do str (← field p k)
def pstrs (p : Json) (k : String) : Except String (List String) := do (← list (← field p k)).mapM str
def prats (p : Json) (k : String) : Except String (List Rat) := do ratList (← field p k)
def ppairs (p : Json) (k : String) : Except String (List (String × String)) := do
  (← list (← field p k)).mapM (fun e => do
    match ← list e with
    | [a, b] => pure (← str a, ← str b)
    | _ => throw "pair expected")

def runningJson' (v : Running) : Json := runningJson v

/-! codecs of the states: field names are the Python `ReducerState` field names -/
def novaP (p : Json) : Except String PoisonNova.P := do
  pure ⟨← pint p "cd_eff", ← pint p "delay", ← prat p "damage", ← prat p "hit", ← pint p "nova_remaining_time",
        ← prat p "nova_damage", ← pint p "nova_single_hit", ← pint p "nova_hit_count", ← prat p "dot_damage",
        ← pint p "dot_lasting"⟩
def novaS (s : Json) : Except String PoisonNova.S := do
  pure ⟨← getCooldown (← field s "cooldown"), ← getNova (← field s "poison_nova")⟩
def novaSJ (s : PoisonNova.S) : Json :=
  Json.mkObj [("cooldown", cooldownJson s.cooldown), ("poison_nova", novaJson s.poisonNova)]

def chainP (p : Json) : Except String PoisonChain.P := do
  pure ⟨← pint p "cd_eff", ← pint p "delay", ← prat p "damage", ← prat p "hit", ← prat p "periodic_damage",
        ← prat p "periodic_hit", ← pint p "lasting_duration", ← prat p "periodic_damage_increment"⟩
def chainS (s : Json) : Except String PoisonChain.S := do
  pure ⟨← getCooldown (← field s "cooldown"), ← getPeriodic (← field s "periodic"), ← getStack (← field s "stack")⟩
def chainSJ (s : PoisonChain.S) : Json :=
  Json.mkObj [("cooldown", cooldownJson s.cooldown), ("periodic", periodicJson s.periodic), ("stack", stackJson s.stack)]

def punisherP (p : Json) : Except String DotPunisher.P := do
  pure ⟨← pint p "cd_eff", ← pint p "delay", ← prat p "damage", ← prat p "hit", ← pint p "multiple",
        ← prat p "dot_damage", ← pint p "dot_lasting"⟩

def ifrittP (p : Json) : Except String Ifritt.P := do
  pure ⟨← pint p "cd_eff", ← pint p "delay", ← prat p "damage", ← prat p "hit", ← prat p "periodic_damage",
        ← prat p "periodic_hit", ← pint p "lasting_duration", ← prat p "dot_damage", ← pint p "dot_lasting"⟩

def venomP (p : Json) : Except String InfernalVenom.P := do
  pure ⟨← pint p "cd_eff", ← pint p "delay", ← pint p "lasting_duration", ← prat p "first_damage", ← prat p "first_hit",
        ← prat p "second_damage", ← prat p "second_hit"⟩
def venomS (s : Json) : Except String InfernalVenom.S := do
  pure ⟨← getFervent (← field s "drain_stack"), ← getCooldown (← field s "cooldown"), ← getLasting (← field s "lasting")⟩
def venomSJ (s : InfernalVenom.S) : Json :=
  Json.mkObj [("drain_stack", ferventJson s.drainStack), ("cooldown", cooldownJson s.cooldown),
    ("lasting", lastingJson s.lasting)]

def swipP (p : Json) : Except String FlameSwip.P := do
  pure ⟨← pint p "cd_eff", ← pint p "delay", ← prat p "damage", ← prat p "hit", ← prat p "explode_damage",
        ← prat p "explode_hit", ← prat p "dot_damage", ← pint p "dot_lasting"⟩
def swipS (s : Json) : Except String FlameSwip.S := do
  pure ⟨← getCooldown (← field s "cooldown"), ← getStack (← field s "stack")⟩
def swipSJ (s : FlameSwip.S) : Json := Json.mkObj [("cooldown", cooldownJson s.cooldown), ("stack", stackJson s.stack)]

def frostS (s : Json) : Except String FrostEffect.S := do pure ⟨← getStack (← field s "frost_stack")⟩
def frostSJ (s : FrostEffect.S) : Json := Json.mkObj [("frost_stack", stackJson s.frostStack)]

def jupyterP (p : Json) : Except String JupyterThunder.P := do
  pure ⟨← pint p "cd_eff", ← pint p "delay", ← prat p "periodic_damage", ← prat p "periodic_hit",
        ← pint p "lasting_duration", ← pint p "max_count", ← pstr p "default_mod", ← pstrs p "mod_plain"⟩
def jupyterS (s : Json) : Except String JupyterThunder.S := do
  pure ⟨← getStack (← field s "frost_stack"), ← getCooldown (← field s "cooldown"), ← getPeriodic (← field s "periodic")⟩
def jupyterSJ (s : JupyterThunder.S) : Json :=
  Json.mkObj [("frost_stack", stackJson s.frostStack), ("cooldown", cooldownJson s.cooldown),
    ("periodic", periodicJson s.periodic)]

def breakP (p : Json) : Except String ThunderBreak.P := do
  pure ⟨← pint p "cd_eff", ← pint p "delay", ← prat p "periodic_hit", ← pint p "lasting_duration", ← pint p "max_count",
        ← prats p "damage_at", ← pstr p "default_mod", ← pstrs p "mod_plain", ← pstrs p "mod_shock"⟩
def breakS (s : Json) : Except String ThunderBreak.S := do
  pure ⟨← getStack (← field s "frost_stack"), ← getPeriodic (← field s "jupyter_thunder_shock"),
        ← getCooldown (← field s "cooldown"), ← getPeriodic (← field s "periodic")⟩
def breakSJ (s : ThunderBreak.S) : Json :=
  Json.mkObj [("frost_stack", stackJson s.frostStack), ("jupyter_thunder_shock", periodicJson s.shock),
    ("cooldown", cooldownJson s.cooldown), ("periodic", periodicJson s.periodic)]

def clP (p : Json) : Except String ChainLightning.P := do
  pure ⟨← pint p "cd_eff", ← pint p "delay", ← prat p "damage", ← prat p "hit", ← prat p "prob", ← prat p "ec_damage",
        ← prat p "ec_hit", ← pstr p "default_mod", ← pstrs p "mod_plain", ← pstrs p "mod_shock"⟩
def clS (s : Json) : Except String ChainLightning.S := do
  pure ⟨← getStack (← field s "frost_stack"), ← getPeriodic (← field s "jupyter_thunder_shock"),
        ← getCooldown (← field s "cooldown"), ← getCurrentField (← field s "current_fields")⟩
def clSJ (s : ChainLightning.S) : Json :=
  Json.mkObj [("frost_stack", stackJson s.frostStack), ("jupyter_thunder_shock", periodicJson s.shock),
    ("cooldown", cooldownJson s.cooldown), ("current_fields", currentFieldJson s.currentFields)]

def divAtkP (p : Json) : Except String DivineAttack.P := do
  pure ⟨← pint p "cd_eff", ← pint p "delay", ← prat p "damage", ← prat p "hit", ← pstr p "default_mod",
        ← pstr p "mod_none", ← ppairs p "mod_table", ← pbool p "has_synergy"⟩
def divAtkS (s : Json) : Except String DivineAttack.S := do
  pure ⟨← getMark (← field s "divine_mark"), ← getCooldown (← field s "cooldown")⟩
def divAtkSJ (s : DivineAttack.S) : Json :=
  Json.mkObj [("divine_mark", markJson s.divineMark), ("cooldown", cooldownJson s.cooldown)]

def minionP (p : Json) : Except String DivineMinion.P := do
  pure ⟨← pint p "cd_eff", ← pint p "delay", ← prat p "damage", ← prat p "hit", ← prat p "periodic_damage",
        ← prat p "periodic_hit", ← pint p "lasting_duration", ← pbool p "disable_validity", ← pstr p "mark_advantage",
        ← pbool p "has_stat"⟩
def minionS (s : Json) : Except String DivineMinion.S := do
  pure ⟨← getMark (← field s "divine_mark"), ← getCooldown (← field s "cooldown"), ← getPeriodic (← field s "periodic")⟩
def minionSJ (s : DivineMinion.S) : Json :=
  Json.mkObj [("divine_mark", markJson s.divineMark), ("cooldown", cooldownJson s.cooldown),
    ("periodic", periodicJson s.periodic)]

def rayP (p : Json) : Except String HexaAngelRay.P := do
  pure ⟨← pint p "cd_eff", ← pint p "delay", ← prat p "damage", ← prat p "hit", ← prat p "punishing_damage",
        ← prat p "punishing_hit", ← pint p "stack_resolve_amount", ← pstr p "default_mod", ← pstr p "mod_none",
        ← ppairs p "mod_table"⟩
def rayS (s : Json) : Except String HexaAngelRay.S := do
  pure ⟨← getMark (← field s "divine_mark"), ← getCooldown (← field s "cooldown"), ← getStack (← field s "punishing_stack")⟩
def raySJ (s : HexaAngelRay.S) : Json :=
  Json.mkObj [("divine_mark", markJson s.divineMark), ("cooldown", cooldownJson s.cooldown),
    ("punishing_stack", stackJson s.punishingStack)]

def infP (p : Json) : Except String Infinity.P := do
  pure ⟨← pint p "cd_eff", ← pint p "last_eff", ← pint p "delay", ← prat p "final_damage_increment",
        ← pint p "increase_interval", ← prat p "default_final_damage", ← prat p "maximum_final_damage"⟩

def exc (r : Except String (σ × List REv)) (enc : σ → Json) : Json :=
  match r with
  | .ok r => out (enc r.1) r.2
  | .error e => DrvComponent.raised e

def reducer (cls m : String) (p s : Json) (payload : Json) : Except String Json := do
  let bad : Except String Json := throw s!"unknown reducer {cls}.{m}"
  match cls with
  | "PoisonNovaComponent" =>
    let pp ← novaP p; let st ← novaS s
    match m with
    | "use" => let r := PoisonNova.use pp st; pure (out (novaSJ r.1) r.2)
    | "elapse" => let r := PoisonNova.elapse pp (← int payload) st; pure (out (novaSJ r.1) r.2)
    | "trigger" => let r := PoisonNova.trigger pp st; pure (out (novaSJ r.1) r.2)
    | _ => bad
  | "PoisonChainComponent" =>
    let pp ← chainP p; let st ← chainS s
    match m with
    | "use" => pure (exc (PoisonChain.use pp st) chainSJ)
    | "elapse" =>
      if ¬ st.periodic.WF then throw "PoisonChainComponent.elapse: periodic outside WF" else
      let r := PoisonChain.elapse pp (← int payload) st; pure (out (chainSJ r.1) r.2)
    | _ => bad
  | "DotPunisherComponent" =>
    let pp ← punisherP p; let st ← attackS s
    match m with
    | "use" => let r := DotPunisher.use pp st; pure (out (attackSJ r.1) r.2)
    | "elapse" => let r := DotPunisher.elapse pp (← int payload) st; pure (out (attackSJ r.1) r.2)
    | "reset_cooldown" => let r := DotPunisher.resetCooldown pp st; pure (out (attackSJ r.1) r.2)
    | _ => bad
  | "IfrittComponent" =>
    let pp ← ifrittP p; let st ← periodicS s
    match m with
    | "use" => pure (exc (Ifritt.use pp st) periodicSJ)
    | "elapse" =>
      if ¬ st.periodic.WF then throw "IfrittComponent.elapse: periodic outside WF" else
      let r := Ifritt.elapse pp (← int payload) st; pure (out (periodicSJ r.1) r.2)
    | _ => bad
  | "InfernalVenom" =>
    let pp ← venomP p; let st ← venomS s
    match m with
    | "use" => let r := InfernalVenom.use pp st; pure (out (venomSJ r.1) r.2)
    | "elapse" => let r := InfernalVenom.elapse pp (← int payload) st; pure (out (venomSJ r.1) r.2)
    | _ => bad
  | "FlameSwipVI" =>
    let pp ← swipP p; let st ← swipS s
    match m with
    | "use" => let r := FlameSwip.use pp st; pure (out (swipSJ r.1) r.2)
    | "explode" => let r := FlameSwip.explode pp st; pure (out (swipSJ r.1) r.2)
    | _ => bad
  | "FrostEffect" =>
    let st ← frostS s
    match m with
    | "increase_step" => let r := FrostEffect.increaseStep st; pure (out (frostSJ r.1) r.2)
    | "increase_three" => let r := FrostEffect.increaseThree st; pure (out (frostSJ r.1) r.2)
    | _ => bad
  | "JupyterThunder" =>
    let pp ← jupyterP p; let st ← jupyterS s
    match m with
    | "use" =>
      if ¬ (0 < pp.maxCount ∧ JupyterThunder.Inv pp st) then throw "JupyterThunder.use: max_count <= 0 or state outside Inv" else
      pure (exc (JupyterThunder.use pp st) jupyterSJ)
    | "elapse" =>
      if ¬ JupyterThunder.Inv pp st then throw "JupyterThunder.elapse: state outside Inv" else
      let r := JupyterThunder.elapse pp (← int payload) st; pure (out (jupyterSJ r.1) r.2)
    | _ => bad
  | "ThunderBreak" =>
    let pp ← breakP p; let st ← breakS s
    match m with
    | "use" =>
      if ¬ (0 < pp.maxCount ∧ ThunderBreak.Inv pp st) then throw "ThunderBreak.use: max_count <= 0 or state outside Inv" else
      pure (exc (ThunderBreak.use pp st) breakSJ)
    | "elapse" =>
      if ¬ ThunderBreak.Inv pp st then throw "ThunderBreak.elapse: state outside Inv" else
      let r := ThunderBreak.elapse pp (← int payload) st; pure (out (breakSJ r.1) r.2)
    | _ => bad
  | "ChainLightningVIComponent" =>
    let pp ← clP p; let st ← clS s
    match m with
    | "use" => pure (exc (ChainLightning.use pp st) clSJ)
    | "elapse" =>
      if ¬ (∀ q ∈ st.currentFields.fieldPeriodics, q.WF) then throw "ChainLightningVI.elapse: a field outside WF" else
      let r := ChainLightning.elapse pp (← int payload) st; pure (out (clSJ r.1) r.2)
    | _ => bad
  | "DivineAttackSkillComponent" =>
    let pp ← divAtkP p; let st ← divAtkS s
    match m with
    | "use" => let r := DivineAttack.use pp st; pure (out (divAtkSJ r.1) r.2)
    | "elapse" => let r := DivineAttack.elapse pp (← int payload) st; pure (out (divAtkSJ r.1) r.2)
    | _ => bad
  | "DivineMinion" =>
    let pp ← minionP p; let st ← minionS s
    match m with
    | "use" => pure (exc (DivineMinion.use pp st) minionSJ)
    | "elapse" =>
      if ¬ st.periodic.WF then throw "DivineMinion.elapse: periodic outside WF" else
      let r := DivineMinion.elapse pp (← int payload) st; pure (out (minionSJ r.1) r.2)
    | _ => bad
  | "HexaAngelRayComponent" =>
    let pp ← rayP p; let st ← rayS s
    match m with
    | "use" => let r := HexaAngelRay.use pp st; pure (out (raySJ r.1) r.2)
    | "stack" => let r := HexaAngelRay.stack pp st; pure (out (raySJ r.1) r.2)
    | "elapse" => let r := HexaAngelRay.elapse pp (← int payload) st; pure (out (raySJ r.1) r.2)
    | _ => bad
  | "Infinity" =>
    let pp ← infP p; let st ← buffS s
    match m with
    | "use" => let r := Infinity.use pp st; pure (out (buffSJ r.1) r.2)
    | "elapse" => let r := Infinity.elapse pp (← int payload) st; pure (out (buffSJ r.1) r.2)
    | _ => bad
  | _ => throw s!"unknown class {cls}"

def cview (cls v : String) (p s : Json) : Except String Json := do
  match cls, v with
  | "FerventDrain", "buff" => pure (.bool (FerventDrain.buffOn ⟨← getFervent (← field s "drain_stack")⟩))
  | "FerventDrain", "running" => pure (runningJson (FerventDrain.running ⟨← getFervent (← field s "drain_stack")⟩))
  | "PoisonNovaComponent", "validity" => pure (validityJson (PoisonNova.validity (← novaP p) (← novaS s)))
  | "PoisonChainComponent", "validity" => pure (validityJson (PoisonChain.validity (← chainP p) (← chainS s)))
  | "PoisonChainComponent", "running" => pure (runningJson (PoisonChain.running (← chainP p) (← chainS s)))
  | "DotPunisherComponent", "validity" => pure (validityJson (DotPunisher.validity (← punisherP p) (← attackS s)))
  | "IfrittComponent", "validity" => pure (validityJson (Ifritt.validity (← ifrittP p) (← periodicS s)))
  | "IfrittComponent", "running" => pure (runningJson (Ifritt.running (← ifrittP p) (← periodicS s)))
  | "InfernalVenom", "validity" => pure (validityJson (InfernalVenom.validity (← venomP p) (← venomS s)))
  | "InfernalVenom", "running" => pure (runningJson (InfernalVenom.running (← venomS s)))
  | "FlameSwipVI", "validity" => pure (validityJson (FlameSwip.validity (← swipP p) (← swipS s)))
  | "FrostEffect", "buff" => pure (.bool (FrostEffect.buffOn (← frostS s)))
  | "FrostEffect", "running" => pure (runningJson (FrostEffect.running (← frostS s)))
  | "JupyterThunder", "validity" => pure (validityJson (JupyterThunder.validity (← jupyterP p) (← jupyterS s)))
  | "ThunderBreak", "validity" => pure (validityJson (ThunderBreak.validity (← breakP p) (← breakS s)))
  | "ChainLightningVIComponent", "validity" => pure (validityJson (ChainLightning.validity (← clP p) (← clS s)))
  | "DivineAttackSkillComponent", "validity" => pure (validityJson (DivineAttack.validity (← divAtkP p) (← divAtkS s)))
  | "DivineAttackSkillComponent", "buff" => pure (.bool (DivineAttack.buffOn (← divAtkP p) (← divAtkS s)))
  | "DivineMinion", "validity" => pure (validityJson (DivineMinion.validity (← minionP p) (← minionS s)))
  | "DivineMinion", "buff" => pure (.bool (DivineMinion.buffOn (← minionP p) (← minionS s)))
  | "DivineMinion", "running" => pure (runningJson (DivineMinion.running (← minionP p) (← minionS s)))
  | "HexaAngelRayComponent", "validity" => pure (validityJson (HexaAngelRay.validity (← rayP p) (← rayS s)))
  | "HexaAngelRayComponent", "buff" => pure (.bool (HexaAngelRay.buffOn (← rayS s)))
  | "Infinity", "validity" => pure (validityJson (Infinity.validity (← infP p) (← buffS s)))
  | "Infinity", "buff" =>
      match Infinity.buff (← infP p) (← buffS s) with
      | .ok v => pure (.bool v.isSome)
      | .error e => pure (DrvComponent.raised e)
  | "Infinity", "running" => pure (runningJson (Infinity.running (← buffS s)))
  | _, _ => throw s!"unknown view {cls}.{v}"

def modelledClasses : List String :=
  ["FerventDrain", "PoisonNovaComponent", "PoisonChainComponent", "DotPunisherComponent", "IfrittComponent",
   "InfernalVenom", "FlameSwipVI", "FrostEffect", "JupyterThunder", "ThunderBreak", "ChainLightningVIComponent",
   "DivineAttackSkillComponent", "DivineMinion", "HexaAngelRayComponent", "Infinity"]

/-- extra entry point: the value of the Infinity buff (`final_damage_multiplier`), `null` when off -/
def infinityEffect (p s : Json) : Except String Json := do
  match Infinity.buff (← infP p) (← buffS s) with
  | .ok (some v) => pure (ofRat v)
  | .ok none => pure .null
  | .error e => pure (DrvComponent.raised e)

def component (fn : String) (j : Json) : Option (Except String Json) :=
  match fn with
  | "reducer" =>
      match j.getObjVal? "cls" >>= Json.getStr? with
      | .ok c => if modelledClasses.contains c then some do
            reducer c (← str (← field j "method")) (← field j "params") (← field j "state") (fieldD j "payload" .null)
          else none
      | .error _ => none
  | "cview" =>
      match j.getObjVal? "cls" >>= Json.getStr? with
      | .ok c => if modelledClasses.contains c then some do
            cview c (← str (← field j "view")) (← field j "params") (← field j "state")
          else none
      | .error _ => none
  | "mage_infinity_effect" => some do infinityEffect (← field j "params") (← field j "state")
  | "mage_modelled_classes" => some (pure (.arr (modelledClasses.map Json.str).toArray))
  | _ => none

end Simaple.DrvComponentMage
