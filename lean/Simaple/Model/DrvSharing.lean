import Simaple.Model.JsonUtil
import Simaple.Model.Sharing
/-! driver entry points for the sharing model (C02).

`c02.router`    a table of dispatchers (name, included signatures, re-entrant calls), an action sequence; runs the
                router with memo (`seqCached`) and without (`seqPlain`); answers events per call, the store trace
                and the memo, to be compared with the real `RouterDispatcher` on the same table.
                `install_late`: the last dispatcher is installed after the first half of the actions.
`c02.protocol`  a schedule of session numbers; every session runs one `load`; answers which repository object
                (by construction index) each session was handed, how many were constructed and which one the
                global ends with, to be compared with the real `get_kms_jobs_repository` under the same forced
                interleaving. -/
namespace Simaple.Drv
open Lean Simaple.J Simaple.Sharing

abbrev RAct := String × String
abbrev REv := String × String × String

def rsig (a : RAct) : String := a.1 ++ "." ++ a.2

/-- the fake dispatcher of the harness: appends its name to the store, emits one event tagged with the store
    length, and (when its table says so and the store is short) hands a follow-up action to the router -/
def mkDisp (name : String) (sigs : List String) (reenter : List (String × RAct)) : Disp RAct (List String) REv where
  includes s := sigs.contains s
  run a st :=
    let st1 := st ++ [name]
    let ev : REv := (name, rsig a, toString st1.length)
    match reenter.find? (fun kv => kv.1 == rsig a) with
    | some kv =>
      if st1.length < 40 then .call kv.2 st1 (fun st2 evs => .done st2 (ev :: evs)) else .done st1 [ev]
    | none => .done st1 [ev]

def dispName (d : Disp RAct (List String) REv) : String :=
  match d.run ("?", "?") [] with
  | .done st _ => st.headD "?"
  | .call _ st _ => st.headD "?"

def getAct (j : Json) : Except String RAct := do
  match (← list j) with
  | [a, b] => pure (← str a, ← str b)
  | _ => throw "action: [name, method] expected"

def getDisp (j : Json) : Except String (Disp RAct (List String) REv) := do
  let name ← str (← field j "name")
  let sigs ← (← list (← field j "includes")).mapM str
  let re ← match (← field j "reenter") with
    | .obj kvs => kvs.toList.mapM fun kv => do pure (kv.1, ← getAct kv.2)
    | _ => throw "reenter: object expected"
  pure (mkDisp name sigs re)

def evJson (e : REv) : Json := .arr #[.str e.1, .str e.2.1, .str e.2.2]
def evsJson (es : List (List REv)) : Json := .arr (es.map fun l => Json.arr (l.map evJson).toArray).toArray
def strsJson (l : List String) : Json := .arr (l.map Json.str).toArray

def routerDepth : Nat := 64

def sharing (fn : String) (j : Json) : Option (Except String Json) :=
  if fn == "c02.router" then some do
    let ds ← (← list (← field j "dispatchers")).mapM getDisp
    let acts ← (← list (← field j "actions")).mapM getAct
    let late := (fieldD j "install_late" (.bool false)) == .bool true
    let half := if late then acts.length / 2 else 0
    let early := if late then ds.dropLast else ds
    let a1 := acts.take half
    let a2 := acts.drop half
    -- with memo
    let c1 ← match seqCached rsig early routerDepth a1 [] [] with
      | some x => pure x | none => throw "nesting bound"
    let c2 ← match seqCached rsig ds routerDepth a2 c1.1 c1.2.1 with
      | some x => pure x | none => throw "nesting bound"
    -- without
    let p1 ← match seqPlain rsig early routerDepth a1 [] with
      | some x => pure x | none => throw "nesting bound"
    let p2 ← match seqPlain rsig ds routerDepth a2 p1.1 with
      | some x => pure x | none => throw "nesting bound"
    let cacheJ := Json.arr (c2.1.map fun kv => Json.arr #[.str kv.1, strsJson (kv.2.map dispName)]).toArray
    pure (Json.mkObj [
      ("cached", Json.mkObj [("events", evsJson (c1.2.2 ++ c2.2.2)), ("store", strsJson c2.2.1), ("cache", cacheJ)]),
      ("plain", Json.mkObj [("events", evsJson (p1.2 ++ p2.2)), ("store", strsJson p2.1)])])
  else if fn == "c02.protocol" then some do
    let sched ← (← list (← field j "schedule")).mapM fun x => x.getNat?
    let n := (sched.foldl max 0) + 1
    -- the repository "value" is its construction index, so that the answer tells objects apart
    let W : World Nat Unit Unit Unit Nat :=
      { build := fun k => k, interp := fun r _ => r, touchI := fun _ r => r, exec := fun _ s => (s, 0),
        touchE := fun _ _ r => r }
    let st := run W sched (init ((List.range n).map fun _ => ([Op.load ()], ())))
    let optJ : Option Nat → Json := fun o => match o with | some k => (k : Json) | none => Json.null
    pure (Json.mkObj [
      ("refs", Json.arr (st.sess.map fun s => optJ s.ref).toArray),
      ("constructions", (st.objs.length : Json)),
      ("global", optJ st.G),
      ("finished", Json.arr (st.sess.map fun s => Json.bool s.prog.isEmpty).toArray)])
  else none

end Simaple.Drv
