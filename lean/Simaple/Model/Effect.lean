/-
Effect IR: an object-heap abstraction of the Python reducers and views of simaple/simulate/component.

The translator tools/py2lean/gen_effects.py lowers every reducer / view method of every shipped component
class (with the trait functions, entity methods and helpers it calls inlined) to a `Stmt`.  Only what
matters for "which objects may be written" is kept:

* values are `prim` (numbers, strings, None, frozen models: immutable) or `ref a` (a mutable Python object);
* control flow is non-deterministic (`choice`, `loop`), primitive computations are `havoc`;
* `copy` is `ReducerState.deepcopy()` / `copy.deepcopy`: every object reachable from the result is newly
  allocated (trusted semantics of Python's deepcopy; observed by the harness on every harvested call);
* `store obj f src` is every kind of mutation of the object in `obj`: attribute assignment, augmented
  assignment, item assignment, `list.append/pop/...`, `dict.update/...`.

The checker `check` is an abstract interpreter over four tags; `Proofs/Effect.lean` proves that a checked
program never writes an object that existed before the call (in particular not the state, payload or
component it was given, nor any module- or class-level object).
-/
namespace Simaple.Effect

abbrev Var := Nat
abbrev Field := Nat
abbrev Addr := Nat

inductive Val where
  | prim
  | ref (a : Addr)
  deriving DecidableEq, Repr, Inhabited

abbrev Obj := Field → Val
abbrev Heap := Addr → Option Obj

inductive Stmt where
  | skip
  /-- `dst := deepcopy(src)` -/
  | copy (dst src : Var)
  /-- `dst := <new object all of whose fields hold primitives>`; later `store`s fill it -/
  | new (dst : Var)
  /-- `dst := <new container that may hold references to existing objects>` (event lists, views) -/
  | newShallow (dst : Var)
  /-- `dst := src.f` (also `src[i]`, iteration over `src`) -/
  | load (dst src : Var) (f : Field)
  /-- `obj.f := src` (any mutation of the object held by `obj`) -/
  | store (obj : Var) (f : Field) (src : Var)
  | mov (dst src : Var)
  /-- `dst := <some primitive>` -/
  | havoc (dst : Var)
  /-- `dst := <anything>`: result of a call that is not modelled (may alias existing objects) -/
  | ext (dst : Var)
  /-- `raise`: the call ends here (no final state; see `Reach` for the states passed on the way) -/
  | abort
  /-- `dst := <the designated procedure>(…)`: a (possibly recursive) call of the procedure body given to `Exec`,
      started from an arbitrary environment on the current heap; `dst` receives an arbitrary value -/
  | call (dst : Var)
  | seq (a b : Stmt)
  | choice (a b : Stmt)
  | loop (a : Stmt)
  deriving Repr, Inhabited

structure State where
  env : Var → Val
  heap : Heap
  /-- ghost: every address ever written by a `store` -/
  log : List Addr

def upd (env : Var → Val) (x : Var) (v : Val) : Var → Val := fun y => if y = x then v else env y

def updH (h : Heap) (a : Addr) (o : Option Obj) : Heap := fun b => if b = a then o else h b

def updO (o : Obj) (f : Field) (v : Val) : Obj := fun g => if g = f then v else o g

/-- `src.f`; attribute access on a primitive or a dangling reference yields a primitive -/
def loadVal (σ : State) (src : Var) (f : Field) : Val :=
  match σ.env src with
  | .prim => .prim
  | .ref a => match σ.heap a with
    | none => .prim
    | some o => o f

/-- `obj.f := v` -/
def storeVal (σ : State) (obj : Var) (f : Field) (v : Val) : State :=
  match σ.env obj with
  | .prim => σ
  | .ref a => match σ.heap a with
    | none => σ
    | some o => { σ with heap := updH σ.heap a (some (updO o f v)), log := a :: σ.log }

/-- the specification of `deepcopy` used here: old objects are untouched, the result is a primitive or a
    newly allocated object, and newly allocated objects only point to newly allocated objects -/
structure IsDeepCopy (h h' : Heap) (v : Val) : Prop where
  old : ∀ a, h a ≠ none → h' a = h a
  res : v = .prim ∨ ∃ b, v = .ref b ∧ h b = none ∧ h' b ≠ none
  closed : ∀ a o f b, h a = none → h' a = some o → o f = .ref b → h b = none ∧ h' b ≠ none

/-- `Exec body s σ σ'`: statement `s` runs from `σ` to `σ'`; `body` is the procedure that `call` statements run -/
inductive Exec (body : Stmt) : Stmt → State → State → Prop where
  | skip (σ) : Exec body .skip σ σ
  | copy (dst src σ h' v) (hc : IsDeepCopy σ.heap h' v) :
      Exec body (.copy dst src) σ { σ with env := upd σ.env dst v, heap := h' }
  | new (dst σ a) (ha : σ.heap a = none) :
      Exec body (.new dst) σ { σ with env := upd σ.env dst (.ref a), heap := updH σ.heap a (some (fun _ => .prim)) }
  | newShallow (dst σ a) (ha : σ.heap a = none) :
      Exec body (.newShallow dst) σ
        { σ with env := upd σ.env dst (.ref a), heap := updH σ.heap a (some (fun _ => .prim)) }
  | load (dst src f σ) : Exec body (.load dst src f) σ { σ with env := upd σ.env dst (loadVal σ src f) }
  | store (obj f src σ) : Exec body (.store obj f src) σ (storeVal σ obj f (σ.env src))
  | mov (dst src σ) : Exec body (.mov dst src) σ { σ with env := upd σ.env dst (σ.env src) }
  | havoc (dst σ) : Exec body (.havoc dst) σ { σ with env := upd σ.env dst .prim }
  | ext (dst σ v) : Exec body (.ext dst) σ { σ with env := upd σ.env dst v }
  /-- the callee runs the procedure body from ANY environment (parameter passing is over-approximated) on the
      caller's heap; afterwards the caller continues with the callee's heap and log, its own environment, and an
      arbitrary value in `dst` -/
  | call (dst σ env' σ₁ v) (h : Exec body body { σ with env := env' } σ₁) :
      Exec body (.call dst) σ { env := upd σ.env dst v, heap := σ₁.heap, log := σ₁.log }
  | seq (a b σ σ₁ σ₂) (h₁ : Exec body a σ σ₁) (h₂ : Exec body b σ₁ σ₂) : Exec body (.seq a b) σ σ₂
  | choiceL (a b σ σ') (h : Exec body a σ σ') : Exec body (.choice a b) σ σ'
  | choiceR (a b σ σ') (h : Exec body b σ σ') : Exec body (.choice a b) σ σ'
  | loopNil (a σ) : Exec body (.loop a) σ σ
  | loopCons (a σ σ₁ σ₂) (h₁ : Exec body a σ σ₁) (h₂ : Exec body (.loop a) σ₁ σ₂) : Exec body (.loop a) σ σ₂

/-- the states a run of `s` from `σ` passes through, the final ones included; a run that ends in `abort`
    (a Python `raise`) has no final state, but every state before it is reached -/
inductive Reach (body : Stmt) : Stmt → State → State → Prop where
  | start (s σ) : Reach body s σ σ
  | done (s σ σ') (h : Exec body s σ σ') : Reach body s σ σ'
  | seqL (a b σ σ') (h : Reach body a σ σ') : Reach body (.seq a b) σ σ'
  | seqR (a b σ σ₁ σ') (h₁ : Exec body a σ σ₁) (h₂ : Reach body b σ₁ σ') : Reach body (.seq a b) σ σ'
  | choiceL (a b σ σ') (h : Reach body a σ σ') : Reach body (.choice a b) σ σ'
  | choiceR (a b σ σ') (h : Reach body b σ σ') : Reach body (.choice a b) σ σ'
  | loop (a σ σ₁ σ') (h₁ : Exec body (.loop a) σ σ₁) (h₂ : Reach body a σ₁ σ') : Reach body (.loop a) σ σ'
  /-- a state passed inside the callee (reported with the callee's environment: heap and log are what matter) -/
  | callIn (dst σ env' σ') (h : Reach body body { σ with env := env' } σ') : Reach body (.call dst) σ σ'

/-! ### the checker -/

inductive Tag where
  /-- a primitive (no reference at all) -/
  | prim
  /-- a primitive, or an object allocated during this call all of whose references stay inside such objects -/
  | fresh
  /-- an object allocated during this call that may hold references to anything -/
  | shallow
  /-- anything (in particular: objects that existed before the call) -/
  | shared
  deriving DecidableEq, Repr, Inhabited

def Tag.join : Tag → Tag → Tag
  | .prim, t => t
  | t, .prim => t
  | .fresh, .fresh => .fresh
  | .shallow, .shallow => .shallow
  | _, _ => .shared

/-- may a value with this tag be stored into an object all of whose references must stay fresh? -/
def Tag.deep : Tag → Bool
  | .prim => true
  | .fresh => true
  | _ => false

/-- abstract environments: a binary trie indexed by the variable number (variable 0 at the root, odd numbers in the
    left subtree, even ones in the right), so that the kernel evaluates a lookup or an update in `log` steps.  A `leaf`
    stands for "every variable below is `shared`": looking up there gives `shared` and an update there is dropped,
    which errs on the safe side. -/
inductive AEnv where
  | leaf
  | node (t : Tag) (l r : AEnv)
  deriving DecidableEq, Repr, Inhabited

def tagOf : AEnv → Var → Tag
  | .leaf, _ => .shared
  | .node t l r, x => if x = 0 then t else if x % 2 = 1 then tagOf l (x / 2) else tagOf r (x / 2 - 1)

def setTag : AEnv → Var → Tag → AEnv
  | .leaf, _, _ => .leaf
  | .node t l r, x, v =>
    if x = 0 then .node v l r
    else if x % 2 = 1 then .node t (setTag l (x / 2) v) r
    else .node t l (setTag r (x / 2 - 1) v)

def joinEnv : AEnv → AEnv → AEnv
  | .node t l r, .node t' l' r' => .node (t.join t') (joinEnv l l') (joinEnv r r')
  | _, _ => .leaf

/-- the complete trie of the given depth with every variable `shared` (holds `2^d - 1` variables) -/
def AEnv.full : Nat → AEnv
  | 0 => .leaf
  | d + 1 => .node .shared (AEnv.full d) (AEnv.full d)

/-- the environment a program with `nvars` variables starts from -/
def AEnv.init (nvars : Nat) : AEnv := AEnv.full (nvars.log2 + 2)

def AEnv.size : AEnv → Nat
  | .leaf => 0
  | .node _ l r => l.size + r.size + 1

/-- every variable `prim` (the environment after `abort`, which no execution reaches) -/
def AEnv.allPrim : AEnv → AEnv
  | .leaf => .leaf
  | .node _ l r => .node .prim l.allPrim r.allPrim

/-- least fixpoint of a loop body by iteration; `none` when the body is rejected or the fuel runs out -/
def iter (f : AEnv → Option AEnv) : Nat → AEnv → Option AEnv
  | 0, _ => none
  | n + 1, e =>
    match f e with
    | none => none
    | some e' =>
      let j := joinEnv e e'
      if j = e then some e else iter f n j

def tainted (T : List Field) (f : Field) : Bool := T.contains f

/-- `T`: the "tainted" fields, into which references to pre-existing objects may be stored even when the
    target is a fresh object; what is loaded from such a field is never assumed fresh -/
def check (T : List Field) : Stmt → AEnv → Option AEnv
  | .skip, e => some e
  | .copy dst _, e => some (setTag e dst .fresh)
  | .new dst, e => some (setTag e dst .fresh)
  | .newShallow dst, e => some (setTag e dst .shallow)
  | .load dst src f, e => some (setTag e dst (if (tagOf e src).deep && !tainted T f then .fresh else .shared))
  | .store obj f src, e =>
    match tagOf e obj with
    | .prim => some e
    | .fresh => if (tagOf e src).deep || tainted T f then some e else none
    | .shallow => some e
    | .shared => none
  | .mov dst src, e => some (setTag e dst (tagOf e src))
  | .havoc dst, e => some (setTag e dst .prim)
  | .ext dst, e => some (setTag e dst .shared)
  | .abort, e => some e.allPrim
  | .call dst, e => some (setTag e dst .shared)
  | .seq a b, e => (check T a e).bind (check T b)
  | .choice a b, e =>
    match check T a e, check T b e with
    | some ea, some eb => some (joinEnv ea eb)
    | _, _ => none
  | .loop a, e => iter (check T a) (3 * e.size + 2) e

/-- a reducer / view body with `nvars` variables, all of which (arguments, `self`, globals) start as `shared` -/
def wellFormed (T : List Field) (nvars : Nat) (p : Stmt) : Bool :=
  (check T p (AEnv.init nvars)).isSome

/-- a program `p` together with the procedure `body` its `call` statements run -/
def wellFormedWith (T : List Field) (nvars : Nat) (body p : Stmt) : Bool :=
  wellFormed T nvars p && wellFormed T nvars body

/-- the tag the checker derives for variable `x` at the end -/
def resultTag (T : List Field) (nvars : Nat) (p : Stmt) (x : Var) : Option Tag :=
  (check T p (AEnv.init nvars)).map (tagOf · x)

/-- the fields the program may store to (for the correspondence with observed state changes) -/
def storeFields : Stmt → List Field
  | .store _ f _ => [f]
  | .seq a b => storeFields a ++ storeFields b
  | .choice a b => storeFields a ++ storeFields b
  | .loop a => storeFields a
  | _ => []

def size : Stmt → Nat
  | .seq a b => size a + size b + 1
  | .choice a b => size a + size b + 1
  | .loop a => size a + 1
  | _ => 1

end Simaple.Effect
