import Simaple.Model.DrvComponent
import Simaple.Model.ComponentMech
/-! driver entry points for the L2 component models of group `Mech` (same protocol as `DrvComponent`):
    answers `reducer` / `cview` ONLY for the classes of `ComponentMech.lean`, `none` for every other class.
    Every request also evaluates the decidable well-formedness hypotheses the per-class theorems use
    (`Periodic.WF`, `Keydown.Inv`-style conditions, `interval ≠ 0` …) on the harvested input state and answers
    an error when one fails, so that the correspondence check also checks them on reachable states. -/
namespace Simaple.DrvComponentMech
open Lean Simaple.J Simaple.Entity Simaple.Comp Simaple.Comp.Mech Simaple.DrvEntity Simaple.DrvComponent

def pstrOpt (p : Json) (k : String) : Except String (Option String) :=
  match p.getObjVal? k with
  | .ok (.str s) => pure (some s)
  | _ => pure none

def exc (r : Except String (α × List REv)) (enc : α → Json) : Json :=
  match r with
  | .ok r => out (enc r.1) r.2
  | .error e => DrvComponent.raised e

def need (ok : Bool) (what : String) : Except String Unit := if ok then pure () else throw s!"hypothesis violated on a harvested state: {what}"

/-- the pydantic constraints `interval > 0`, `interval_counter > 0` (`Periodic.WF`) -/
def needPeriodic (x : Periodic) (what : String) : Except String Unit := need (decide x.WF) s!"Periodic.WF {what}"

/-! ### codecs per class -/
def setupP (p : Json) : Except String RobotSetupBuff.P := do pure ⟨← pint p "cd_eff", ← pint p "last_eff", ← pint p "delay"⟩
def setupS (s : Json) : Except String RobotSetupBuff.S := do
  pure ⟨← getRobot (← field s "robot_mastery"), ← getCooldown (← field s "cooldown"), ← getLasting (← field s "lasting")⟩
def setupSJ (s : RobotSetupBuff.S) : Json :=
  Json.mkObj [("robot_mastery", robotJson s.robotMastery), ("cooldown", cooldownJson s.cooldown), ("lasting", lastingJson s.lasting)]

def summonP (p : Json) : Except String RobotSummonSkill.P := do
  pure ⟨← pint p "cd_eff", ← pint p "delay", ← prat p "damage", ← prat p "hit", ← prat p "periodic_damage",
        ← prat p "periodic_hit", ← pint p "lasting_eff", ← pstrOpt p "robot_mod"⟩
def summonS (s : Json) : Except String RobotSummonSkill.S := do
  pure ⟨← getRobot (← field s "robot_mastery"), ← getCooldown (← field s "cooldown"), ← getPeriodic (← field s "periodic")⟩
def summonSJ (s : RobotSummonSkill.S) : Json :=
  Json.mkObj [("robot_mastery", robotJson s.robotMastery), ("cooldown", cooldownJson s.cooldown), ("periodic", periodicJson s.periodic)]

def homingP (p : Json) : Except String HommingMissile.P := do
  pure ⟨← pint p "cd_eff", ← pint p "delay", ← prat p "periodic_damage", ← prat p "periodic_hit",
        ← pint p "lasting_duration", ← pstrOpt p "barrage_mod"⟩
def homingS (s : Json) : Except String HommingMissile.S := do
  pure ⟨← getLasting (← field s "bomber_time"), ← getKeydown (← field s "full_barrage_keydown"),
        ← getLasting (← field s "full_barrage_penalty_lasting"), ← getCooldown (← field s "cooldown"),
        ← getPeriodic (← field s "periodic")⟩
def homingSJ (s : HommingMissile.S) : Json :=
  Json.mkObj [("bomber_time", lastingJson s.bomberTime), ("full_barrage_keydown", keydownJson s.fullBarrageKeydown),
    ("full_barrage_penalty_lasting", lastingJson s.fullBarragePenaltyLasting), ("cooldown", cooldownJson s.cooldown),
    ("periodic", periodicJson s.periodic)]

def barrageP (p : Json) : Except String FullMetalBarrage.P := do
  pure ⟨← pint p "cd_eff", ← pint p "maximum_keydown_time", ← pint p "prepare_delay", ← prat p "damage", ← prat p "hit",
        ← pint p "end_delay", ← pint p "homing_penalty_duration"⟩
def barrageS (s : Json) : Except String FullMetalBarrage.S := do
  pure ⟨← getCooldown (← field s "cooldown"), ← getKeydown (← field s "keydown"), ← getLasting (← field s "penalty_lasting")⟩
def barrageSJ (s : FullMetalBarrage.S) : Json :=
  Json.mkObj [("cooldown", cooldownJson s.cooldown), ("keydown", keydownJson s.keydown), ("penalty_lasting", lastingJson s.penaltyLasting)]

def multiP (p : Json) : Except String MultipleOption.P := do
  pure ⟨← pint p "cd_eff", ← pint p "delay", ← pint p "lasting_duration", ← pint p "missile_count", ← prat p "missile_damage",
        ← prat p "missile_hit", ← pint p "gatling_count", ← prat p "gatling_damage", ← prat p "gatling_hit",
        ← pstrOpt p "robot_mod"⟩
def multiS (s : Json) : Except String MultipleOption.S := do
  pure ⟨← getCycle (← field s "cycle"), ← getCooldown (← field s "cooldown"), ← getPeriodic (← field s "periodic"),
        ← getRobot (← field s "robot_mastery")⟩
def multiSJ (s : MultipleOption.S) : Json :=
  Json.mkObj [("cycle", cycleJson s.cycle), ("cooldown", cooldownJson s.cooldown), ("periodic", periodicJson s.periodic),
    ("robot_mastery", robotJson s.robotMastery)]

def mecaP (p : Json) : Except String MecaCarrier.P := do
  pure ⟨← pint p "cd_eff", ← pint p "delay", ← pint p "lasting_duration", ← pint p "start_intercepter",
        ← prat p "damage_per_intercepter", ← prat p "hit_per_intercepter", ← pstrOpt p "robot_mod"⟩
def mecaS (s : Json) : Except String MecaCarrier.S := do
  pure ⟨← getCooldown (← field s "cooldown"), ← getDIP (← field s "periodic"), ← getRobot (← field s "robot_mastery")⟩
def mecaSJ (s : MecaCarrier.S) : Json :=
  Json.mkObj [("cooldown", cooldownJson s.cooldown), ("periodic", dipJson s.periodic), ("robot_mastery", robotJson s.robotMastery)]

def penalP (p : Json) : Except String PenalizedBuff.P := do pure ⟨← pint p "cd_eff", ← pint p "last_eff", ← pint p "delay"⟩
def penalS (s : Json) : Except String PenalizedBuff.S := do
  pure ⟨← getCooldown (← field s "cooldown"), ← getLasting (← field s "lasting")⟩
def penalSJ (s : PenalizedBuff.S) : Json := Json.mkObj [("cooldown", cooldownJson s.cooldown), ("lasting", lastingJson s.lasting)]

def etherP (p : Json) : Except String AdeleEther.P := do
  pure ⟨← pint p "stack_per_period", ← pint p "stack_per_trigger", ← pint p "stack_per_resonance"⟩
def etherS (s : Json) : Except String AdeleEther.S := do
  pure ⟨← getEther (← field s "ether_gauge"), ← getPeriodic (← field s "periodic"), ← getRestore (← field s "restore_lasting")⟩
def etherSJ (s : AdeleEther.S) : Json :=
  Json.mkObj [("ether_gauge", etherJson s.etherGauge), ("periodic", periodicJson s.periodic), ("restore_lasting", restoreJson s.restoreLasting)]

def creationP (p : Json) : Except String AdeleCreation.P := do
  pure ⟨← pint p "cd_eff", ← pint p "delay", ← prat p "damage", ← prat p "hit_per_sword", ← pbool p "disable_validity"⟩
def creationS (s : Json) : Except String AdeleCreation.S := do
  pure ⟨← getEther (← field s "ether_gauge"), ← getCooldown (← field s "cooldown")⟩
def creationSJ (s : AdeleCreation.S) : Json := Json.mkObj [("ether_gauge", etherJson s.etherGauge), ("cooldown", cooldownJson s.cooldown)]

def orderP (p : Json) : Except String AdeleOrder.P := do
  pure ⟨← pint p "cd_eff", ← pint p "delay", ← prat p "periodic_damage", ← prat p "periodic_hit", ← pint p "lasting_duration",
        ← pint p "maximum_stack", ← pint p "restore_maximum_stack"⟩
def orderS (s : Json) : Except String AdeleOrder.S := do
  pure ⟨← getEther (← field s "ether_gauge"), ← getRestore (← field s "restore_lasting"), ← getCooldown (← field s "cooldown"),
        ← getOrderSword (← field s "order_sword")⟩
def orderSJ (s : AdeleOrder.S) : Json :=
  Json.mkObj [("ether_gauge", etherJson s.etherGauge), ("restore_lasting", restoreJson s.restoreLasting),
    ("cooldown", cooldownJson s.cooldown), ("order_sword", orderSwordJson s.orderSword)]

def gatherP (p : Json) : Except String AdeleGathering.P := do
  pure ⟨← pint p "cd_eff", ← pint p "delay", ← prat p "damage", ← prat p "hit_per_sword"⟩
def gatherS (s : Json) : Except String AdeleGathering.S := do
  pure ⟨← getOrderSword (← field s "order_sword"), ← getCooldown (← field s "cooldown")⟩
def gatherSJ (s : AdeleGathering.S) : Json := Json.mkObj [("order_sword", orderSwordJson s.orderSword), ("cooldown", cooldownJson s.cooldown)]

def blossomP (p : Json) : Except String AdeleBlossom.P := do
  pure ⟨← pint p "cd_eff", ← pint p "delay", ← prat p "damage", ← prat p "hit_per_sword", ← pstrOpt p "exceeded_mod"⟩
def blossomS (s : Json) : Except String AdeleBlossom.S := do
  pure ⟨← getOrderSword (← field s "order_sword"), ← getCooldown (← field s "cooldown")⟩
def blossomSJ (s : AdeleBlossom.S) : Json := Json.mkObj [("order_sword", orderSwordJson s.orderSword), ("cooldown", cooldownJson s.cooldown)]

def ruinP (p : Json) : Except String AdeleRuin.P := do
  pure ⟨← pint p "cd_eff", ← pint p "delay", ← prat p "periodic_damage_first", ← prat p "periodic_hit_first",
        ← pint p "lasting_duration_first", ← prat p "periodic_damage_second", ← prat p "periodic_hit_second",
        ← pint p "lasting_duration_second"⟩
def ruinS (s : Json) : Except String AdeleRuin.S := do
  pure ⟨← getCooldown (← field s "cooldown"), ← getPeriodic (← field s "interval_state_first"),
        ← getPeriodic (← field s "interval_state_second")⟩
def ruinSJ (s : AdeleRuin.S) : Json :=
  Json.mkObj [("cooldown", cooldownJson s.cooldown), ("interval_state_first", periodicJson s.first),
    ("interval_state_second", periodicJson s.second)]

def restoreP (p : Json) : Except String AdeleRestoreBuff.P := do pure ⟨← pint p "last_eff", ← pint p "delay"⟩
def restoreS (s : Json) : Except String AdeleRestoreBuff.S := do pure ⟨← getRestore (← field s "lasting")⟩
def restoreSJ (s : AdeleRestoreBuff.S) : Json := Json.mkObj [("lasting", restoreJson s.lasting)]

def stormP (p : Json) : Except String AdeleStorm.P := do
  pure ⟨← pint p "cd_eff", ← pint p "delay", ← prat p "periodic_damage", ← prat p "periodic_hit", ← pint p "lasting_duration"⟩
def stormS (s : Json) : Except String AdeleStorm.S := do
  pure ⟨← getCooldown (← field s "cooldown"), ← getPeriodic (← field s "periodic"), ← getStack (← field s "stack"),
        ← getOrderSword (← field s "order_sword")⟩
def stormSJ (s : AdeleStorm.S) : Json :=
  Json.mkObj [("cooldown", cooldownJson s.cooldown), ("periodic", periodicJson s.periodic), ("stack", stackJson s.stack),
    ("order_sword", orderSwordJson s.orderSword)]

def circuitP (p : Json) : Except String MagicCurcuit.P := do
  pure ⟨← pint p "cd_eff", ← pint p "delay", ← prat p "periodic_damage", ← prat p "periodic_hit", ← pint p "lasting_duration"⟩
def circuitS (s : Json) : Except String MagicCurcuit.S := do
  pure ⟨← getCooldown (← field s "cooldown"), ← getPeriodic (← field s "periodic")⟩
def circuitSJ (s : MagicCurcuit.S) : Json := Json.mkObj [("cooldown", cooldownJson s.cooldown), ("periodic", periodicJson s.periodic)]

/-! ### reducers -/
def reducer (cls m : String) (p s : Json) (payload : Json) : Except String Json := do
  match cls with
  | "RobotSetupBuff" =>
    let pp ← setupP p; let st ← setupS s
    match m with
    | "use" => let r := RobotSetupBuff.use pp st; pure (out (setupSJ r.1) r.2)
    | "elapse" => let r := RobotSetupBuff.elapse pp (← int payload) st; pure (out (setupSJ r.1) r.2)
    | _ => throw s!"unknown reducer {cls}.{m}"
  | "RobotSummonSkill" =>
    let pp ← summonP p; let st ← summonS s
    needPeriodic st.periodic "RobotSummonSkill.periodic"
    match m with
    | "use" => pure (exc (RobotSummonSkill.use pp st) summonSJ)
    | "elapse" => let r := RobotSummonSkill.elapse pp (← int payload) st; pure (out (summonSJ r.1) r.2)
    | _ => throw s!"unknown reducer {cls}.{m}"
  | "HommingMissile" =>
    let pp ← homingP p; let st ← homingS s
    needPeriodic st.periodic "HommingMissile.periodic"
    match m with
    | "use" => pure (exc (HommingMissile.use pp st) homingSJ)
    | "elapse" => let r := HommingMissile.elapse pp (← int payload) st; pure (out (homingSJ r.1) r.2)
    | "pause" => let r := HommingMissile.pause pp (← int payload) st; pure (out (homingSJ r.1) r.2)
    | _ => throw s!"unknown reducer {cls}.{m}"
  | "FullMetalBarrageComponent" =>
    let pp ← barrageP p; let st ← barrageS s
    need (decide (0 < st.keydown.interval ∧ (0 ≤ st.keydown.intervalCounter ∨ st.keydown.timeLeft < st.keydown.intervalCounter)))
      "Keydown.Inv FullMetalBarrageComponent.keydown"
    match m with
    | "use" => let r := FullMetalBarrage.use pp st; pure (out (barrageSJ r.1) r.2)
    | "elapse" => let r := FullMetalBarrage.elapse pp (← int payload) st; pure (out (barrageSJ r.1) r.2)
    | "stop" => let r := FullMetalBarrage.stop pp st; pure (out (barrageSJ r.1) r.2)
    | _ => throw s!"unknown reducer {cls}.{m}"
  | "MultipleOptionComponent" =>
    let pp ← multiP p; let st ← multiS s
    needPeriodic st.periodic "MultipleOptionComponent.periodic"
    need (decide (0 < st.cycle.period)) "0 < cycle.period"
    match m with
    | "use" => pure (exc (MultipleOption.use pp st) multiSJ)
    | "elapse" => pure (exc (MultipleOption.elapse pp (← int payload) st) multiSJ)
    | _ => throw s!"unknown reducer {cls}.{m}"
  | "MecaCarrier" =>
    let pp ← mecaP p; let st ← mecaS s
    need (decide (st.periodic.WF ∧ (st.periodic.timeLeft < 0 → 0 < st.periodic.intervalCounter)))
      "DynamicIntervalPeriodic.Inv MecaCarrier.periodic"
    match m with
    | "use" => let r := MecaCarrier.use pp st; pure (out (mecaSJ r.1) r.2)
    | "elapse" => let r := MecaCarrier.elapse pp (← int payload) st; pure (out (mecaSJ r.1) r.2)
    | _ => throw s!"unknown reducer {cls}.{m}"
  | "PenalizedBuffSkill" =>
    let pp ← penalP p; let st ← penalS s
    match m with
    | "use" => let r := PenalizedBuff.use pp st; pure (out (penalSJ r.1) r.2)
    | "elapse" => let r := PenalizedBuff.elapse pp (← int payload) st; pure (out (penalSJ r.1) r.2)
    | _ => throw s!"unknown reducer {cls}.{m}"
  | "AdeleEtherComponent" =>
    let pp ← etherP p; let st ← etherS s
    needPeriodic st.periodic "AdeleEtherComponent.periodic"
    need (decide (0 ≤ pp.stackPerPeriod)) "0 ≤ stack_per_period"
    match m with
    | "elapse" => let r := AdeleEther.elapse pp (← int payload) st; pure (out (etherSJ r.1) r.2)
    | "trigger" => let r := AdeleEther.trigger pp st; pure (out (etherSJ r.1) r.2)
    | "resonance" => let r := AdeleEther.resonance pp st; pure (out (etherSJ r.1) r.2)
    | "order" => let r := AdeleEther.order pp st; pure (out (etherSJ r.1) r.2)
    | _ => throw s!"unknown reducer {cls}.{m}"
  | "AdeleCreationComponent" =>
    let pp ← creationP p; let st ← creationS s
    match m with
    | "trigger" => pure (exc (AdeleCreation.trigger pp st) creationSJ)
    | "elapse" => let r := AdeleCreation.elapse pp (← int payload) st; pure (out (creationSJ r.1) r.2)
    | _ => throw s!"unknown reducer {cls}.{m}"
  | "AdeleOrderComponent" =>
    let pp ← orderP p; let st ← orderS s
    need (decide (0 < st.orderSword.interval)) "0 < order_sword.interval"
    need (decide (0 ≤ AdeleOrder.maxSwordCount pp st)) "0 ≤ max sword count"
    match m with
    | "use" => let r := AdeleOrder.use pp st; pure (out (orderSJ r.1) r.2)
    | "elapse" => let r := AdeleOrder.elapse pp (← int payload) st; pure (out (orderSJ r.1) r.2)
    | _ => throw s!"unknown reducer {cls}.{m}"
  | "AdeleGatheringComponent" =>
    let pp ← gatherP p; let st ← gatherS s
    match m with
    | "use" => let r := AdeleGathering.use pp st; pure (out (gatherSJ r.1) r.2)
    | "elapse" => let r := AdeleGathering.elapse pp (← int payload) st; pure (out (gatherSJ r.1) r.2)
    | _ => throw s!"unknown reducer {cls}.{m}"
  | "AdeleBlossomComponent" =>
    let pp ← blossomP p; let st ← blossomS s
    match m with
    | "use" => let r := AdeleBlossom.use pp st; pure (out (blossomSJ r.1) r.2)
    | "elapse" => let r := AdeleBlossom.elapse pp (← int payload) st; pure (out (blossomSJ r.1) r.2)
    | _ => throw s!"unknown reducer {cls}.{m}"
  | "AdeleRuinComponent" =>
    let pp ← ruinP p; let st ← ruinS s
    needPeriodic st.first "AdeleRuinComponent.interval_state_first"
    needPeriodic st.second "AdeleRuinComponent.interval_state_second"
    match m with
    | "use" => pure (exc (AdeleRuin.use pp st) ruinSJ)
    | "elapse" => let r := AdeleRuin.elapse pp (← int payload) st; pure (out (ruinSJ r.1) r.2)
    | _ => throw s!"unknown reducer {cls}.{m}"
  | "AdeleRestoreBuffComponent" =>
    let pp ← restoreP p; let st ← restoreS s
    match m with
    | "use" => let r := AdeleRestoreBuff.use pp st; pure (out (restoreSJ r.1) r.2)
    | "elapse" => let r := AdeleRestoreBuff.elapse pp (← int payload) st; pure (out (restoreSJ r.1) r.2)
    | _ => throw s!"unknown reducer {cls}.{m}"
  | "AdeleStormComponent" =>
    let pp ← stormP p; let st ← stormS s
    needPeriodic st.periodic "AdeleStormComponent.periodic"
    match m with
    | "use" => pure (exc (AdeleStorm.use pp st) stormSJ)
    | "elapse" => let r := AdeleStorm.elapse pp (← int payload) st; pure (out (stormSJ r.1) r.2)
    | _ => throw s!"unknown reducer {cls}.{m}"
  | "MagicCurcuitFullDriveComponent" =>
    let pp ← circuitP p; let st ← circuitS s
    needPeriodic st.periodic "MagicCurcuitFullDriveComponent.periodic"
    match m with
    | "use" => pure (exc (MagicCurcuit.use pp st) circuitSJ)
    | "elapse" => let r := MagicCurcuit.elapse pp (← int payload) st; pure (out (circuitSJ r.1) r.2)
    | _ => throw s!"unknown reducer {cls}.{m}"
  | _ => throw s!"unknown class {cls}"

def keydownViewJson (k : KeydownView) : Json := Json.mkObj [("time_left", ofInt k.timeLeft), ("running", .bool k.running)]

def cview (cls v : String) (p s : Json) : Except String Json := do
  match cls, v with
  | "RobotSetupBuff", "validity" => pure (validityJson (RobotSetupBuff.validity (← setupP p) (← setupS s)))
  | "RobotSetupBuff", "buff" => pure (.bool (RobotSetupBuff.buffOn (← setupS s)))
  | "RobotSetupBuff", "running" => pure (runningJson (RobotSetupBuff.running (← setupS s)))
  | "RobotSummonSkill", "validity" => pure (validityJson (RobotSummonSkill.validity (← summonP p) (← summonS s)))
  | "RobotSummonSkill", "running" => pure (runningJson (RobotSummonSkill.running (← summonP p) (← summonS s)))
  | "HommingMissile", "validity" => pure (validityJson (HommingMissile.validity (← homingP p) (← homingS s)))
  | "HommingMissile", "running" => pure (runningJson (HommingMissile.running (← homingP p) (← homingS s)))
  | "FullMetalBarrageComponent", "validity" => pure (validityJson (FullMetalBarrage.validity (← barrageP p) (← barrageS s)))
  | "FullMetalBarrageComponent", "keydown" => pure (keydownViewJson (FullMetalBarrage.keydownView (← barrageS s)))
  | "MultipleOptionComponent", "validity" => pure (validityJson (MultipleOption.validity (← multiP p) (← multiS s)))
  | "MultipleOptionComponent", "running" => pure (runningJson (MultipleOption.running (← multiP p) (← multiS s)))
  | "MecaCarrier", "validity" => pure (validityJson (MecaCarrier.validity (← mecaP p) (← mecaS s)))
  | "MecaCarrier", "running" => pure (runningJson (MecaCarrier.running (← mecaP p) (← mecaS s)))
  | "PenalizedBuffSkill", "validity" => pure (validityJson (PenalizedBuff.validity (← penalP p) (← penalS s)))
  | "PenalizedBuffSkill", "buff" => pure (.bool (PenalizedBuff.buff (← penalS s)).isSome)
  | "PenalizedBuffSkill", "buff_sel" =>
      pure (match PenalizedBuff.buff (← penalS s) with
            | some .advantage => .str "advantage" | some .disadvantage => .str "disadvantage" | none => .null)
  | "PenalizedBuffSkill", "running" => pure (runningJson (PenalizedBuff.running (← penalS s)))
  | "AdeleEtherComponent", "running" => pure (runningJson (AdeleEther.running (← etherS s)))
  | "AdeleCreationComponent", "validity" => pure (validityJson (AdeleCreation.validity (← creationP p) (← creationS s)))
  | "AdeleOrderComponent", "validity" => pure (validityJson (AdeleOrder.validity (← orderP p) (← orderS s)))
  | "AdeleOrderComponent", "running" => pure (runningJson (AdeleOrder.running (← orderP p) (← orderS s)))
  | "AdeleGatheringComponent", "validity" => pure (validityJson (AdeleGathering.validity (← gatherP p) (← gatherS s)))
  | "AdeleBlossomComponent", "validity" => pure (validityJson (AdeleBlossom.validity (← blossomP p) (← blossomS s)))
  | "AdeleRuinComponent", "validity" => pure (validityJson (AdeleRuin.validity (← ruinP p) (← ruinS s)))
  | "AdeleRuinComponent", "running" => pure (runningJson (AdeleRuin.running (← ruinP p) (← ruinS s)))
  | "AdeleRestoreBuffComponent", "buff" => pure (.bool (AdeleRestoreBuff.buffOn (← restoreS s)))
  | "AdeleRestoreBuffComponent", "running" => pure (runningJson (AdeleRestoreBuff.running (← restoreS s)))
  | "AdeleStormComponent", "validity" => pure (validityJson (AdeleStorm.validity (← stormP p) (← stormS s)))
  | "AdeleStormComponent", "running" => pure (runningJson (AdeleStorm.running (← stormP p) (← stormS s)))
  | "MagicCurcuitFullDriveComponent", "validity" => pure (validityJson (MagicCurcuit.validity (← circuitP p) (← circuitS s)))
  | "MagicCurcuitFullDriveComponent", "buff" => pure (.bool (MagicCurcuit.buffOn (← circuitS s)))
  | "MagicCurcuitFullDriveComponent", "running" => pure (runningJson (MagicCurcuit.running (← circuitP p) (← circuitS s)))
  | _, _ => throw s!"unknown view {cls}.{v}"

def modelledClasses : List String :=
  ["RobotMasteryComponent", "RobotSetupBuff", "RobotSummonSkill", "HommingMissile", "FullMetalBarrageComponent",
   "MultipleOptionComponent", "MecaCarrier", "PenalizedBuffSkill", "AdeleEtherComponent", "AdeleCreationComponent",
   "AdeleOrderComponent", "AdeleGatheringComponent", "AdeleBlossomComponent", "AdeleRuinComponent",
   "AdeleRestoreBuffComponent", "AdeleStormComponent", "MagicCurcuitFullDriveComponent"]

def component (fn : String) (j : Json) : Option (Except String Json) :=
  match fn with
  | "reducer" =>
      match j.getObjVal? "cls" >>= Json.getStr? with
      | .ok c => if modelledClasses.contains c then some do
            reducer c (← str (← field j "method")) (← field j "params") (← field j "state") (fieldD j "payload" .null)
          else none
      | .error _ => none
  | "cview" =>
      match j.getObjVal? "cls" >>= Json.getStr? with
      | .ok c => if modelledClasses.contains c then some do
            cview c (← str (← field j "view")) (← field j "params") (← field j "state")
          else none
      | .error _ => none
  | "modelled_classes_mech" => some (pure (.arr (modelledClasses.map Json.str).toArray))
  | _ => none

end Simaple.DrvComponentMech
