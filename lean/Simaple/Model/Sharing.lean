/-!
C02 -- the sharing protocol of the library, as small state machines (core Lean only, no imports).

1. `Protocol`: the process-wide lazily created repository of `simaple/data/jobs/builtin.py`

       def get_kms_jobs_repository():
           global G
           if G is None:                       -- check    (read G)
               G = DirectorySpecRepository()   -- construct (a new object), then write (G := it)
           return G                            -- re-read  (whatever G holds *now*)

   used by every `loader.load(query, patches)` (= re-read, then `Spec.interpret`, pure) of every build, next to
   session-local engine steps.  Sessions (threads / requests) are interleaved at the level of these atomic steps
   by an arbitrary schedule; several sessions may find the global empty and each construct an object.
   Writes through aliases are *possible* in the machine (`touchI`, `touchE`): the frame hypothesis says they do
   not happen.

2. `Router`: `RouterDispatcher.__call__` of `simaple/simulate/base.py` with its memo `_route_cache`, over an
   abstract list of dispatchers `(includes, run)`; a dispatcher may re-enter the router (component addons call
   their context dispatcher), which is why what a dispatcher does is a little program (`Prog`) and the router
   carries a nesting bound.

3. `Heap`: `Spec.interpret` over a heap with object identity: deep copy of the stored dict, DFS patches that
   rebuild every container, patches that deep-copy and then assign a key in place, patches that hand back their
   argument.
-/
namespace Simaple.Sharing

/-! ## 1. the lazily created global and the sessions -/
section Protocol

/-- the library as the protocol sees it: ρ repository objects, κ queries (spec + patch chain), χ engine commands,
    σ engine states, ω outputs (interpreted trees, events) -/
structure World (ρ κ χ σ ω : Type) where
  /-- `DirectorySpecRepository(path)`; the argument is the moment of construction (how many were built before) -/
  build : Nat → ρ
  /-- `repository.get(query).interpret(patches)`: the tree it returns -/
  interp : ρ → κ → ω
  /-- what that call leaves behind in the object it read from (writes through aliases) -/
  touchI : κ → ρ → ρ
  /-- one engine command on the session's own engine -/
  exec : χ → σ → σ × ω
  /-- what an engine step does to the repository object the session holds -/
  touchE : χ → σ → ρ → ρ

/-- the frame hypothesis: construction is deterministic, and no step writes a cell reachable from the global -/
structure World.Frame {ρ κ χ σ ω : Type} (W : World ρ κ χ σ ω) : Prop where
  det : ∀ a b, W.build a = W.build b
  interpFrame : ∀ q r, W.touchI q r = r
  execFrame : ∀ c s r, W.touchE c s r = r

inductive Op (κ χ : Type) where
  | load (q : κ)
  | exec (c : χ)

/-- where a session stands inside `get_kms_jobs_repository()` / `load` -/
inductive Phase where
  | idle                 -- before `if G is None`
  | sawNone              -- the check found the global empty
  | built (k : Nat)      -- constructed object number k, not yet published
  | ret                  -- about to execute `return G`
  | have (k : Nat)       -- holds object k, about to interpret
deriving DecidableEq, Repr

structure Sess (κ χ σ ω : Type) where
  prog : List (Op κ χ)
  phase : Phase
  ref : Option Nat
  eng : σ
  out : List ω

structure St (ρ κ χ σ ω : Type) where
  G : Option Nat
  objs : List ρ
  sess : List (Sess κ χ σ ω)

variable {ρ κ χ σ ω : Type}

def St.upd (st : St ρ κ χ σ ω) (i : Nat) (s : Sess κ χ σ ω) : St ρ κ χ σ ω :=
  { st with sess := st.sess.set i s }

/-- a write through the reference a session holds (if any) -/
def touchAt (objs : List ρ) (ref : Option Nat) (f : ρ → ρ) : List ρ :=
  match ref with
  | some k =>
    match objs[k]? with
    | some o => objs.set k (f o)
    | none => objs
  | none => objs

/-- one atomic step of session `i` (a session that does not exist or has finished stutters) -/
def step (W : World ρ κ χ σ ω) (i : Nat) (st : St ρ κ χ σ ω) : St ρ κ χ σ ω :=
  match st.sess[i]? with
  | none => st
  | some s =>
    match s.prog with
    | [] => st
    | .exec c :: rest =>
      let r := W.exec c s.eng
      { st with objs := touchAt st.objs s.ref (W.touchE c s.eng),
                sess := st.sess.set i { s with prog := rest, phase := .idle, eng := r.1, out := s.out ++ [r.2] } }
    | .load q :: rest =>
      match s.phase with
      | .idle =>
        match st.G with
        | none => st.upd i { s with phase := .sawNone }
        | some _ => st.upd i { s with phase := .ret }
      | .sawNone =>
        { st with objs := st.objs ++ [W.build st.objs.length],
                  sess := st.sess.set i { s with phase := .built st.objs.length } }
      | .built k => { st with G := some k, sess := st.sess.set i { s with phase := .ret } }
      | .ret =>
        match st.G with
        | some k => st.upd i { s with phase := .have k, ref := some k }
        | none => st
      | .have k =>
        match st.objs[k]? with
        | some o =>
          { st with objs := st.objs.set k (W.touchI q o),
                    sess := st.sess.set i { s with prog := rest, phase := .idle, out := s.out ++ [W.interp o q] } }
        | none => st

/-- a schedule names, step by step, the session that moves: every interleaving is some schedule -/
def run (W : World ρ κ χ σ ω) (sched : List Nat) (st : St ρ κ χ σ ω) : St ρ κ χ σ ω :=
  sched.foldl (fun acc i => step W i acc) st

/-- fresh process: empty global, no repository object, every session at the start of its program -/
def init (progs : List (List (Op κ χ) × σ)) : St ρ κ χ σ ω :=
  { G := none, objs := [],
    sess := progs.map fun p => { prog := p.1, phase := .idle, ref := none, eng := p.2, out := [] } }

/-- what a program computes from a repository value `R` and an engine state: final engine state and outputs -/
def pureRun (W : World ρ κ χ σ ω) (R : ρ) : σ → List (Op κ χ) → σ × List ω
  | e, [] => (e, [])
  | e, .load q :: ps => let r := pureRun W R e ps; (r.1, W.interp R q :: r.2)
  | e, .exec c :: ps => let x := W.exec c e; let r := pureRun W R x.1 ps; (r.1, x.2 :: r.2)

end Protocol

/-! ## 2. the router and its memo -/
section Router

/-- what a dispatcher does with `(action, store)`: it ends with the store and its events, or first hands a derived
    action to the router it lives in and goes on with the store and events that come back -/
inductive Prog (α σ ε : Type) where
  | done (s : σ) (evs : List ε)
  | call (a : α) (s : σ) (k : σ → List ε → Prog α σ ε)

structure Disp (α σ ε : Type) where
  includes : String → Bool          -- a function of the signature only
  run : α → σ → Prog α σ ε

variable {α σ ε : Type}

/-- run a dispatcher's program against a router `r` (`none`: nesting bound exceeded) -/
def evalProg (r : α → σ → Option (σ × List ε)) : Prog α σ ε → Option (σ × List ε)
  | .done s evs => some (s, evs)
  | .call a s k =>
    match r a s with
    | none => none
    | some x => evalProg r (k x.1 x.2)

/-- `for dispatcher in ds: events += dispatcher(action, store)` -/
def runList (r : α → σ → Option (σ × List ε)) : List (Disp α σ ε) → α → σ → Option (σ × List ε)
  | [], _, s => some (s, [])
  | d :: rest, a, s =>
    match evalProg r (d.run a s) with
    | none => none
    | some x =>
      match runList r rest a x.1 with
      | none => none
      | some y => some (y.1, x.2 ++ y.2)

/-- the router WITHOUT memo: every call walks the whole list and asks `includes`; `depth` bounds the nesting -/
def routePlain (sig : α → String) (ds : List (Disp α σ ε)) : Nat → α → σ → Option (σ × List ε)
  | 0, _, _ => none
  | depth + 1, a, s => runList (routePlain sig ds depth) (ds.filter fun d => d.includes (sig a)) a s

abbrev Cache (α σ ε : Type) := List (String × List (Disp α σ ε))

def Cache.lookup (c : Cache α σ ε) (k : String) : Option (List (Disp α σ ε)) :=
  match c with
  | [] => none
  | (k', v) :: rest => if k' = k then some v else Cache.lookup rest k

/-- `self._route_cache[k] = v` -/
def Cache.insert (c : Cache α σ ε) (k : String) (v : List (Disp α σ ε)) : Cache α σ ε :=
  match c with
  | [] => [(k, v)]
  | (k', v') :: rest => if k' = k then (k', v) :: rest else (k', v') :: Cache.insert rest k v

/-- a dispatcher's program against the router WITH memo: the memo is threaded through nested calls -/
def evalProgC (r : α → Cache α σ ε → σ → Option (Cache α σ ε × σ × List ε)) :
    Prog α σ ε → Cache α σ ε → Option (Cache α σ ε × σ × List ε)
  | .done s evs, c => some (c, s, evs)
  | .call a s k, c =>
    match r a c s with
    | none => none
    | some x => evalProgC r (k x.2.1 x.2.2) x.1

/-- the memo branch: `for dispatcher in self._route_cache[signature]: events += dispatcher(action, store)` -/
def runListC (r : α → Cache α σ ε → σ → Option (Cache α σ ε × σ × List ε)) :
    List (Disp α σ ε) → α → Cache α σ ε → σ → Option (Cache α σ ε × σ × List ε)
  | [], _, c, s => some (c, s, [])
  | d :: rest, a, c, s =>
    match evalProgC r (d.run a s) c with
    | none => none
    | some x =>
      match runListC r rest a x.1 x.2.1 with
      | none => none
      | some y => some (y.1, y.2.1, x.2.2 ++ y.2.2)

/-- the other branch: `for dispatcher in self._dispatchers: if dispatcher.includes(signature): cache.append(...);
    events += dispatcher(...)`; returns the memo, the store, the events and the local list `cache` -/
def loopAll (r : α → Cache α σ ε → σ → Option (Cache α σ ε × σ × List ε)) (sg : String) :
    List (Disp α σ ε) → α → Cache α σ ε → σ → Option (Cache α σ ε × σ × List ε × List (Disp α σ ε))
  | [], _, c, s => some (c, s, [], [])
  | d :: rest, a, c, s =>
    if d.includes sg then
      match evalProgC r (d.run a s) c with
      | none => none
      | some x =>
        match loopAll r sg rest a x.1 x.2.1 with
        | none => none
        | some y => some (y.1, y.2.1, x.2.2 ++ y.2.2.1, d :: y.2.2.2)
    else loopAll r sg rest a c s

/-- `RouterDispatcher.__call__` -/
def routeCached (sig : α → String) (ds : List (Disp α σ ε)) :
    Nat → α → Cache α σ ε → σ → Option (Cache α σ ε × σ × List ε)
  | 0, _, _, _ => none
  | depth + 1, a, c, s =>
    match c.lookup (sig a) with
    | some cached => runListC (routeCached sig ds depth) cached a c s
    | none =>
      match loopAll (routeCached sig ds depth) (sig a) ds a c s with
      | none => none
      | some y => some (y.1.insert (sig a) y.2.2.2, y.2.1, y.2.2.1)

/-- a sequence of top-level actions through the router without memo: final store, events of every call -/
def seqPlain (sig : α → String) (ds : List (Disp α σ ε)) (depth : Nat) :
    List α → σ → Option (σ × List (List ε))
  | [], s => some (s, [])
  | a :: as, s =>
    match routePlain sig ds depth a s with
    | none => none
    | some x =>
      match seqPlain sig ds depth as x.1 with
      | none => none
      | some y => some (y.1, x.2 :: y.2)

/-- the same through the router with memo -/
def seqCached (sig : α → String) (ds : List (Disp α σ ε)) (depth : Nat) :
    List α → Cache α σ ε → σ → Option (Cache α σ ε × σ × List (List ε))
  | [], c, s => some (c, s, [])
  | a :: as, c, s =>
    match routeCached sig ds depth a c s with
    | none => none
    | some x =>
      match seqCached sig ds depth as x.1 x.2.1 with
      | none => none
      | some y => some (y.1, y.2.1, x.2.2 :: y.2.2)

/-- the memo holds, for every signature it knows, exactly the dispatchers that include it, in list order -/
def CacheOk (ds : List (Disp α σ ε)) (c : Cache α σ ε) : Prop :=
  ∀ k v, c.lookup k = some v → v = ds.filter fun d => d.includes k

end Router

/-! ## 3. `Spec.interpret` over a heap with object identity

Containers (dict, list) live in heap cells and are referred to by address; scalars are immutable and travel by
value.  Allocation appends a cell; the only operation that overwrites a cell is `setKeyH` (`output[key] = value`).
Reads are modelled by the tree a value represents (`Rep`): functions that only read get that tree.  One
simplification: a container that Python creates empty and then fills while it is still private is allocated here
when it is complete (its cell is fresh in both accounts). -/
section Heap

inductive Scal where
  | num (n : Int)
  | str (s : String)
deriving DecidableEq, Repr

/-- a document as a value (what the YAML means) -/
inductive Tree where
  | leaf (s : Scal)
  | list (xs : List Tree)
  | dict (kvs : List (String × Tree))

inductive Val where
  | scal (s : Scal)
  | ref (a : Nat)
deriving DecidableEq, Repr

inductive Node where
  | list (xs : List Val)
  | dict (kvs : List (String × Val))
deriving DecidableEq, Repr

abbrev Heap := List Node

/-- `d[k] = v` on an insertion-ordered dict -/
def dictSet {β : Type} (d : List (String × β)) (k : String) (v : β) : List (String × β) :=
  match d with
  | [] => [(k, v)]
  | (k', v') :: rest => if k' = k then (k', v) :: rest else (k', v') :: dictSet rest k v

/-- the scalar hooks of a `DFSTraversePatch` (`patch_value`, `patch_dict`, with `None` folded in), and whether
    entries are merged with `update` (`dedupe`) or just appended (used for `copy.deepcopy`) -/
structure Hooks where
  pv : Scal → Scal
  pd : String → Scal → List (String × Scal)
  dedupe : Bool := true

def ins {β : Type} (hk : Hooks) (d : List (String × β)) (k : String) (v : β) : List (String × β) :=
  if hk.dedupe then dictSet d k v else d ++ [(k, v)]

def insScalars {β : Type} (hk : Hooks) (inj : Scal → β) (d : List (String × β)) (k : String) (s : Scal) :
    List (String × β) :=
  (hk.pd k s).foldl (fun a kv => ins hk a kv.1 (inj kv.2)) d

/-- `copy.deepcopy` as a traversal: scalars kept, entries appended in order -/
def copyHooks : Hooks := { pv := fun s => s, pd := fun k s => [(k, s)], dedupe := false }

/-! ### on trees (the meaning) -/
mutual
/-- `DFSTraversePatch._apply` on a document value -/
def dfsT (hk : Hooks) : Tree → Tree
  | .leaf s => .leaf (hk.pv s)
  | .list ts => .list (dfsTList hk ts)
  | .dict kts => .dict (dfsTDict hk kts [])
def dfsTList (hk : Hooks) : List Tree → List Tree
  | [] => []
  | t :: ts => dfsT hk t :: dfsTList hk ts
def dfsTDict (hk : Hooks) : List (String × Tree) → List (String × Tree) → List (String × Tree)
  | [], acc => acc
  | (k, .leaf s) :: rest, acc => dfsTDict hk rest (insScalars hk Tree.leaf acc k s)
  | (k, .list ts) :: rest, acc => dfsTDict hk rest (ins hk acc k (.list (dfsTList hk ts)))
  | (k, .dict kts) :: rest, acc => dfsTDict hk rest (ins hk acc k (.dict (dfsTDict hk kts [])))
end

def setKeyT (t : Tree) (k : String) (v : Tree) : Tree :=
  match t with
  | .dict kts => .dict (dictSet kts k v)
  | t => t

/-- the patch kinds of the library as far as object identity goes -/
inductive Patch where
  /-- `DFSTraversePatch` (SkillLevelPatch, ArithmeticPatch, ...): rebuilds every container -/
  | dfs (hk : Hooks)
  /-- `output = copy.deepcopy(raw); output[key] = f(raw); return output` (V / Hexa improvement, hyper skills,
      skill improvements that apply) -/
  | copySet (key : String) (f : Tree → Tree)
  /-- hands its argument back (PassiveHyperskillPatch / SkillImprovementPatch when nothing applies) -/
  | same

def applyPatchT : Patch → Tree → Tree
  | .dfs hk, t => dfsT hk t
  | .copySet k f, t => setKeyT (dfsT copyHooks t) k (f t)
  | .same, t => t

/-- `Spec.interpret(patches)` on values -/
def interpretT (t : Tree) (ps : List Patch) : Tree := ps.foldl (fun t p => applyPatchT p t) t

/-! ### on the heap (what the code does) -/

/-- `[f(x) for x in xs]` threading the heap -/
def mapMH (f : Heap → Val → Option (Heap × Val)) : Heap → List Val → Option (Heap × List Val)
  | h, [] => some (h, [])
  | h, v :: vs =>
    match f h v with
    | none => none
    | some x =>
      match mapMH f x.1 vs with
      | none => none
      | some y => some (y.1, x.2 :: y.2)

/-- the `for k, v in raw.items()` loop threading the heap; `acc` is `interpreted` -/
def dictMH (hk : Hooks) (f : Heap → Val → Option (Heap × Val)) :
    Heap → List (String × Val) → List (String × Val) → Option (Heap × List (String × Val))
  | h, [], acc => some (h, acc)
  | h, (k, .scal s) :: rest, acc => dictMH hk f h rest (insScalars hk Val.scal acc k s)
  | h, (k, .ref a) :: rest, acc =>
    match f h (.ref a) with
    | none => none
    | some x => dictMH hk f x.1 rest (ins hk acc k x.2)

/-- `DFSTraversePatch._apply(raw, origin)`: a new cell for every container it meets (`fuel` bounds the depth) -/
def dfsH (hk : Hooks) : Nat → Heap → Val → Option (Heap × Val)
  | _, h, .scal s => some (h, .scal (hk.pv s))
  | 0, _, .ref _ => none
  | fuel + 1, h, .ref a =>
    match h[a]? with
    | none => none
    | some (.list vs) =>
      match mapMH (dfsH hk fuel) h vs with
      | none => none
      | some x => some (x.1 ++ [.list x.2], .ref x.1.length)
    | some (.dict kvs) =>
      match dictMH hk (dfsH hk fuel) h kvs [] with
      | none => none
      | some x => some (x.1 ++ [.dict x.2], .ref x.1.length)

mutual
/-- a fresh structure for a value computed by the code (`new_modifier.short_dict()`): children first -/
def allocT (h : Heap) : Tree → Heap × Val
  | .leaf s => (h, .scal s)
  | .list ts => let x := allocTList h ts; (x.1 ++ [.list x.2], .ref x.1.length)
  | .dict kts => let x := allocTDict h kts; (x.1 ++ [.dict x.2], .ref x.1.length)
def allocTList (h : Heap) : List Tree → Heap × List Val
  | [] => (h, [])
  | t :: ts => let x := allocT h t; let y := allocTList x.1 ts; (y.1, x.2 :: y.2)
def allocTDict (h : Heap) : List (String × Tree) → Heap × List (String × Val)
  | [] => (h, [])
  | (k, t) :: rest => let x := allocT h t; let y := allocTDict x.1 rest; (y.1, (k, x.2) :: y.2)
end

/-- `output[key] = value`: the one operation that overwrites a cell -/
def setKeyH (h : Heap) (a : Nat) (k : String) (v : Val) : Option Heap :=
  match h[a]? with
  | some (.dict kvs) => some (h.set a (.dict (dictSet kvs k v)))
  | _ => none

/-- one patch on the heap; `t` is the document `v` stands for (what the patch reads) -/
def applyPatchH (fuel : Nat) (h : Heap) (v : Val) (t : Tree) : Patch → Option (Heap × Val)
  | .dfs hk => dfsH hk fuel h v
  | .copySet k f =>
    match dfsH copyHooks fuel h v with
    | some (h1, .ref a) =>
      let x := allocT h1 (f t)
      match setKeyH x.1 a k x.2 with
      | some h2 => some (h2, .ref a)
      | none => none
    | _ => none
  | .same => some (h, v)

def runPatchesH (fuel : Nat) : Heap → Val → Tree → List Patch → Option (Heap × Val)
  | h, v, _, [] => some (h, v)
  | h, v, t, p :: ps =>
    match applyPatchH fuel h v t p with
    | none => none
    | some x => runPatchesH fuel x.1 x.2 (applyPatchT p t) ps

/-- `Spec.interpret(patches)` with `self.data` at address `root`: `data = copy.deepcopy(self.data)` (a fresh cell
    for every container of the stored document), then the patch chain -/
def interpretH (fuel : Nat) (h : Heap) (root : Nat) (t : Tree) (ps : List Patch) : Option (Heap × Val) :=
  match dfsH copyHooks fuel h (.ref root) with
  | some x => runPatchesH fuel x.1 x.2 t ps
  | none => none

/-- the same with `data = self.data.copy()` (the code before the repair `45b7f46`): a new cell with the same
    entries, so the nested containers of the result are still the stored ones until a patch rebuilds them -/
def interpretShallowH (fuel : Nat) (h : Heap) (root : Nat) (t : Tree) (ps : List Patch) : Option (Heap × Val) :=
  match h[root]? with
  | some (.dict kvs) => runPatchesH fuel (h ++ [.dict kvs]) (.ref h.length) t ps
  | _ => none

/-- a variant of the code that patches the stored dict in place (no `.copy()`, assignment instead of rebuild):
    what the frame theorem excludes; used by the examples -/
def interpretInPlace (h : Heap) (root : Nat) (k : String) (v : Val) : Option (Heap × Val) :=
  match setKeyH h root k v with
  | some h' => some (h', .ref root)
  | none => none

mutual
/-- the value `v` in heap `h` stands for the document `t` -/
def Rep (h : Heap) : Val → Tree → Prop
  | .scal s, .leaf s' => s = s'
  | .ref a, .list ts => ∃ vs, h[a]? = some (.list vs) ∧ RepList h vs ts
  | .ref a, .dict kts => ∃ kvs, h[a]? = some (.dict kvs) ∧ RepDict h kvs kts
  | .scal _, .list _ => False
  | .scal _, .dict _ => False
  | .ref _, .leaf _ => False
def RepList (h : Heap) : List Val → List Tree → Prop
  | [], [] => True
  | v :: vs, t :: ts => Rep h v t ∧ RepList h vs ts
  | [], _ :: _ => False
  | _ :: _, [] => False
def RepDict (h : Heap) : List (String × Val) → List (String × Tree) → Prop
  | [], [] => True
  | (k, v) :: kvs, (k', t) :: kts => k = k' ∧ Rep h v t ∧ RepDict h kvs kts
  | [], _ :: _ => False
  | _ :: _, [] => False
end

mutual
def Tree.depth : Tree → Nat
  | .leaf _ => 0
  | .list ts => Tree.depthList ts + 1
  | .dict kts => Tree.depthDict kts + 1
def Tree.depthList : List Tree → Nat
  | [] => 0
  | t :: ts => max t.depth (Tree.depthList ts)
def Tree.depthDict : List (String × Tree) → Nat
  | [] => 0
  | (_, t) :: rest => max t.depth (Tree.depthDict rest)
end

/-- no cell that existed in `h` has been overwritten or dropped in `h'` -/
def Frame (h h' : Heap) : Prop := h.length ≤ h'.length ∧ ∀ a, a < h.length → h'[a]? = h[a]?

end Heap

end Simaple.Sharing
