import Simaple.Model.Levels
/-!
# How an environment provider turns its level fields into `skill_levels` / `hexa_improvement_levels` (C16)

Hand model of the glue between a provider's configuration and the tables the builder reads:

* `SkillProfile.get_skill_levels`, `get_filled_v_skill`, `get_filled_hexa_skill`, `get_filled_hexa_improvements`
  (simaple/data/jobs/definitions/skill_profile.py),
* `_compute_skill_levels`, `_compute_hexa_improvement_levels` and the way both providers call them
  (simaple/container/environment_provider.py).

A Python `dict[str, int]` is an association list in insertion order; `d[k] = v` replaces the value of an existing
key where it stands and appends a new key (`dictSet`); `d.update(e)` does that for the items of `e` in their order.
The correspondence check compares `list(result.items())` with the model's list, order included.
-/
namespace Simaple.Model.Levels

/-- `d[k] = v` -/
def dictSet : List (String × Int) → String → Int → List (String × Int)
  | [], k, v => [(k, v)]
  | (k', v') :: r, k, v => if k' = k then (k', v) :: r else (k', v') :: dictSet r k v

/-- `d.update(items)` / building a dict from `items` when `d = []` -/
def dictUpdate (d : List (String × Int)) (items : List (String × Int)) : List (String × Int) :=
  items.foldl (fun d p => dictSet d p.1 p.2) d

/-- `{k: level for k in names}` -/
def filled (names : List String) (level : Int) : List (String × Int) :=
  dictUpdate [] (names.map fun k => (k, level))

/-- the last binding of a key in a list of items (the one that survives `update`) -/
def lookupLast : List (String × Int) → String → Option Int
  | [], _ => none
  | (k', v) :: r, k =>
    match lookupLast r k with
    | some x => some x
    | none => if k' = k then some v else none

/-- the fields of a `SkillProfile` the level tables are made from -/
structure Profile where
  vSkillNames : List String
  hexaSkillNames : List String
  /-- `hexa_mastery`: lower-tier skill ↦ its 6th-job replacement, in the order of the dict -/
  hexaMastery : List (String × String)
  hexaImprovementNames : List String
deriving Repr

/-- `SkillProfile.get_skill_levels(v_level, hexa_level, hexa_mastery_level)` -/
def Profile.getSkillLevels (p : Profile) (v h m : Int) : List (String × Int) :=
  let d := dictUpdate [] (filled p.vSkillNames v)
  let d := dictUpdate d (filled p.hexaSkillNames h)
  dictUpdate d (dictUpdate [] (p.hexaMastery.map fun x => (x.2, m)))

/-- the two loops of `assert name in default`: the first explicit name that is not a key of the defaults -/
def firstUnknown (defaults : List (String × Int)) : List (String × Int) → Option String
  | [] => none
  | (k, _) :: r => if (lookup defaults k).isSome then firstUnknown defaults r else some k

/--
```
default_skill_levels = skill_profile.get_skill_levels(default_v_skill_level, default_hexa_skill_level, default_hexa_mastery_level)
for hexa_skill_name in hexa_skill_levels: assert hexa_skill_name in default_skill_levels
for hexa_mastery_skill_name in hexa_mastery_skill_levels: assert hexa_mastery_skill_name in default_skill_levels
skill_levels = default_skill_levels.copy()
skill_levels.update(hexa_mastery_skill_levels)
skill_levels.update(hexa_skill_levels)
```
`error name`: the `AssertionError` for that name. -/
def computeSkillLevels (p : Profile) (explicitMastery explicitHexa : List (String × Int)) (v h m : Int) :
    Except String (List (String × Int)) :=
  let defaults := p.getSkillLevels v h m
  match firstUnknown defaults explicitHexa with
  | some n => .error n
  | none =>
    match firstUnknown defaults explicitMastery with
    | some n => .error n
    | none => .ok (dictUpdate (dictUpdate defaults explicitMastery) explicitHexa)

/-- `_compute_hexa_improvement_levels(hexa_improvements_levels, jobtype, default_hexa_improvements_level)` -/
def computeHexaImprovementLevels (p : Profile) (explicit : List (String × Int)) (level : Int) :
    Except String (List (String × Int)) :=
  let defaults := filled p.hexaImprovementNames level
  match firstUnknown defaults explicit with
  | some n => .error n
  | none => .ok (dictUpdate defaults explicit)

/-- the level fields of `MinimalEnvironmentProvider` / `BaselineEnvironmentProvider` -/
structure ProviderLevels where
  vSkillLevel : Int
  hexaSkillLevel : Int
  hexaMasteryLevel : Int
  hexaImprovementsLevel : Int
  hexaMasterySkillLevels : List (String × Int)
  hexaSkillLevels : List (String × Int)
  hexaImprovementLevels : List (String × Int)
deriving Repr

/-- `get_memoization_independent_environment()["skill_levels"]`: the positional call
    `_compute_skill_levels(self.hexa_mastery_skill_levels, self.hexa_skill_levels, self.jobtype, self.v_skill_level,
    self.hexa_skill_level, self.hexa_mastery_level)` -/
def ProviderLevels.skillLevels (c : ProviderLevels) (p : Profile) : Except String (List (String × Int)) :=
  computeSkillLevels p c.hexaMasterySkillLevels c.hexaSkillLevels c.vSkillLevel c.hexaSkillLevel c.hexaMasteryLevel

/-- `get_memoization_independent_environment()["hexa_improvement_levels"]` -/
def ProviderLevels.improvementLevels (c : ProviderLevels) (p : Profile) : Except String (List (String × Int)) :=
  computeHexaImprovementLevels p c.hexaImprovementLevels c.hexaImprovementsLevel

/-- the level a skill is CONFIGURED at: its own entry in the origin-skill table, else in the mastery table, else the
    level of the class of cores it belongs to (mastery core, else origin skill, else V core) -/
def configuredLevel (c : ProviderLevels) (p : Profile) (k : String) : Option Int :=
  match lookupLast c.hexaSkillLevels k with
  | some x => some x
  | none =>
    match lookupLast c.hexaMasterySkillLevels k with
    | some x => some x
    | none =>
      if k ∈ p.hexaMastery.map Prod.snd then some c.hexaMasteryLevel
      else if k ∈ p.hexaSkillNames then some c.hexaSkillLevel
      else if k ∈ p.vSkillNames then some c.vSkillLevel
      else none

end Simaple.Model.Levels
