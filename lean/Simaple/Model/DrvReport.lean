import Simaple.Model.JsonUtil
import Simaple.Model.Report
import Simaple.Gen.Core
/-! driver entry points for the report model (C13) -/
namespace Simaple.Drv
open Lean Simaple.J Simaple.Gen Simaple.Py Simaple.Report

private def rStat (j : Json) : Except String Stat := do
  match Stat.ofList (← ratList j) with | some s => pure s | none => throw "Stat: wrong field count"

private def getSeq (j : Json) : Except String Seq := do
  (← list j).mapM fun p => do
    match ← ratList p with
    | [c, d] => pure (c, d)
    | _ => throw "pair expected"

private def getEvent (j : Json) : Except String (Event Stat) := do
  let m ← match fieldD j "modifier" Json.null with
    | .null => pure none
    | v => (some <$> rStat v)
  pure { name := ← str (← field j "name"), tag := ← str (← field j "tag"),
         damage := ← rat (← field j "damage"), hit := ← rat (← field j "hit"), modifier := m }

/-- an entry whose logs carry the value of the real `get_damage` in the `buff` slot (`dmg := (·.buff)`) -/
private def getValuedEntry (j : Json) : Except String (SimulationEntry Rat) := do
  let logs ← (← list (← field j "logs")).mapM fun l => do
    match ← list l with
    | [n, v] => pure ({ name := ← str n, damage := 1, hit := 1, buff := ← rat v, tag := Tag.DAMAGE } : DamageLog Rat)
    | _ => throw "log: [name, value] expected"
  pure { clock := ← rat (← field j "clock"), damageLogs := logs, accepted := true }

private def ofDict (d : List (String × Rat)) : Json :=
  Json.arr (d.map fun kv => Json.arr #[Json.str kv.1, ofRat kv.2]).toArray

private def ofExcept (f : α → Json) : Except Err α → Json
  | .ok a => Json.mkObj [("value", f a)]
  | .error e => Json.mkObj [("raises", Json.str e.name)]

def report (fn : String) (j : Json) : Option (Except String Json) :=
  match fn with
  | "mdi_scan" => some do
      let L ← rat (← field j "L"); let xs ← getSeq (← field j "seq")
      pure (ofExcept (fun b => Json.arr #[ofRat b.dealing, ofInt b.start, ofInt b.stop]) (findMaximumDealingInterval L xs))
  | "mdi_spec" => some do
      let L ← rat (← field j "L"); let xs ← getSeq (← field j "seq")
      pure (Json.mkObj [("best", ofRat (exhaustiveBest L xs)), ("sorted", Json.bool (decide (ClocksSorted xs)))])
  | "mdi_many" => some do
      -- one sequence, several window lengths: the scan and the exhaustive specification for each
      let xs ← getSeq (← field j "seq")
      let Ls ← ratList (← field j "Ls")
      pure (Json.mkObj [("sorted", Json.bool (decide (ClocksSorted xs))),
        ("results", Json.arr (Ls.map fun L => Json.mkObj [
          ("scan", ofExcept (fun b => Json.arr #[ofRat b.dealing, ofInt b.start, ofInt b.stop]) (findMaximumDealingInterval L xs)),
          ("spec", ofRat (exhaustiveBest L xs))]).toArray)])
  | "report_build" => some do
      let buff ← rStat (← field j "buff")
      let evs ← (← list (← field j "events")).mapM getEvent
      let en := SimulationEntry.build Stat.add { clock := ← rat (← field j "clock"), events := evs } buff
      pure (Json.mkObj [("clock", ofRat en.clock), ("accepted", Json.bool en.accepted),
        ("logs", Json.arr (en.damageLogs.map fun l => Json.mkObj [("name", Json.str l.name), ("damage", ofRat l.damage),
          ("hit", ofRat l.hit), ("tag", Json.str l.tag), ("buff", ofRats l.buff.toList)]).toArray)])
  | "report_totals" => some do
      let entries ← (← list (← field j "entries")).mapM getValuedEntry
      let dmg : DamageLog Rat → Rat := (·.buff)
      let sums := shareSums dmg entries
      pure (Json.mkObj [
        ("per_action", ofRats (entries.map (calculateDamage dmg))),
        ("total", ofRat (calculateTotalDamage dmg entries)),
        ("dpm", ofExcept ofRat (calculateDpm dmg entries)),
        ("skill_sums", ofDict sums),
        ("shares", ofExcept ofDict (shareCompute sums))])
  | _ => none

end Simaple.Drv
