import Simaple.Model.PyPrelude
/-!
Model of `simaple/spec/_math.py`: the Lark arithmetic grammar, `CalcTransformer`, `evaluate_expression`.

* `Expr` is the parse tree Lark produces for the grammar (parentheses are inlined by `?factor`, so they are not
  nodes); literal nodes keep the token text, as Lark does, and `eval` converts it (`float(token)`).
* `lex` is the terminal level (NUMBER = `common.NUMBER`, SEPERATED_NUMBER `[0-9_]+`, VARIABLE `[a-zA-Z_.]+`, the
  anonymous tokens `ceil(` `floor(` `min(` `max(` `apply_attack_speed(`, operators, `WS_INLINE` ignored).  Lark's
  dynamic Earley lexer is not modelled; two adjacent factor-level tokens are never grammatical, so a maximal run of
  word characters is one terminal or a parse error (validated against the real parser by `check_C15.py`,
  well-formed and malformed inputs, parse trees compared node by node).
* `pExpr`/`pTerm`/`pFactor` is the grammar: `expr: expr (+|-) term | term`, `term: term (*|/|//|>|<) factor | factor`
  (comparison sits on the product level in this grammar - modelled as is), `factor`: literals, calls, `-factor`,
  `( expr )`.
* `eval` is `CalcTransformer`: children first, left to right, then the callback; Python floats are exact `Rat`;
  `True`/`False` produced by `>`/`<` are the numbers 1/0 (Python: `True == 1`, arithmetic treats them so).
  Variables are bound to numbers.
-/
namespace Simaple.Spec
open Simaple.Py

abbrev Str := List Char

inductive Err
  | parse                      -- lark UnexpectedInput (UnexpectedCharacters / UnexpectedEOF / UnexpectedToken)
  | undefinedVar (name : Str)  -- AssertionError "Variable .. is not defined" (inside lark VisitError)
  | divZero                    -- ZeroDivisionError (inside VisitError)
  | badNumber                  -- ValueError: float('') for an all-underscore SEPERATED_NUMBER (inside VisitError)
  | attributeError             -- patch: a None reached the dict branch of DFSTraversePatch._apply
  | typeError                  -- patch: `exclude` is not a list / KeywordExtendPatch on a non-string key
  | patchMismatch              -- PatchSpecificationMatchFailError
  deriving DecidableEq, Repr

inductive BinOp | add | sub | mul | div | idiv | gt | lt
  deriving DecidableEq, Repr
inductive Fn1 | ceil | floor | applyAttackSpeed
  deriving DecidableEq, Repr
inductive Fn2 | min | max
  deriving DecidableEq, Repr

inductive Expr
  | number (tok : Str)        -- NUMBER token
  | sepNumber (tok : Str)     -- SEPERATED_NUMBER token
  | var (name : Str)          -- VARIABLE token
  | neg (e : Expr)
  | bin (op : BinOp) (a b : Expr)
  | fn1 (f : Fn1) (a : Expr)
  | fn2 (f : Fn2) (a b : Expr)
  deriving DecidableEq, Repr

/-! ### characters and literals -/

def isDigit (c : Char) : Bool := c.isDigit
def isVarChar (c : Char) : Bool := c.isAlpha || c == '_' || c == '.'
def isWordChar (c : Char) : Bool := isDigit c || isVarChar c
def isSepChar (c : Char) : Bool := isDigit c || c == '_'

def natOfDigits (ds : Str) : Nat := ds.foldl (fun n c => 10 * n + (c.toNat - 48)) 0

/-- `_EXP?` after the mantissa: `none` = not a NUMBER, `some none` = no exponent,
    `some (some (negative, digits))` -/
def splitExp : Str → Option (Option (Bool × Str))
  | [] => some none
  | c :: r =>
    if c == 'e' || c == 'E' then
      match r with
      | [] => none
      | s :: ds =>
        if s == '+' then (if !ds.isEmpty && ds.all isDigit then some (some (false, ds)) else none)
        else if s == '-' then (if !ds.isEmpty && ds.all isDigit then some (some (true, ds)) else none)
        else if (s :: ds).all isDigit then some (some (false, s :: ds)) else none
    else none

def mkNumber (ip fp : Str) (ex : Option (Bool × Str)) : Rat :=
  let m : Rat := (natOfDigits (ip ++ fp) : Rat) / ((10 : Rat) ^ fp.length)
  match ex with
  | none => m
  | some (false, ds) => m * ((10 : Rat) ^ natOfDigits ds)
  | some (true, ds) => m / ((10 : Rat) ^ natOfDigits ds)

/-- `float(tok)` for a `common.NUMBER` token (INT | INT _EXP | DECIMAL _EXP?), `none` if `tok` is not one -/
def numberValue (w : Str) : Option Rat :=
  match w.span isDigit with
  | (ip, '.' :: r2) =>
    match r2.span isDigit with
    | (fp, r3) =>
      if ip.isEmpty && fp.isEmpty then none
      else (splitExp r3).map (mkNumber ip fp)
  | (ip, r1) => if ip.isEmpty then none else (splitExp r1).map (mkNumber ip [])

def isNumberTok (w : Str) : Bool := (numberValue w).isSome

/-- mantissa of a NUMBER (INT or DECIMAL, no exponent) -/
def isMantissa (w : Str) : Bool :=
  match w.span isDigit with
  | (ip, '.' :: r2) => r2.all isDigit && !(ip.isEmpty && r2.isEmpty)
  | (ip, []) => !ip.isEmpty
  | _ => false

/-! ### tokens -/

inductive Tok
  | number (s : Str) | sep (s : Str) | ident (s : Str)
  | fn1 (f : Fn1) | fn2 (f : Fn2)
  | plus | minus | star | slash | dslash | gt | lt | lparen | rparen | comma
  deriving DecidableEq, Repr

/-- a maximal run of word characters is exactly one terminal (NUMBER wins over SEPERATED_NUMBER - same value -,
    an all-underscore run is a SEPERATED_NUMBER as in the real parser) -/
def classify (w : Str) : Option Tok :=
  if isNumberTok w then some (.number w)
  else if w.all isSepChar then some (.sep w)
  else if w.all isVarChar then some (.ident w)
  else none

def fnOfName (w : Str) : Option Tok :=
  if w = ['c', 'e', 'i', 'l'] then some (.fn1 .ceil)
  else if w = ['f', 'l', 'o', 'o', 'r'] then some (.fn1 .floor)
  else if w = ['a', 'p', 'p', 'l', 'y', '_', 'a', 't', 't', 'a', 'c', 'k', '_', 's', 'p', 'e', 'e', 'd'] then some (.fn1 .applyAttackSpeed)
  else if w = ['m', 'i', 'n'] then some (.fn2 .min)
  else if w = ['m', 'a', 'x'] then some (.fn2 .max)
  else none

/-- the pending run (reversed) becomes a token -/
def flush (acc : Str) : Option (List Tok) :=
  if acc.isEmpty then some [] else (classify acc.reverse).map (fun t => [t])

/-- `+`/`-` continues a NUMBER when the run so far is `mantissa e` and a digit follows (`1e-3`, `2.5E+4`) -/
def expSignOk (acc : Str) (cs : Str) : Bool :=
  match acc, cs with
  | e :: m, d :: _ => (e == 'e' || e == 'E') && isMantissa m.reverse && isDigit d
  | _, _ => false

def symTok (c : Char) : Option Tok :=
  if c == '+' then some .plus else if c == '-' then some .minus else if c == '*' then some .star
  else if c == '>' then some .gt else if c == '<' then some .lt else if c == ')' then some .rparen
  else if c == ',' then some .comma else none

def emit (acc : Str) (ts : List Tok) (rest : Option (List Tok)) : Option (List Tok) :=
  match flush acc, rest with
  | some w, some r => some (w ++ ts ++ r)
  | _, _ => none

/-- the lexer: one pass, `acc` is the pending run of word characters (reversed) -/
def lex : Str → Str → Option (List Tok)
  | [], acc => flush acc
  | c :: cs, acc =>
    if isWordChar c then lex cs (c :: acc)
    else if (c == '+' || c == '-') && expSignOk acc cs then lex cs (c :: acc)
    else if c == ' ' || c == '\t' then emit acc [] (lex cs [])
    else if c == '(' then
      match fnOfName acc.reverse with
      | some t => (lex cs []).map (t :: ·)
      | none => emit acc [.lparen] (lex cs [])
    else if c == '/' then
      match _h : cs with
      | c2 :: cs' => if c2 == '/' then emit acc [.dslash] (lex cs' []) else emit acc [.slash] (lex cs [])
      | [] => emit acc [.slash] (some [])
    else match symTok c with
      | some t => emit acc [t] (lex cs [])
      | none => none
termination_by cs => cs.length
decreasing_by all_goals (subst_vars; simp +arith)

/-! ### the grammar -/

def exprOp : Tok → Option BinOp
  | .plus => some .add | .minus => some .sub | _ => none
def termOp : Tok → Option BinOp
  | .star => some .mul | .slash => some .div | .dslash => some .idiv | .gt => some .gt | .lt => some .lt
  | _ => none

abbrev PRes := Option (Expr × List Tok)

def expectTok (t : Tok) (e : Expr) : List Tok → PRes
  | t' :: r => if t' = t then some (e, r) else none
  | [] => none

mutual
def pExpr : Nat → List Tok → PRes
  | 0, _ => none
  | f + 1, ts =>
    match pTerm f ts with
    | some (a, r) => pExprLoop f a r
    | none => none
def pExprLoop : Nat → Expr → List Tok → PRes
  | 0, _, _ => none
  | _ + 1, a, [] => some (a, [])
  | f + 1, a, t :: ts =>
    match exprOp t with
    | some op =>
      match pTerm f ts with
      | some (b, r) => pExprLoop f (.bin op a b) r
      | none => none
    | none => some (a, t :: ts)
def pTerm : Nat → List Tok → PRes
  | 0, _ => none
  | f + 1, ts =>
    match pFactor f ts with
    | some (a, r) => pTermLoop f a r
    | none => none
def pTermLoop : Nat → Expr → List Tok → PRes
  | 0, _, _ => none
  | _ + 1, a, [] => some (a, [])
  | f + 1, a, t :: ts =>
    match termOp t with
    | some op =>
      match pFactor f ts with
      | some (b, r) => pTermLoop f (.bin op a b) r
      | none => none
    | none => some (a, t :: ts)
def pFactor : Nat → List Tok → PRes
  | 0, _ => none
  | _ + 1, [] => none
  | f + 1, t :: ts =>
    match t with
    | .number w => some (.number w, ts)
    | .sep w => some (.sepNumber w, ts)
    | .ident w => some (.var w, ts)
    | .minus =>
      match pFactor f ts with
      | some (a, r) => some (.neg a, r)
      | none => none
    | .lparen =>
      match pExpr f ts with
      | some (a, r) => expectTok .rparen a r
      | none => none
    | .fn1 g =>
      match pExpr f ts with
      | some (a, r) => expectTok .rparen (.fn1 g a) r
      | none => none
    | .fn2 g =>
      match pExpr f ts with
      | some (a, r) =>
        match r with
        | .comma :: r1 =>
          match pExpr f r1 with
          | some (b, r2) => expectTok .rparen (.fn2 g a b) r2
          | none => none
        | _ => none
      | none => none
    | _ => none
end

/-- enough fuel for every token list (each recursive cycle consumes a token) -/
def parseFuel (ts : List Tok) : Nat := 4 * ts.length + 4

def parseToks (ts : List Tok) : Except Err Expr :=
  match pExpr (parseFuel ts) ts with
  | some (e, []) => .ok e
  | _ => .error .parse

def parseChars (cs : Str) : Except Err Expr :=
  match lex cs [] with
  | some ts => parseToks ts
  | none => .error .parse

/-- `__arithmetic_parser.parse(expression)` -/
def parseExpr (s : String) : Except Err Expr := parseChars s.toList

/-! ### CalcTransformer -/

abbrev Env := List (Str × Rat)

def Env.get (env : Env) (n : Str) : Option Rat :=
  match env with
  | [] => none
  | (k, v) :: rest => if k = n then some v else Env.get rest n

def evalBin (op : BinOp) (x y : Rat) : Except Err Rat :=
  match op with
  | .add => .ok (x + y)
  | .sub => .ok (x - y)
  | .mul => .ok (x * y)
  | .div => if y = 0 then .error .divZero else .ok (x / y)
  | .idiv => if y = 0 then .error .divZero else .ok (pyFloorDiv x y)
  | .gt => .ok (if x > y then 1 else 0)
  | .lt => .ok (if x < y then 1 else 0)

def evalFn1 (f : Fn1) (x : Rat) : Rat :=
  match f with
  | .ceil => (x.ceil : Int)
  | .floor => (x.floor : Int)
  | .applyAttackSpeed => 30 * (((x * ((16 - 4 : Rat) / 16) / 30).ceil : Int) : Rat)

def evalFn2 (f : Fn2) (x y : Rat) : Rat :=
  match f with
  | .min => pyMin x y
  | .max => pyMax x y

def sepValue (w : Str) : Except Err Rat :=
  let ds := w.filter (· != '_')
  if ds.isEmpty then .error .badNumber else .ok (natOfDigits ds : Rat)

def eval (env : Env) : Expr → Except Err Rat
  | .number w => match numberValue w with
    | some q => .ok q
    | none => .error .badNumber
  | .sepNumber w => sepValue w
  | .var n => match env.get n with
    | some v => .ok v
    | none => .error (.undefinedVar n)
  | .neg a => match eval env a with
    | .ok x => .ok (-x)
    | .error e => .error e
  | .bin op a b => match eval env a with
    | .ok x => match eval env b with
      | .ok y => evalBin op x y
      | .error e => .error e
    | .error e => .error e
  | .fn1 f a => match eval env a with
    | .ok x => .ok (evalFn1 f x)
    | .error e => .error e
  | .fn2 f a b => match eval env a with
    | .ok x => match eval env b with
      | .ok y => .ok (evalFn2 f x y)
      | .error e => .error e
    | .error e => .error e

/-- `evaluate_expression(expression, variables)` -/
def evaluateChars (env : Env) (cs : Str) : Except Err Rat :=
  match parseChars cs with
  | .ok e => eval env e
  | .error e => .error e

def evaluateExpression (env : Env) (s : String) : Except Err Rat := evaluateChars env s.toList

/-! ### printing -/

def BinOp.prec : BinOp → Nat
  | .add | .sub => 0
  | _ => 1

def Expr.prec : Expr → Nat
  | .bin op _ _ => op.prec
  | _ => 2

def BinOp.tok : BinOp → Tok
  | .add => .plus | .sub => .minus | .mul => .star | .div => .slash | .idiv => .dslash | .gt => .gt | .lt => .lt

/-- parenthesise when the expression binds weaker than the position needs -/
def paren (need : Nat) (p : Nat) (ts : List Tok) : List Tok :=
  if p < need then .lparen :: ts ++ [.rparen] else ts

/-- token-level printer: minimal parentheses for left-associative operators -/
def toks : Expr → List Tok
  | .number w => [.number w]
  | .sepNumber w => [.sep w]
  | .var n => [.ident n]
  | .neg a => .minus :: paren 2 a.prec (toks a)
  | .bin op a b => paren op.prec a.prec (toks a) ++ op.tok :: paren (op.prec + 1) b.prec (toks b)
  | .fn1 g a => .fn1 g :: toks a ++ [.rparen]
  | .fn2 g a b => .fn2 g :: toks a ++ .comma :: toks b ++ [.rparen]

def Fn1.text : Fn1 → Str
  | .ceil => ['c', 'e', 'i', 'l', '('] | .floor => ['f', 'l', 'o', 'o', 'r', '('] | .applyAttackSpeed => ['a', 'p', 'p', 'l', 'y', '_', 'a', 't', 't', 'a', 'c', 'k', '_', 's', 'p', 'e', 'e', 'd', '(']
def Fn2.text : Fn2 → Str
  | .min => ['m', 'i', 'n', '('] | .max => ['m', 'a', 'x', '(']

def Tok.text : Tok → Str
  | .number w => w | .sep w => w | .ident w => w
  | .fn1 g => g.text | .fn2 g => g.text
  | .plus => ['+'] | .minus => ['-'] | .star => ['*'] | .slash => ['/'] | .dslash => ['/', '/']
  | .gt => ['>'] | .lt => ['<'] | .lparen => ['('] | .rparen => [')'] | .comma => [',']

/-- tokens separated by one blank -/
def render : List Tok → Str
  | [] => []
  | [t] => t.text
  | t :: t' :: ts => t.text ++ ' ' :: render (t' :: ts)

def prettyChars (e : Expr) : Str := render (toks e)
def pretty (e : Expr) : String := String.ofList (prettyChars e)

/-- fully parenthesised dump of the tree (harness: compared with the real parser's tree) -/
def Expr.sexp : Expr → String
  | .number w => "(number " ++ String.ofList w ++ ")"
  | .sepNumber w => "(seperated_number " ++ String.ofList w ++ ")"
  | .var n => "(variable " ++ String.ofList n ++ ")"
  | .neg a => "(neg " ++ a.sexp ++ ")"
  | .bin op a b =>
    let n := match op with
      | .add => "add" | .sub => "sub" | .mul => "mul" | .div => "div" | .idiv => "int_div" | .gt => "gt" | .lt => "lt"
    "(" ++ n ++ " " ++ a.sexp ++ " " ++ b.sexp ++ ")"
  | .fn1 g a =>
    let n := match g with | .ceil => "ceil" | .floor => "floor" | .applyAttackSpeed => "apply_attack_speed"
    "(" ++ n ++ " " ++ a.sexp ++ ")"
  | .fn2 g a b =>
    let n := match g with | .min => "min" | .max => "max"
    "(" ++ n ++ " " ++ a.sexp ++ " " ++ b.sexp ++ ")"

/-- the range of the printer: literal nodes carry the text of a token of their own kind (NUMBER tokens with a
    signed exponent, `1e-3`, are read by `lex` but are left out of the round-trip theorem) -/
def Expr.wf : Expr → Bool
  | .number w => !w.isEmpty && isNumberTok w && w.all isWordChar
  | .sepNumber w => !w.isEmpty && w.all isSepChar && !isNumberTok w
  | .var n => !n.isEmpty && n.all isVarChar && !n.all isSepChar && !isNumberTok n
  | .neg a => a.wf
  | .bin _ a b => a.wf && b.wf
  | .fn1 _ a => a.wf
  | .fn2 _ a b => a.wf && b.wf

end Simaple.Spec
