import Simaple.Model.Component
/-!
L2 (group `Mage`): the job-specific component classes that the shipped jobs archmagefb / archmagetc / bishop
instantiate, written against the entity library.  Sources:
`simaple/simulate/component/specific/archmagefb.py`, `archmagetc.py`, `bishop.py`, `magician.py`.

Conventions (in addition to those of `Simaple.Model.Component`)
* **modifiers** (`Stat` blocks attached to damage events) are opaque tokens: the canonical JSON text of the
  `Stat`.  `Stat.__add__` is float arithmetic (`final_damage_multiplier`, `ignored_defence` use products
  with 0.01) and is modelled and proved elsewhere (C11); here its RESULTS are parameters, exactly like
  `cdEff`: for the frost classes the table `modPlain[k]` / `modShock[k]` = the modifier that
  `event_provider.dealt(.., modifier = get_frost_modifier(stack = k) [+ jupyter_thunder_shock_advantage])`
  puts in the event (so it includes the component's default modifier); for the bishop classes `modNone`
  (no mark: `Stat()`) and `modTable` (mark token ↦ event modifier).  WHICH entry is used for which hit —
  the stack / mark / shock logic — is the model's.  A damage event whose modifier equals the component's
  default modifier is `.dealt`, otherwise `.dealtMod` (this is how `complib.enc_revents` reads real events).
* `decay_rate ** count` (ThunderBreak) is a float power: the per-count damages are the parameter `damageAt`.
* Python `while` loops over `Periodic.resolve_step` are modelled with fuel (`tickLoop`); the sufficiency of
  the fuel for well-formed periodics is proved in `Simaple/Proofs/ComponentMage.lean`.
-/
namespace Simaple.Comp
open Simaple.Entity

/-! ### helpers of the group (own namespace: other groups' part files are imported side by side) -/
namespace Mage

/-- the time carried by an `elapsed` event -/
def elapsedOf : REv → Option Int
  | .elapsed t => some t
  | _ => none

/-- the times carried by the `elapsed` events of an answer, in order -/
def elapsedTimes (evs : List REv) : List Int := evs.filterMap elapsedOf

/-- a damage event (`dealt` with or without an explicit modifier): the "ticks" C09 speaks about -/
def isDamage : REv → Bool
  | .dealt _ _ => true
  | .dealtMod _ _ _ => true
  | _ => false

/-- the damage events of an answer, in order -/
def damages (evs : List REv) : List REv := evs.filter isDamage

/-- `event_provider.dealt(d, h, modifier = m)` as `complib.enc_revents` reads it: `m` is the canonical text of
    the TOTAL modifier of the event; it is reported only when it differs from the component's default -/
def mkDealt (defaultMod : String) (d h : Rat) (m : String) : REv :=
  if m = defaultMod then .dealt d h else .dealtMod d h m

/-- table lookup by a stack value; outside the table the model has no answer (`"?"`) -/
def modAt (tbl : List String) (k : Int) : String := if k < 0 then "?" else tbl.getD k.toNat "?"

/-- `use_frost_stack(frost_effect)`: the new stack and the stack value whose modifier is used
    (`Stat()` for an empty stack is the frost modifier of 0) -/
def useFrost (fs : Stack) : Stack × Int := if fs.stack = 0 then (fs, 0) else (fs.decrease 1, fs.stack)

/-- `DivineMark.consume_mark()` on a mark whose advantage is a token: the cleared mark and what was there -/
def consumeMark (m : DivineMark String) : DivineMark String × Option String := ({ advantage := none }, m.advantage)

/-- the event modifier for a consumed mark -/
def markMod (modNone : String) (modTable : List (String × String)) : Option String → String
  | none => modNone
  | some a => (modTable.lookup a).getD "?"

end Mage
open Mage

/-! ### FerventDrain (archmagefb.py): no reducers, two constant-shaped views -/
namespace FerventDrain
structure S where
  drainStack : FerventDrainStack
deriving Repr, DecidableEq
/-- `buff`: always a `Stat` (`final_damage_multiplier = get_count() * 5`) -/
def buffOn (_s : S) : Bool := true
def buffFinalDamageMultiplier (s : S) : Int := s.drainStack.getBuffFinalDamageMultiplier
def running (_s : S) : Running := { timeLeft := 999999999 * 1024, lastingDuration := 999999999 * 1024 }
end FerventDrain

/-! ### PoisonNovaComponent (archmagefb.py) -/
namespace PoisonNova
structure P where
  cdEff : Int
  delay : Int
  damage : Rat
  hit : Rat
  novaRemainingTime : Int
  novaDamage : Rat
  novaSingleHit : Int
  novaHitCount : Int
  dotDamage : Rat
  dotLasting : Int
deriving Repr, DecidableEq
structure S where
  cooldown : Cooldown
  poisonNova : PoisonNovaEntity
deriving Repr, DecidableEq
def elapse (_p : P) (t : Int) (s : S) : S × List REv :=
  ({ cooldown := s.cooldown.elapse t, poisonNova := s.poisonNova.elapse t }, [.elapsed t])
def use (p : P) (s : S) : S × List REv :=
  if !s.cooldown.available then (s, [.rejected]) else
  ({ cooldown := s.cooldown.setTimeLeft p.cdEff, poisonNova := s.poisonNova.createNova p.novaRemainingTime },
   [.dealt p.damage p.hit, .delayed p.delay, .addDot p.dotDamage p.dotLasting])
/-- listened reducer: the nova explodes once (first 3 hits in full, the rest at half damage) -/
def trigger (p : P) (s : S) : S × List REv :=
  let r := s.poisonNova.tryTriggerNova
  if r.2 then
    ({ s with poisonNova := r.1 },
     [.dealt p.novaDamage ((p.novaSingleHit * min p.novaHitCount 3 : Int) : Rat),
      .dealt (p.novaDamage * (1 / 2)) ((p.novaSingleHit * max (p.novaHitCount - 3) 0 : Int) : Rat)])
  else ({ s with poisonNova := r.1 }, [])
def validity (_p : P) (s : S) : Validity := cooldownValidity s.cooldown
end PoisonNova

/-! ### PoisonChainComponent (archmagefb.py) -/
namespace PoisonChain
structure P where
  cdEff : Int
  delay : Int
  damage : Rat
  hit : Rat
  periodicDamage : Rat
  periodicHit : Rat
  lastingDuration : Int
  periodicDamageIncrement : Rat
deriving Repr, DecidableEq
structure S where
  cooldown : Cooldown
  periodic : Periodic
  stack : Stack
deriving Repr, DecidableEq
/-- `for _ in range(n): append(dealt(periodic_damage + increment * stack, periodic_hit)); stack.increase(1)` -/
def ticks (p : P) : Nat → Stack → Stack × List REv
  | 0, st => (st, [])
  | n + 1, st =>
    let r := ticks p n (st.increase 1)
    (r.1, .dealt (p.periodicDamage + p.periodicDamageIncrement * (st.getStack : Rat)) p.periodicHit :: r.2)
def elapse (p : P) (t : Int) (s : S) : S × List REv :=
  let r := s.periodic.elapse' t
  let k := ticks p r.2.toNat s.stack
  ({ cooldown := s.cooldown.elapse t, periodic := r.1, stack := k.1 }, .elapsed t :: k.2)
/-- `use_periodic_damage_trait` (of `PeriodicWithSimpleDamageTrait`), then `stack.reset(1)` unless rejected -/
def use (p : P) (s : S) : Except String (S × List REv) :=
  if !s.cooldown.available then .ok (s, [.rejected]) else
  match s.periodic.setTimeLeft p.lastingDuration with
  | .error e => .error e
  | .ok per => .ok ({ cooldown := s.cooldown.setTimeLeft p.cdEff, periodic := per, stack := s.stack.reset 1 },
                    [.dealt p.damage p.hit, .delayed p.delay])
def validity (_p : P) (s : S) : Validity := cooldownValidity s.cooldown
def running (p : P) (s : S) : Running := { timeLeft := s.periodic.timeLeft, lastingDuration := p.lastingDuration }
end PoisonChain

/-! ### DotPunisherComponent (archmagefb.py) -/
namespace DotPunisher
structure P where
  cdEff : Int
  delay : Int
  damage : Rat
  hit : Rat
  multiple : Int
  dotDamage : Rat
  dotLasting : Int
deriving Repr, DecidableEq
abbrev S := AttackSkill.S
def use (p : P) (s : S) : S × List REv :=
  if !s.cooldown.available then (s, [.rejected]) else
  ({ cooldown := s.cooldown.setTimeLeft p.cdEff },
   List.replicate p.multiple.toNat (.dealt p.damage p.hit) ++ [.delayed p.delay, .addDot p.dotDamage p.dotLasting])
def elapse (_p : P) (t : Int) (s : S) : S × List REv := ({ cooldown := s.cooldown.elapse t }, [.elapsed t])
def resetCooldown (_p : P) (s : S) : S × List REv := ({ cooldown := s.cooldown.setTimeLeft 0 }, [])
def validity (_p : P) (s : S) : Validity := cooldownValidity s.cooldown
end DotPunisher

/-! ### IfrittComponent (archmagefb.py): `PeriodicWithSimpleDamageTrait` + `add_dot` on an accepted use -/
namespace Ifritt
structure P where
  cdEff : Int
  delay : Int
  damage : Rat
  hit : Rat
  periodicDamage : Rat
  periodicHit : Rat
  lastingDuration : Int
  dotDamage : Rat
  dotLasting : Int
deriving Repr, DecidableEq
abbrev S := PeriodicAttack.S
def use (p : P) (s : S) : Except String (S × List REv) :=
  if !s.cooldown.available then .ok (s, [.rejected]) else
  match s.periodic.setTimeLeft p.lastingDuration with
  | .error e => .error e
  | .ok per => .ok ({ cooldown := s.cooldown.setTimeLeft p.cdEff, periodic := per },
                    [.dealt p.damage p.hit, .delayed p.delay, .addDot p.dotDamage p.dotLasting])
def elapse (p : P) (t : Int) (s : S) : S × List REv :=
  let r := s.periodic.elapse' t
  ({ cooldown := s.cooldown.elapse t, periodic := r.1 },
   .elapsed t :: List.replicate r.2.toNat (.dealt p.periodicDamage p.periodicHit))
def validity (_p : P) (s : S) : Validity := cooldownValidity s.cooldown
def running (p : P) (s : S) : Running := { timeLeft := s.periodic.timeLeft, lastingDuration := p.lastingDuration }
end Ifritt

/-! ### InfernalVenom (archmagefb.py): reads and writes FerventDrain's stack through `binds` -/
namespace InfernalVenom
structure P where
  cdEff : Int
  delay : Int
  lastingDuration : Int
  firstDamage : Rat
  firstHit : Rat
  secondDamage : Rat
  secondHit : Rat
deriving Repr, DecidableEq
structure S where
  drainStack : FerventDrainStack
  cooldown : Cooldown
  lasting : Lasting
deriving Repr, DecidableEq
def use (p : P) (s : S) : S × List REv :=
  if !s.cooldown.available then (s, [.rejected]) else
  ({ cooldown := s.cooldown.setTimeLeft p.cdEff,
     drainStack := (s.drainStack.setMaxCount 10).setCount 10,
     lasting := s.lasting.setTimeLeft p.lastingDuration },
   [.dealt p.firstDamage p.firstHit, .dealt p.secondDamage p.secondHit, .delayed p.delay])
def elapse (_p : P) (t : Int) (s : S) : S × List REv :=
  let wasEnabled := s.lasting.enabled
  let cd := s.cooldown.elapse t
  let la := s.lasting.elapse t
  if !la.enabled && wasEnabled then
    ({ cooldown := cd, lasting := la, drainStack := (s.drainStack.setMaxCount 5).setCount 5 }, [.elapsed t])
  else ({ cooldown := cd, lasting := la, drainStack := s.drainStack }, [.elapsed t])
def validity (_p : P) (s : S) : Validity := cooldownValidity s.cooldown
def running (s : S) : Running := { timeLeft := s.lasting.timeLeft, lastingDuration := s.lasting.assignedDuration }
end InfernalVenom

/-! ### FlameSwipVI (archmagefb.py); the class has NO `elapse` reducer -/
namespace FlameSwip
structure P where
  cdEff : Int
  delay : Int
  damage : Rat
  hit : Rat
  explodeDamage : Rat
  explodeHit : Rat
  dotDamage : Rat
  dotLasting : Int
deriving Repr, DecidableEq
structure S where
  cooldown : Cooldown
  stack : Stack
deriving Repr, DecidableEq
/-- `use_simple_attack`, then (unless rejected) `add_dot` and `stack.increase(1)` -/
def use (p : P) (s : S) : S × List REv :=
  if !s.cooldown.available then (s, [.rejected]) else
  ({ cooldown := s.cooldown.setTimeLeft p.cdEff, stack := s.stack.increase 1 },
   [.dealt p.damage p.hit, .delayed p.delay, .addDot p.dotDamage p.dotLasting])
/-- listened reducer -/
def explode (p : P) (s : S) : S × List REv :=
  if s.stack.getStack < 3 then (s, []) else
  ({ s with stack := s.stack.reset 0 }, [.dealt p.explodeDamage p.explodeHit])
def validity (_p : P) (s : S) : Validity := cooldownValidity s.cooldown
end FlameSwip

/-! ### FrostEffect (archmagetc.py): owner of the shared frost stack -/
namespace FrostEffect
structure S where
  frostStack : Stack
deriving Repr, DecidableEq
def increaseStep (s : S) : S × List REv := ({ frostStack := s.frostStack.increase 1 }, [])
def increaseThree (s : S) : S × List REv := ({ frostStack := s.frostStack.increase 3 }, [])
def buffOn (_s : S) : Bool := true
def running (s : S) : Running :=
  { timeLeft := 999999999 * 1024, lastingDuration := 999999999 * 1024, stack := some s.frostStack.stack }
end FrostEffect

/-! ### the tick loop of JupyterThunder / ThunderBreak
```
while time_to_resolve > 0:
    periodic_state, time_to_resolve = periodic_state.resolve_step(periodic_state, time_to_resolve)
    if stop(periodic_state.count): break
    if periodic_state.count == previous_count: continue
    <emit one damage event; the frost stack may change>
    previous_count = periodic_state.count
```
returns the periodic, the frost stack and the damage events. -/
def Mage.tickLoop (stop : Int → Bool) (emit : Int → Stack → Stack × REv) :
    Nat → Periodic → Int → Int → Stack → Periodic × Stack × List REv
  | 0, per, _, _, fs => (per, fs, [])
  | n + 1, per, t, prev, fs =>
    if t ≤ 0 then (per, fs, []) else
    let r := per.step t
    if stop r.1.count then (r.1, fs, [])
    else if r.1.count = prev then Mage.tickLoop stop emit n r.1 r.2 prev fs
    else
      let e := emit r.1.count fs
      let k := Mage.tickLoop stop emit n r.1 r.2 r.1.count e.1
      (k.1, k.2.1, e.2 :: k.2.2)

/-- the reachable schedulers of JupyterThunder / ThunderBreak: the pydantic constraints of `Periodic`, and a
    running scheduler has not reached the count `D` at which the skill is switched off (it is switched off at
    the end of the `elapse` in which it does; `use` restarts the count at 0) -/
def Mage.LoopInv (D : Int) (per : Periodic) : Prop := per.WF ∧ (0 < per.timeLeft → per.count < D)
instance (D : Int) (per : Periodic) : Decidable (Mage.LoopInv D per) := by unfold Mage.LoopInv; exact inferInstance

/-! ### JupyterThunder (archmagetc.py) -/
namespace JupyterThunder
structure P where
  cdEff : Int
  delay : Int
  periodicDamage : Rat
  periodicHit : Rat
  lastingDuration : Int
  maxCount : Int
  defaultMod : String
  /-- `modPlain[k]`: event modifier for `get_frost_modifier(stack = k)` -/
  modPlain : List String
deriving Repr, DecidableEq
structure S where
  frostStack : Stack
  cooldown : Cooldown
  periodic : Periodic
deriving Repr, DecidableEq
/-- every fifth hit consumes a frost stack, the others only read it -/
def emit (p : P) (count : Int) (fs : Stack) : Stack × REv :=
  if (count + 1) % 5 = 0 then
    let u := useFrost fs
    (u.1, mkDealt p.defaultMod p.periodicDamage p.periodicHit (modAt p.modPlain u.2))
  else (fs, mkDealt p.defaultMod p.periodicDamage p.periodicHit (modAt p.modPlain fs.stack))
def elapse (p : P) (t : Int) (s : S) : S × List REv :=
  let k := tickLoop (fun c => decide (p.maxCount ≤ c)) (emit p) t.toNat s.periodic t s.periodic.count s.frostStack
  let per := if p.maxCount ≤ k.1.count then k.1.disable else k.1
  ({ cooldown := s.cooldown.elapse t, periodic := per, frostStack := k.2.1 }, .elapsed t :: k.2.2)
/-- `use_periodic_damage_trait` of `UsePeriodicDamageTrait` (no damage on use) -/
def use (p : P) (s : S) : Except String (S × List REv) :=
  if !s.cooldown.available then .ok (s, [.rejected]) else
  match s.periodic.setTimeLeft p.lastingDuration with
  | .error e => .error e
  | .ok per => .ok ({ s with cooldown := s.cooldown.setTimeLeft p.cdEff, periodic := per }, [.delayed p.delay])
def validity (_p : P) (s : S) : Validity := cooldownValidity s.cooldown
/-- reachable states (checked by the driver on every harvested real state) -/
def Inv (p : P) (s : S) : Prop := LoopInv p.maxCount s.periodic
instance (p : P) (s : S) : Decidable (Inv p s) := by unfold Inv; exact inferInstance
end JupyterThunder

/-! ### ThunderBreak (archmagetc.py) -/
namespace ThunderBreak
structure P where
  cdEff : Int
  delay : Int
  periodicHit : Rat
  lastingDuration : Int
  maxCount : Int
  /-- `damageAt[c] = periodic_damage * decay_rate ** c` (float power, computed by the real code) -/
  damageAt : List Rat
  defaultMod : String
  modPlain : List String
  /-- with `jupyter_thunder_shock_advantage` added -/
  modShock : List String
deriving Repr, DecidableEq
structure S where
  frostStack : Stack
  shock : Periodic
  cooldown : Cooldown
  periodic : Periodic
deriving Repr, DecidableEq
def damageOf (p : P) (count : Int) : Rat := if count < 0 then 0 else p.damageAt.getD count.toNat 0
/-- every hit consumes a frost stack -/
def emit (p : P) (shockOn : Bool) (count : Int) (fs : Stack) : Stack × REv :=
  let u := useFrost fs
  (u.1, mkDealt p.defaultMod (damageOf p count) p.periodicHit (modAt (if shockOn then p.modShock else p.modPlain) u.2))
/-- note the two different bounds: the loop breaks at `count > max_count`, the skill is switched off at
    `count >= max_count` -/
def elapse (p : P) (t : Int) (s : S) : S × List REv :=
  let k := tickLoop (fun c => decide (p.maxCount < c)) (emit p s.shock.enabled) t.toNat s.periodic t s.periodic.count s.frostStack
  let per := if p.maxCount ≤ k.1.count then k.1.disable else k.1
  ({ s with cooldown := s.cooldown.elapse t, periodic := per, frostStack := k.2.1 }, .elapsed t :: k.2.2)
def use (p : P) (s : S) : Except String (S × List REv) :=
  if !s.cooldown.available then .ok (s, [.rejected]) else
  match s.periodic.setTimeLeft p.lastingDuration with
  | .error e => .error e
  | .ok per => .ok ({ s with cooldown := s.cooldown.setTimeLeft p.cdEff, periodic := per }, [.delayed p.delay])
def validity (_p : P) (s : S) : Validity := cooldownValidity s.cooldown
/-- reachable states (checked by the driver on every harvested real state) -/
def Inv (p : P) (s : S) : Prop := LoopInv p.maxCount s.periodic
instance (p : P) (s : S) : Decidable (Inv p s) := by unfold Inv; exact inferInstance
end ThunderBreak

/-! ### ChainLightningVIComponent (archmagetc.py) -/
namespace ChainLightning
structure P where
  cdEff : Int
  delay : Int
  damage : Rat
  hit : Rat
  /-- `electric_current_prob`, added to `CurrentField.stable_rng_counter` on every use -/
  prob : Rat
  ecDamage : Rat
  ecHit : Rat
  defaultMod : String
  modPlain : List String
  modShock : List String
deriving Repr, DecidableEq
structure S where
  frostStack : Stack
  shock : Periodic
  cooldown : Cooldown
  currentFields : CurrentField
deriving Repr, DecidableEq
/-- `CurrentField.stack_rng` builds a `Periodic` (pydantic `gt=0`) and calls `set_time_left`: both can raise -/
def use (p : P) (s : S) : Except String (S × List REv) :=
  if !s.cooldown.available then .ok (s, [.rejected]) else
  let u := useFrost s.frostStack
  match s.currentFields.stackRng p.prob with
  | .error e => .error e
  | .ok cf =>
    .ok ({ s with cooldown := s.cooldown.setTimeLeft p.cdEff, frostStack := u.1, currentFields := cf.1 },
         [mkDealt p.defaultMod p.damage p.hit (modAt (if s.shock.enabled then p.modShock else p.modPlain) u.2),
          .delayed p.delay])
def elapse (p : P) (t : Int) (s : S) : S × List REv :=
  let r := s.currentFields.elapse t
  ({ s with cooldown := s.cooldown.elapse t, currentFields := r.1 },
   .elapsed t :: List.replicate r.2.toNat (.dealt p.ecDamage p.ecHit))
def validity (_p : P) (s : S) : Validity := cooldownValidity s.cooldown
end ChainLightning

/-! ### DivineAttackSkillComponent (bishop.py): consumes the divine mark of 바하뮤트 -/
namespace DivineAttack
structure P where
  cdEff : Int
  delay : Int
  damage : Rat
  hit : Rat
  defaultMod : String
  modNone : String
  modTable : List (String × String)
  hasSynergy : Bool
deriving Repr, DecidableEq
structure S where
  divineMark : DivineMark String
  cooldown : Cooldown
deriving Repr, DecidableEq
def use (p : P) (s : S) : S × List REv :=
  if !s.cooldown.available then (s, [.rejected]) else
  let c := consumeMark s.divineMark
  ({ cooldown := s.cooldown.setTimeLeft p.cdEff, divineMark := c.1 },
   [mkDealt p.defaultMod p.damage p.hit (markMod p.modNone p.modTable c.2), .delayed p.delay])
def elapse (_p : P) (t : Int) (s : S) : S × List REv := ({ s with cooldown := s.cooldown.elapse t }, [.elapsed t])
def validity (_p : P) (s : S) : Validity := cooldownValidity s.cooldown
def buffOn (p : P) (_s : S) : Bool := p.hasSynergy
end DivineAttack

/-! ### DivineMinion (bishop.py): every tick marks -/
namespace DivineMinion
structure P where
  cdEff : Int
  delay : Int
  damage : Rat
  hit : Rat
  periodicDamage : Rat
  periodicHit : Rat
  lastingDuration : Int
  disableValidity : Bool := false
  /-- token of `mark_advantage` -/
  markAdvantage : String
  hasStat : Bool
deriving Repr, DecidableEq
structure S where
  divineMark : DivineMark String
  cooldown : Cooldown
  periodic : Periodic
deriving Repr, DecidableEq
/-- `for _ in range(n): state.divine_mark.mark(self.mark_advantage)` -/
def markTimes (adv : String) : Nat → DivineMark String → DivineMark String
  | 0, m => m
  | n + 1, m => markTimes adv n (m.mark adv)
def elapse (p : P) (t : Int) (s : S) : S × List REv :=
  let r := s.periodic.elapse' t
  ({ cooldown := s.cooldown.elapse t, periodic := r.1, divineMark := markTimes p.markAdvantage r.2.toNat s.divineMark },
   .elapsed t :: List.replicate r.2.toNat (.dealt p.periodicDamage p.periodicHit))
def use (p : P) (s : S) : Except String (S × List REv) :=
  if !s.cooldown.available then .ok (s, [.rejected]) else
  match s.periodic.setTimeLeft p.lastingDuration with
  | .error e => .error e
  | .ok per => .ok ({ s with cooldown := s.cooldown.setTimeLeft p.cdEff, periodic := per },
                    [.dealt p.damage p.hit, .delayed p.delay])
def validity (p : P) (s : S) : Validity := invalidateIfDisabled p.disableValidity (cooldownValidity s.cooldown)
def buffOn (p : P) (s : S) : Bool := s.periodic.enabled && p.hasStat
def running (p : P) (s : S) : Running := { timeLeft := s.periodic.timeLeft, lastingDuration := p.lastingDuration }
end DivineMinion

/-! ### HexaAngelRayComponent (bishop.py) -/
namespace HexaAngelRay
structure P where
  cdEff : Int
  delay : Int
  damage : Rat
  hit : Rat
  punishingDamage : Rat
  punishingHit : Rat
  stackResolveAmount : Int
  defaultMod : String
  modNone : String
  modTable : List (String × String)
deriving Repr, DecidableEq
structure S where
  divineMark : DivineMark String
  cooldown : Cooldown
  punishingStack : Stack
deriving Repr, DecidableEq
/-- `_stack` -/
def stackCore (p : P) (st : Stack) : Stack × List REv :=
  let s1 := st.increase 1
  if p.stackResolveAmount ≤ s1.getStack then
    (s1.decrease p.stackResolveAmount, [.dealt p.punishingDamage p.punishingHit])
  else (s1, [])
/-- listened reducer -/
def stack (p : P) (s : S) : S × List REv :=
  let r := stackCore p s.punishingStack
  ({ s with punishingStack := r.1 }, r.2)
def use (p : P) (s : S) : S × List REv :=
  if !s.cooldown.available then (s, [.rejected]) else
  let r := stackCore p s.punishingStack
  let c := consumeMark s.divineMark
  ({ cooldown := s.cooldown.setTimeLeft p.cdEff, punishingStack := r.1, divineMark := c.1 },
   [mkDealt p.defaultMod p.damage p.hit (markMod p.modNone p.modTable c.2), .delayed p.delay] ++ r.2)
def elapse (_p : P) (t : Int) (s : S) : S × List REv := ({ s with cooldown := s.cooldown.elapse t }, [.elapsed t])
def validity (_p : P) (s : S) : Validity := cooldownValidity s.cooldown
/-- `buff`: the constant `synergy` block -/
def buffOn (_s : S) : Bool := true
end HexaAngelRay

/-! ### Infinity (magician.py) -/
namespace Infinity
structure P where
  cdEff : Int
  /-- `calculate_buff_duration(lasting_duration)` when `apply_buff_duration`, else `lasting_duration` -/
  lastEff : Int
  delay : Int
  finalDamageIncrement : Rat
  increaseInterval : Int
  defaultFinalDamage : Rat
  maximumFinalDamage : Rat
deriving Repr, DecidableEq
abbrev S := BuffSkill.S
def use (p : P) (s : S) : S × List REv :=
  if !s.cooldown.available then (s, [.rejected]) else
  ({ cooldown := s.cooldown.setTimeLeft p.cdEff, lasting := s.lasting.setTimeLeft p.lastEff }, [.delayed p.delay])
def elapse (_p : P) (t : Int) (s : S) : S × List REv :=
  ({ cooldown := s.cooldown.elapse t, lasting := s.lasting.elapse t }, [.elapsed t])
def validity (_p : P) (s : S) : Validity := cooldownValidity s.cooldown
/-- `get_infinity_effect`: `elapsed // increase_interval` is a float floor division (ZeroDivisionError for a
    zero interval); the result is the `final_damage_multiplier` of the buff -/
def effect (p : P) (s : S) : Except String Rat :=
  if p.increaseInterval = 0 then .error "ZeroDivisionError: float floor division by zero" else
  let tickCount : Int := Int.fdiv s.lasting.getElapsedTime p.increaseInterval
  .ok (min (p.defaultFinalDamage + p.finalDamageIncrement * (tickCount : Rat)) p.maximumFinalDamage)
/-- `buff`: `None` when the buff is off -/
def buff (p : P) (s : S) : Except String (Option Rat) :=
  if s.lasting.enabled then (effect p s).map some else .ok none
def running (s : S) : Running := { timeLeft := s.lasting.timeLeft, lastingDuration := s.lasting.assignedDuration }
end Infinity

end Simaple.Comp
