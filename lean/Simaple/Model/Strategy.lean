/-!
`cast_by_priority` of simaple/simulate/strategy/default.py (core Lean only): the skill the default policy
casts next, given the validity and running views.
-/
namespace Simaple.Strategy

/-- the fields of the views the policy reads -/
structure V where
  name : String
  valid : Bool
deriving DecidableEq, Repr

/-- `validity_map`: name ↦ validity for the valid entries; later entries with the same name overwrite earlier
    ones (dict comprehension); iteration order = first insertion order -/
def validNames (vs : List V) : List String :=
  (vs.filter (·.valid)).foldl (fun acc v => if acc.contains v.name then acc else acc ++ [v.name]) []

/-- `running_map`: name ↦ time_left (later entries overwrite) -/
def runningOf (rs : List (String × Int)) (name : String) : Int :=
  match (rs.reverse.find? (fun r => r.1 == name)) with | some r => r.2 | none => 0

/-- `cast_by_priority(order)`: the first name of `order` that is listed valid and is not running; otherwise the
    first valid name at all; `none` = `raise ValueError` (nothing is valid) -/
def castByPriority (order : List String) (vs : List V) (rs : List (String × Int)) : Option String :=
  let valid := validNames vs
  match order.find? (fun n => valid.contains n && !(decide (0 < runningOf rs n))) with
  | some n => some n
  | none => valid.head?

end Simaple.Strategy
