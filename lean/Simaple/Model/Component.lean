import Simaple.Model.Entity
/-!
L2: reducers and views of component classes (core Lean only), written against the entity library
`Simaple.Model.Entity`.  Sources: simaple/simulate/component/trait/impl.py and the class files named at
each section.

Conventions
* time: `Int` in 2⁻¹⁰ ms units; damage numbers: `Rat`.
* `state.dynamics.stat.calculate_cooldown(cooldown_duration)` and `calculate_buff_duration(..)` are NOT
  recomputed here (they are generated and proved separately, C12): their results are parameters of the
  component (`cdEff`, `lastEff`), computed by the real code in the correspondence check.
* a reducer returns the new state and the events it emits BEFORE the dispatcher tags them
  (`Simaple.Model.Dispatch.tagEvents`); events are the five shapes of `NamedEventProvider` plus the MOB
  `add_dot` request.
* Python exceptions are `Except` values.
-/
namespace Simaple.Comp
open Simaple.Entity

/-- an event as a reducer returns it -/
inductive REv where
  | elapsed (time : Int)
  | rejected
  | delayed (time : Int)
  | dealt (damage hit : Rat)
  | keydownEnd
  | addDot (damage : Rat) (lasting : Int)
  /-- a damage event whose modifier is not the component's default one (canonical JSON text of the Stat) -/
  | dealtMod (damage hit : Rat) (modifier : String)
  /-- any other event: its tag (or method, for tag-less events) and the canonical JSON text of its payload -/
  | custom (tag : String) (payload : String)
deriving DecidableEq, Repr

def REv.isReject : REv → Bool
  | .rejected => true
  | _ => false

def rejectedIn (evs : List REv) : Bool := evs.any REv.isReject

/-- `Validity` view: the fields that vary (id, name, cooldown_duration are constants of the component) -/
structure Validity where
  timeLeft : Int
  valid : Bool
  stack : Option Int := none
deriving DecidableEq, Repr

structure Running where
  timeLeft : Int
  lastingDuration : Int
  stack : Option Int := none
deriving DecidableEq, Repr

structure KeydownView where
  timeLeft : Int
  running : Bool
deriving DecidableEq, Repr

/-- `SkillComponent.invalidate_if_disabled` -/
def invalidateIfDisabled (disable : Bool) (v : Validity) : Validity :=
  if disable then { v with valid := false } else v

/-- `validity_in_cooldown_trait` -/
def cooldownValidity (c : Cooldown) : Validity := { timeLeft := c.minimumTimeToAvailable, valid := c.available }

/-! ### BuffSkillComponent (common/buff_skill.py; `BuffTrait`, `InvalidatableCooldownTrait`) -/
namespace BuffSkill
structure P where
  cdEff : Int          -- calculate_cooldown(cooldown_duration)
  lastEff : Int        -- calculate_buff_duration(lasting_duration) or lasting_duration (apply_buff_duration)
  delay : Int
  disableValidity : Bool := false
deriving Repr, DecidableEq
structure S where
  cooldown : Cooldown
  lasting : Lasting
deriving Repr, DecidableEq

/-- `use_buff_trait` -/
def use (p : P) (s : S) : S × List REv :=
  if !s.cooldown.available then (s, [.rejected]) else
  ({ cooldown := s.cooldown.setTimeLeft p.cdEff, lasting := s.lasting.setTimeLeft p.lastEff }, [.delayed p.delay])
/-- `elapse_buff_trait` -/
def elapse (_p : P) (t : Int) (s : S) : S × List REv :=
  ({ cooldown := s.cooldown.elapse t, lasting := s.lasting.elapse t }, [.elapsed t])
def validity (p : P) (s : S) : Validity := invalidateIfDisabled p.disableValidity (cooldownValidity s.cooldown)
def buffOn (s : S) : Bool := s.lasting.enabled
def running (s : S) : Running := { timeLeft := s.lasting.timeLeft, lastingDuration := s.lasting.assignedDuration }
end BuffSkill

/-! ### AttackSkillComponent (common/attack_skill.py; `UseSimpleAttackTrait`) -/
namespace AttackSkill
structure P where
  cdEff : Int
  delay : Int
  damage : Rat
  hit : Rat
  disableValidity : Bool := false
deriving Repr, DecidableEq
structure S where
  cooldown : Cooldown
deriving Repr, DecidableEq

/-- `use_simple_attack` -/
def use (p : P) (s : S) : S × List REv :=
  if !s.cooldown.available then (s, [.rejected]) else
  ({ cooldown := s.cooldown.setTimeLeft p.cdEff }, [.dealt p.damage p.hit, .delayed p.delay])
/-- `@ignore_rejected use_with_ignore_reject` -/
def useIgnoreReject (p : P) (s : S) : S × List REv :=
  let r := use p s
  (r.1, r.2.filter (fun e => !e.isReject))
def elapse (_p : P) (t : Int) (s : S) : S × List REv := ({ cooldown := s.cooldown.elapse t }, [.elapsed t])
def resetCooldown (_p : P) (s : S) : S × List REv := ({ cooldown := s.cooldown.setTimeLeft 0 }, [])
def validity (p : P) (s : S) : Validity := invalidateIfDisabled p.disableValidity (cooldownValidity s.cooldown)
end AttackSkill

/-! ### DOTEmittingAttackSkillComponent (common/dot_emitting_attack_skill.py) -/
namespace DotAttack
structure P extends AttackSkill.P where
  dotDamage : Rat
  dotLasting : Int
deriving Repr, DecidableEq
def use (p : P) (s : AttackSkill.S) : AttackSkill.S × List REv :=
  let r := AttackSkill.use p.toP s
  if rejectedIn r.2 then r else (r.1, r.2 ++ [.addDot p.dotDamage p.dotLasting])
def elapse (p : P) (t : Int) (s : AttackSkill.S) := AttackSkill.elapse p.toP t s
def resetCooldown (p : P) (s : AttackSkill.S) := AttackSkill.resetCooldown p.toP s
def validity (p : P) (s : AttackSkill.S) := AttackSkill.validity p.toP s
end DotAttack

/-! ### PeriodicDamageConfiguratedAttackSkillComponent
    (common/periodic_damage_configurated_attack_skill.py; `PeriodicWithSimpleDamageTrait`) -/
namespace PeriodicAttack
structure P where
  cdEff : Int
  delay : Int
  damage : Rat
  hit : Rat
  periodicDamage : Rat
  periodicHit : Rat
  lastingDuration : Int
  disableValidity : Bool := false
deriving Repr, DecidableEq
structure S where
  cooldown : Cooldown
  periodic : Periodic
deriving Repr, DecidableEq

/-- `use_periodic_damage_trait` (of `PeriodicWithSimpleDamageTrait`); `Periodic.set_time_left` raises
    ValueError for a non-positive duration or initial counter -/
def use (p : P) (s : S) : Except String (S × List REv) :=
  if !s.cooldown.available then .ok (s, [.rejected]) else
  match s.periodic.setTimeLeft p.lastingDuration with
  | .error e => .error e
  | .ok per => .ok ({ cooldown := s.cooldown.setTimeLeft p.cdEff, periodic := per },
                    [.dealt p.damage p.hit, .delayed p.delay])
/-- `elapse_periodic_damage_trait` -/
def elapse (p : P) (t : Int) (s : S) : S × List REv :=
  let r := s.periodic.elapse' t
  ({ cooldown := s.cooldown.elapse t, periodic := r.1 },
   .elapsed t :: List.replicate r.2.toNat (.dealt p.periodicDamage p.periodicHit))
def validity (p : P) (s : S) : Validity := invalidateIfDisabled p.disableValidity (cooldownValidity s.cooldown)
def running (p : P) (s : S) : Running := { timeLeft := s.periodic.timeLeft, lastingDuration := p.lastingDuration }
end PeriodicAttack

/-! ### ProgrammedPeriodicComponent (specific/common_v.py) -/
namespace Programmed
structure P where
  cdEff : Int
  delay : Int
  damage : Rat
  hit : Rat
  periodicDamage : Rat
  periodicHit : Rat
  lastingDuration : Int
  disableValidity : Bool := false
deriving Repr, DecidableEq
structure S where
  cooldown : Cooldown
  programmed : ProgrammedPeriodic
deriving Repr, DecidableEq
def use (p : P) (s : S) : S × List REv :=
  if !s.cooldown.available then (s, [.rejected]) else
  ({ cooldown := s.cooldown.setTimeLeft p.cdEff, programmed := s.programmed.setTimeLeft p.lastingDuration },
   [.dealt p.damage p.hit, .delayed p.delay])
def elapse (p : P) (t : Int) (s : S) : S × List REv :=
  let r := s.programmed.resolving t
  ({ cooldown := s.cooldown.elapse t, programmed := r.1 },
   .elapsed t :: List.replicate r.2 (.dealt p.periodicDamage p.periodicHit))
def validity (p : P) (s : S) : Validity := invalidateIfDisabled p.disableValidity (cooldownValidity s.cooldown)
def running (p : P) (s : S) : Running := { timeLeft := s.programmed.timeLeft, lastingDuration := p.lastingDuration }
end Programmed

/-! ### TriggableBuffSkillComponent (common/triggable_buff_skill.py) -/
namespace TriggableBuff
structure P where
  cdEff : Int
  lastEff : Int
  delay : Int
  triggerCooldown : Int
  triggerDamage : Rat
  triggerHit : Rat
  disableValidity : Bool := false
deriving Repr, DecidableEq
structure S where
  cooldown : Cooldown
  lasting : Lasting
  triggerCooldown : Cooldown
deriving Repr, DecidableEq
def use (p : P) (s : S) : S × List REv :=
  if !s.cooldown.available then (s, [.rejected]) else
  ({ s with cooldown := s.cooldown.setTimeLeft p.cdEff, lasting := s.lasting.setTimeLeft p.lastEff }, [.delayed p.delay])
def elapse (_p : P) (t : Int) (s : S) : S × List REv :=
  ({ cooldown := s.cooldown.elapse t, lasting := s.lasting.elapse t, triggerCooldown := s.triggerCooldown.elapse t },
   [.elapsed t])
def trigger (p : P) (s : S) : S × List REv :=
  if !(s.lasting.enabled && s.triggerCooldown.available) then (s, []) else
  ({ s with triggerCooldown := s.triggerCooldown.setTimeLeft p.triggerCooldown }, [.dealt p.triggerDamage p.triggerHit])
def validity (p : P) (s : S) : Validity := invalidateIfDisabled p.disableValidity (cooldownValidity s.cooldown)
def buffOn (s : S) : Bool := s.lasting.enabled
def running (s : S) : Running := { timeLeft := s.lasting.timeLeft, lastingDuration := s.lasting.assignedDuration }
end TriggableBuff

/-! ### KeydownSkillComponent (common/keydown_skill.py; `KeydownSkillTrait`) -/
namespace KeydownSkill
structure P where
  cdEff : Int
  maximumKeydownTime : Int
  prepareDelay : Int
  damage : Rat
  hit : Rat
  finishDamage : Rat
  finishHit : Rat
  endDelay : Int
deriving Repr, DecidableEq
structure S where
  cooldown : Cooldown
  keydown : Keydown
deriving Repr, DecidableEq
/-- `use_keydown_trait` -/
def use (p : P) (s : S) : S × List REv :=
  if !s.cooldown.available || s.keydown.running then (s, [.rejected]) else
  ({ cooldown := s.cooldown.setTimeLeft p.cdEff, keydown := s.keydown.start p.maximumKeydownTime p.prepareDelay },
   [.delayed p.prepareDelay])
/-- `elapse_keydown_trait` -/
def elapse (p : P) (t : Int) (s : S) : S × List REv :=
  let cd := s.cooldown.elapse t
  let wasRunning := s.keydown.running
  let r := s.keydown.resolving t
  let hits : List REv := List.replicate r.2 (.dealt p.damage p.hit)
  let keydownEnd := wasRunning && !r.1.running
  if keydownEnd then
    ({ cooldown := cd, keydown := r.1 },
     hits ++ [.dealt p.finishDamage p.finishHit] ++ [.delayed (max (p.endDelay + r.1.timeLeft) 0), .elapsed t] ++ [.keydownEnd])
  else
    ({ cooldown := cd, keydown := r.1 }, hits ++ [.delayed r.1.getNextDelay, .elapsed t])
/-- `stop_keydown_trait` -/
def stop (p : P) (s : S) : S × List REv :=
  if !s.keydown.running then (s, [.rejected]) else
  ({ s with keydown := s.keydown.stop }, [.dealt p.finishDamage p.finishHit, .delayed p.endDelay, .keydownEnd])
/-- `validity_in_keydown_trait` -/
def validity (_p : P) (s : S) : Validity :=
  { timeLeft := s.cooldown.minimumTimeToAvailable, valid := s.cooldown.available && !s.keydown.running }
def keydownView (s : S) : KeydownView := { timeLeft := s.keydown.timeLeft, running := s.keydown.running }
end KeydownSkill

/-! ### MobComponent (common/mob.py) -/
namespace Mob
def addDot (s : DOT) (name : String) (damage : Rat) (lasting : Int) : DOT := s.new name damage lasting
/-- `elapse`: the DOT ticks `(name, damage) ↦ hit count` -/
def elapse (s : DOT) (t : Int) : DOT × List ((String × Rat) × Nat) := s.elapse t
end Mob

end Simaple.Comp
