import Simaple.Model.JsonUtil
import Simaple.Model.SpecPatch
/-! driver entry points for the spec expression / patch model (C15).
Documents travel as: null, true/false, {"n":"p/q"}, "string", [..], {"d":[[key, value], ..]}. -/
namespace Simaple.DrvSpec
open Lean Simaple.J Simaple.Spec

def errName : Err → String
  | .parse => "parse" | .undefinedVar _ => "undefined" | .divZero => "divzero" | .badNumber => "badnumber"
  | .attributeError => "attribute" | .typeError => "type" | .patchMismatch => "mismatch"

def scalarToJson : Scalar → Json
  | .null => Json.null
  | .bool b => Json.bool b
  | .num q => Json.mkObj [("n", ofRat q)]
  | .str s => Json.str (String.ofList s)

mutual
partial def docToJson : Doc → Json
  | .leaf s => scalarToJson s
  | .list xs => Json.arr (xs.map docToJson).toArray
  | .dict kvs => Json.mkObj [("d", Json.arr (kvs.map (fun kv => Json.arr #[scalarToJson kv.1, docToJson kv.2])).toArray)]
end

def scalarOfJson (j : Json) : Except String Scalar :=
  match j with
  | .null => pure .null
  | .bool b => pure (.bool b)
  | .str s => pure (.str s.toList)
  | .obj _ => do let q ← rat (← field j "n"); pure (.num q)
  | _ => throw "scalar expected"

partial def docOfJson (j : Json) : Except String Doc :=
  match j with
  | .arr a => do let xs ← a.toList.mapM docOfJson; pure (.list xs)
  | .obj _ =>
    match j.getObjVal? "d" with
    | .ok d => do
      let es ← list d
      let kvs ← es.mapM (fun e => do
        let pr ← list e
        match pr with
        | [k, v] => do pure ((← scalarOfJson k), (← docOfJson v))
        | _ => throw "pair expected")
      pure (.dict kvs)
    | .error _ => do pure (.leaf (← scalarOfJson j))
  | _ => do pure (.leaf (← scalarOfJson j))

def envOfJson (j : Json) : Except String Env := do
  let es ← list j
  es.mapM (fun e => do
    let pr ← list e
    match pr with
    | [k, v] => do pure ((← str k).toList, (← rat v))
    | _ => throw "binding expected")

def resJson (r : Except Err Json) : Json :=
  match r with
  | .ok v => Json.mkObj [("v", v)]
  | .error e => Json.mkObj [("e", Json.str (errName e))]

def strList (j : Json) : Except String (List Str) := do
  let es ← list j
  es.mapM (fun e => do pure (← str e).toList)

def patchOfJson (j : Json) : Except String Patch := do
  let kind ← str (← field j "kind")
  match kind with
  | "arith" => do pure (Patch.arithmetic (← envOfJson (← field j "env")))
  | "string" => do pure (Patch.string (← strList (← field j "as_is")) (← strList (← field j "to_be")))
  | "kwext" => do pure (Patch.keywordExtend (← str (← field j "kw")).toList (← strList (← field j "exts")))
  | "other" => do pure ⟨← str (← field j "name"), fun d => .ok d⟩
  | _ => throw "patch kind"

def spec (fn : String) (j : Json) : Option (Except String Json) :=
  match fn with
  | "c15_eval" => some do
      let env ← envOfJson (← field j "env")
      let e ← str (← field j "expr")
      pure (resJson ((evaluateExpression env e).map ofRat))
  | "c15_parse" => some do
      let s ← str (← field j "expr")
      match parseExpr s with
      | .ok e =>
        let rt := match parseExpr (pretty e) with
          | .ok e' => decide (e' = e)
          | .error _ => false
        pure (Json.mkObj [("sexp", Json.str e.sexp), ("pretty", Json.str (pretty e)), ("wf", Json.bool e.wf),
          ("roundtrip", Json.bool rt)])
      | .error e => pure (Json.mkObj [("e", Json.str (errName e))])
  | "c15_template" => some do
      let s ← str (← field j "s")
      match templateBody s.toList with
      | some b => pure (Json.mkObj [("body", Json.str (String.ofList b))])
      | none => pure (Json.mkObj [("body", Json.null)])
  | "c15_apply" => some do
      let env ← envOfJson (← field j "env")
      let d ← docOfJson (← field j "doc")
      pure (Json.mkObj [("apply", resJson ((applyArith env d).map docToJson)),
        ("spec", resJson ((specDoc env d).map docToJson)), ("wf", Json.bool d.wf)])
  | "c15_interpret" => some do
      let d ← docOfJson (← field j "data")
      let kvs ← match d with
        | .dict kvs => pure kvs
        | _ => throw "data must be a dict"
      let names ← match (← field j "patch") with
        | .null => pure none
        | p => do pure (some (← (← list p).mapM str))
      let ign ← (← field j "ignore").getBool?
      let ps ← match (← field j "patches") with
        | .null => pure none
        | p => do pure (some (← (← list p).mapM patchOfJson))
      pure (resJson ((interpret ⟨kvs, names, ign⟩ ps).map docToJson))
  | "c15_spaces" => some do
      let hi ← (← field j "hi").getNat?
      pure (Json.arr ((List.range hi).filter (fun n => pyIsSpace (Char.ofNat n) && !(0xD800 ≤ n && n ≤ 0xDFFF))
        |>.map (fun (n : Nat) => Json.num (JsonNumber.fromNat n))).toArray)
  | "c15_replace" => some do
      let s ← str (← field j "s"); let o ← str (← field j "old"); let n ← str (← field j "new")
      pure (Json.str (String.ofList (pyReplace s.toList o.toList n.toList)))
  | _ => none

end Simaple.DrvSpec
