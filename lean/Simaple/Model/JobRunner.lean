import Std.Data.HashMap
import Simaple.Model.Router
import Simaple.Model.DrvComponent
import Simaple.Model.DrvComponentCommon
import Simaple.Model.DrvComponentMage
import Simaple.Model.DrvComponentMech
import Simaple.Model.DrvComponentWind
/-!
END-TO-END model of one job: the parametric engine of `Model/Engine.lean` INSTANTIATED with the router of
`Model/Router.lean` (`Simaple.Router.route`: installed component dispatchers in installation order, then the
timer), whose component dispatchers are `Simaple.Dispatch.dispatch` (Model/Dispatch.lean) around the class
reducers of the L2 component models (the `reducer` functions of `Model/DrvComponent*.lean`, called as they are).

What is instantiated (NOT restated): `Simaple.Dispatch.findMapping / dispatch / tagEvents / resolve` (the whole
dispatcher incl. bound names, default initialisation, write back, ACCEPT tagging), `Simaple.Router.timer / clockView`,
`Simaple.Engine.play / execOp / exec / reload / rollback`, and every class reducer.
What is RESTATED, with a proof of equality: `runCompC / runCompsC / routeC` are `Simaple.Router.runComp / runComps /
route` with a hash table after every dispatch (`routeC_eq_route`, Proofs/JobRunner.lean); they exist only because the
compiled code of the function store is exponentially slow along a chain of dispatches (see the section below).
What this file adds:
  * entities are JSON values (`ε := Lean.Json`, the encodings of the component drivers); the store is the function
    store `Simaple.Dispatch.Store Json`;
  * the job description (`CompDesc`, read off the real built engine by harness/jobmodel.py);
  * the adapter class reducer ↦ dispatcher reducer: state from the bound names, payload translation, events
    rebuilt from the reducer event shapes the way `NamedEventProvider` builds them (canonical payload text);
  * the two non-component cells of the store as JSON: `global.time` (`clockCodec`) and `.previous_callbacks`
    (`encPending / decPending`);
  * a TOTAL router `routeT` (a Python exception = `route … = none` or a raising reducer becomes a distinguished
    `#error` event; on error-free calls it is `route`, see Proofs/JobRunner.lean);
  * a guard `jobPlayG` around `play` for stores whose pending callbacks are not relays (unreachable; makes the
    clock law of the play function total) and `jobPlayC` = `jobPlayG` + a hash table over all addresses
    (`jobPlayC_eq`);
  * `fadd`: IEEE-754 double addition on rationals (one reducer of the shipped jobs accumulates a float).
JSON texts are built and read with `Lean.Json.compress / parse` (opaque to the kernel; no theorem depends on them).
No Mathlib.
-/
namespace Simaple.JobRunner
open Lean Simaple.J Simaple.Dispatch Simaple.Router Simaple.Engine Simaple.Comp

/-! ### the two non-component cells -/

def pendingAddr : String := ".previous_callbacks"
def dynamicsAddr : String := "global.dynamics"

def encRat (r : Rat) : Json := .arr #[.num ⟨r.num, 0⟩, .num ⟨(r.den : Int), 0⟩]
def decRat (j : Json) : Option Rat :=
  match j with
  | .arr a =>
    match a.toList with
    | [.num n, .num d] => some (mkRat n.mantissa d.mantissa.toNat)
    | _ => none
  | _ => none

/-- the `Clock` entity as JSON: `[numerator, denominator]` of `current_time` (ms) -/
def readClock (j : Json) : Rat := (decRat j).getD 0

def encPayload : Payload → Json
  | .none => .null
  | .num r => encRat r
  | .obj s => .str s
def decPayload : Json → Option Payload
  | .null => some .none
  | .str s => some (.obj s)
  | j => (decRat j).map .num

def encAction (a : Action) : Json := .arr #[.str a.name, .str a.method, encPayload a.payload]
def decAction (j : Json) : Option Action :=
  match j with
  | .arr a =>
    match a.toList with
    | [.str n, .str m, p] => (decPayload p).map (fun q => ⟨n, m, q⟩)
    | _ => none
  | _ => none

def encPair (p : Action × Action) : Json := .arr #[encAction p.1, encAction p.2]
def decPair (j : Json) : Option (Action × Action) :=
  match j with
  | .arr xs =>
    match xs.toList with
    | [a, b] =>
      match decAction a, decAction b with
      | some x, some y => some (x, y)
      | _, _ => none
    | _ => none
  | _ => none

/-- the `PreviousCallback` entity as JSON -/
def encPending (p : List (Action × Action)) : Json := .arr (p.map encPair).toArray
def decPending : Json → List (Action × Action)
  | .arr xs => xs.toList.filterMap decPair
  | _ => []

/-- `store.read_entity("previous_callbacks", default=PreviousCallback(events=[])).events` -/
def getPending (s : Store Json) : List (Action × Action) :=
  match s.get pendingAddr with | some j => decPending j | none => []
/-- `store.set_entity("previous_callbacks", PreviousCallback(events=p))` -/
def setPending (s : Store Json) (p : List (Action × Action)) : Store Json := s.set pendingAddr (encPending p)

/-! ### float addition (one place of the shipped jobs needs it: `CurrentField.stable_rng_counter += prob`) -/

def pow2 (e : Int) : Rat := if e ≥ 0 then ((2 ^ e.toNat : Nat) : Rat) else 1 / ((2 ^ (-e).toNat : Nat) : Rat)

def roundHalfEven (q : Rat) : Int :=
  let f := q.floor
  let r := q - (f : Rat)
  if r > 1 / 2 then f + 1 else if r < 1 / 2 then f else if f % 2 = 0 then f else f + 1

/-- the IEEE-754 double nearest to a rational (round half to even; normal range, no overflow) -/
def fround (x : Rat) : Rat :=
  if x = 0 then 0 else
  let a := if x < 0 then -x else x
  let k : Int := (Nat.log2 a.num.natAbs : Int) - (Nat.log2 a.den : Int)
  let e0 := k - 52
  let q0 := a / pow2 e0
  let e := if q0 ≥ pow2 53 then e0 + 1 else if q0 < pow2 52 then e0 - 1 else e0
  let m := roundHalfEven (a / pow2 e)
  let r := (m : Rat) * pow2 e
  if x < 0 then -r else r

/-- Python `a + b` on floats (both arguments are doubles) -/
def fadd (a b : Rat) : Rat := fround (a + b)

/-! ### the job description -/

/-- one installed component, as `Component.export_dispatcher()` built it -/
structure CompDesc where
  cls : String
  name : String
  /-- parameter block of the class model (harness: complib.params_of with the global dynamics) -/
  params : Json
  /-- `get_default_state()`: entity name ↦ entity -/
  defaults : List (String × Json)
  /-- `binds` (with `dynamics ↦ global.dynamics`, as `StoreAdapter.__init__` adds it) -/
  binds : List (String × String)
  /-- `reducer_mappings` in dict order: signature ↦ (method name, static payload text or null) -/
  mapping : List (String × String × Json)
  /-- `__reducers__` of the class -/
  reducers : List String
  /-- canonical text of `comp.modifier` (what `dealt` puts in the payload when the reducer passes none) -/
  defaultModifier : Json

def CompDesc.comp (d : CompDesc) : Comp Json := ⟨d.name, d.defaults, d.binds⟩
def CompDesc.keys (d : CompDesc) : List String := d.mapping.map (·.1)

/-! ### events: reducer event shapes ↦ dispatcher events (`NamedEventProvider`, `get_dot_add_event`) -/

def tagELAPSED : String := "global.elapsed"
def tagDAMAGE : String := "global.damage"
def tagKEYDOWN_END : String := "global.keydown_end"
def tagDOT : String := "global.dot"
def tagMOB : String := "global.mob"
def tagERROR : String := "#error"

def obj (kvs : List (String × Json)) : String := (Json.mkObj kvs).compress

/-- the event a reducer returns (before `tag_events_by_method_name`): `method = ""`, `handler = None` -/
def evOf (d : CompDesc) : REv → Ev
  | .elapsed t => ⟨d.name, "", tagELAPSED, "", obj [("time", ofInt t)]⟩
  | .rejected => ⟨d.name, "", tagREJECT, "", "{}"⟩
  | .delayed t => ⟨d.name, "", Engine.tagDELAY, "", obj [("time", ofInt t)]⟩
  | .dealt dm h => ⟨d.name, "", tagDAMAGE, "", obj [("damage", ofRat dm), ("hit", ofRat h), ("modifier", d.defaultModifier)]⟩
  | .dealtMod dm h m => ⟨d.name, "", tagDAMAGE, "", obj [("damage", ofRat dm), ("hit", ofRat h), ("modifier", .str m)]⟩
  | .keydownEnd => ⟨d.name, "", tagKEYDOWN_END, "", "{}"⟩
  | .addDot dm l => ⟨d.name, "add_dot", tagMOB, "", obj [("damage", ofRat dm), ("lasting_time", ofInt l), ("name", .str d.name)]⟩
  | .custom t p => ⟨d.name, "", t, "", p⟩

def errorEv (name m msg : String) : Ev := ⟨name, m, tagERROR, "", obj [("error", .str msg)]⟩

def getREv (j : Json) : Except String REv := do
  match ← list j with
  | [.str "elapsed", t] => pure (.elapsed (← int t))
  | [.str "rejected"] => pure .rejected
  | [.str "delayed", t] => pure (.delayed (← int t))
  | [.str "dealt", d, h] => pure (.dealt (← rat d) (← rat h))
  | [.str "keydown_end"] => pure .keydownEnd
  | [.str "add_dot", d, l] => pure (.addDot (← rat d) (← int l))
  | [.str "dealt_mod", d, h, .str m] => pure (.dealtMod (← rat d) (← rat h) m)
  | [.str "custom", .str t, .str p] => pure (.custom t p)
  | _ => throw s!"event shape {j.compress}"

/-! ### the class reducers (the L2 models, through their JSON drivers) -/

def classReducer (cls m : String) (p s payload : Json) : Except String Json :=
  if DrvComponent.modelledClasses.contains cls then DrvComponent.reducer cls m p s payload
  else if DrvComponentCommon.modelledClasses.contains cls then DrvComponentCommon.reducer cls m p s payload
  else if DrvComponentMage.modelledClasses.contains cls then DrvComponentMage.reducer cls m p s payload
  else if DrvComponentMech.modelledClasses.contains cls then DrvComponentMech.reducer cls m p s payload
  else if DrvComponentWind.modelledClasses.contains cls then DrvComponentWind.reducer cls m p s payload
  else throw s!"class {cls} is not modelled"

def fieldsOf (j : Json) : Except String (List (String × Json)) :=
  match j with
  | .obj kvs => pure (kvs.foldr (fun k v acc => (k, v) :: acc) [])
  | _ => throw "state object expected"

def setField (j : Json) (k : String) (v : Json) : Json :=
  match j with
  | .obj kvs => .obj (kvs.insert k v)
  | _ => j

/-- parameters that the real code computes with FLOAT arithmetic from the current state:
    `ChainLightningVIComponent.use` → `CurrentField.stack_rng`: `stable_rng_counter += electric_current_prob`
    is a double addition; the class model adds `prob` exactly, so `prob` is the increment the double addition
    realises on this state (`fadd counter prob − counter`; equals `prob` whenever the addition is exact) -/
def paramsAt (d : CompDesc) (state : Json) : Json :=
  if d.cls = "ChainLightningVIComponent" then
    match (do
      let prob ← rat (← field d.params "prob")
      let c ← rat (← field (← field state "current_fields") "stable_rng_counter")
      pure (fadd c prob - c) : Except String Rat) with
    | .ok pe => setField d.params "prob" (ofRat pe)
    | .error _ => d.params
  else d.params

/-- one reducer call of the class on the state object; answers the returned state fields and events.
    `MobComponent.elapse` answers DOT ticks named after the DOT (not after the mob), which the reducer event
    shapes cannot carry: there the class model `Simaple.Comp.Mob.elapse` is called directly. -/
def callClass (d : CompDesc) (m : String) (payload state : Json) : Except String (List (String × Json) × List Ev) := do
  if d.cls = "MobComponent" ∧ m = "elapse" then
    let st ← DrvEntity.getDot (← field state "dot")
    if ¬ st.WF then throw "DOT.WF"
    let r := Mob.elapse st (← int payload)
    pure ([("dot", DrvEntity.dotJson r.1)],
          r.2.map (fun e => ⟨e.1.1, "", tagDOT, "", obj [("damage", ofRat e.1.2), ("hit", ofRat (e.2 : Nat))]⟩))
  else
    let r ← classReducer d.cls m (paramsAt d state) state payload
    match r.getObjVal? "raise" with
    | .ok e => throw s!"raise {e.compress}"
    | .error _ =>
      let fields ← fieldsOf (← field r "state")
      let evs ← (← list (← field r "events")).mapM getREv
      pure (fields, evs.map (evOf d))

/-- `ComponentMethodWrapper.translate_payload` + the encoding the class drivers expect:
    `None` ↦ the static payload if there is one; a number (ms) ↦ grid units; a dict ↦ the object
    (`HommingMissile.pause(payload: DelayPayload)` ↦ its `time`) -/
def payloadFor (d : CompDesc) (m : String) (static : Json) (p : Payload) : Except String Json :=
  let conv (j : Json) : Except String Json :=
    if d.cls = "HommingMissile" ∧ m = "pause" then field j "time" else pure j
  match p with
  | .none => if static.isNull then pure .null else do conv (← Json.parse (← str static))
  | .num r => let u := r * 1024; if u.den = 1 then pure (ofInt u.num) else throw s!"off grid {Simaple.Py.showRat r}"
  | .obj s => do conv (← Json.parse s)

/-- the reducer handed to `Simaple.Dispatch.dispatch`: total; a Python exception (or anything the class
    driver refuses) leaves the state as it is and answers one `#error` event -/
def runReducer (d : CompDesc) (m : String) (payload : Except String Json) (st : List (String × Json)) :
    List (String × Json) × List Ev :=
  match (do
      let pl ← payload
      if !d.reducers.contains m then throw s!"no reducer {d.cls}.{m}"
      callClass d m pl (Json.mkObj st) : Except String (List (String × Json) × List Ev)) with
  | .ok r => r
  | .error e => (st, [errorEv d.name m e])

/-- the installed dispatcher of one component (`includes` = `findMapping ≠ none`) -/
def compDisp (d : CompDesc) : CompDisp Json :=
  { comp := d.comp,
    handle := fun a =>
      match findMapping d.keys (signature a.name a.method) with
      | none => none
      | some key =>
        match d.mapping.find? (fun e => e.1 == key) with
        | none => none
        | some (_, m, static) => some (m, runReducer d m (payloadFor d m static a.payload)) }

/-! ### the router of the job, total -/

def clockCodec : ClockCodec Json :=
  { read := readClock, make := encRat,
    read_make := by
      intro t
      simp [readClock, encRat, decRat, Rat.mkRat_self] }

/-- `payload["time"]` of an event, in ms (payload times are grid units) -/
def timeOf (payload : String) : Option Rat :=
  if payload == "{}" then none else
  match (do int (← field (← Json.parse payload) "time") : Except String Int) with
  | .ok t => some ((t : Rat) / 1024)
  | .error _ => none

def toEvent (e : Ev) : Event := ⟨e.name, e.method, e.tag, e.handler, e.payload, timeOf e.payload⟩

/-! #### speed: stores answered from hash tables
The function store of `Model/Dispatch.lean` is a closure; the compiled code of a definition that RETURNS a store
re-runs its body at every lookup (`initDefaults`, `setState`, `timer`, … are compiled with the address as one more
argument), which nests exponentially along a chain of dispatches.  So after every dispatch the addresses it may
have written (its bound addresses) are read once into a hash table that answers them from then on, falling back
to the store before the dispatch.  `runCompC / runCompsC / routeC` are `Simaple.Router.runComp / runComps / route`
with these tables in between — and EQUAL to them (`routeC_eq_route`, Proofs/JobRunner.lean, by the dispatcher
frame theorem of C08).  The tables are built inside definitions that return pairs, so they are built once. -/

def tableOf (addrs : List String) (s : Store Json) : Std.HashMap String (Option Json) :=
  addrs.foldl (fun hm k => hm.insert k (s k)) {}

/-- answer from the table where it has an entry, else from `base` -/
def lookupIn (hm : Std.HashMap String (Option Json)) (base : Store Json) : Store Json :=
  fun a => match hm[a]? with | some v => v | none => base a

def runCompC (d : CompDisp Json) (a : Action) (s : Store Json) : Option (Store Json × List Ev) :=
  match d.handle a with
  | none => some (s, [])
  | some (m, r) =>
    match dispatch d.comp m r s with
    | none => none
    | some x =>
      let hm := tableOf d.comp.boundAddrs x.1
      some (lookupIn hm s, x.2)

def runCompsC : List (CompDisp Json) → Action → Store Json → Option (Store Json × List Ev)
  | [], _, s => some (s, [])
  | d :: ds, a, s =>
    match runCompC d a s with
    | none => none
    | some r1 =>
      match runCompsC ds a r1.1 with
      | none => none
      | some r2 => some (r2.1, r1.2 ++ r2.2)

def routeC (ds : List (CompDisp Json)) (a : Action) (s : Store Json) : Option (Store Json × List Ev) :=
  match runCompsC ds a s with
  | none => none
  | some r =>
    if a.name = "*" ∧ a.method = "elapse" then
      let hm := tableOf [clockAddr] (timer clockCodec a r.1)
      some (lookupIn hm r.1, r.2)
    else some (r.1, r.2)

/-- `RouterDispatcher.__call__` as a total function: on a Python exception (`route … = none`: a bound entity
    does not exist) the components leave the store alone, the timer still runs and one `#error` event is
    answered.  (`routeC = Simaple.Router.route clockCodec`.) -/
def routeT (ds : List (CompDisp Json)) (a : Action) (s : Store Json) : Store Json × List Event :=
  match routeC ds a s with
  | some r => (r.1, r.2.map toEvent)
  | none => (timer clockCodec a s, [toEvent (errorEv a.name a.method "ValueError: no entity exists")])

def clock (s : Store Json) : Rat := clockView clockCodec s

/-- `play(store, action, router)` of this job: the EXISTING `Simaple.Engine.play` on `routeT` -/
def jobPlay (ds : List (CompDisp Json)) (s : Store Json) (a : Action) : Store Json × List Event :=
  play (routeT ds) getPending setPending s a

/-- callbacks are relays (`….emitted.…` / `….done.…`), never `*.elapse` -/
def relayOnly (p : Action × Action) : Bool := decide (elapseOf p.1 = 0) && decide (elapseOf p.2 = 0)
def pendOk (s : Store Json) : Bool := (getPending s).all relayOnly

/-- `jobPlay`, guarded: on a store whose `previous_callbacks` hold a `*.elapse` action (unreachable: the cell is
    only ever written by `play`, with callbacks derived from events) one `#error` event is answered -/
def jobPlayG (ds : List (CompDisp Json)) (a : Action) (s : Store Json) : Store Json × List Event :=
  if pendOk s then jobPlay ds s a
  else (timer clockCodec a s, [toEvent (errorEv a.name a.method "previous_callbacks hold an elapse action")])

/-- what the driver runs: `jobPlayG`, then every address of the job is read once into a hash table
    (equal to `jobPlayG`: `jobPlayC_eq`, Proofs/JobRunner.lean) -/
def jobPlayC (keys : List String) (ds : List (CompDisp Json)) (a : Action) (s : Store Json) : Store Json × List Event :=
  let r := jobPlayG ds a s
  let hm := tableOf keys r.1
  (lookupIn hm r.1, r.2)

/-! ### the engine of the job: `Simaple.Engine` instantiated (`save = load = id`) -/

def jobView (_ : Store Json) (_ : String) : String := "#console"
def jobHash (l : OpLog (Store Json)) : String := l.prev ++ "|" ++ l.command.expr

abbrev JobEngine := Engine (Store Json) (Store Json)

def jobInit (st : Store Json) : JobEngine := initEngine id st

def jobExec (P : Action → Store Json → Store Json × List Event) (t0 : Store Json) (e : JobEngine) (c : Engine.Command) : JobEngine :=
  exec P id id clock jobView jobHash t0 e c

/-- the static condition of C06: no component is bound to `global.time` -/
def noClockBind (ds : List (CompDisp Json)) : Bool := ds.all (fun d => !d.comp.boundAddrs.contains clockAddr)

/-- every address the job can read or write -/
def addressesOf (descs : List CompDesc) (initKeys : List String) : List String :=
  (initKeys ++ [clockAddr, dynamicsAddr, pendingAddr] ++ descs.flatMap (fun d => d.comp.boundAddrs)).eraseDups

end Simaple.JobRunner
