import Simaple.Gen.Core
import Simaple.Gen.Systems
import Simaple.Model.Optimizer
/-!
# The four concrete step-wise optimizer targets (C19)

Hand-written, Mathlib-free, executable.  Follows, statement by statement,

* `simaple/system/hyperstat.py`   (`Hyperstat`)
* `simaple/system/union.py`       (`UnionBlock`, `UnionSquad`, `UnionOccupation`)
* `simaple/system/link.py`        (`LinkSkill`, `LinkSkillset`)
* `simaple/data/system/{hyperstat,union_block,link}.py` (the KMS prototypes)
* `get_cost` / `get_value` of `HyperstatTarget`, `UnionSquadTarget`, `UnionOccupationTarget`,
  `LinkSkillTarget` (`simaple/optimizer/*_optimizer.py`)

over the GENERATED data `Simaple.Gen.Systems` (tables, `get_maximum_cost_from_level`, the `maximum_step`
each target passes on) and the GENERATED stat arithmetic and damage factors `Simaple.Gen` (Gen/Core.lean).

Python floats are exact rationals, Python ints are `Int`/`Nat`; a state is one `Nat` per slot
(`Simaple.Optimizer.State`).  An exception (`AssertionError` of `get_level_rearranged` /
`get_occupation_rearranged`, `IndexError` of a table lookup) is `none`.
-/
namespace Simaple.Targets
open Simaple.Gen Simaple.Optimizer

/-! ## damage logics (`default_stat`, `damage_logic`, `armor` of a target) -/

/-- the five `DamageLogic` classes of `simaple/core/damage.py` -/
inductive Logic where
  | str (l : STRBasedDamageLogic)
  | int (l : INTBasedDamageLogic)
  | dex (l : DEXBasedDamageLogic)
  | luk (l : LUKBasedDamageLogic)
  | lukDual (l : LUKBasedDualSubDamageLogic)
  deriving DecidableEq, Repr

/-- `damage_logic.get_damage_factor(stat, armor=armor)` (generated bodies) -/
def Logic.get_damage_factor : Logic → Stat → Rat → Rat
  | .str l, s, a => l.get_damage_factor s a
  | .int l, s, a => l.get_damage_factor s a
  | .dex l, s, a => l.get_damage_factor s a
  | .luk l, s, a => l.get_damage_factor s a
  | .lukDual l, s, a => l.get_damage_factor s a

/-- what every target stores besides its prototype: `default_stat`, `damage_logic`, `armor` (default 300) -/
structure Config where
  default_stat : Stat
  damage_logic : Logic
  armor : Rat := 300
  deriving Repr

/-- the tail of every `get_value`:
    `self.damage_logic.get_damage_factor(self.default_stat + <system stat>, armor=self.armor)` -/
def Config.value (c : Config) (system_stat : Stat) : Rat :=
  c.damage_logic.get_damage_factor (c.default_stat.add system_stat) c.armor

/-! ## Python list idioms -/

/-- `sum(xs)` over ints: left fold from 0 -/
def pySumInt (xs : List Int) : Int := xs.foldl (· + ·) 0

/-- `sum(xs, Stat())`: left fold of `Stat.__add__` from `Stat()` -/
def pySumStat (xs : List Stat) : Stat := xs.foldl Stat.add Stat.zero

/-- `[table[i] for table, i in zip(tables, idx)]`; `none` = `IndexError` of the first failing lookup -/
def lookupAll {α : Type} : List (List α) → List Nat → Option (List α)
  | t :: ts, i :: is =>
    match t[i]? with
    | none => none
    | some x => (lookupAll ts is).map (x :: ·)
  | _, _ => some []

/-- `[x for enabled, x in zip(mask, xs) if enabled]` (an int is truthy iff it is not 0) -/
def masked {α : Type} : List Nat → List α → List α
  | m :: ms, x :: xs => if m ≠ 0 then x :: masked ms xs else masked ms xs
  | _, _ => []

/-- `stat = Stat(); for … : stat += <next>` where each `<next>` may raise (`none`): the first failure aborts -/
def accumulate : Stat → List (Option Stat) → Option Stat
  | acc, [] => some acc
  | _, none :: _ => none
  | acc, some x :: rest => accumulate (acc.iadd x) rest

/-! ## `simaple/system/hyperstat.py` -/

structure Hyperstat where
  options : List (String × List Stat)
  cost : List Int
  levels : List Nat

/-- `length()` -/
def Hyperstat.length (h : Hyperstat) : Nat := h.options.length

/-- `get_cost_for_level(level)`: `sum(self.cost[:level])` -/
def Hyperstat.get_cost_for_level (h : Hyperstat) (level : Nat) : Int := pySumInt (h.cost.take level)

/-- `get_current_cost()`: `sum(self.get_cost_for_level(lv) for lv in self.levels)` -/
def Hyperstat.get_current_cost (h : Hyperstat) : Int := pySumInt (h.levels.map h.get_cost_for_level)

/-- `get_stat()`: `sum([option[lv] for (_, option), lv in zip(self.options, self.levels)], Stat())` -/
def Hyperstat.get_stat (h : Hyperstat) : Option Stat :=
  (lookupAll (h.options.map (·.2)) h.levels).map pySumStat

/-- `get_level_rearranged(levels)`: `assert len(levels) == self.length()` -/
def Hyperstat.get_level_rearranged (h : Hyperstat) (levels : List Nat) : Option Hyperstat :=
  if levels.length = h.length then some { h with levels := levels } else none

/-- `Hyperstat.get_maximum_cost_from_level(character_level)` (generated from the source) -/
def Hyperstat.get_maximum_cost_from_level (character_level : Int) : Int :=
  Systems.Hyperstat.get_maximum_cost_from_level character_level

/-- `get_kms_hyperstat()` -/
def kmsHyperstat : Hyperstat :=
  { options := Systems.hyperstat_options, cost := Systems.hyperstat_cost,
    levels := List.replicate Systems.hyperstat_options.length 0 }

/-! ## `simaple/system/union.py` -/

structure UnionBlock where
  job : String
  options : List Stat
  action_stat_options : List ActionStat

/-- `UnionBlock.get_stat(size)`; `none` = `IndexError` -/
def UnionBlock.get_stat (b : UnionBlock) (size : Nat) : Option Stat :=
  if size = 0 then some Stat.zero else b.options[size - 1]?

structure UnionSquad where
  block_size : List Nat
  blocks : List UnionBlock

def UnionSquad.length (u : UnionSquad) : Nat := u.blocks.length

/-- `get_index(jobtype)`; `none` = `KeyError` -/
def UnionSquad.get_index (u : UnionSquad) (job : String) : Option Nat := u.blocks.findIdx? (·.job == job)

/-- `get_masked(mask)` -/
def UnionSquad.get_masked (u : UnionSquad) (mask : List Nat) : UnionSquad :=
  { block_size := masked mask u.block_size, blocks := masked mask u.blocks }

/-- the body of the first loop of `UnionSquad.get_stat`, on the insertion-ordered dict `unique_stats`:

        if block.job not in unique_stats: unique_stats[block.job] = (block, size)
        if size > unique_stats[block.job][1]: unique_stats[block.job] = (block, size)

    (assigning to an existing key keeps its position) -/
def UnionSquad.uniqueStep (u : List (String × UnionBlock × Nat)) (p : UnionBlock × Nat) :
    List (String × UnionBlock × Nat) :=
  let u := if u.any (·.1 == p.1.job) then u else u ++ [(p.1.job, p.1, p.2)]
  u.map fun e => if e.1 == p.1.job && p.2 > e.2.2 then (p.1.job, p.1, p.2) else e

/-- `UnionSquad.get_stat()`: the largest block of every job counts once -/
def UnionSquad.get_stat (u : UnionSquad) : Option Stat :=
  let unique_stats := (u.blocks.zip u.block_size).foldl UnionSquad.uniqueStep []
  accumulate Stat.zero (unique_stats.map fun e => e.2.1.get_stat e.2.2)

/-- `get_occupation_count()` -/
def UnionSquad.get_occupation_count (u : UnionSquad) : Nat := u.block_size.sum

/-- `get_all_blocks()` of `simaple/data/system/union_block.py` -/
def allBlocks : List UnionBlock := Systems.union_blocks.map fun b => ⟨b.1, b.2.1, b.2.2⟩

/-- `create_with_some_large_blocks(large_block_jobs, default_size=4, large_size=5)` -/
def createWithSomeLargeBlocks (large_block_jobs : List String)
    (default_size : Nat := Systems.union_default_size) (large_size : Nat := Systems.union_large_size) :
    UnionSquad :=
  let blocks := allBlocks
  { block_size := blocks.map fun block => if large_block_jobs.contains block.job then large_size else default_size,
    blocks := blocks }

structure UnionOccupation where
  occupation_state : List Nat
  occupation_value : List (List (Stat × ActionStat))

def UnionOccupation.length (u : UnionOccupation) : Nat := u.occupation_value.length

/-- `get_occupation_rearranged(state)`: `assert len(state) == self.length()` -/
def UnionOccupation.get_occupation_rearranged (u : UnionOccupation) (state : List Nat) : Option UnionOccupation :=
  if state.length = u.length then some { u with occupation_state := state } else none

/-- `get_stat()`: `sum([value[occupation][0] for value, occupation in zip(…)], Stat())` -/
def UnionOccupation.get_stat (u : UnionOccupation) : Option Stat :=
  (lookupAll u.occupation_value u.occupation_state).map fun cells => pySumStat (cells.map (·.1))

/-- `UnionOccupation()` with its default factories -/
def defaultUnionOccupation : UnionOccupation :=
  { occupation_state := Systems.union_occupation_empty_state, occupation_value := Systems.union_occupation_values }

/-! ## `simaple/system/link.py` -/

structure LinkSkill where
  providing_jobs : List String
  options : List Stat
  name : String

/-- `LinkSkill.get_stat(size)`; `none` = `IndexError` -/
def LinkSkill.get_stat (l : LinkSkill) (size : Nat) : Option Stat :=
  if size = 0 then some Stat.zero else l.options[size - 1]?

def LinkSkill.get_max_level (l : LinkSkill) : Nat := l.options.length

structure LinkSkillset where
  link_levels : List Nat
  links : List LinkSkill

def LinkSkillset.length (l : LinkSkillset) : Nat := l.links.length

/-- `get_index(jobtype)`; `none` = `KeyError` -/
def LinkSkillset.get_index (l : LinkSkillset) (job : String) : Option Nat :=
  l.links.findIdx? (·.providing_jobs.contains job)

def LinkSkillset.get_masked (l : LinkSkillset) (mask : List Nat) : LinkSkillset :=
  { link_levels := masked mask l.link_levels, links := masked mask l.links }

/-- `get_stat()`: `for block, size in zip(self.links, self.link_levels): stat += block.get_stat(size)` -/
def LinkSkillset.get_stat (l : LinkSkillset) : Option Stat :=
  accumulate Stat.zero ((l.links.zip l.link_levels).map fun p => p.1.get_stat p.2)

/-- `get_all_linkskills()` -/
def allLinkSkills : List LinkSkill := Systems.link_skills.map fun l => ⟨l.2.1, l.2.2, l.1⟩

/-- `get_kms_link_skill_set()`: every link at its maximum level -/
def kmsLinkSkillset : LinkSkillset :=
  { link_levels := allLinkSkills.map LinkSkill.get_max_level, links := allLinkSkills }

/-! ## the four targets: `get_cost`, `get_value`, `maximum_step` -/

/-- the class name of a target kind -/
def className : Kind → String
  | .hyperstat => "HyperstatTarget"
  | .unionSquad => "UnionSquadTarget"
  | .unionOccupation => "UnionOccupationTarget"
  | .linkSkill => "LinkSkillTarget"

/-- `self.maximum_step`, as generated from the `super().__init__(…)` call of each target -/
def maximumStep (k : Kind) : Nat :=
  match Systems.target_maximum_step.lookup (className k) with
  | some m => m
  | none => Systems.NO_MAXIMUM_STEP

namespace HyperstatTarget
/-- `get_cost()`: `self._get_hyperstat().get_current_cost()` -/
def get_cost (proto : Hyperstat) (state : State) : Option Int :=
  (proto.get_level_rearranged state).map Hyperstat.get_current_cost
/-- `get_value()` -/
def get_value (c : Config) (proto : Hyperstat) (state : State) : Option Rat :=
  match proto.get_level_rearranged state with
  | none => none
  | some h => h.get_stat.map c.value
end HyperstatTarget

namespace UnionSquadTarget
/-- `get_cost()`: `sum(self.state)` -/
def get_cost (state : State) : Nat := state.sum
/-- `get_value()` -/
def get_value (c : Config) (squad : UnionSquad) (state : State) : Option Rat :=
  (squad.get_masked state).get_stat.map c.value
end UnionSquadTarget

namespace UnionOccupationTarget
/-- `get_cost()`: `sum(self.state)` (does not go through the prototype: no assertion) -/
def get_cost (state : State) : Nat := state.sum
/-- `get_value()` -/
def get_value (c : Config) (proto : UnionOccupation) (state : State) : Option Rat :=
  match proto.get_occupation_rearranged state with
  | none => none
  | some u => u.get_stat.map c.value
end UnionOccupationTarget

namespace LinkSkillTarget
/-- `get_cost()`: `sum(self.state)` -/
def get_cost (state : State) : Nat := state.sum
/-- `get_value()` -/
def get_value (c : Config) (links : LinkSkillset) (state : State) : Option Rat :=
  (links.get_masked state).get_stat.map c.value
end LinkSkillTarget

/-! ## the optimisation problems `StepwizeOptimizer(target, maximum_cost, step_size)` solves

`Problem.cost` / `Problem.value` are total; where the target would raise (a state of the wrong length, a
level past the end of a table) they answer 0.  `Props/C19_Targets.lean` shows that the optimizer never
asks there (`*_value_defined_*`). -/

def optOr0 (x : Option Rat) : Rat := match x with | some v => v | none => 0

def hyperstatProblem (c : Config) (budget : Rat) (stepSize : Nat := 1) (maxIter : Nat := 999)
    (proto : Hyperstat := kmsHyperstat) : Problem :=
  { n := proto.length, maxStep := maximumStep .hyperstat, stepSize, maxIter, budget,
    cost := fun s => optOr0 ((HyperstatTarget.get_cost proto s).map fun i => (i : Rat)),
    value := fun s => optOr0 (HyperstatTarget.get_value c proto s) }

def unionSquadProblem (c : Config) (squad : UnionSquad) (budget : Rat) (stepSize : Nat := 1)
    (maxIter : Nat := 999) : Problem :=
  { n := squad.length, maxStep := maximumStep .unionSquad, stepSize, maxIter, budget,
    cost := fun s => (UnionSquadTarget.get_cost s : Nat),
    value := fun s => optOr0 (UnionSquadTarget.get_value c squad s) }

def unionOccupationProblem (c : Config) (budget : Rat) (stepSize : Nat := 2) (maxIter : Nat := 999)
    (proto : UnionOccupation := defaultUnionOccupation) : Problem :=
  { n := proto.length, maxStep := maximumStep .unionOccupation, stepSize, maxIter, budget,
    cost := fun s => (UnionOccupationTarget.get_cost s : Nat),
    value := fun s => optOr0 (UnionOccupationTarget.get_value c proto s) }

def linkSkillProblem (c : Config) (budget : Rat) (stepSize : Nat := 1) (maxIter : Nat := 999)
    (links : LinkSkillset := kmsLinkSkillset) : Problem :=
  { n := links.length, maxStep := maximumStep .linkSkill, stepSize, maxIter, budget,
    cost := fun s => (LinkSkillTarget.get_cost s : Nat),
    value := fun s => optOr0 (LinkSkillTarget.get_value c links s) }

end Simaple.Targets
