import Simaple.Model.Engine
import Simaple.Model.Dispatch
/-!
The router of one simulation over the function store of `Model/Dispatch.lean`: the installed component
dispatchers (each with its action ↦ reducer mapping already resolved) followed by the timer
(`timer_delay_dispatcher`, installed for the signature `*.elapse`, bound to `global.time`).
Core Lean only.
-/
namespace Simaple.Router
open Simaple.Dispatch Simaple.Engine

section
variable {ε : Type}

/-- an installed component dispatcher: the component (name, defaults, binds) and, for an action it
    includes, the method name and the reducer with the payload already applied -/
structure CompDisp (ε : Type) where
  comp : Comp ε
  handle : Action → Option (String × (List (String × ε) → List (String × ε) × List Ev))

/-- one component dispatcher on one action; `none` = a Python exception (missing bound entity) -/
def runComp (d : CompDisp ε) (a : Action) (s : Store ε) : Option (Store ε × List Ev) :=
  match d.handle a with
  | none => some (s, [])
  | some (m, r) => dispatch d.comp m r s

/-- all component dispatchers in installation order, threading the store, concatenating the events -/
def runComps : List (CompDisp ε) → Action → Store ε → Option (Store ε × List Ev)
  | [], _, s => some (s, [])
  | d :: ds, a, s =>
    match runComp d a s with
    | none => none
    | some r1 =>
      match runComps ds a r1.1 with
      | none => none
      | some r2 => some (r2.1, r1.2 ++ r2.2)

def clockAddr : String := "global.time"

/-- the clock entity inside the entity type: read the time, build a clock entity -/
structure ClockCodec (ε : Type) where
  read : ε → Rat
  make : Rat → ε
  read_make : ∀ t, read (make t) = t

/-- `timer_delay_dispatcher`: for `*.elapse` add the payload to `global.time` (default `Clock()` = 0) -/
def timer (cc : ClockCodec ε) (a : Action) (s : Store ε) : Store ε :=
  if a.name = "*" ∧ a.method = "elapse" then
    let cur := match s.get clockAddr with | some e => cc.read e | none => 0
    s.set clockAddr (cc.make (cur + elapseOf a))
  else s

/-- the clock view: `store.read_entity("global.time", Clock()).current_time` -/
def clockView (cc : ClockCodec ε) (s : Store ε) : Rat :=
  match s.get clockAddr with | some e => cc.read e | none => 0

/-- the router: components, then the timer (the timer emits no events) -/
def route (cc : ClockCodec ε) (ds : List (CompDisp ε)) (a : Action) (s : Store ε) : Option (Store ε × List Ev) :=
  match runComps ds a s with
  | none => none
  | some r => some (timer cc a r.1, r.2)

end
end Simaple.Router
