import Simaple.Model.JsonUtil
import Simaple.Model.Bonus
/-! driver entry points for the bonus-option model (C18) -/
namespace Simaple.Drv
open Lean Simaple.J Simaple.Bonus

namespace BonusJ

def kindNames : List (String × Kind) :=
  [("all_stat_multiplier", .allstat), ("STR", .str), ("DEX", .dex), ("INT", .int), ("LUK", .luk),
   ("STR_DEX", .strDex), ("STR_INT", .strInt), ("STR_LUK", .strLuk), ("DEX_INT", .dexInt),
   ("DEX_LUK", .dexLuk), ("INT_LUK", .intLuk), ("MMP", .mmp), ("MHP", .mhp),
   ("magic_attack", .matt), ("attack_power", .att), ("boss_damage_multiplier", .boss),
   ("damage_multiplier", .dmg)]

def kindOf (s : String) : Except String Kind :=
  match kindNames.find? (·.1 == s) with
  | some p => pure p.2
  | none => throw s!"unknown bonus kind {s}"

def nameOf (k : Kind) : String :=
  match kindNames.find? (·.2 == k) with
  | some p => p.1
  | none => "?"

def getBool (j : Json) : Except String Bool := j.getBool?

def getMeta (j : Json) : Except String Meta := do
  let wc ← match (← str (← field j "wclass")) with
    | "notWeapon" => pure WClass.notWeapon
    | "weapon" => pure WClass.weapon
    | "swordZB" => pure WClass.swordZB
    | "swordZL" => pure WClass.swordZL
    | s => throw s!"wclass {s}"
  pure { reqLevel := ← int (← field j "req_level"), bossReward := ← getBool (← field j "boss"),
         wclass := wc, baseAtt := ← int (← field j "base_att"), baseMatt := ← int (← field j "base_matt") }

def getV4 (l : List Int) : Except String V4 :=
  match l with
  | [a, b, c, d] => pure ⟨a, b, c, d⟩
  | _ => throw "V4: four ints expected"

/-- [STR, DEX, INT, LUK, STR_m, DEX_m, INT_m, LUK_m, MHP, MMP, att, matt, boss, dmg] -/
def getObs (j : Json) : Except String Obs := do
  match (← intList j) with
  | [a, b, c, d, e, f, g, h, mhp, mmp, att, matt, boss, dmg] =>
    pure ⟨⟨a, b, c, d⟩, ⟨e, f, g, h⟩, mhp, mmp, att, matt, boss, dmg⟩
  | _ => throw "Obs: 14 ints expected"

def ofV4 (v : V4) : List Int := [v.s, v.d, v.i, v.l]
def ofObs (o : Obs) : Json :=
  ofInts (ofV4 o.sdil ++ ofV4 o.mul ++ [o.mhp, o.mmp, o.att, o.matt, o.boss, o.dmg])
def ofOpt (o : Opt) : Json := Json.arr #[.str (nameOf o.1), ofInt o.2]
def ofOpts (l : List Opt) : Json := Json.arr (l.map ofOpt).toArray
def ofOptRes (r : Option (List Opt)) : Json :=
  match r with
  | some l => Json.mkObj [("some", ofOpts l)]
  | none => Json.mkObj [("none", Json.null)]

def getOpts (j : Json) : Except String (List Opt) := do
  (← list j).mapM fun o => do
    match (← list o) with
    | [k, g] => pure ((← kindOf (← str k)), (← int g))
    | _ => throw "option: [kind, grade] expected"

end BonusJ
open BonusJ

def bonus (fn : String) (j : Json) : Option (Except String Json) :=
  match fn with
  | "bonus_improve" => some do
      let m ← getMeta (← field j "meta")
      let k ← kindOf (← str (← field j "kind"))
      let g ← int (← field j "grade")
      match improveChecked m k g with
      | .ok o => pure (Json.mkObj [("value", ofObs o)])
      | .error e => pure (Json.mkObj [("raises", .str e)])
  | "bonus_sum" => some do
      let m ← getMeta (← field j "meta")
      pure (ofObs (sumImprove m (← getOpts (← field j "opts"))))
  | "bonus_compute" => some do
      let m ← getMeta (← field j "meta")
      let o ← getObs (← field j "obs")
      match compute m o with
      | .ok l => pure (Json.mkObj [("value", ofOpts l)])
      | .error e => pure (Json.mkObj [("raises", .str e)])
  | "bonus_search" => some do
      let m ← getMeta (← field j "meta")
      let t ← getV4 (← intList (← field j "target"))
      let left ← int (← field j "left")
      pure (ofOptRes (searchBonus m t left.toNat))
  | "bonus_search_recursive" => some do
      let m ← getMeta (← field j "meta")
      let t ← getV4 (← intList (← field j "target"))
      let left ← int (← field j "left")
      let forb ← (← list (← field j "forbidden")).mapM (fun x => do kindOf (← str x))
      pure (ofOptRes (searchRec m left.toNat t forb))
  | "bonus_cand_table" => some do
      pure (Json.arr (candLookup.map (fun l => Json.arr (l.map (fun k => Json.str (nameOf k))).toArray)).toArray)
  | "bonus_decompose" => some do
      let gs ← intList (← field j "grades")
      let left ← int (← field j "left")
      let r := decompose gs left.toNat (← int (← field j "sb")) (← int (← field j "db")) (← int (← field j "max"))
      pure (Json.arr (r.map (fun x => Json.arr #[ofInt x.1,
        match x.2 with | none => Json.null | some t => ofInts t])).toArray)
  | "bonus_table" => some do
      let m ← getMeta (← field j "meta")
      pure (Json.arr (statTypes.map (fun t => Json.arr ((List.range 8).map
        (fun g => ofInts (ofV4 (lookup m t (g : Nat))))).toArray)).toArray)
  | _ => none

end Simaple.Drv
