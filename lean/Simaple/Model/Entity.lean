/-!
# Entities of `simaple.simulate.component` (hand model, import-free)

One structure per entity class of `/repo/simaple/simulate/component/entity.py`, the DOT tracker of
`common/mob.py` and the job-specific entities of `specific/*.py`, with every method as a pure function
that returns the new entity (and the Python return value / the yielded ticks where there is one).

## Numbers
* time values (`time_left`, `interval`, `interval_counter`, durations, elapse amounts …) are `Int` in
  units of 2^-10 ms (`ms 1 = 1024`).  On that grid (below 2^53 units) Python's float `+`, `-`, `min`,
  `max` and comparisons are exact, so the `Int` operations below are exactly the float operations.
* counts / stacks are `Int` (Python `int`; `consume`/`decrease` may drive them negative).
* damage values and probabilities are opaque `Rat`.

## Names: Python `snake_case` -> Lean `camelCase`
`time_left`→`timeLeft`, `assigned_duration`→`assignedDuration`, `maximum_stack`→`maximumStack`,
`cooldown_duration`→`cooldownDuration`, `interval_counter`→`intervalCounter`,
`initial_counter`→`initialCounter`, `period_time_left`→`periodTimeLeft`, `running_swords`→`runningSwords`,
`count_interval_penalty`→`countIntervalPenalty`, `max_count`→`maxCount`, `field_periodics`→`fieldPeriodics`,
`field_interval`→`fieldInterval`, `field_duration`→`fieldDuration`, `last_force_triggered`→`lastForceTriggered`,
`force_trigger_interval`→`forceTriggerInterval`, `stable_rng_counter`→`stableRngCounter`,
`maximum_time_left`→`maximumTimeLeft`, `creation_step`→`creationStep`, `order_consume`→`orderConsume`,
`ether_multiplier`→`etherMultiplier`, `summon_increment`→`summonIncrement`,
`robot_damage_increment`→`robotDamageIncrement`, `current_time`→`currentTime`.
Methods: `set_time_left`→`setTimeLeft`, `get_elapsed_time`→`getElapsedTime`,
`minimum_time_to_available`→`minimumTimeToAvailable`, `reduce_by_rate`→`reduceByRate`,
`reduce_by_value`→`reduceByValue`, `get_stack`→`getStack`, `get_tick`→`getTick`,
`set_time_left_without_delay`→`setTimeLeftWithoutDelay`, `set_interval_counter`→`setIntervalCounter`,
`resolve_step`→`step`, `is_full`→`isFull`, `is_maximum`→`isMaximum`, `get_next_delay`→`getNextDelay`,
`get_value`/`set_value`→`getValue`/`setValue`, `get_time_left`→`getTimeLeft`, `add_running`→`addRunning`,
`get_sword_count`→`getSwordCount`, `stack_rng`→`stackRng`, `create_new_current`→`createNewCurrent`,
`create_nova`→`createNova`, `try_trigger_nova`→`tryTriggerNova`, `set_max_count`→`setMaxCount`,
`get_count`/`set_count`→`getCount`/`setCount`, `consume_mark`→`consumeMark`,
`get_creation_count`→`getCreationCount`, `is_order_valid`→`isOrderValid`, `decrease_order`→`decreaseOrder`,
`get_gain_rate`→`getGainRate`, `get_summon_multiplier`→`getSummonMultiplier`.

## Loops
Python `while` loops are modelled with fuel; each has a well-formedness predicate `WF` under which the
Python loop terminates and the fuel used is sufficient (proved in `Simaple/Proofs/Entity*.lean`):
* `Consumable.elapse`   — needs `0 < cooldown_duration` (Python loops forever otherwise once the timer hits 0);
* `Periodic.elapse`     — needs `0 < interval ∧ 0 < interval_counter` (pydantic `Field(gt=0)` on both);
* `Keydown.resolving`   — needs `0 < interval` (otherwise infinite generator while the key-down runs);
* `DOT.elapse`          — needs `0 < period ∧ 0 < period_time_left`;
* `ProgrammedPeriodic.resolving` — needs non-empty, positive `intervals`;
* `DynamicIntervalPeriodic.resolving` — needs `0 < interval ∧ 0 ≤ count_interval_penalty ∧ 0 ≤ count ∧ 0 ≤ max_count`;
* `OrderSword.resolving` — always terminates (bounded by `maximum_elapsed`); needs `interval ≠ 0` (division).
Generators (`resolving`) are modelled as exhausted by the caller (every caller iterates them to the end).
-/
namespace Simaple.Entity

/-- 1 ms in grid units -/
def unitsPerMs : Int := 1024
def ms (n : Int) : Int := n * unitsPerMs

/-! ### Python dict as association list (insertion order; overwriting keeps the position) -/
def dictSet {κ ν : Type} [BEq κ] : List (κ × ν) → κ → ν → List (κ × ν)
  | [], k, v => [(k, v)]
  | (k', v') :: rest, k, v => if k' == k then (k', v) :: rest else (k', v') :: dictSet rest k v

def dictGet {κ ν : Type} [BEq κ] : List (κ × ν) → κ → Option ν
  | [], _ => none
  | (k', v') :: rest, k => if k' == k then some v' else dictGet rest k

/-! ## Lasting -/
structure Lasting where
  timeLeft : Int
  assignedDuration : Int := 0
deriving Repr, DecidableEq, Inhabited

namespace Lasting
def enabled (s : Lasting) : Bool := decide (0 < s.timeLeft)
def elapse (s : Lasting) (time : Int) : Lasting := { s with timeLeft := s.timeLeft - time }
def setTimeLeft (_s : Lasting) (time : Int) : Lasting := { timeLeft := time, assignedDuration := time }
def getElapsedTime (s : Lasting) : Int := s.assignedDuration - s.timeLeft
end Lasting

/-! ## Cooldown -/
structure Cooldown where
  timeLeft : Int
deriving Repr, DecidableEq, Inhabited

namespace Cooldown
def available (s : Cooldown) : Bool := decide (s.timeLeft ≤ 0)
def elapse (s : Cooldown) (time : Int) : Cooldown := { timeLeft := s.timeLeft - time }
def setTimeLeft (_s : Cooldown) (time : Int) : Cooldown := { timeLeft := time }
/-- `max(0, time_left)` -/
def minimumTimeToAvailable (s : Cooldown) : Int := max 0 s.timeLeft
/-- `time_left *= 1 - rate`.  The product of a grid value and an arbitrary float is in general not a grid
    value (nor exact); the model answers only when the exact product lies on the grid. -/
def reduceByRate (s : Cooldown) (rate : Rat) : Option Cooldown :=
  let r : Rat := (s.timeLeft : Rat) * (1 - rate)
  if r.den = 1 then some { timeLeft := r.num } else none
def reduceByValue (s : Cooldown) (time : Int) : Cooldown := { timeLeft := s.timeLeft - time }
end Cooldown

/-! ## Consumable ("stackable cooldown") -/
structure Consumable where
  maximumStack : Int
  stack : Int
  cooldownDuration : Int
  timeLeft : Int
deriving Repr, DecidableEq, Inhabited

namespace Consumable
def available (s : Consumable) : Bool := decide (0 < s.stack)

/-- termination condition of the `while self.time_left <= 0` loop -/
def WF (s : Consumable) : Prop := 0 < s.cooldownDuration
instance (s : Consumable) : Decidable s.WF := by unfold WF; exact inferInstance

/-- one iteration of the loop body -/
def refillStep (s : Consumable) : Consumable :=
  { s with timeLeft := s.timeLeft + s.cooldownDuration, stack := min (s.stack + 1) s.maximumStack }

/-- `while self.time_left <= 0: …` with fuel -/
def refill : Nat → Consumable → Consumable
  | 0, s => s
  | n + 1, s => if s.timeLeft ≤ 0 then refill n s.refillStep else s

/-- fuel that suffices when `0 < cooldown_duration`: every iteration adds at least one unit -/
def refillFuel (s : Consumable) : Nat := (-s.timeLeft).toNat + 1

def elapse (s : Consumable) (time : Int) : Consumable :=
  let s1 := { s with timeLeft := s.timeLeft - time }
  let s2 := refill s1.refillFuel s1
  if s2.stack = s2.maximumStack then { s2 with timeLeft := s2.cooldownDuration } else s2

def getStack (s : Consumable) : Int := s.stack
def consume (s : Consumable) : Consumable := { s with stack := s.stack - 1 }
end Consumable

/-! ## Cycle -/
structure Cycle where
  tick : Int
  period : Int
deriving Repr, DecidableEq, Inhabited

namespace Cycle
/-- `tick = (tick + 1) % period` (Python `%`: sign of the divisor; `period = 0` raises ZeroDivisionError = `none`) -/
def step (s : Cycle) : Option Cycle :=
  if s.period = 0 then none else some { s with tick := Int.fmod (s.tick + 1) s.period }
def getTick (s : Cycle) : Int := s.tick
def clear (s : Cycle) : Cycle := { s with tick := 0 }
end Cycle

/-! ## Periodic (tick scheduler) -/
structure Periodic where
  interval : Int
  initialCounter : Option Int := none
  intervalCounter : Int := 999999999 * 1024
  timeLeft : Int := 0
  count : Int := 0
deriving Repr, DecidableEq, Inhabited

namespace Periodic

/-- returns the entity and the Python return value `1` -/
def setTimeLeftWithoutDelay (s : Periodic) (time : Int) : Periodic × Int :=
  ({ s with timeLeft := time, intervalCounter := s.interval, count := 1 }, 1)

/-- raises ValueError for `time <= 0` or a non-positive `initial_counter` -/
def setTimeLeft (s : Periodic) (time : Int) : Except String Periodic :=
  if time ≤ 0 then .error "ValueError: Given time may greater than 0"
  else match s.initialCounter with
    | some c =>
      if c ≤ 0 then .error "ValueError: Initial counter may greater than 0"
      else .ok { s with timeLeft := time, intervalCounter := c, count := 0 }
    | none => .ok { s with timeLeft := time, intervalCounter := s.interval, count := 0 }

def setIntervalCounter (s : Periodic) (counter : Int) : Periodic := { s with intervalCounter := counter }
def enabled (s : Periodic) : Bool := decide (0 < s.timeLeft)
def disable (s : Periodic) : Periodic := { s with timeLeft := 0 }

/-- `Periodic.resolve_step(state, time)`: the new state and the time still to resolve.
    Statement by statement: expired → `(state, 0)`; `m = min(counter, time_left, time)` is subtracted from
    all three; if `time_left` hits 0 the state is returned with the OLD `interval_counter` (the local copy
    is not written back — a stale value); if the counter hits 0 it is reloaded with `interval` and `count`
    goes up.  The `raise ValueError("Unexpected error")` branch needs `interval = 0`, which pydantic
    (`Field(gt=0)`) excludes; it is not modelled (see `WF`). -/
def step (s : Periodic) (t : Int) : Periodic × Int :=
  if s.timeLeft ≤ 0 then (s, 0) else
  let m := min s.intervalCounter (min s.timeLeft t)
  if s.timeLeft - m = 0 then ({ s with timeLeft := 0 }, 0) else
  if s.intervalCounter - m = 0 then
    ({ s with intervalCounter := s.interval, timeLeft := s.timeLeft - m, count := s.count + 1 }, t - m)
  else ({ s with intervalCounter := s.intervalCounter - m, timeLeft := s.timeLeft - m }, t - m)

/-- the pydantic field constraints `interval > 0`, `interval_counter > 0` -/
def WF (s : Periodic) : Prop := 0 < s.interval ∧ 0 < s.intervalCounter
instance (s : Periodic) : Decidable s.WF := by unfold WF; exact inferInstance

/-- `while time > 0: state, time = resolve_step(state, time)` with fuel -/
def run : Nat → Periodic → Int → Periodic
  | 0, s, _ => s
  | n+1, s, t => if t ≤ 0 then s else run n (s.step t).1 (s.step t).2

/-- the state after `elapse(time)`; fuel = the time in grid units (each step of a well-formed state
    consumes at least one unit) -/
def elapse (s : Periodic) (t : Int) : Periodic := run t.toNat s t

/-- the Python return value of `elapse`: `count` after − `count` before -/
def elapseCount (s : Periodic) (t : Int) : Int := (s.elapse t).count - s.count

def elapse' (s : Periodic) (t : Int) : Periodic × Int := (s.elapse t, s.elapseCount t)
end Periodic

/-! ## Stack (no time dependence) -/
structure Stack where
  stack : Int := 0
  maximumStack : Int
deriving Repr, DecidableEq, Inhabited

namespace Stack
def reset (s : Stack) (value : Int := 0) : Stack := { s with stack := value }
def increase (s : Stack) (value : Int := 1) : Stack := { s with stack := min s.maximumStack (s.stack + value) }
def isFull (s : Stack) : Bool := decide (s.stack = s.maximumStack)
def getStack (s : Stack) : Int := s.stack
def decrease (s : Stack) (value : Int := 1) : Stack := { s with stack := s.stack - value }
end Stack

/-! ## Integer -/
structure Integer where
  value : Int := 0
deriving Repr, DecidableEq, Inhabited

namespace Integer
def getValue (s : Integer) : Int := s.value
def setValue (_s : Integer) (value : Int) : Integer := { value := value }
end Integer

/-! ## LastingStack -/
structure LastingStack where
  stack : Int := 0
  maximumStack : Int
  duration : Int
  timeLeft : Int := 0
deriving Repr, DecidableEq, Inhabited

namespace LastingStack
def reset (s : LastingStack) : LastingStack := { s with stack := 0, timeLeft := 0 }
def enabled (s : LastingStack) : Bool := decide (0 < s.timeLeft)
def increase (s : LastingStack) (value : Int := 1) : LastingStack :=
  { s with stack := min s.maximumStack (s.stack + value), timeLeft := s.duration }
def getStack (s : LastingStack) : Int := s.stack
def decrease (s : LastingStack) (value : Int := 1) : LastingStack := { s with stack := s.stack - value }
/-- note the strict `<`: a timer that lands exactly on 0 keeps its stack until the next elapse -/
def elapse (s : LastingStack) (time : Int) : LastingStack :=
  let s1 := { s with timeLeft := s.timeLeft - time }
  if s1.timeLeft < 0 then s1.reset else s1
def isMaximum (s : LastingStack) : Bool := decide (s.stack = s.maximumStack)
def regulate (s : LastingStack) (value : Int) : LastingStack := { s with stack := min value s.stack }
end LastingStack

/-! ## Keydown -/
structure Keydown where
  interval : Int
  intervalCounter : Int := 0
  timeLeft : Int := -1024
deriving Repr, DecidableEq, Inhabited

namespace Keydown
def running (s : Keydown) : Bool := decide (0 < s.timeLeft)
def getNextDelay (s : Keydown) : Int := min s.intervalCounter s.timeLeft
def start (s : Keydown) (maximumKeydownTime prepareDelay : Int) : Keydown :=
  { s with intervalCounter := prepareDelay, timeLeft := maximumKeydownTime }
def stop (s : Keydown) : Keydown := { s with timeLeft := 0 }

def WF (s : Keydown) : Prop := 0 < s.interval
instance (s : Keydown) : Decidable s.WF := by unfold WF; exact inferInstance

/-- `while resolving_time_left >= 0 and self.interval_counter <= 0: yield; counter += interval; rtl -= interval`
    with fuel; returns the entity and the number of `yield`s -/
def resolveLoop : Nat → Int → Keydown → Nat → Keydown × Nat
  | 0, _, s, k => (s, k)
  | n + 1, rtl, s, k =>
    if 0 ≤ rtl ∧ s.intervalCounter ≤ 0 then
      resolveLoop n (rtl - s.interval) { s with intervalCounter := s.intervalCounter + s.interval } (k + 1)
    else (s, k)

/-- the generator `resolving(time)`, exhausted: new entity and number of ticks.
    `resolving_time_left` is computed from the state BEFORE the subtraction. -/
def resolving (s : Keydown) (time : Int) : Keydown × Nat :=
  let rtl := s.timeLeft - max 0 s.intervalCounter
  let s1 := { s with timeLeft := s.timeLeft - time, intervalCounter := s.intervalCounter - time }
  resolveLoop (rtl.toNat + 1) rtl s1 0
end Keydown

/-! ## DOT (damage-over-time tracker of the mob, `common/mob.py`) -/
structure DOT where
  /-- `dict[str, tuple[float, float]]`: name ↦ (damage, lasting_time), in insertion order -/
  current : List (String × Rat × Int) := []
  periodTimeLeft : Int := 1000 * 1024
  period : Int := 1000 * 1024
deriving Repr, DecidableEq, Inhabited

namespace DOT
/-- `self.current[name] = (damage, lasting_time)` -/
def new (s : DOT) (name : String) (damage : Rat) (lastingTime : Int) : DOT :=
  { s with current := dictSet s.current name (damage, lastingTime) }

def age (cur : List (String × Rat × Int)) (t : Int) : List (String × Rat × Int) :=
  cur.map (fun e => (e.1, e.2.1, e.2.2 - t))

/-- `DOT.step(time)` → (entity, time left, events).  Partial period: the period timer and every duration
    are aged by `time`, nothing is removed.  Otherwise the durations are aged by the rest of the period,
    entries whose duration went negative are dropped, every survivor emits one tick and the period timer is
    reloaded. -/
def step (s : DOT) (time : Int) : DOT × Int × List (String × Rat) :=
  if s.periodTimeLeft > time then
    ({ s with periodTimeLeft := s.periodTimeLeft - time, current := age s.current time }, 0, [])
  else
    let leftTime := time - s.periodTimeLeft
    let lapse := s.periodTimeLeft
    let newCurrent := (age s.current lapse).filter (fun e => decide (0 ≤ e.2.2))
    ({ s with current := newCurrent, periodTimeLeft := s.period }, leftTime, newCurrent.map (fun e => (e.1, e.2.1)))

/-- `emits[k] = emits.get(k, 0) + 1` -/
def bump (emits : List ((String × Rat) × Nat)) (k : String × Rat) : List ((String × Rat) × Nat) :=
  dictSet emits k ((dictGet emits k).getD 0 + 1)

def WF (s : DOT) : Prop := 0 < s.period ∧ 0 < s.periodTimeLeft
instance (s : DOT) : Decidable s.WF := by unfold WF; exact inferInstance

/-- `while elapse_time_left > 0: …` with fuel -/
def run : Nat → DOT → Int → List ((String × Rat) × Nat) → DOT × List ((String × Rat) × Nat)
  | 0, s, _, em => (s, em)
  | n + 1, s, t, em =>
    if t ≤ 0 then (s, em) else
    let r := s.step t
    run n r.1 r.2.1 (r.2.2.foldl bump em)

/-- `DOT.elapse(time)` → (entity, emits dict `(name, damage) ↦ count` in first-emission order) -/
def elapse (s : DOT) (time : Int) : DOT × List ((String × Rat) × Nat) := run time.toNat s time []
end DOT

/-! ## job-specific entities -/

/-! ### ProgrammedPeriodic (`specific/common_v.py`) -/
structure ProgrammedPeriodic where
  intervalCounter : Int := 0
  intervals : List Int
  timeLeft : Int := 0
  count : Int := 0
deriving Repr, DecidableEq, Inhabited

namespace ProgrammedPeriodic
/-- note: `interval_counter` is NOT reset -/
def setTimeLeft (s : ProgrammedPeriodic) (time : Int) : ProgrammedPeriodic := { s with timeLeft := time, count := 0 }
def enabled (s : ProgrammedPeriodic) : Bool := decide (0 < s.timeLeft)
def disable (s : ProgrammedPeriodic) : ProgrammedPeriodic := { s with timeLeft := 0 }

/-- `self.intervals[self.count % len(self.intervals)]` (Python `%` with a positive divisor = `Int.emod`);
    an empty list raises ZeroDivisionError in Python, excluded by `WF` (the model then reads 0) -/
def currentInterval (s : ProgrammedPeriodic) : Int :=
  s.intervals.getD (s.count % (s.intervals.length : Int)).toNat 0

def WF (s : ProgrammedPeriodic) : Prop := s.intervals ≠ [] ∧ ∀ x ∈ s.intervals, 0 < x
instance (s : ProgrammedPeriodic) : Decidable s.WF := by unfold WF; exact inferInstance

def tickStep (s : ProgrammedPeriodic) : ProgrammedPeriodic :=
  { s with intervalCounter := s.intervalCounter + s.currentInterval,
           timeLeft := s.timeLeft - s.currentInterval, count := s.count + 1 }

/-- `while self.interval_counter <= 0 and self.time_left > 0: …` with fuel; counts the yields -/
def loop : Nat → ProgrammedPeriodic → Nat → ProgrammedPeriodic × Nat
  | 0, s, k => (s, k)
  | n + 1, s, k => if s.intervalCounter ≤ 0 ∧ 0 < s.timeLeft then loop n s.tickStep (k + 1) else (s, k)

/-- `time_left` only decreases at ticks, by the tick's interval; fuel = `time_left` in units -/
def resolving (s : ProgrammedPeriodic) (time : Int) : ProgrammedPeriodic × Nat :=
  let s1 := { s with intervalCounter := s.intervalCounter - time }
  loop s1.timeLeft.toNat s1 0
end ProgrammedPeriodic

/-! ### DynamicIntervalPeriodic (`specific/mechanic.py`) -/
structure DynamicIntervalPeriodic where
  intervalCounter : Int := 0
  interval : Int
  timeLeft : Int := 0
  count : Int := 0
  countIntervalPenalty : Int
  maxCount : Int
deriving Repr, DecidableEq, Inhabited

namespace DynamicIntervalPeriodic
def setTimeLeft (s : DynamicIntervalPeriodic) (time : Int) (count : Int) : DynamicIntervalPeriodic :=
  { s with timeLeft := time, intervalCounter := 0, count := count }
def enabled (s : DynamicIntervalPeriodic) : Bool := decide (0 < s.timeLeft)
def disable (s : DynamicIntervalPeriodic) : DynamicIntervalPeriodic := { s with timeLeft := 0 }

def WF (s : DynamicIntervalPeriodic) : Prop :=
  0 < s.interval ∧ 0 ≤ s.countIntervalPenalty ∧ 0 ≤ s.count ∧ 0 ≤ s.maxCount
instance (s : DynamicIntervalPeriodic) : Decidable s.WF := by unfold WF; exact inferInstance

def tickStep (s : DynamicIntervalPeriodic) : DynamicIntervalPeriodic :=
  { s with intervalCounter := s.intervalCounter + (s.interval + s.count * s.countIntervalPenalty),
           count := min s.maxCount (s.count + 1) }

/-- `while self.interval_counter <= 0: …` (no test of `time_left`!) with fuel; collects the yielded counts -/
def loop : Nat → DynamicIntervalPeriodic → List Int → DynamicIntervalPeriodic × List Int
  | 0, s, ys => (s, ys)
  | n + 1, s, ys => if s.intervalCounter ≤ 0 then loop n s.tickStep (ys ++ [s.count]) else (s, ys)

/-- `interval_counter -= min(time, time_left)` — with an expired (negative) timer this ADDS to the counter;
    `time_left -= time`; then the loop.  Returns the entity and the yielded `count` values. -/
def resolving (s : DynamicIntervalPeriodic) (time : Int) : DynamicIntervalPeriodic × List Int :=
  let s1 := { s with intervalCounter := s.intervalCounter - min time s.timeLeft, timeLeft := s.timeLeft - time }
  loop ((-s1.intervalCounter).toNat + 1) s1 []
end DynamicIntervalPeriodic

/-! ### OrderSword (`specific/adele.py`) -/
structure OrderSword where
  /-- `(counter, time_left)` per pair of swords, oldest first -/
  runningSwords : List (Int × Int) := []
  interval : Int
deriving Repr, DecidableEq, Inhabited

namespace OrderSword
def getTimeLeft (s : OrderSword) : Int :=
  match s.runningSwords.getLast? with
  | none => 0
  | some p => p.2
def enabled (s : OrderSword) : Bool := decide (0 < s.runningSwords.length)
def getSwordCount (s : OrderSword) : Int := (s.runningSwords.length : Int) * 2

/-- `while self.get_sword_count() > max_sword_count: self.running_swords = self.running_swords[1:]`
    (for `max_sword_count < 0` Python loops forever on the empty list; the model answers `[]`) -/
def trim : List (Int × Int) → Int → List (Int × Int)
  | [], _ => []
  | x :: xs, m => if ((x :: xs).length : Int) * 2 > m then trim xs m else x :: xs

def setRunningSwords (s : OrderSword) (swords : List (Int × Int)) (maxSwordCount : Int) : OrderSword :=
  { s with runningSwords := trim swords maxSwordCount }

def addRunning (s : OrderSword) (initialCounter timeLeft maxSwordCount : Int) : OrderSword :=
  s.setRunningSwords (s.runningSwords ++ [(initialCounter, timeLeft)]) maxSwordCount

/-- `max(0, int(time_left // interval))` (float floor division; exact on the grid) -/
def maximumElapsed (interval timeLeft : Int) : Nat := (Int.fdiv timeLeft interval).toNat

/-- `while counter <= 0 and elapse_count < maximum_elapsed: counter += interval; elapse_count += 1; yield`
    — `n` is `maximum_elapsed - elapse_count`; returns the counter and the number of yields -/
def swordLoop (interval : Int) : Nat → Int → Nat → Int × Nat
  | 0, c, k => (c, k)
  | n + 1, c, k => if c ≤ 0 then swordLoop interval n (c + interval) (k + 1) else (c, k)

/-- one sword: new `(counter, time_left)` and ticks.  The tick bound is computed from `time_left` BEFORE
    the call, per call — this is what makes `resolving` chunk dependent (known finding F10). -/
def swordStep (interval time : Int) (sw : Int × Int) : (Int × Int) × Nat :=
  let r := swordLoop interval (maximumElapsed interval sw.2) (sw.1 - time) 0
  ((r.1, sw.2 - time), r.2)

/-- `resolving(time, max_sword_count)` exhausted → (entity, number of yields) -/
def resolving (s : OrderSword) (time : Int) (maxSwordCount : Int) : OrderSword × Nat :=
  let rs := s.runningSwords.map (swordStep s.interval time)
  let result := (rs.map (·.1)).filter (fun sw => decide (0 < sw.2))
  (s.setRunningSwords result maxSwordCount, (rs.map (·.2)).sum)
end OrderSword

/-! ### CurrentField (`specific/archmagetc.py`) -/
structure CurrentField where
  fieldPeriodics : List Periodic := []
  fieldInterval : Int
  fieldDuration : Int
  maxCount : Int
  lastForceTriggered : Int := 0
  forceTriggerInterval : Int
  /-- accumulates a probability (not a time): opaque `Rat` -/
  stableRngCounter : Rat := 0
deriving Repr, DecidableEq, Inhabited

namespace CurrentField
/-- Python `xs[-m:]`: the last `m` elements for `m > 0`, everything for `m = 0`, `xs[k:]` for `m = -k < 0` -/
def lastSlice {α : Type} (xs : List α) (m : Int) : List α :=
  if 0 < m then xs.drop (xs.length - m.toNat) else if m = 0 then xs else xs.drop (-m).toNat

/-- `Periodic(interval=field_interval, initial_counter=field_interval)` (pydantic: both `> 0`), then
    `set_time_left(field_duration)`, append, keep the last `max_count` -/
def createNewCurrent (s : CurrentField) : Except String CurrentField :=
  if s.fieldInterval ≤ 0 then .error "ValidationError: interval/initial_counter must be > 0" else
  let p : Periodic := { interval := s.fieldInterval, initialCounter := some s.fieldInterval }
  match p.setTimeLeft s.fieldDuration with
  | .error e => .error e
  | .ok p' => .ok { s with fieldPeriodics := lastSlice (s.fieldPeriodics ++ [p']) s.maxCount }

/-- returns the entity and the Python return value -/
def stackRng (s : CurrentField) (rngCounter : Rat) : Except String (CurrentField × Bool) :=
  if s.lastForceTriggered ≥ s.forceTriggerInterval then
    ({ s with lastForceTriggered := 0 } : CurrentField).createNewCurrent.map (·, true)
  else
    let s1 := { s with stableRngCounter := s.stableRngCounter + rngCounter }
    if s1.stableRngCounter ≥ 1 then
      ({ s1 with stableRngCounter := s1.stableRngCounter - 1 } : CurrentField).createNewCurrent.map (·, true)
    else .ok (s1, false)

/-- every field elapses; expired fields are dropped; returns the entity and the total tick count -/
def elapse (s : CurrentField) (time : Int) : CurrentField × Int :=
  let stepped := s.fieldPeriodics.map (fun p => p.elapse' time)
  ({ s with fieldPeriodics := (stepped.map (·.1)).filter (·.enabled),
            lastForceTriggered := s.lastForceTriggered + time },
   (stepped.map (·.2)).foldl (· + ·) 0)
end CurrentField

/-! ### PoisonNovaEntity, FerventDrainStack (`specific/archmagefb.py`) -/
structure PoisonNovaEntity where
  timeLeft : Int
  maximumTimeLeft : Int
deriving Repr, DecidableEq, Inhabited

namespace PoisonNovaEntity
def createNova (s : PoisonNovaEntity) (remainingTime : Int) : PoisonNovaEntity := { s with timeLeft := remainingTime }
def tryTriggerNova (s : PoisonNovaEntity) : PoisonNovaEntity × Bool :=
  if 0 < s.timeLeft ∧ s.timeLeft < s.maximumTimeLeft then ({ s with timeLeft := 0 }, true) else (s, false)
def elapse (s : PoisonNovaEntity) (time : Int) : PoisonNovaEntity := { s with timeLeft := s.timeLeft - time }
end PoisonNovaEntity

structure FerventDrainStack where
  count : Int
  maxCount : Int
deriving Repr, DecidableEq, Inhabited

namespace FerventDrainStack
def setMaxCount (s : FerventDrainStack) (maxCount : Int) : FerventDrainStack := { s with maxCount := maxCount }
def getCount (s : FerventDrainStack) : Int := min s.count s.maxCount
def setCount (s : FerventDrainStack) (count : Int) : FerventDrainStack := { s with count := count }
/-- `get_buff()` is `Stat(final_damage_multiplier = get_count() * 5)`; this is that single field -/
def getBuffFinalDamageMultiplier (s : FerventDrainStack) : Int := s.getCount * 5
end FerventDrainStack

/-! ### DivineMark (`specific/bishop.py`), over an arbitrary stat type `σ` -/
structure DivineMark (σ : Type) where
  advantage : Option σ := none
deriving Repr, DecidableEq

namespace DivineMark
def mark {σ : Type} (_s : DivineMark σ) (advantage : σ) : DivineMark σ := { advantage := some advantage }
/-- returns the cleared entity and the consumed advantage (`zero` = `Stat()` when there was none) -/
def consumeMark {σ : Type} (s : DivineMark σ) (zero : σ) : DivineMark σ × σ :=
  ({ advantage := none }, s.advantage.getD zero)
end DivineMark

/-! ### EtherGauge (a `Stack`), RestoreLasting (a `Lasting`) (`specific/adele.py`) -/
structure EtherGauge extends Stack where
  creationStep : Int
  orderConsume : Int
deriving Repr, DecidableEq, Inhabited

namespace EtherGauge
def liftStack (s : EtherGauge) (f : Stack → Stack) : EtherGauge := { s with toStack := f s.toStack }
/-- `min(stack // creation_step, 3) * 2`; `creation_step = 0` raises ZeroDivisionError -/
def getCreationCount (s : EtherGauge) : Option Int :=
  if s.creationStep = 0 then none else some (min (Int.fdiv s.stack s.creationStep) 3 * 2)
def isOrderValid (s : EtherGauge) : Bool := decide (s.orderConsume ≤ s.stack)
def decreaseOrder (s : EtherGauge) : EtherGauge := s.liftStack (·.decrease s.orderConsume)
end EtherGauge

structure RestoreLasting extends Lasting where
  etherMultiplier : Rat
deriving Repr, DecidableEq, Inhabited

namespace RestoreLasting
def liftLasting (s : RestoreLasting) (f : Lasting → Lasting) : RestoreLasting := { s with toLasting := f s.toLasting }
def getGainRate (s : RestoreLasting) : Rat := if s.toLasting.enabled then 1 + s.etherMultiplier / 100 else 1
end RestoreLasting

/-! ### RobotMastery (`specific/mechanic.py`), Clock (`global_property.py`) -/
structure RobotMastery where
  summonIncrement : Rat
  robotDamageIncrement : Rat
deriving Repr, DecidableEq, Inhabited

namespace RobotMastery
def getSummonMultiplier (s : RobotMastery) : Rat := 1 + s.summonIncrement / 100
/-- `get_robot_modifier()` is `Stat(final_damage_multiplier = robot_damage_increment)`; this is that field -/
def getRobotModifierFinalDamageMultiplier (s : RobotMastery) : Rat := s.robotDamageIncrement
end RobotMastery

structure Clock where
  currentTime : Int := 0
deriving Repr, DecidableEq, Inhabited

namespace Clock
def spent (s : Clock) (time : Int) : Clock := { currentTime := s.currentTime + time }
end Clock

end Simaple.Entity
