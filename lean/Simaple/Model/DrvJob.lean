import Simaple.Model.JobRunner
import Simaple.Model.DrvEngine
import Simaple.Model.DrvDispatch
/-! driver entry points of the end-to-end job model (Model/JobRunner.lean):
    {"fn":"job_run","job":{"comps":[{cls,name,params,defaults,binds,mapping,reducers,default_modifier}..]},
     "init":{address ↦ entity},"commands":[..]}
      → {"logs":[{"command","playlogs":[{"clock","action","events","store"}],"description"}..],
         "no_clock_bind":bool,"addresses":n}
    {"fn":"fadd","pairs":[[a,b]..]} → the double sums (float-addition model of JobRunner.fadd) -/
namespace Simaple.DrvJob
open Lean Simaple.J Simaple.Dispatch Simaple.Router Simaple.Engine Simaple.JobRunner Simaple.DrvEngine

def getNamed (j : Json) : Except String (List (String × Json)) := do
  (← list j).mapM (fun p => do
    match ← list p with
    | [k, v] => pure (← str k, v)
    | _ => throw "pair expected")

def getMapping (j : Json) : Except String (List (String × String × Json)) := do
  (← list j).mapM (fun p => do
    match ← list p with
    | [k, m, st] => pure (← str k, ← str m, st)
    | _ => throw "mapping entry: [signature, method, static payload]")

def getComp (j : Json) : Except String CompDesc := do
  pure { cls := ← str (← field j "cls"), name := ← str (← field j "name"), params := ← field j "params",
         defaults := ← getNamed (← field j "defaults"),
         binds := ← DrvDispatch.pairList (← field j "binds"),
         mapping := ← getMapping (← field j "mapping"),
         reducers := ← DrvDispatch.strList (← field j "reducers"),
         defaultModifier := fieldD j "default_modifier" .null }

/-- the initial store: every entity as the harness encodes it; the clock as "num/den", the pending callbacks
    (absent before the first play) as pairs of actions -/
def getInit (j : Json) : Except String (List (String × Json)) := do
  (← fieldsOf j).mapM (fun kv => do
    if kv.1 = clockAddr then pure (kv.1, encRat (← rat kv.2))
    else if kv.1 = pendingAddr then do
      let pairs ← (← list kv.2).mapM (fun p => do
        match ← list p with
        | [a, b] => pure (← getAction a, ← getAction b)
        | _ => throw "callback pair expected")
      pure (kv.1, encPending pairs)
    else pure kv)

def cellJson (addr : String) (j : Json) : Json :=
  if addr = clockAddr then ofRat (readClock j)
  else if addr = pendingAddr then .arr ((decPending j).map (fun p => Json.arr #[actionJson p.1, actionJson p.2])).toArray
  else j

def storeJson (addrs : List String) (s : Store Json) : Json :=
  Json.mkObj (addrs.filterMap (fun a => (s a).map (fun j => (a, cellJson a j))))

def playlogJson (addrs : List String) (pl : PlayLog (Store Json)) : Json :=
  Json.mkObj [("clock", ofRat pl.clock), ("action", actionJson pl.action),
    ("events", .arr (pl.events.map eventJson).toArray), ("store", storeJson addrs pl.ckpt)]

def oplogJson (addrs : List String) (l : OpLog (Store Json)) : Json :=
  Json.mkObj [("command", commandJson l.command), ("playlogs", .arr (l.playlogs.map (playlogJson addrs)).toArray),
    ("description", match l.description with | some d => .str d | none => .null)]

def job (fn : String) (j : Json) : Option (Except String Json) :=
  match fn with
  | "job_run" => some do
      let descs ← (← list (← field (← field j "job") "comps")).mapM getComp
      let init ← getInit (← field j "init")
      let cmds ← (← list (← field j "commands")).mapM getCommand
      let ds := descs.map compDisp
      let addrs := addressesOf descs (init.map (·.1))
      let hm : Std.HashMap String (Option Json) := Std.HashMap.ofList (init.map (fun kv => (kv.1, some kv.2)))
      let st : Store Json := lookupIn hm (fun _ => none)
      let P := jobPlayC addrs ds
      let mut e : JobEngine := jobInit st
      for c in cmds do
        e := jobExec P st e c
      pure (Json.mkObj [("logs", .arr ((e.logs.drop 1).map (oplogJson addrs)).toArray),
                        ("no_clock_bind", .bool (noClockBind ds)), ("addresses", .num addrs.length)])
  | "fadd" => some do
      let pairs ← (← list (← field j "pairs")).mapM (fun p => do
        match ← list p with
        | [a, b] => pure (← rat a, ← rat b)
        | _ => throw "pair expected")
      pure (ofRats (pairs.map (fun p => fadd p.1 p.2)))
  | _ => none

end Simaple.DrvJob
