import Simaple.Model.DrvEntity
import Simaple.Model.Component
/-! driver entry points for the L2 component models:
    {"fn":"reducer","cls":..,"method":..,"params":{..},"state":{entity name ↦ entity},"payload":..}
      → {"state":{..},"events":[..]} | {"raise":..}
    {"fn":"cview","cls":..,"view":..,"params":{..},"state":{..}} → view value -/
namespace Simaple.DrvComponent
open Lean Simaple.J Simaple.Entity Simaple.Comp Simaple.DrvEntity

def evJson : REv → Json
  | .elapsed t => Json.arr #[.str "elapsed", ofInt t]
  | .rejected => Json.arr #[.str "rejected"]
  | .delayed t => Json.arr #[.str "delayed", ofInt t]
  | .dealt d h => Json.arr #[.str "dealt", ofRat d, ofRat h]
  | .keydownEnd => Json.arr #[.str "keydown_end"]
  | .addDot d l => Json.arr #[.str "add_dot", ofRat d, ofInt l]
  | .dealtMod d h m => Json.arr #[.str "dealt_mod", ofRat d, ofRat h, .str m]
  | .custom t p => Json.arr #[.str "custom", .str t, .str p]

def evsJson (evs : List REv) : Json := .arr (evs.map evJson).toArray
def out (state : Json) (evs : List REv) : Json := Json.mkObj [("state", state), ("events", evsJson evs)]
def raised (e : String) : Json := Json.mkObj [("raise", .str e)]

def pint (p : Json) (k : String) : Except String Int := do int (← field p k)
def prat (p : Json) (k : String) : Except String Rat := do rat (← field p k)
def pbool (p : Json) (k : String) : Except String Bool :=
  match p.getObjVal? k with | .ok (.bool b) => pure b | _ => pure false

def validityJson (v : Validity) : Json :=
  Json.mkObj [("time_left", ofInt v.timeLeft), ("valid", .bool v.valid),
    ("stack", match v.stack with | some s => ofInt s | none => .null)]
def runningJson (v : Running) : Json :=
  Json.mkObj [("time_left", ofInt v.timeLeft), ("lasting_duration", ofInt v.lastingDuration),
    ("stack", match v.stack with | some s => ofInt s | none => .null)]

def buffP (p : Json) : Except String BuffSkill.P := do
  pure ⟨← pint p "cd_eff", ← pint p "last_eff", ← pint p "delay", ← pbool p "disable_validity"⟩
def buffS (s : Json) : Except String BuffSkill.S := do
  pure ⟨← getCooldown (← field s "cooldown"), ← getLasting (← field s "lasting")⟩
def buffSJ (s : BuffSkill.S) : Json := Json.mkObj [("cooldown", cooldownJson s.cooldown), ("lasting", lastingJson s.lasting)]

def attackP (p : Json) : Except String AttackSkill.P := do
  pure ⟨← pint p "cd_eff", ← pint p "delay", ← prat p "damage", ← prat p "hit", ← pbool p "disable_validity"⟩
def attackS (s : Json) : Except String AttackSkill.S := do pure ⟨← getCooldown (← field s "cooldown")⟩
def attackSJ (s : AttackSkill.S) : Json := Json.mkObj [("cooldown", cooldownJson s.cooldown)]

def dotP (p : Json) : Except String DotAttack.P := do
  pure { toP := ← attackP p, dotDamage := ← prat p "dot_damage", dotLasting := ← pint p "dot_lasting" }

def periodicP (p : Json) : Except String PeriodicAttack.P := do
  pure ⟨← pint p "cd_eff", ← pint p "delay", ← prat p "damage", ← prat p "hit", ← prat p "periodic_damage",
        ← prat p "periodic_hit", ← pint p "lasting_duration", ← pbool p "disable_validity"⟩
def periodicS (s : Json) : Except String PeriodicAttack.S := do
  pure ⟨← getCooldown (← field s "cooldown"), ← getPeriodic (← field s "periodic")⟩
def periodicSJ (s : PeriodicAttack.S) : Json :=
  Json.mkObj [("cooldown", cooldownJson s.cooldown), ("periodic", periodicJson s.periodic)]

def programmedP (p : Json) : Except String Programmed.P := do
  pure ⟨← pint p "cd_eff", ← pint p "delay", ← prat p "damage", ← prat p "hit", ← prat p "periodic_damage",
        ← prat p "periodic_hit", ← pint p "lasting_duration", ← pbool p "disable_validity"⟩
def programmedS (s : Json) : Except String Programmed.S := do
  pure ⟨← getCooldown (← field s "cooldown"), ← getPP (← field s "programmed_periodic")⟩
def programmedSJ (s : Programmed.S) : Json :=
  Json.mkObj [("cooldown", cooldownJson s.cooldown), ("programmed_periodic", ppJson s.programmed)]

def trigP (p : Json) : Except String TriggableBuff.P := do
  pure ⟨← pint p "cd_eff", ← pint p "last_eff", ← pint p "delay", ← pint p "trigger_cooldown",
        ← prat p "trigger_damage", ← prat p "trigger_hit", ← pbool p "disable_validity"⟩
def trigS (s : Json) : Except String TriggableBuff.S := do
  pure ⟨← getCooldown (← field s "cooldown"), ← getLasting (← field s "lasting"), ← getCooldown (← field s "trigger_cooldown")⟩
def trigSJ (s : TriggableBuff.S) : Json :=
  Json.mkObj [("cooldown", cooldownJson s.cooldown), ("lasting", lastingJson s.lasting),
    ("trigger_cooldown", cooldownJson s.triggerCooldown)]

def kdP (p : Json) : Except String KeydownSkill.P := do
  pure ⟨← pint p "cd_eff", ← pint p "maximum_keydown_time", ← pint p "prepare_delay", ← prat p "damage", ← prat p "hit",
        ← prat p "finish_damage", ← prat p "finish_hit", ← pint p "end_delay"⟩
def kdS (s : Json) : Except String KeydownSkill.S := do
  pure ⟨← getCooldown (← field s "cooldown"), ← getKeydown (← field s "keydown")⟩
def kdSJ (s : KeydownSkill.S) : Json := Json.mkObj [("cooldown", cooldownJson s.cooldown), ("keydown", keydownJson s.keydown)]

def reducer (cls m : String) (p s : Json) (payload : Json) : Except String Json := do
  match cls with
  | "BuffSkillComponent" =>
    let pp ← buffP p; let st ← buffS s
    match m with
    | "use" => let r := BuffSkill.use pp st; pure (out (buffSJ r.1) r.2)
    | "elapse" => let r := BuffSkill.elapse pp (← int payload) st; pure (out (buffSJ r.1) r.2)
    | _ => throw s!"unknown reducer {cls}.{m}"
  | "AttackSkillComponent" =>
    let pp ← attackP p; let st ← attackS s
    match m with
    | "use" => let r := AttackSkill.use pp st; pure (out (attackSJ r.1) r.2)
    | "use_with_ignore_reject" => let r := AttackSkill.useIgnoreReject pp st; pure (out (attackSJ r.1) r.2)
    | "elapse" => let r := AttackSkill.elapse pp (← int payload) st; pure (out (attackSJ r.1) r.2)
    | "reset_cooldown" => let r := AttackSkill.resetCooldown pp st; pure (out (attackSJ r.1) r.2)
    | _ => throw s!"unknown reducer {cls}.{m}"
  | "DOTEmittingAttackSkillComponent" =>
    let pp ← dotP p; let st ← attackS s
    match m with
    | "use" => let r := DotAttack.use pp st; pure (out (attackSJ r.1) r.2)
    | "elapse" => let r := DotAttack.elapse pp (← int payload) st; pure (out (attackSJ r.1) r.2)
    | "reset_cooldown" => let r := DotAttack.resetCooldown pp st; pure (out (attackSJ r.1) r.2)
    | _ => throw s!"unknown reducer {cls}.{m}"
  | "PeriodicDamageConfiguratedAttackSkillComponent" =>
    let pp ← periodicP p; let st ← periodicS s
    match m with
    | "use" => match PeriodicAttack.use pp st with
      | .ok r => pure (out (periodicSJ r.1) r.2)
      | .error e => pure (raised e)
    | "elapse" => let r := PeriodicAttack.elapse pp (← int payload) st; pure (out (periodicSJ r.1) r.2)
    | _ => throw s!"unknown reducer {cls}.{m}"
  | "ProgrammedPeriodicComponent" =>
    let pp ← programmedP p; let st ← programmedS s
    match m with
    | "use" => let r := Programmed.use pp st; pure (out (programmedSJ r.1) r.2)
    | "elapse" => let r := Programmed.elapse pp (← int payload) st; pure (out (programmedSJ r.1) r.2)
    | _ => throw s!"unknown reducer {cls}.{m}"
  | "TriggableBuffSkillComponent" =>
    let pp ← trigP p; let st ← trigS s
    match m with
    | "use" => let r := TriggableBuff.use pp st; pure (out (trigSJ r.1) r.2)
    | "elapse" => let r := TriggableBuff.elapse pp (← int payload) st; pure (out (trigSJ r.1) r.2)
    | "trigger" => let r := TriggableBuff.trigger pp st; pure (out (trigSJ r.1) r.2)
    | _ => throw s!"unknown reducer {cls}.{m}"
  | "KeydownSkillComponent" =>
    let pp ← kdP p; let st ← kdS s
    match m with
    | "use" => let r := KeydownSkill.use pp st; pure (out (kdSJ r.1) r.2)
    | "elapse" => let r := KeydownSkill.elapse pp (← int payload) st; pure (out (kdSJ r.1) r.2)
    | "stop" => let r := KeydownSkill.stop pp st; pure (out (kdSJ r.1) r.2)
    | _ => throw s!"unknown reducer {cls}.{m}"
  | _ => throw s!"unknown class {cls}"

def cview (cls v : String) (p s : Json) : Except String Json := do
  match cls, v with
  | "BuffSkillComponent", "validity" => pure (validityJson (BuffSkill.validity (← buffP p) (← buffS s)))
  | "BuffSkillComponent", "buff" => pure (.bool (BuffSkill.buffOn (← buffS s)))
  | "BuffSkillComponent", "running" => pure (runningJson (BuffSkill.running (← buffS s)))
  | "AttackSkillComponent", "validity" => pure (validityJson (AttackSkill.validity (← attackP p) (← attackS s)))
  | "DOTEmittingAttackSkillComponent", "validity" => pure (validityJson (DotAttack.validity (← dotP p) (← attackS s)))
  | "PeriodicDamageConfiguratedAttackSkillComponent", "validity" =>
      pure (validityJson (PeriodicAttack.validity (← periodicP p) (← periodicS s)))
  | "PeriodicDamageConfiguratedAttackSkillComponent", "running" =>
      pure (runningJson (PeriodicAttack.running (← periodicP p) (← periodicS s)))
  | "ProgrammedPeriodicComponent", "validity" => pure (validityJson (Programmed.validity (← programmedP p) (← programmedS s)))
  | "ProgrammedPeriodicComponent", "running" => pure (runningJson (Programmed.running (← programmedP p) (← programmedS s)))
  | "TriggableBuffSkillComponent", "validity" => pure (validityJson (TriggableBuff.validity (← trigP p) (← trigS s)))
  | "TriggableBuffSkillComponent", "buff" => pure (.bool (TriggableBuff.buffOn (← trigS s)))
  | "TriggableBuffSkillComponent", "running" => pure (runningJson (TriggableBuff.running (← trigS s)))
  | "KeydownSkillComponent", "validity" => pure (validityJson (KeydownSkill.validity (← kdP p) (← kdS s)))
  | "KeydownSkillComponent", "keydown" =>
      let k := KeydownSkill.keydownView (← kdS s)
      pure (Json.mkObj [("time_left", ofInt k.timeLeft), ("running", .bool k.running)])
  | _, _ => throw s!"unknown view {cls}.{v}"

def modelledClasses : List String :=
  ["BuffSkillComponent", "AttackSkillComponent", "DOTEmittingAttackSkillComponent",
   "PeriodicDamageConfiguratedAttackSkillComponent", "ProgrammedPeriodicComponent", "TriggableBuffSkillComponent",
   "KeydownSkillComponent"]

def component (fn : String) (j : Json) : Option (Except String Json) :=
  match fn with
  | "reducer" =>
      -- answer only for the classes modelled here; other handlers (part drivers) take the rest
      match j.getObjVal? "cls" >>= Json.getStr? with
      | .ok c => if modelledClasses.contains c then some do
            reducer c (← str (← field j "method")) (← field j "params") (← field j "state") (fieldD j "payload" .null)
          else none
      | .error _ => none
  | "cview" =>
      match j.getObjVal? "cls" >>= Json.getStr? with
      | .ok c => if modelledClasses.contains c then some do
            cview c (← str (← field j "view")) (← field j "params") (← field j "state")
          else none
      | .error _ => none
  | "modelled_classes" => some (pure (.arr (modelledClasses.map Json.str).toArray))
  | _ => none

end Simaple.DrvComponent
