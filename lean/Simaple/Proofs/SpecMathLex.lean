import Simaple.Proofs.SpecMathParse
/-! Character level: the lexer reads back the tokens that `render` prints (one blank between tokens). -/
namespace Simaple.Spec

/-- tokens in the printer's range -/
def Tok.wf : Tok → Bool
  | .number w => !w.isEmpty && isNumberTok w && w.all isWordChar
  | .sep w => !w.isEmpty && w.all isSepChar && !isNumberTok w
  | .ident w => !w.isEmpty && w.all isVarChar && !w.all isSepChar && !isNumberTok w
  | _ => true

theorem isWordChar_of_sep {c : Char} (h : isSepChar c = true) : isWordChar c = true := by
  simp only [isSepChar, isWordChar, isVarChar, Bool.or_eq_true] at *
  rcases h with h | h
  · exact .inl h
  · exact .inr (.inl (.inr h))

theorem isWordChar_of_var {c : Char} (h : isVarChar c = true) : isWordChar c = true := by
  simp only [isWordChar, Bool.or_eq_true]; exact .inr h

theorem all_mono {p q : Char → Bool} (h : ∀ c, p c = true → q c = true) :
    ∀ w : Str, w.all p = true → w.all q = true := by
  intro w hw
  rw [List.all_eq_true] at *
  intro c hc; exact h c (hw c hc)

theorem lex_word (w rest acc : Str) (hw : w.all isWordChar = true) :
    lex (w ++ rest) acc = lex rest (w.reverse ++ acc) := by
  induction w generalizing acc with
  | nil => simp
  | cons c w ih =>
    simp only [List.all_cons, Bool.and_eq_true] at hw
    rw [List.cons_append, lex.eq_def]
    simp only [hw.1, if_true]
    rw [ih (c :: acc) hw.2]
    simp

theorem lex_blank (rest acc : Str) : lex (' ' :: rest) acc = emit acc [] (lex rest []) := by
  rw [lex.eq_def]; simp [isWordChar, isDigit, isVarChar]

theorem flush_word (w : Str) (t : Tok) (hne : w ≠ []) (hc : classify w = some t) :
    flush w.reverse = some [t] := by
  simp [flush, hne, hc]

/-- a word token followed by a blank -/
theorem lex_word_blank (w : Str) (t : Tok) (rest : Str) (hne : w ≠ []) (hw : w.all isWordChar = true)
    (hc : classify w = some t) : lex (w ++ ' ' :: rest) [] = (lex rest []).map (t :: ·) := by
  rw [lex_word w _ [] hw, List.append_nil, lex_blank]
  unfold emit
  rw [flush_word w t hne hc]
  cases lex rest [] <;> simp

theorem lex_word_end (w : Str) (t : Tok) (hne : w ≠ []) (hw : w.all isWordChar = true)
    (hc : classify w = some t) : lex w [] = some [t] := by
  have := lex_word w [] [] hw
  rw [List.append_nil] at this
  rw [this, List.append_nil, lex.eq_def]; simp only [flush_word w t hne hc]

theorem classify_of_wf (t : Tok) (h : t.wf = true) :
    (∀ w, t = .number w → w ≠ [] ∧ w.all isWordChar = true ∧ classify w = some t) ∧
    (∀ w, t = .sep w → w ≠ [] ∧ w.all isWordChar = true ∧ classify w = some t) ∧
    (∀ w, t = .ident w → w ≠ [] ∧ w.all isWordChar = true ∧ classify w = some t) := by
  refine ⟨?_, ?_, ?_⟩ <;> intro w ht <;> subst ht <;>
    simp only [Tok.wf, Bool.and_eq_true, Bool.not_eq_true', List.isEmpty_eq_false_iff] at h
  · exact ⟨h.1.1, h.2, by simp [classify, h.1.2]⟩
  · exact ⟨h.1.1, all_mono (fun _ => isWordChar_of_sep) w h.1.2, by simp [classify, h.2, h.1.2]⟩
  · exact ⟨h.1.1.1, all_mono (fun _ => isWordChar_of_var) w h.1.1.2, by simp [classify, h.2, h.1.2, h.1.1.2]⟩

theorem emit_nil (ts : List Tok) (r : Option (List Tok)) : emit [] ts r = r.map (ts ++ ·) := by
  cases r <;> simp [emit, flush]

/-- a one-character symbol -/
theorem lex_sym (c : Char) (t : Tok) (cs : Str) (hs : symTok c = some t) :
    lex (c :: cs) [] = (lex cs []).map (t :: ·) := by
  have hc : c = '+' ∨ c = '-' ∨ c = '*' ∨ c = '>' ∨ c = '<' ∨ c = ')' ∨ c = ',' := by
    simp only [symTok] at hs
    repeat (first | (split at hs; next h => simp_all) | simp at hs)
  rw [lex.eq_def]
  rcases hc with h | h | h | h | h | h | h <;> subst h <;>
    simp [isWordChar, isDigit, isVarChar, expSignOk, symTok] at hs ⊢ <;> subst hs <;> simp [emit_nil]

theorem lex_lparen (cs : Str) : lex ('(' :: cs) [] = (lex cs []).map (Tok.lparen :: ·) := by
  rw [lex.eq_def]; simp [isWordChar, isDigit, isVarChar, fnOfName, emit_nil]

theorem lex_slash_blank (cs : Str) : lex ('/' :: ' ' :: cs) [] = (lex (' ' :: cs) []).map (Tok.slash :: ·) := by
  rw [lex.eq_def]; simp [isWordChar, isDigit, isVarChar, emit_nil]

theorem lex_slash_end : lex ['/'] [] = some [Tok.slash] := by
  rw [lex.eq_def]; simp [isWordChar, isDigit, isVarChar, emit_nil]

theorem lex_dslash (cs : Str) : lex ('/' :: '/' :: cs) [] = (lex cs []).map (Tok.dslash :: ·) := by
  rw [lex.eq_def]; simp [isWordChar, isDigit, isVarChar, emit_nil]

theorem lex_nil : lex [] [] = some [] := by
  rw [lex.eq_def]; simp [flush]

theorem lex_blank_nil (cs : Str) : lex (' ' :: cs) [] = lex cs [] := by
  rw [lex_blank, emit_nil]; cases lex cs [] <;> simp

/-- a function token `name(` -/
theorem lex_fn (name : Str) (t : Tok) (cs : Str) (hw : name.all isWordChar = true)
    (hf : fnOfName name = some t) : lex (name ++ '(' :: cs) [] = (lex cs []).map (t :: ·) := by
  rw [lex_word name _ [] hw, List.append_nil, lex.eq_def]
  simp [isWordChar, isDigit, isVarChar, hf]

theorem lex_tok_blank (t : Tok) (h : t.wf = true) (rest : Str) :
    lex (t.text ++ ' ' :: rest) [] = (lex rest []).map (t :: ·) := by
  have hc := classify_of_wf t h
  cases t with
  | number w => obtain ⟨a, b, c⟩ := hc.1 w rfl; exact lex_word_blank w _ rest a b c
  | sep w => obtain ⟨a, b, c⟩ := hc.2.1 w rfl; exact lex_word_blank w _ rest a b c
  | ident w => obtain ⟨a, b, c⟩ := hc.2.2 w rfl; exact lex_word_blank w _ rest a b c
  | fn1 g =>
    cases g <;>
    · simp only [Tok.text, Fn1.text]
      first
      | (have := lex_fn ['c', 'e', 'i', 'l'] (.fn1 .ceil) (' ' :: rest) (by decide) (by decide)
         simpa [lex_blank_nil] using this)
      | (have := lex_fn ['f', 'l', 'o', 'o', 'r'] (.fn1 .floor) (' ' :: rest) (by decide) (by decide)
         simpa [lex_blank_nil] using this)
      | (have := lex_fn ['a', 'p', 'p', 'l', 'y', '_', 'a', 't', 't', 'a', 'c', 'k', '_', 's', 'p', 'e', 'e', 'd'] (.fn1 .applyAttackSpeed) (' ' :: rest) (by decide) (by decide)
         simpa [lex_blank_nil] using this)
  | fn2 g =>
    cases g <;>
    · simp only [Tok.text, Fn2.text]
      first
      | (have := lex_fn ['m', 'i', 'n'] (.fn2 .min) (' ' :: rest) (by decide) (by decide)
         simpa [lex_blank_nil] using this)
      | (have := lex_fn ['m', 'a', 'x'] (.fn2 .max) (' ' :: rest) (by decide) (by decide)
         simpa [lex_blank_nil] using this)
  | plus => simp [Tok.text, lex_sym '+' .plus _ rfl, lex_blank_nil]
  | minus => simp [Tok.text, lex_sym '-' .minus _ rfl, lex_blank_nil]
  | star => simp [Tok.text, lex_sym '*' .star _ rfl, lex_blank_nil]
  | gt => simp [Tok.text, lex_sym '>' .gt _ rfl, lex_blank_nil]
  | lt => simp [Tok.text, lex_sym '<' .lt _ rfl, lex_blank_nil]
  | rparen => simp [Tok.text, lex_sym ')' .rparen _ rfl, lex_blank_nil]
  | comma => simp [Tok.text, lex_sym ',' .comma _ rfl, lex_blank_nil]
  | lparen => simp [Tok.text, lex_lparen, lex_blank_nil]
  | slash => simp [Tok.text, lex_slash_blank, lex_blank_nil]
  | dslash => simp [Tok.text, lex_dslash, lex_blank_nil]

theorem lex_tok_end (t : Tok) (h : t.wf = true) : lex t.text [] = some [t] := by
  have hc := classify_of_wf t h
  cases t with
  | number w => obtain ⟨a, b, c⟩ := hc.1 w rfl; exact lex_word_end w _ a b c
  | sep w => obtain ⟨a, b, c⟩ := hc.2.1 w rfl; exact lex_word_end w _ a b c
  | ident w => obtain ⟨a, b, c⟩ := hc.2.2 w rfl; exact lex_word_end w _ a b c
  | fn1 g =>
    cases g <;>
    · simp only [Tok.text, Fn1.text]
      first
      | (have := lex_fn ['c', 'e', 'i', 'l'] (.fn1 .ceil) [] (by decide) (by decide)
         simpa [lex_nil] using this)
      | (have := lex_fn ['f', 'l', 'o', 'o', 'r'] (.fn1 .floor) [] (by decide) (by decide)
         simpa [lex_nil] using this)
      | (have := lex_fn ['a', 'p', 'p', 'l', 'y', '_', 'a', 't', 't', 'a', 'c', 'k', '_', 's', 'p', 'e', 'e', 'd'] (.fn1 .applyAttackSpeed) [] (by decide) (by decide)
         simpa [lex_nil] using this)
  | fn2 g =>
    cases g <;>
    · simp only [Tok.text, Fn2.text]
      first
      | (have := lex_fn ['m', 'i', 'n'] (.fn2 .min) [] (by decide) (by decide)
         simpa [lex_nil] using this)
      | (have := lex_fn ['m', 'a', 'x'] (.fn2 .max) [] (by decide) (by decide)
         simpa [lex_nil] using this)
  | plus => simp [Tok.text, lex_sym '+' .plus _ rfl, lex_nil]
  | minus => simp [Tok.text, lex_sym '-' .minus _ rfl, lex_nil]
  | star => simp [Tok.text, lex_sym '*' .star _ rfl, lex_nil]
  | gt => simp [Tok.text, lex_sym '>' .gt _ rfl, lex_nil]
  | lt => simp [Tok.text, lex_sym '<' .lt _ rfl, lex_nil]
  | rparen => simp [Tok.text, lex_sym ')' .rparen _ rfl, lex_nil]
  | comma => simp [Tok.text, lex_sym ',' .comma _ rfl, lex_nil]
  | lparen => simp [Tok.text, lex_lparen, lex_nil]
  | slash => simp [Tok.text, lex_slash_end]
  | dslash => simp [Tok.text, lex_dslash, lex_nil]

/-- the lexer inverts `render` on well-formed tokens -/
theorem lex_render (ts : List Tok) (h : ∀ t ∈ ts, t.wf = true) : lex (render ts) [] = some ts := by
  induction ts with
  | nil => simp [render, lex_nil]
  | cons t ts ih =>
    cases ts with
    | nil => simpa [render] using lex_tok_end t (h t (by simp))
    | cons t' ts' =>
      rw [render, lex_tok_blank t (h t (by simp)), ih (fun x hx => h x (by simp [hx]))]
      simp

theorem paren_wf (n p : Nat) (ts : List Tok) (h : ∀ t ∈ ts, t.wf = true) :
    ∀ t ∈ paren n p ts, t.wf = true := by
  intro t ht
  simp only [paren] at ht
  split at ht
  · simp only [List.cons_append, List.mem_cons, List.mem_append, List.mem_nil_iff, or_false] at ht
    rcases ht with rfl | ht | rfl
    · rfl
    · exact h t ht
    · rfl
  · exact h t ht

theorem toks_wf (e : Expr) (h : e.wf = true) : ∀ t ∈ toks e, t.wf = true := by
  induction e with
  | number w => intro t ht; simp only [toks, List.mem_singleton] at ht; subst ht; exact h
  | sepNumber w => intro t ht; simp only [toks, List.mem_singleton] at ht; subst ht; exact h
  | var w => intro t ht; simp only [toks, List.mem_singleton] at ht; subst ht; exact h
  | neg a iha =>
    intro t ht
    simp only [toks, List.mem_cons] at ht
    rcases ht with rfl | ht
    · rfl
    · exact paren_wf _ _ _ (iha h) t ht
  | bin op a b iha ihb =>
    simp only [Expr.wf, Bool.and_eq_true] at h
    intro t ht
    simp only [toks, List.mem_append, List.mem_cons] at ht
    rcases ht with ht | rfl | ht
    · exact paren_wf _ _ _ (iha h.1) t ht
    · cases op <;> rfl
    · exact paren_wf _ _ _ (ihb h.2) t ht
  | fn1 g a iha =>
    intro t ht
    simp only [toks, List.mem_cons, List.mem_append, List.mem_nil_iff, or_false] at ht
    rcases ht with (rfl | ht) | rfl
    · rfl
    · exact iha h t ht
    · rfl
  | fn2 g a b iha ihb =>
    simp only [Expr.wf, Bool.and_eq_true] at h
    intro t ht
    simp only [toks, List.mem_cons, List.mem_append, List.mem_nil_iff, or_false] at ht
    rcases ht with ((rfl | ht) | (rfl | ht)) | rfl
    · rfl
    · exact iha h.1 t ht
    · rfl
    · exact ihb h.2 t ht
    · rfl

theorem parseChars_pretty (e : Expr) (h : e.wf = true) : parseChars (prettyChars e) = .ok e := by
  simp only [parseChars, prettyChars, lex_render (toks e) (toks_wf e h), parseToks_toks]

end Simaple.Spec
