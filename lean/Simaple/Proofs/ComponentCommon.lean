import Simaple.Model.ComponentCommon
import Simaple.Proofs.Component
import Simaple.Proofs.EntityPeriodic
import Simaple.Proofs.EntityTimers
import Simaple.Proofs.EntityDot
/-! helper lemmas for the part `Common` of the L2 component theorems (core Lean only) -/
namespace Simaple.Comp.Common
open Simaple.Entity Simaple.Comp

/-- the damage content of an event: (damage, hit, modifier text — empty for the component's own modifier) -/
def dmgOf : REv → Option (Rat × Rat × String)
  | .dealt d h => some (d, h, "")
  | .dealtMod d h m => some (d, h, m)
  | _ => none

/-- the damage ticks of an answer, in order -/
def dmg (evs : List REv) : List (Rat × Rat × String) := evs.filterMap dmgOf

/-- the times carried by the `elapsed` events of an answer -/
def elapsedOf : REv → Option Int
  | .elapsed t => some t
  | _ => none
def elapsedTimes (evs : List REv) : List Int := evs.filterMap elapsedOf

theorem dmg_append (a b : List REv) : dmg (a ++ b) = dmg a ++ dmg b := by simp [dmg, List.filterMap_append]
theorem dmg_cons_elapsed (t : Int) (evs : List REv) : dmg (.elapsed t :: evs) = dmg evs := by
  simp [dmg, List.filterMap_cons, dmgOf]
theorem dmg_replicate_dealt (n : Nat) (d h : Rat) : dmg (List.replicate n (.dealt d h)) = List.replicate n (d, h, "") := by
  induction n with
  | zero => rfl
  | succ n ih => simp only [List.replicate_succ, dmg, List.filterMap_cons, dmgOf] at *; rw [ih]
theorem dmg_single_dealt (d h : Rat) : dmg [.dealt d h] = [(d, h, "")] := rfl

theorem elapsedTimes_replicate_dealt (n : Nat) (d h : Rat) : elapsedTimes (List.replicate n (.dealt d h)) = [] := by
  induction n with
  | zero => rfl
  | succ n ih => simp only [List.replicate_succ, elapsedTimes, List.filterMap_cons, elapsedOf] at *; rw [ih]
theorem elapsedTimes_append (a b : List REv) : elapsedTimes (a ++ b) = elapsedTimes a ++ elapsedTimes b := by
  simp [elapsedTimes, List.filterMap_append]
theorem elapsedTimes_cons_elapsed (t : Int) (evs : List REv) : elapsedTimes (.elapsed t :: evs) = t :: elapsedTimes evs := by
  simp [elapsedTimes, List.filterMap_cons, elapsedOf]

theorem rejectedIn_append (a b : List REv) : rejectedIn (a ++ b) = (rejectedIn a || rejectedIn b) := by
  simp [rejectedIn, List.any_append]
theorem rejectedIn_dealtAll (dh : List (Rat × Rat)) : rejectedIn (dealtAll dh) = false := by
  simp [rejectedIn, dealtAll, List.any_map, REv.isReject]
theorem rejectedIn_replicate_dealt (n : Nat) (d h : Rat) : rejectedIn (List.replicate n (.dealt d h)) = false := by
  simp [rejectedIn, List.any_replicate, REv.isReject]

theorem replicate_add_toNat {α : Type} (x : α) (m n : Nat) :
    List.replicate (m + n) x = List.replicate m x ++ List.replicate n x := by
  simp [List.replicate_append_replicate]

/-! ### Periodic: facts the component theorems need on top of `Proofs/EntityPeriodic.lean` -/

theorem step_const (s : Periodic) (t : Int) :
    (s.step t).1.interval = s.interval ∧ (s.step t).1.initialCounter = s.initialCounter := by
  unfold Periodic.step
  simp only []
  split
  · exact ⟨rfl, rfl⟩
  · split
    · exact ⟨rfl, rfl⟩
    · split <;> exact ⟨rfl, rfl⟩

theorem run_const (n : Nat) : ∀ (s : Periodic) (t : Int),
    (Periodic.run n s t).interval = s.interval ∧ (Periodic.run n s t).initialCounter = s.initialCounter := by
  induction n with
  | zero => intro s t; exact ⟨rfl, rfl⟩
  | succ n ih =>
    intro s t
    simp only [Periodic.run]
    split
    · exact ⟨rfl, rfl⟩
    · have h1 := ih (s.step t).1 (s.step t).2
      have h2 := step_const s t
      exact ⟨h1.1.trans h2.1, h1.2.trans h2.2⟩

theorem elapse_const (s : Periodic) (t : Int) :
    (s.elapse t).interval = s.interval ∧ (s.elapse t).initialCounter = s.initialCounter := run_const _ s t

theorem step_count (s : Periodic) (t : Int) :
    (s.step t).1.count = s.count ∨ (s.step t).1.count = s.count + 1 := by
  unfold Periodic.step
  simp only []
  split
  · exact Or.inl rfl
  · split
    · exact Or.inl rfl
    · split
      · exact Or.inr rfl
      · exact Or.inl rfl

theorem elapse_count_le (s : Periodic) (t : Int) : s.count ≤ (s.elapse t).count := Periodic.run_count_le _ s t

/-- `Periodic.set_time_left` accepts a positive duration when the initial counter is positive or absent -/
theorem setTimeLeft_defined (x : Periodic) (d : Int) (hl : 0 < d) (hi : ∀ c, x.initialCounter = some c → 0 < c) :
    ∃ y, x.setTimeLeft d = .ok y := by
  unfold Periodic.setTimeLeft
  have : ¬ d ≤ 0 := by omega
  simp only [this, if_false]
  cases hc : x.initialCounter with
  | none => exact ⟨_, rfl⟩
  | some c =>
    have := hi c hc
    have h2 : ¬ c ≤ 0 := by omega
    simp only [h2, if_false]; exact ⟨_, rfl⟩

/-- once expired, a periodic stays expired -/
theorem elapse_disabled (s : Periodic) (t : Int) (h : s.enabled = false) : (s.elapse t).enabled = false := by
  have : s.timeLeft ≤ 0 := by simpa [Periodic.enabled] using h
  rw [Periodic.elapse_expired s t this]; exact h

end Simaple.Comp.Common

/-! ### HitLimitedPeriodicDamageComponent: closed form of the hit-limited loop -/
namespace Simaple.Comp.HitLimited
open Simaple.Entity Simaple.Comp Simaple.Comp.Common

/-- an expired periodic at (or beyond) the limit: the loop does nothing -/
theorem loop_expired (M : Int) (n : Nat) (ps : Periodic) (t prev : Int) (k : Nat)
    (hc : M ≤ ps.count) (hl : ps.timeLeft ≤ 0) : loop M n ps t prev k = (ps, k) := by
  cases n with
  | zero => rfl
  | succ n =>
    simp only [loop]
    split
    · rfl
    · have e : ps.step t = (ps, 0) := by simp [Periodic.step, hl]
      rw [e]; simp only []
      rw [if_pos (by omega)]

/-- the loop on a periodic below the limit, against `Periodic.run` with the same fuel -/
theorem loop_char (M : Int) : ∀ (n : Nat) (ps : Periodic) (t : Int) (k : Nat), ps.WF → t.toNat ≤ n → ps.count < M →
    ((Periodic.run n ps t).count < M →
        loop M n ps t ps.count k = (Periodic.run n ps t, k + ((Periodic.run n ps t).count - ps.count).toNat)) ∧
    (M ≤ (Periodic.run n ps t).count →
        ∃ x, loop M n ps t ps.count k = (x, k + (M - 1 - ps.count).toNat) ∧ x.WF ∧ x.count = M ∧
          x.interval = ps.interval ∧ x.initialCounter = ps.initialCounter) := by
  intro n
  induction n with
  | zero =>
    intro ps t k _ _ hc
    simp only [Periodic.run, loop]
    refine ⟨fun _ => ?_, fun h => ?_⟩
    · simp
    · omega
  | succ n ih =>
    intro ps t k hw hn hc
    by_cases ht : t ≤ 0
    · simp only [Periodic.run, loop, ht, if_true]
      refine ⟨fun _ => ?_, fun h => ?_⟩
      · simp
      · omega
    · have hpos : 0 < t := by omega
      have hd := Periodic.step_dec ps t hw hpos
      have hw' := Periodic.step_wf ps t hw
      have hcnt := step_count ps t
      have hconst := step_const ps t
      have hmono := Periodic.run_count_le n (ps.step t).1 (ps.step t).2
      simp only [Periodic.run, loop, ht, if_false]
      by_cases hge : (ps.step t).1.count ≥ M
      · rw [if_pos hge]
        refine ⟨fun h => ?_, fun _ => ?_⟩
        · omega
        · refine ⟨(ps.step t).1, ?_, hw', by omega, hconst.1, hconst.2⟩
          have : (M - 1 - ps.count).toNat = 0 := by omega
          rw [this]; rfl
      · rw [if_neg hge]
        have hlt : (ps.step t).1.count < M := by omega
        by_cases hinc : ps.count < (ps.step t).1.count
        · rw [if_pos hinc]
          have hih := ih (ps.step t).1 (ps.step t).2 (k + 1) hw' (by omega) hlt
          refine ⟨fun h => ?_, fun h => ?_⟩
          · have h1 := hih.1 h
            clear hih ih
            rw [h1]
            congr 1; omega
          · obtain ⟨x, hx, hxw, hxc, hxi, hxn⟩ := hih.2 h
            clear hih ih
            refine ⟨x, ?_, hxw, hxc, hxi.trans hconst.1, hxn.trans hconst.2⟩
            rw [hx]; congr 1; omega
        · rw [if_neg hinc]
          have heq : (ps.step t).1.count = ps.count := by omega
          have := ih (ps.step t).1 (ps.step t).2 k hw' (by omega) hlt
          rw [heq] at this
          refine ⟨fun h => ?_, fun h => ?_⟩
          · exact this.1 h
          · obtain ⟨x, hx, hxw, hxc, hxi, hxn⟩ := this.2 h
            exact ⟨x, hx, hxw, hxc, hxi.trans hconst.1, hxn.trans hconst.2⟩

/-- the canonical representative of a periodic stopped at the limit -/
def dead (s : Periodic) (M : Int) : Periodic := { s with timeLeft := 0, count := M }

theorem dead_equiv (x y : Periodic) (M : Int) (h1 : x.interval = y.interval) (h2 : x.initialCounter = y.initialCounter) :
    Periodic.Equiv (dead x M) (dead y M) := by
  refine ⟨h1, h2, rfl, rfl, ?_⟩
  intro h; simp [dead] at h

/-- closed form of `elapse` on a reachable state -/
theorem elapse_char (p : P) (t : Int) (s : S) (hi : Inv p s) :
    ∃ (per : Periodic) (hits : Nat),
      elapse p t s = ({ cooldown := s.cooldown.elapse t, periodic := per },
                      .elapsed t :: List.replicate hits (.dealt p.periodicDamage p.periodicHit)) ∧ per.WF ∧
      (((s.periodic.elapse t).count < p.maxCount ∧ per = s.periodic.elapse t ∧
          hits = ((s.periodic.elapse t).count - s.periodic.count).toNat) ∨
       (p.maxCount ≤ (s.periodic.elapse t).count ∧ Periodic.Equiv per (dead s.periodic p.maxCount) ∧
          hits = (p.maxCount - 1 - s.periodic.count).toNat)) := by
  obtain ⟨hw, hle, hrun⟩ := hi
  by_cases hc : s.periodic.count < p.maxCount
  · have h := loop_char p.maxCount t.toNat s.periodic t 0 hw (Nat.le_refl _) hc
    by_cases he : (s.periodic.elapse t).count < p.maxCount
    · have h1 := h.1 he
      refine ⟨s.periodic.elapse t, _, ?_, Periodic.elapse_wf _ _ hw, Or.inl ⟨he, rfl, rfl⟩⟩
      unfold elapse
      simp only []
      rw [show loop p.maxCount t.toNat s.periodic t s.periodic.count 0 = _ from h1]
      simp only [Nat.zero_add]
      rw [if_neg (by unfold Periodic.elapse at he; omega)]
      rfl
    · have he' : p.maxCount ≤ (s.periodic.elapse t).count := by omega
      obtain ⟨x, hx, hxw, hxc, hxi, hxn⟩ := h.2 he'
      refine ⟨x.disable, _, ?_, hxw, Or.inr ⟨he', ?_, rfl⟩⟩
      · unfold elapse
        simp only []
        rw [hx]
        simp only [Nat.zero_add]
        rw [if_pos (by omega)]
      · refine ⟨hxi, hxn, rfl, hxc, ?_⟩
        intro h0; simp [Periodic.disable] at h0
  · have hcm : s.periodic.count = p.maxCount := by omega
    have hl : s.periodic.timeLeft ≤ 0 := by
      by_cases h0 : 0 < s.periodic.timeLeft
      · have := hrun h0; omega
      · omega
    have hex := Periodic.elapse_expired s.periodic t hl
    refine ⟨s.periodic.disable, 0, ?_, hw, Or.inr ⟨by rw [hex]; omega, ?_, by omega⟩⟩
    · unfold elapse
      simp only []
      rw [loop_expired p.maxCount _ s.periodic t _ 0 (by omega) hl]
      simp only []
      rw [if_pos (by omega)]
    · refine ⟨rfl, rfl, rfl, hcm, ?_⟩
      intro h0; simp [Periodic.disable] at h0

/-- `elapse` keeps the reachability invariant -/
theorem elapse_inv (p : P) (t : Int) (s : S) (hi : Inv p s) : Inv p (elapse p t s).1 := by
  obtain ⟨per, hits, he, hw, hcase⟩ := elapse_char p t s hi
  rw [he]
  refine ⟨hw, ?_, ?_⟩
  · rcases hcase with ⟨h1, h2, _⟩ | ⟨_, h2, _⟩
    · simp only []; rw [h2]; omega
    · simp only []; rw [h2.count]; simp [dead]
  · rcases hcase with ⟨h1, h2, _⟩ | ⟨_, h2, _⟩
    · intro _; simp only []; rw [h2]; exact h1
    · intro h0; simp only [] at h0; rw [h2.timeLeft] at h0; simp [dead] at h0

/-- `use` establishes the invariant when the hit limit is positive -/
theorem use_inv (p : P) (s : S) (r : S × List REv) (hp : PInv p) (hi : Inv p s) (h : use p s = .ok r) : Inv p r.1 := by
  unfold use at h
  split at h
  · cases h; exact hi
  · cases hs : s.periodic.setTimeLeft p.lastingDuration with
    | error e => simp [hs] at h
    | ok per =>
      simp [hs] at h
      rw [← h]
      unfold Periodic.setTimeLeft at hs
      unfold PInv at hp
      obtain ⟨⟨hI, _⟩, _, _⟩ := hi
      split at hs
      · cases hs
      · split at hs
        · split at hs
          · cases hs
          · cases hs
            refine ⟨⟨hI, by simp only []; omega⟩, by simp only []; omega, fun _ => by simp only []; omega⟩
        · cases hs
          exact ⟨⟨hI, hI⟩, by simp only []; omega, fun _ => by simp only []; omega⟩

end Simaple.Comp.HitLimited

/-! ### Keydown: the timer of a key-down only runs down -/
namespace Simaple.Comp.Common
open Simaple.Entity

theorem resolveLoop_timeLeft (n : Nat) : ∀ (rtl : Int) (s : Keydown) (k : Nat),
    (Keydown.resolveLoop n rtl s k).1.timeLeft = s.timeLeft := by
  induction n with
  | zero => intro _ _ _; rfl
  | succ n ih =>
    intro rtl s k
    simp only [Keydown.resolveLoop]
    split
    · rw [ih]
    · rfl

theorem keydown_resolving_timeLeft (s : Keydown) (t : Int) : (s.resolving t).1.timeLeft = s.timeLeft - t := by
  unfold Keydown.resolving
  simp only []
  rw [resolveLoop_timeLeft]

theorem keydown_stays_stopped (s : Keydown) (t : Int) (ht : 0 ≤ t) (h : s.running = false) :
    (s.resolving t).1.running = false := by
  simp only [Keydown.running, decide_eq_false_iff_not, keydown_resolving_timeLeft] at *
  omega

end Simaple.Comp.Common

/-! ### chunk independence: shared pieces -/
namespace Simaple.Comp.Common
open Simaple.Entity Simaple.Comp

/-- equivalence of `cooldown + periodic` states: equal up to the dead interval counter of an expired periodic -/
def PEquiv (x y : PeriodicAttack.S) : Prop := x.cooldown = y.cooldown ∧ Periodic.Equiv x.periodic y.periodic

theorem PEquiv.refl (x : PeriodicAttack.S) : PEquiv x x := ⟨rfl, Periodic.Equiv.refl _⟩
theorem PEquiv.symm {x y : PeriodicAttack.S} (h : PEquiv x y) : PEquiv y x := ⟨h.1.symm, h.2.symm⟩
theorem PEquiv.trans {x y z : PeriodicAttack.S} (h1 : PEquiv x y) (h2 : PEquiv y z) : PEquiv x z :=
  ⟨h1.1.trans h2.1, h1.2.trans h2.2⟩

/-- the tick counts of a periodic add up over a split, as numbers of events -/
theorem periodic_ticks_add (x : Periodic) (a b : Int) (hw : x.WF) (ha : 0 ≤ a) (hb : 0 ≤ b) :
    (x.elapseCount (a + b)).toNat = (x.elapseCount a).toNat + ((x.elapse a).elapseCount b).toNat := by
  have h := Periodic.elapseCount_add x a b hw ha hb
  have h1 := Periodic.elapseCount_nonneg x a
  have h2 := Periodic.elapseCount_nonneg (x.elapse a) b
  omega

/-- `set_time_left` gives a well-formed periodic -/
theorem setTimeLeft_wf (x y : Periodic) (d : Int) (hI : 0 < x.interval) (h : x.setTimeLeft d = .ok y) : y.WF := by
  unfold Periodic.setTimeLeft at h
  split at h
  · cases h
  · split at h
    · split at h
      · cases h
      · cases h
        refine ⟨hI, ?_⟩
        simp only []; omega
    · cases h; exact ⟨hI, hI⟩

/-- the damage ticks of `replicate (m + n)` split -/
theorem dmg_replicate_add (m n : Nat) (d h : Rat) :
    dmg (List.replicate (m + n) (.dealt d h)) = dmg (List.replicate m (.dealt d h)) ++ dmg (List.replicate n (.dealt d h)) := by
  simp only [dmg_replicate_dealt, List.replicate_append_replicate]

/-- the finishing blow of a "was running, is not any more" test, as a list of damage ticks -/
def finishOf (was after : Bool) (d h : Rat) : List (Rat × Rat × String) := if !after && was then [(d, h, "")] else []

/-- over a split the finishing blow is dealt in exactly one of the two chunks (`mid` = running in between;
    a stopped thing stays stopped) -/
theorem finishOf_split (was mid after : Bool) (d h : Rat) (h1 : was = false → mid = false) (h2 : mid = false → after = false) :
    finishOf was after d h = finishOf was mid d h ++ finishOf mid after d h := by
  cases was <;> cases mid <;> cases after <;> simp_all [finishOf]

/-- the damage content of the key-down `elapse` -/
theorem keydown_dmg (p : KeydownSkill.P) (t : Int) (s : KeydownSkill.S) :
    dmg (KeydownSkill.elapse p t s).2 =
      List.replicate (s.keydown.resolving t).2 (p.damage, p.hit, "") ++
        finishOf s.keydown.running (s.keydown.resolving t).1.running p.finishDamage p.finishHit := by
  unfold KeydownSkill.elapse finishOf
  simp only []
  by_cases h : (s.keydown.running && !(s.keydown.resolving t).1.running) = true
  · rw [if_pos h]
    have h' : (!(s.keydown.resolving t).1.running && s.keydown.running) = true := by
      rw [Bool.and_comm]; exact h
    rw [if_pos h']
    simp only [dmg_append, dmg_replicate_dealt]
    simp [dmg, dmgOf]
  · rw [if_neg h]
    have h' : ¬ (!(s.keydown.resolving t).1.running && s.keydown.running) = true := by
      rw [Bool.and_comm]; exact h
    rw [if_neg h']
    simp only [dmg_append, dmg_replicate_dealt]
    simp [dmg, dmgOf]

/-- the damage content of the `PeriodicWithFinish` `elapse` -/
theorem periodicWithFinish_dmg (p : PeriodicWithFinish.P) (t : Int) (s : PeriodicWithFinish.S) :
    dmg (PeriodicWithFinish.elapse p t s).2 =
      List.replicate (s.periodic.elapseCount t).toNat (p.periodicDamage, p.periodicHit, "") ++
        finishOf s.periodic.enabled (s.periodic.elapse t).enabled p.finishDamage p.finishHit := by
  unfold PeriodicWithFinish.elapse finishOf
  simp only []
  have e1 : (s.periodic.elapse' t).1 = s.periodic.elapse t := rfl
  have e2 : (s.periodic.elapse' t).2 = s.periodic.elapseCount t := rfl
  rw [e1, e2]
  by_cases h : (!(s.periodic.elapse t).enabled && s.periodic.enabled) = true
  · rw [if_pos h, if_pos h]
    simp only [dmg_append, dmg_cons_elapsed, dmg_replicate_dealt]
    simp [dmg, dmgOf]
  · rw [if_neg h, if_neg h]
    simp only [dmg_cons_elapsed, dmg_replicate_dealt, List.append_nil]

end Simaple.Comp.Common

namespace Simaple.Comp.Common
open Simaple.Entity Simaple.Comp

/-- `elapse_periodic_damage_trait` (cooldown + periodic, ticks of one damage kind) over a split -/
def periodicTraitElapse (d h : Rat) (t : Int) (x : PeriodicAttack.S) : PeriodicAttack.S × List REv :=
  ({ cooldown := x.cooldown.elapse t, periodic := (x.periodic.elapse' t).1 },
   .elapsed t :: List.replicate (x.periodic.elapse' t).2.toNat (.dealt d h))

theorem periodicTrait_split (d h : Rat) (s : PeriodicAttack.S) (a b : Int) (hw : s.periodic.WF) (ha : 0 ≤ a) (hb : 0 ≤ b) :
    PEquiv (periodicTraitElapse d h b (periodicTraitElapse d h a s).1).1 (periodicTraitElapse d h (a + b) s).1 ∧
    dmg (periodicTraitElapse d h (a + b) s).2 =
      dmg (periodicTraitElapse d h a s).2 ++ dmg (periodicTraitElapse d h b (periodicTraitElapse d h a s).1).2 := by
  refine ⟨⟨?_, ?_⟩, ?_⟩
  · simp only [periodicTraitElapse, Cooldown.elapse_add]
  · exact Periodic.elapse_add' s.periodic a b hw ha hb
  · simp only [periodicTraitElapse, Periodic.elapse', dmg_cons_elapsed, dmg_replicate_dealt,
      List.replicate_append_replicate]
    rw [periodic_ticks_add s.periodic a b hw ha hb]

/-- equivalent states answer the same events and stay equivalent -/
theorem periodicTrait_congr (d h : Rat) (t : Int) (x y : PeriodicAttack.S) (hxy : PEquiv x y) :
    PEquiv (periodicTraitElapse d h t x).1 (periodicTraitElapse d h t y).1 ∧
    (periodicTraitElapse d h t x).2 = (periodicTraitElapse d h t y).2 := by
  refine ⟨⟨?_, ?_⟩, ?_⟩
  · simp only [periodicTraitElapse, hxy.1]
  · exact Periodic.elapse_equiv _ _ t hxy.2
  · simp only [periodicTraitElapse, Periodic.elapse', hxy.2.elapseCount t]

end Simaple.Comp.Common

namespace Simaple.Comp.HitLimited
open Simaple.Entity Simaple.Comp Simaple.Comp.Common

/-- chunk independence of the hit-limited `elapse` on reachable states -/
theorem elapse_add (p : P) (s : S) (a b : Int) (hi : Inv p s) (ha : 0 ≤ a) (hb : 0 ≤ b) :
    (elapse p b (elapse p a s).1).1.cooldown = (elapse p (a + b) s).1.cooldown ∧
    Periodic.Equiv (elapse p b (elapse p a s).1).1.periodic (elapse p (a + b) s).1.periodic ∧
    dmg (elapse p (a + b) s).2 = dmg (elapse p a s).2 ++ dmg (elapse p b (elapse p a s).1).2 := by
  have hw := hi.1
  have hi1 := elapse_inv p a s hi
  obtain ⟨per1, h1, e1, w1, c1⟩ := elapse_char p a s hi
  rw [e1] at hi1
  simp only [] at hi1
  obtain ⟨per2, h2, e2, w2, c2⟩ := elapse_char p b _ hi1
  obtain ⟨per3, h3, e3, w3, c3⟩ := elapse_char p (a + b) s hi
  simp only [] at c2
  rw [e1]; simp only []
  rw [e2, e3]
  simp only [dmg_cons_elapsed, dmg_replicate_dealt, List.replicate_append_replicate, Cooldown.elapse_add, true_and]
  have hadd := Periodic.elapse_add' s.periodic a b hw ha hb
  have hcnt := hadd.count
  have mono1 := elapse_count_le s.periodic a
  have mono2 := elapse_count_le (s.periodic.elapse a) b
  have hconst := elapse_const s.periodic a
  rcases c1 with ⟨l1, q1, n1⟩ | ⟨l1, q1, n1⟩
  · subst q1
    rcases c2 with ⟨l2, q2, n2⟩ | ⟨l2, q2, n2⟩ <;> rcases c3 with ⟨l3, q3, n3⟩ | ⟨l3, q3, n3⟩
    · subst q2 q3
      refine ⟨hadd, ?_⟩
      congr 1; omega
    · omega
    · omega
    · refine ⟨q2.trans ((dead_equiv _ _ _ hconst.1 hconst.2).trans q3.symm), ?_⟩
      congr 1; omega
  · have htl : per1.timeLeft = 0 := q1.timeLeft
    have hc1 : per1.count = p.maxCount := q1.count
    have hex : per1.elapse b = per1 := Periodic.elapse_expired per1 b (by omega)
    rw [hex] at c2
    have hI : per1.interval = s.periodic.interval := q1.1
    have hN : per1.initialCounter = s.periodic.initialCounter := q1.2.1
    rcases c2 with ⟨l2, q2, n2⟩ | ⟨l2, q2, n2⟩ <;> rcases c3 with ⟨l3, q3, n3⟩ | ⟨l3, q3, n3⟩
    · omega
    · omega
    · omega
    · refine ⟨q2.trans ((dead_equiv _ _ _ hI hN).trans q3.symm), ?_⟩
      congr 1; omega

end Simaple.Comp.HitLimited
