import Simaple.Model.ComponentCommon
import Simaple.Proofs.Component
import Simaple.Proofs.EntityPeriodic
import Simaple.Proofs.EntityTimers
import Simaple.Proofs.EntityDot
/-! helper lemmas for the part `Common` of the L2 component theorems (core Lean only) -/
namespace Simaple.Comp.Common
open Simaple.Entity Simaple.Comp

/-- the damage content of an event: (damage, hit, modifier text — empty for the component's own modifier) -/
def dmgOf : REv → Option (Rat × Rat × String)
  | .dealt d h => some (d, h, "")
  | .dealtMod d h m => some (d, h, m)
  | _ => none

/-- the damage ticks of an answer, in order -/
def dmg (evs : List REv) : List (Rat × Rat × String) := evs.filterMap dmgOf

/-- the times carried by the `elapsed` events of an answer -/
def elapsedOf : REv → Option Int
  | .elapsed t => some t
  | _ => none
def elapsedTimes (evs : List REv) : List Int := evs.filterMap elapsedOf

theorem dmg_append (a b : List REv) : dmg (a ++ b) = dmg a ++ dmg b := by simp [dmg, List.filterMap_append]
theorem dmg_cons_elapsed (t : Int) (evs : List REv) : dmg (.elapsed t :: evs) = dmg evs := by
  simp [dmg, List.filterMap_cons, dmgOf]
theorem dmg_replicate_dealt (n : Nat) (d h : Rat) : dmg (List.replicate n (.dealt d h)) = List.replicate n (d, h, "") := by
  induction n with
  | zero => rfl
  | succ n ih => simp only [List.replicate_succ, dmg, List.filterMap_cons, dmgOf] at *; rw [ih]
theorem dmg_single_dealt (d h : Rat) : dmg [.dealt d h] = [(d, h, "")] := rfl

theorem elapsedTimes_replicate_dealt (n : Nat) (d h : Rat) : elapsedTimes (List.replicate n (.dealt d h)) = [] := by
  induction n with
  | zero => rfl
  | succ n ih => simp only [List.replicate_succ, elapsedTimes, List.filterMap_cons, elapsedOf] at *; rw [ih]
theorem elapsedTimes_append (a b : List REv) : elapsedTimes (a ++ b) = elapsedTimes a ++ elapsedTimes b := by
  simp [elapsedTimes, List.filterMap_append]
theorem elapsedTimes_cons_elapsed (t : Int) (evs : List REv) : elapsedTimes (.elapsed t :: evs) = t :: elapsedTimes evs := by
  simp [elapsedTimes, List.filterMap_cons, elapsedOf]

theorem rejectedIn_append (a b : List REv) : rejectedIn (a ++ b) = (rejectedIn a || rejectedIn b) := by
  simp [rejectedIn, List.any_append]
theorem rejectedIn_dealtAll (dh : List (Rat × Rat)) : rejectedIn (dealtAll dh) = false := by
  simp [rejectedIn, dealtAll, List.any_map, REv.isReject]
theorem rejectedIn_replicate_dealt (n : Nat) (d h : Rat) : rejectedIn (List.replicate n (.dealt d h)) = false := by
  simp [rejectedIn, List.any_replicate, REv.isReject]

theorem replicate_add_toNat {α : Type} (x : α) (m n : Nat) :
    List.replicate (m + n) x = List.replicate m x ++ List.replicate n x := by
  simp [List.replicate_append_replicate]

/-! ### Periodic: facts the component theorems need on top of `Proofs/EntityPeriodic.lean` -/

theorem step_const (s : Periodic) (t : Int) :
    (s.step t).1.interval = s.interval ∧ (s.step t).1.initialCounter = s.initialCounter := by
  unfold Periodic.step
  simp only []
  split
  · exact ⟨rfl, rfl⟩
  · split
    · exact ⟨rfl, rfl⟩
    · split <;> exact ⟨rfl, rfl⟩

theorem run_const (n : Nat) : ∀ (s : Periodic) (t : Int),
    (Periodic.run n s t).interval = s.interval ∧ (Periodic.run n s t).initialCounter = s.initialCounter := by
  induction n with
  | zero => intro s t; exact ⟨rfl, rfl⟩
  | succ n ih =>
    intro s t
    simp only [Periodic.run]
    split
    · exact ⟨rfl, rfl⟩
    · have h1 := ih (s.step t).1 (s.step t).2
      have h2 := step_const s t
      exact ⟨h1.1.trans h2.1, h1.2.trans h2.2⟩

theorem elapse_const (s : Periodic) (t : Int) :
    (s.elapse t).interval = s.interval ∧ (s.elapse t).initialCounter = s.initialCounter := run_const _ s t

theorem step_count (s : Periodic) (t : Int) :
    (s.step t).1.count = s.count ∨ (s.step t).1.count = s.count + 1 := by
  unfold Periodic.step
  simp only []
  split
  · exact Or.inl rfl
  · split
    · exact Or.inl rfl
    · split
      · exact Or.inr rfl
      · exact Or.inl rfl

theorem elapse_count_le (s : Periodic) (t : Int) : s.count ≤ (s.elapse t).count := Periodic.run_count_le _ s t

/-- once expired, a periodic stays expired -/
theorem elapse_disabled (s : Periodic) (t : Int) (h : s.enabled = false) : (s.elapse t).enabled = false := by
  have : s.timeLeft ≤ 0 := by simpa [Periodic.enabled] using h
  rw [Periodic.elapse_expired s t this]; exact h

end Simaple.Comp.Common

/-! ### HitLimitedPeriodicDamageComponent: closed form of the hit-limited loop -/
namespace Simaple.Comp.HitLimited
open Simaple.Entity Simaple.Comp Simaple.Comp.Common

/-- an expired periodic at (or beyond) the limit: the loop does nothing -/
theorem loop_expired (M : Int) (n : Nat) (ps : Periodic) (t prev : Int) (k : Nat)
    (hc : M ≤ ps.count) (hl : ps.timeLeft ≤ 0) : loop M n ps t prev k = (ps, k) := by
  cases n with
  | zero => rfl
  | succ n =>
    simp only [loop]
    split
    · rfl
    · have e : ps.step t = (ps, 0) := by simp [Periodic.step, hl]
      rw [e]; simp only []
      rw [if_pos (by omega)]

/-- the loop on a periodic below the limit, against `Periodic.run` with the same fuel -/
theorem loop_char (M : Int) : ∀ (n : Nat) (ps : Periodic) (t : Int) (k : Nat), ps.WF → t.toNat ≤ n → ps.count < M →
    ((Periodic.run n ps t).count < M →
        loop M n ps t ps.count k = (Periodic.run n ps t, k + ((Periodic.run n ps t).count - ps.count).toNat)) ∧
    (M ≤ (Periodic.run n ps t).count →
        ∃ x, loop M n ps t ps.count k = (x, k + (M - 1 - ps.count).toNat) ∧ x.WF ∧ x.count = M ∧
          x.interval = ps.interval ∧ x.initialCounter = ps.initialCounter) := by
  intro n
  induction n with
  | zero =>
    intro ps t k _ _ hc
    simp only [Periodic.run, loop]
    refine ⟨fun _ => ?_, fun h => ?_⟩
    · simp
    · omega
  | succ n ih =>
    intro ps t k hw hn hc
    by_cases ht : t ≤ 0
    · simp only [Periodic.run, loop, ht, if_true]
      refine ⟨fun _ => ?_, fun h => ?_⟩
      · simp
      · omega
    · have hpos : 0 < t := by omega
      have hd := Periodic.step_dec ps t hw hpos
      have hw' := Periodic.step_wf ps t hw
      have hcnt := step_count ps t
      have hconst := step_const ps t
      have hmono := Periodic.run_count_le n (ps.step t).1 (ps.step t).2
      simp only [Periodic.run, loop, ht, if_false]
      by_cases hge : (ps.step t).1.count ≥ M
      · rw [if_pos hge]
        refine ⟨fun h => ?_, fun _ => ?_⟩
        · omega
        · refine ⟨(ps.step t).1, ?_, hw', by omega, hconst.1, hconst.2⟩
          have : (M - 1 - ps.count).toNat = 0 := by omega
          rw [this]; rfl
      · rw [if_neg hge]
        have hlt : (ps.step t).1.count < M := by omega
        by_cases hinc : ps.count < (ps.step t).1.count
        · rw [if_pos hinc]
          have hih := ih (ps.step t).1 (ps.step t).2 (k + 1) hw' (by omega) hlt
          refine ⟨fun h => ?_, fun h => ?_⟩
          · have h1 := hih.1 h
            clear hih ih
            rw [h1]
            congr 1; omega
          · obtain ⟨x, hx, hxw, hxc, hxi, hxn⟩ := hih.2 h
            clear hih ih
            refine ⟨x, ?_, hxw, hxc, hxi.trans hconst.1, hxn.trans hconst.2⟩
            rw [hx]; congr 1; omega
        · rw [if_neg hinc]
          have heq : (ps.step t).1.count = ps.count := by omega
          have := ih (ps.step t).1 (ps.step t).2 k hw' (by omega) hlt
          rw [heq] at this
          refine ⟨fun h => ?_, fun h => ?_⟩
          · exact this.1 h
          · obtain ⟨x, hx, hxw, hxc, hxi, hxn⟩ := this.2 h
            exact ⟨x, hx, hxw, hxc, hxi.trans hconst.1, hxn.trans hconst.2⟩

/-- the canonical representative of a periodic stopped at the limit -/
def dead (s : Periodic) (M : Int) : Periodic := { s with timeLeft := 0, count := M }

theorem dead_equiv (x y : Periodic) (M : Int) (h1 : x.interval = y.interval) (h2 : x.initialCounter = y.initialCounter) :
    Periodic.Equiv (dead x M) (dead y M) := by
  refine ⟨h1, h2, rfl, rfl, ?_⟩
  intro h; simp [dead] at h

/-- closed form of `elapse` on a reachable state -/
theorem elapse_char (p : P) (t : Int) (s : S) (hi : Inv p s) :
    ∃ (per : Periodic) (hits : Nat),
      elapse p t s = ({ cooldown := s.cooldown.elapse t, periodic := per },
                      .elapsed t :: List.replicate hits (.dealt p.periodicDamage p.periodicHit)) ∧ per.WF ∧
      (((s.periodic.elapse t).count < p.maxCount ∧ per = s.periodic.elapse t ∧
          hits = ((s.periodic.elapse t).count - s.periodic.count).toNat) ∨
       (p.maxCount ≤ (s.periodic.elapse t).count ∧ Periodic.Equiv per (dead s.periodic p.maxCount) ∧
          hits = (p.maxCount - 1 - s.periodic.count).toNat)) := by
  obtain ⟨hw, hle, hrun⟩ := hi
  by_cases hc : s.periodic.count < p.maxCount
  · have h := loop_char p.maxCount t.toNat s.periodic t 0 hw (Nat.le_refl _) hc
    by_cases he : (s.periodic.elapse t).count < p.maxCount
    · have h1 := h.1 he
      refine ⟨s.periodic.elapse t, _, ?_, Periodic.elapse_wf _ _ hw, Or.inl ⟨he, rfl, rfl⟩⟩
      unfold elapse
      simp only []
      rw [show loop p.maxCount t.toNat s.periodic t s.periodic.count 0 = _ from h1]
      simp only [Nat.zero_add]
      rw [if_neg (by unfold Periodic.elapse at he; omega)]
      rfl
    · have he' : p.maxCount ≤ (s.periodic.elapse t).count := by omega
      obtain ⟨x, hx, hxw, hxc, hxi, hxn⟩ := h.2 he'
      refine ⟨x.disable, _, ?_, hxw, Or.inr ⟨he', ?_, rfl⟩⟩
      · unfold elapse
        simp only []
        rw [hx]
        simp only [Nat.zero_add]
        rw [if_pos (by omega)]
      · refine ⟨hxi, hxn, rfl, hxc, ?_⟩
        intro h0; simp [Periodic.disable] at h0
  · have hcm : s.periodic.count = p.maxCount := by omega
    have hl : s.periodic.timeLeft ≤ 0 := by
      by_cases h0 : 0 < s.periodic.timeLeft
      · have := hrun h0; omega
      · omega
    have hex := Periodic.elapse_expired s.periodic t hl
    refine ⟨s.periodic.disable, 0, ?_, hw, Or.inr ⟨by rw [hex]; omega, ?_, by omega⟩⟩
    · unfold elapse
      simp only []
      rw [loop_expired p.maxCount _ s.periodic t _ 0 (by omega) hl]
      simp only []
      rw [if_pos (by omega)]
    · refine ⟨rfl, rfl, rfl, hcm, ?_⟩
      intro h0; simp [Periodic.disable] at h0

/-- `elapse` keeps the reachability invariant -/
theorem elapse_inv (p : P) (t : Int) (s : S) (hi : Inv p s) : Inv p (elapse p t s).1 := by
  obtain ⟨per, hits, he, hw, hcase⟩ := elapse_char p t s hi
  rw [he]
  refine ⟨hw, ?_, ?_⟩
  · rcases hcase with ⟨h1, h2, _⟩ | ⟨_, h2, _⟩
    · simp only []; rw [h2]; omega
    · simp only []; rw [h2.count]; simp [dead]
  · rcases hcase with ⟨h1, h2, _⟩ | ⟨_, h2, _⟩
    · intro _; simp only []; rw [h2]; exact h1
    · intro h0; simp only [] at h0; rw [h2.timeLeft] at h0; simp [dead] at h0

/-- `use` establishes the invariant when the hit limit is positive -/
theorem use_inv (p : P) (s : S) (r : S × List REv) (hp : PInv p) (hi : Inv p s) (h : use p s = .ok r) : Inv p r.1 := by
  unfold use at h
  split at h
  · cases h; exact hi
  · cases hs : s.periodic.setTimeLeft p.lastingDuration with
    | error e => simp [hs] at h
    | ok per =>
      simp [hs] at h
      rw [← h]
      unfold Periodic.setTimeLeft at hs
      unfold PInv at hp
      obtain ⟨⟨hI, _⟩, _, _⟩ := hi
      split at hs
      · cases hs
      · split at hs
        · split at hs
          · cases hs
          · cases hs
            refine ⟨⟨hI, by simp only []; omega⟩, by simp only []; omega, fun _ => by simp only []; omega⟩
        · cases hs
          exact ⟨⟨hI, hI⟩, by simp only []; omega, fun _ => by simp only []; omega⟩

end Simaple.Comp.HitLimited

/-! ### Keydown: the timer of a key-down only runs down -/
namespace Simaple.Comp.Common
open Simaple.Entity

theorem resolveLoop_timeLeft (n : Nat) : ∀ (rtl : Int) (s : Keydown) (k : Nat),
    (Keydown.resolveLoop n rtl s k).1.timeLeft = s.timeLeft := by
  induction n with
  | zero => intro _ _ _; rfl
  | succ n ih =>
    intro rtl s k
    simp only [Keydown.resolveLoop]
    split
    · rw [ih]
    · rfl

theorem keydown_resolving_timeLeft (s : Keydown) (t : Int) : (s.resolving t).1.timeLeft = s.timeLeft - t := by
  unfold Keydown.resolving
  simp only []
  rw [resolveLoop_timeLeft]

theorem keydown_stays_stopped (s : Keydown) (t : Int) (ht : 0 ≤ t) (h : s.running = false) :
    (s.resolving t).1.running = false := by
  simp only [Keydown.running, decide_eq_false_iff_not, keydown_resolving_timeLeft] at *
  omega

end Simaple.Comp.Common
