import Simaple.Proofs.Bonus
/-!
C18 helper lemmas, part 2: `_search_bonus` (the decomposition stage with its accumulating remainder) is sound
and complete.
-/
namespace Simaple.Bonus

/-! ### itertools -/

theorem mem_product {gs : List Int} : ∀ {n : Nat} {tup : List Int},
    tup ∈ product gs n → tup.length = n ∧ ∀ d ∈ tup, d ∈ gs := by
  intro n
  induction n with
  | zero => intro tup h; simp [product] at h; subst h; simp
  | succ n ih =>
    intro tup h
    simp only [product, List.mem_flatMap, List.mem_map] at h
    obtain ⟨g, hg, t, ht, rfl⟩ := h
    obtain ⟨h1, h2⟩ := ih ht
    refine ⟨by simp [h1], ?_⟩
    intro d hd
    rcases List.mem_cons.1 hd with hd | hd
    · subst hd; exact hg
    · exact h2 d hd

theorem mem_combinations {α : Type} : ∀ (l : List α) (k : Nat) (c : List α),
    c ∈ combinations l k → c.length = k ∧ c.Sublist l := by
  intro l
  induction l with
  | nil =>
    intro k c h
    cases k with
    | zero => simp [combinations] at h; subst h; simp
    | succ k => simp [combinations] at h
  | cons x xs ih =>
    intro k c h
    cases k with
    | zero => simp [combinations] at h; subst h; simp
    | succ k =>
      simp only [combinations, List.mem_append, List.mem_map] at h
      rcases h with ⟨c', hc', rfl⟩ | h
      · obtain ⟨h1, h2⟩ := ih k c' hc'
        exact ⟨by simp [h1], h2.cons_cons x⟩
      · obtain ⟨h1, h2⟩ := ih (k + 1) c h
        exact ⟨h1, h2.cons x⟩

theorem combinations_zero {α : Type} (l : List α) : combinations l 0 = [[]] := by
  cases l <;> rfl

/-! ### `decompose_into_grades` -/

theorem mem_decompose {gs : List Int} {left : Nat} {sb db maxV : Int} {x : Int × Option (List Int)}
    (h : x ∈ decompose gs left sb db maxV) :
    x.1 ∈ gs ∧ 1 ≤ left ∧
      ∀ duals, x.2 = some duals →
        duals.length + 1 ≤ left ∧ (∀ d ∈ duals, d ∈ gs) ∧ (maxV - x.1 * sb) % db = 0
          ∧ duals.sum = (maxV - x.1 * sb) / db := by
  unfold decompose at h
  simp only [List.mem_flatMap, List.mem_range'_1, List.mem_append] at h
  obtain ⟨count, ⟨hc1, hc2⟩, g, hg, h⟩ := h
  rcases h with h | h
  · split at h
    · simp only [List.mem_singleton] at h
      subst h
      exact ⟨hg, by omega, by intro duals hd; simp at hd⟩
    · simp at h
  · split at h
    · rename_i hmod
      simp only [List.mem_map, List.mem_filter, decide_eq_true_eq] at h
      obtain ⟨tup, ⟨htup, hsum⟩, rfl⟩ := h
      obtain ⟨hl, hmem⟩ := mem_product htup
      refine ⟨hg, by omega, ?_⟩
      intro duals hd
      simp only [Option.some.injEq] at hd
      subst hd
      exact ⟨by omega, hmem, hmod, hsum⟩
    · simp at h

/-! ### the maximal component -/

theorem maxType_single (v : V4) : isSingleStat v.maxType := by
  unfold V4.maxType isSingleStat
  simp only
  split
  · simp
  · split
    · simp
    · split <;> simp

theorem comp_maxType (v : V4) : v.comp v.maxType = v.maxValue := by
  unfold V4.maxType
  simp only
  split
  · rename_i h; simpa [V4.comp] using h
  · split
    · rename_i h; simpa [V4.comp] using h
    · split
      · rename_i h; simpa [V4.comp] using h
      · rename_i h1 h2 h3
        simp only [V4.comp]
        unfold V4.maxValue at *
        simp only at *
        split at h1 <;> split at h1 <;> split at h1 <;> omega

theorem comp_add (a b : V4) (k : Kind) : (a + b).comp k = a.comp k + b.comp k := by
  cases k <;> simp [V4.comp]

theorem comp_sub (a b : V4) (k : Kind) : (a - b).comp k = a.comp k - b.comp k := by
  cases k <;> simp [V4.comp]

theorem comp_lookup_single {m : Meta} {mt : Kind} (hmt : isSingleStat mt) {g : Int} (hg : g ∈ grades m) :
    (lookup m mt g).comp mt = singleBasis m.reqLevel * g := by
  rw [lookup_of_mem hg]
  rcases hmt with h | h | h | h <;> subst h <;> rfl

theorem comp_lookup_dual {m : Meta} {mt t : Kind} (hmt : isSingleStat mt) (ht : t ∈ dualTypes mt) {g : Int}
    (hg : g ∈ grades m) : (lookup m t g).comp mt = dualBasis m.reqLevel * g := by
  rw [lookup_of_mem hg]
  rcases hmt with h | h | h | h <;> subst h <;>
    simp only [dualTypes, List.mem_cons, List.not_mem_nil, or_false] at ht <;>
    rcases ht with h | h | h <;> subst h <;> rfl

theorem dualTypes_stat {mt t : Kind} (ht : t ∈ dualTypes mt) : t ∈ statTypes := by
  cases mt <;> simp only [dualTypes, List.mem_cons, List.not_mem_nil, or_false] at ht <;>
    rcases ht with h | h | h <;> subst h <;> decide

theorem dualTypes_nodup (mt : Kind) : (dualTypes mt).Nodup := by
  cases mt <;> decide

theorem not_mem_dualTypes_self {mt : Kind} : mt ∉ dualTypes mt := by
  cases mt <;> decide

theorem single_stat_mem {mt : Kind} (h : isSingleStat mt) : mt ∈ statTypes := by
  rcases h with h | h | h | h <;> subst h <;> decide

/-! ### `_calculate_sdil` -/

theorem foldl_lookup (m : Meta) (l : List Opt) (acc : V4) :
    l.foldl (fun acc tg => acc + lookup m tg.1 tg.2) acc = acc + sumLookup m l := by
  induction l generalizing acc with
  | nil => simp [sumLookup]
  | cons x xs ih => simp [List.foldl, ih, sumLookup, V4.add_assoc]

theorem calcSdil_eq (m : Meta) (ts : List Kind) (gs : List Int) :
    calcSdil m ts gs = sumLookup m (List.zip ts gs) := by
  unfold calcSdil
  rw [foldl_lookup, V4.zero_add]

theorem comp_sum_zip {m : Meta} {mt : Kind} (hmt : isSingleStat mt) :
    ∀ (c : List Kind) (duals : List Int), c.length = duals.length → (∀ t ∈ c, t ∈ dualTypes mt) →
      (∀ d ∈ duals, d ∈ grades m) →
      (sumLookup m (List.zip c duals)).comp mt = dualBasis m.reqLevel * duals.sum := by
  intro c
  induction c with
  | nil =>
    intro duals hl _ _
    have : duals = [] := List.eq_nil_of_length_eq_zero (by simpa using hl.symm)
    subst this
    cases mt <;> simp [sumLookup, V4.comp]
  | cons t ts ih =>
    intro duals hl hc hd
    cases duals with
    | nil => simp at hl
    | cons d ds =>
      simp only [List.zip_cons_cons, sumLookup, comp_add, List.sum_cons]
      rw [comp_lookup_dual hmt (hc t (by simp)) (hd d (by simp)),
        ih ds (by simpa using hl) (fun t ht => hc t (by simp [ht])) (fun d hd' => hd d (by simp [hd']))]
      rw [Int.mul_add]

theorem sum_pos_of_grades {m : Meta} : ∀ (duals : List Int), duals ≠ [] → (∀ d ∈ duals, d ∈ grades m) →
    1 ≤ duals.sum := by
  intro duals
  induction duals with
  | nil => intro h; exact absurd rfl h
  | cons d ds ih =>
    intro _ hd
    have h1 := grade_pos (hd d (by simp))
    rw [List.sum_cons]
    cases ds with
    | nil => simp; omega
    | cons e es =>
      have := ih (by simp) (fun x hx => hd x (by simp [hx]))
      omega

/-! ### the combinations loop -/

/-- once the component of the maximal stat is below what every combination subtracts, no later combination
    succeeds (this is what the missing reset of `remaining_sdil` amounts to) -/
theorem comboLoop_none (m : Meta) (lc : Nat) (mt : Kind) (g : Int) (duals : List Int) (lv : Int)
    (hlv : 0 ≤ lv) :
    ∀ (cs : List (List Kind)) (rem : V4), (∀ c ∈ cs, (calcSdil m c duals).comp mt = lv) →
      rem.comp mt < lv → comboLoop m lc mt g duals rem cs = none := by
  intro cs
  induction cs with
  | nil => intro rem _ _; rfl
  | cons c cs ih =>
    intro rem hcs hrem
    unfold comboLoop
    have hc := hcs c (by simp)
    have hneg : (rem - calcSdil m c duals).comp mt < 0 := by rw [comp_sub, hc]; omega
    simp only [searchRec_none_of_neg m lc _ _ hneg]
    exact ih _ (fun c' hc' => hcs c' (by simp [hc'])) (by omega)

/-- a success of the combinations loop comes from its first combination, i.e. from the un-accumulated
    remainder -/
theorem comboLoop_some (m : Meta) (lc : Nat) (mt : Kind) (g : Int) (duals : List Int) (lv : Int)
    (cs : List (List Kind)) (rem : V4) (res : List Opt)
    (hcs : ∀ c ∈ cs, (calcSdil m c duals).comp mt = lv) (hrem : rem.comp mt = lv)
    (hlv : 0 < lv ∨ cs.length ≤ 1)
    (h : comboLoop m lc mt g duals rem cs = some res) :
    ∃ c r, c ∈ cs ∧ searchRec m lc (rem - calcSdil m c duals) ([mt] ++ c) = some r
      ∧ res = r ++ [(mt, g)] ++ List.zip c duals := by
  cases cs with
  | nil => simp [comboLoop] at h
  | cons c cs =>
    unfold comboLoop at h
    simp only at h
    split at h
    · rename_i r hr
      injection h with h
      exact ⟨c, r, by simp, hr, h.symm⟩
    · exfalso
      rcases hlv with hlv | hlv
      · have hc := hcs c (by simp)
        have := comboLoop_none m lc mt g duals lv (by omega) cs (rem - calcSdil m c duals)
          (fun c' hc' => hcs c' (by simp [hc'])) (by rw [comp_sub, hc, hrem]; omega)
        rw [this] at h; simp at h
      · have : cs = [] := List.eq_nil_of_length_eq_zero (by simp only [List.length_cons] at hlv; omega)
        subst this
        simp [comboLoop] at h

/-! ### `_search_bonus` -/

theorem tryDecomposition_sound (m : Meta) (hm : 0 ≤ m.reqLevel) (target : V4) (left : Nat)
    (x : Int × Option (List Int)) (res : List Opt)
    (hx : x ∈ decompose (grades m) left (singleBasis m.reqLevel) (dualBasis m.reqLevel) target.maxValue)
    (h : tryDecomposition m target left target.maxType x = some res) :
    StatSol m left target [] res := by
  obtain ⟨hg, hleft, hduals⟩ := mem_decompose hx
  have hmt := maxType_single target
  obtain ⟨g, od⟩ := x
  unfold tryDecomposition at h
  simp only at h hg hduals
  cases od with
  | none =>
    simp only at h
    obtain ⟨r, hr, rfl⟩ := Option.map_eq_some_iff.1 h
    have S := searchRec_sound m _ _ _ _ hr
    refine ⟨?_, ?_, by simp, ?_, ?_, ?_⟩
    · have := S.len; simp; omega
    · rw [List.map_append, List.nodup_append]
      refine ⟨S.nodup, by simp, ?_⟩
      intro a ha b hb
      simp only [List.map_cons, List.map_nil, List.mem_singleton] at hb
      subst hb
      obtain ⟨o, ho, rfl⟩ := List.mem_map.1 ha
      have := S.disj o ho
      intro heq
      exact this (by simp [heq])
    · intro o ho
      rcases List.mem_append.1 ho with ho | ho
      · exact S.stat o ho
      · simp only [List.mem_singleton] at ho; subst ho; exact single_stat_mem hmt
    · intro o ho
      rcases List.mem_append.1 ho with ho | ho
      · exact S.grade o ho
      · simp only [List.mem_singleton] at ho; subst ho; exact hg
    · rw [sumLookup_append, S.sum]
      simp only [sumLookup, V4.add_zero]
      exact V4.sub_add_cancel _ _
  | some duals =>
    simp only at h
    obtain ⟨hlen, hdg, hmod, hsum⟩ := hduals duals rfl
    -- what every combination subtracts from the maximal component
    let lv := target.maxValue - g * singleBasis m.reqLevel
    have hlv_eq : dualBasis m.reqLevel * duals.sum = lv := by
      have := Int.mul_ediv_add_emod lv (dualBasis m.reqLevel)
      rw [hsum]; show dualBasis m.reqLevel * (lv / dualBasis m.reqLevel) = lv
      have hmod' : lv % dualBasis m.reqLevel = 0 := hmod
      omega
    have hcs : ∀ c ∈ combinations (dualTypes target.maxType) duals.length,
        (calcSdil m c duals).comp target.maxType = lv := by
      intro c hc
      obtain ⟨hl, hsub⟩ := mem_combinations _ _ _ hc
      rw [calcSdil_eq, comp_sum_zip hmt c duals hl (fun t ht => hsub.subset ht) hdg, hlv_eq]
    have hrem : (target - lookup m target.maxType g).comp target.maxType = lv := by
      rw [comp_sub, comp_maxType, comp_lookup_single hmt hg, Int.mul_comm]
    have hpos : 0 < lv ∨ (combinations (dualTypes target.maxType) duals.length).length ≤ 1 := by
      cases hd : duals with
      | nil => right; simp [combinations_zero]
      | cons d ds =>
        left
        have h1 := sum_pos_of_grades (m := m) duals (by simp [hd]) hdg
        have h2 := dualBasis_pos hm
        have := Int.mul_le_mul h2 h1 (by omega) (by omega)
        rw [hlv_eq] at this
        omega
    obtain ⟨c, r, hc, hr, rfl⟩ := comboLoop_some m _ _ g duals lv _ _ res hcs hrem hpos h
    obtain ⟨hl, hsub⟩ := mem_combinations _ _ _ hc
    have S := searchRec_sound m _ _ _ _ hr
    have hzipfst : (List.zip c duals).map Prod.fst = c := List.map_fst_zip (by omega)
    refine ⟨?_, ?_, by simp, ?_, ?_, ?_⟩
    · have := S.len
      simp only [List.length_append, List.length_zip, List.length_cons, List.length_nil]
      omega
    · rw [List.map_append, List.map_append, hzipfst, List.nodup_append]
      refine ⟨?_, hsub.nodup (dualTypes_nodup _), ?_⟩
      · rw [List.nodup_append]
        refine ⟨S.nodup, by simp, ?_⟩
        intro a ha b hb
        simp only [List.map_cons, List.map_nil, List.mem_singleton] at hb
        subst hb
        obtain ⟨o, ho, rfl⟩ := List.mem_map.1 ha
        have := S.disj o ho
        intro heq
        exact this (by simp [heq])
      · intro a ha b hb
        rcases List.mem_append.1 ha with ha | ha
        · obtain ⟨o, ho, rfl⟩ := List.mem_map.1 ha
          have := S.disj o ho
          intro heq
          exact this (by simp [heq, hb])
        · simp only [List.map_cons, List.map_nil, List.mem_singleton] at ha
          subst ha
          intro heq
          exact not_mem_dualTypes_self (heq ▸ hsub.subset hb)
    · intro o ho
      rcases List.mem_append.1 ho with ho | ho
      · rcases List.mem_append.1 ho with ho | ho
        · exact S.stat o ho
        · simp only [List.mem_singleton] at ho; subst ho; exact single_stat_mem hmt
      · obtain ⟨t, d⟩ := o
        exact dualTypes_stat (hsub.subset (List.of_mem_zip ho).1)
    · intro o ho
      rcases List.mem_append.1 ho with ho | ho
      · rcases List.mem_append.1 ho with ho | ho
        · exact S.grade o ho
        · simp only [List.mem_singleton] at ho; subst ho; exact hg
      · obtain ⟨t, d⟩ := o
        exact hdg d (List.of_mem_zip ho).2
    · rw [sumLookup_append, sumLookup_append, S.sum, calcSdil_eq]
      simp only [sumLookup, V4.add_zero]
      ext <;> simp <;> omega

/-- every answer of `_search_bonus` is a valid option list for the target -/
theorem searchBonus_sound (m : Meta) (hm : 0 ≤ m.reqLevel) (target : V4) (left : Nat) (res : List Opt)
    (h : searchBonus m target left = some res) : StatSol m left target [] res := by
  unfold searchBonus at h
  split at h
  · rename_i hz
    have := (V4.isZero_iff target).1 hz
    injection h with h; subst h; subst this
    exact ⟨by simp, by simp, by simp, by simp, by simp, rfl⟩
  · simp only at h
    split at h
    · rename_i r hr
      injection h with h; subst h
      obtain ⟨x, hx, hx'⟩ := List.exists_of_findSome?_eq_some hr
      exact tryDecomposition_sound m hm target left x r hx hx'
    · exact searchRec_sound m _ _ _ _ h

/-- `_search_bonus` answers whenever the target is the sum of at most `left` legal options of distinct kinds
    (the decomposition stage may answer first; otherwise the complete recursive search does) -/
theorem searchBonus_complete (m : Meta) (hm : 0 ≤ m.reqLevel) (target : V4) (left : Nat) (S : List Opt)
    (hS : StatSol m left target [] S) : (searchBonus m target left).isSome = true := by
  unfold searchBonus
  split
  · rfl
  · simp only
    split
    · rfl
    · exact searchRec_complete m hm _ _ _ S hS

end Simaple.Bonus
