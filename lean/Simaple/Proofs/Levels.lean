/-
C16 -- helper lemmas: soundness of the sign/direction analysis `Ex.abs`, of the unit-step check `stepsOk` and
hence of `Formula.check`; monotonicity of the hand model of `SkillLevelPatch.get_skill_level`; the
characterisation of the hand model of `_exclude_hexa_skill`; monotonicity of the two non-additive `Stat` fields.
-/
import Mathlib.Algebra.Order.Field.Rat
import Mathlib.Tactic.Linarith
import Mathlib.Tactic.Ring
import Simaple.Model.Levels

namespace Simaple.Proofs.Levels
open Simaple.Py Simaple.Model.Levels

/-! ### meaning of an abstract value -/

structure Sem (A : Abs) (g : Int → Rat) : Prop where
  nn : A.nn = true → ∀ l, 0 ≤ l → 0 ≤ g l
  np : A.np = true → ∀ l, 0 ≤ l → g l ≤ 0
  up : A.up = true → ∀ a b, 0 ≤ a → a ≤ b → g a ≤ g b
  dn : A.dn = true → ∀ a b, 0 ≤ a → a ≤ b → g b ≤ g a

theorem sem_add {x y : Abs} {f g : Int → Rat} (hf : Sem x f) (hg : Sem y g) :
    Sem (x.add y) (fun l => f l + g l) := by
  refine ⟨?_, ?_, ?_, ?_⟩ <;> simp only [Abs.add, Bool.and_eq_true] <;> rintro ⟨h1, h2⟩
  · intro l hl; exact add_nonneg (hf.nn h1 l hl) (hg.nn h2 l hl)
  · intro l hl; have := hf.np h1 l hl; have := hg.np h2 l hl; linarith
  · intro a b ha hab; exact add_le_add (hf.up h1 a b ha hab) (hg.up h2 a b ha hab)
  · intro a b ha hab; exact add_le_add (hf.dn h1 a b ha hab) (hg.dn h2 a b ha hab)

theorem sem_neg {x : Abs} {f : Int → Rat} (hf : Sem x f) : Sem x.neg (fun l => - f l) := by
  refine ⟨?_, ?_, ?_, ?_⟩ <;> simp only [Abs.neg] <;> intro h
  · intro l hl; have := hf.np h l hl; linarith
  · intro l hl; have := hf.nn h l hl; linarith
  · intro a b ha hab; have := hf.dn h a b ha hab; linarith
  · intro a b ha hab; have := hf.up h a b ha hab; linarith

theorem sem_mul {x y : Abs} {f g : Int → Rat} (hf : Sem x f) (hg : Sem y g) :
    Sem (x.mul y) (fun l => f l * g l) := by
  refine ⟨?_, ?_, ?_, ?_⟩ <;> simp only [Abs.mul, Bool.and_eq_true, Bool.or_eq_true]
  · rintro ⟨h1, h2⟩ l hl; exact mul_nonneg (hf.nn h1 l hl) (hg.nn h2 l hl)
  · rintro (⟨h1, h2⟩ | ⟨h1, h2⟩) l hl
    · exact mul_nonpos_of_nonneg_of_nonpos (hf.nn h1 l hl) (hg.np h2 l hl)
    · exact mul_nonpos_of_nonpos_of_nonneg (hf.np h1 l hl) (hg.nn h2 l hl)
  · rintro ⟨⟨⟨h1, h2⟩, h3⟩, h4⟩ a b ha hab
    exact mul_le_mul (hf.up h3 a b ha hab) (hg.up h4 a b ha hab) (hg.nn h2 a ha)
      (hf.nn h1 b (le_trans ha hab))
  · rintro ⟨⟨⟨h1, h2⟩, h3⟩, h4⟩ a b ha hab
    exact mul_le_mul (hf.dn h3 a b ha hab) (hg.dn h4 a b ha hab) (hg.nn h2 b (le_trans ha hab))
      (hf.nn h1 a ha)

theorem sem_inv {y : Abs} {g : Int → Rat} (hg : Sem y g) : Sem y.inv (fun l => (g l)⁻¹) := by
  have hconst : y.up = true → y.dn = true → ∀ a b, 0 ≤ a → a ≤ b → g a = g b := fun h1 h2 a b ha hab =>
    le_antisymm (hg.up h1 a b ha hab) (hg.dn h2 a b ha hab)
  refine ⟨?_, ?_, ?_, ?_⟩ <;> simp only [Abs.inv, Bool.and_eq_true]
  · intro h l hl; exact inv_nonneg.mpr (hg.nn h l hl)
  · intro h l hl; exact inv_nonpos.mpr (hg.np h l hl)
  · rintro ⟨h1, h2⟩ a b ha hab; rw [hconst h1 h2 a b ha hab]
  · rintro ⟨h1, h2⟩ a b ha hab; rw [hconst h1 h2 a b ha hab]

theorem intCast_le {a b : Int} (h : a ≤ b) : (a : Rat) ≤ (b : Rat) := Int.cast_le.mpr h

theorem sem_floor {x : Abs} {f : Int → Rat} (hf : Sem x f) : Sem x (fun l => pyFloor (f l)) := by
  refine ⟨?_, ?_, ?_, ?_⟩ <;> intro h
  · intro l hl
    have : (0 : Int) ≤ (f l).floor := Rat.le_floor_iff.mpr (by simpa using hf.nn h l hl)
    simpa [pyFloor] using intCast_le this
  · intro l hl; exact le_trans (Rat.floor_le (f l)) (hf.np h l hl)
  · intro a b ha hab; exact intCast_le (Rat.floor_monotone (hf.up h a b ha hab))
  · intro a b ha hab; exact intCast_le (Rat.floor_monotone (hf.dn h a b ha hab))

theorem ceil_monotone {a b : Rat} (h : a ≤ b) : a.ceil ≤ b.ceil := by
  rw [Rat.ceil_eq_neg_floor_neg, Rat.ceil_eq_neg_floor_neg]
  have : (-b).floor ≤ (-a).floor := Rat.floor_monotone (by linarith)
  omega

theorem sem_ceil {x : Abs} {f : Int → Rat} (hf : Sem x f) : Sem x (fun l => pyCeil (f l)) := by
  refine ⟨?_, ?_, ?_, ?_⟩ <;> intro h
  · intro l hl; exact le_trans (hf.nn h l hl) Rat.le_ceil
  · intro l hl
    have : (f l).ceil ≤ (0 : Int) := Rat.ceil_le_iff.mpr (by simpa using hf.np h l hl)
    simpa [pyCeil] using intCast_le this
  · intro a b ha hab; exact intCast_le (ceil_monotone (hf.up h a b ha hab))
  · intro a b ha hab; exact intCast_le (ceil_monotone (hf.dn h a b ha hab))

theorem pyMin_eq (a b : Rat) : pyMin a b = min a b := by
  unfold pyMin; split
  · next h => exact (min_eq_right (le_of_lt h)).symm
  · next h => exact (min_eq_left (not_lt.mp h)).symm

theorem pyMax_eq (a b : Rat) : pyMax a b = max a b := by
  unfold pyMax; split
  · next h => exact (max_eq_right (le_of_lt h)).symm
  · next h => exact (max_eq_left (not_lt.mp h)).symm

theorem sem_min {x y : Abs} {f g : Int → Rat} (hf : Sem x f) (hg : Sem y g) :
    Sem (x.min y) (fun l => pyMin (f l) (g l)) := by
  refine ⟨?_, ?_, ?_, ?_⟩ <;> simp only [Abs.min, Bool.and_eq_true, Bool.or_eq_true, pyMin_eq]
  · rintro ⟨h1, h2⟩ l hl; exact le_min (hf.nn h1 l hl) (hg.nn h2 l hl)
  · rintro (h | h) l hl
    · exact le_trans (min_le_left _ _) (hf.np h l hl)
    · exact le_trans (min_le_right _ _) (hg.np h l hl)
  · rintro ⟨h1, h2⟩ a b ha hab; exact min_le_min (hf.up h1 a b ha hab) (hg.up h2 a b ha hab)
  · rintro ⟨h1, h2⟩ a b ha hab; exact min_le_min (hf.dn h1 a b ha hab) (hg.dn h2 a b ha hab)

theorem sem_max {x y : Abs} {f g : Int → Rat} (hf : Sem x f) (hg : Sem y g) :
    Sem (x.max y) (fun l => pyMax (f l) (g l)) := by
  refine ⟨?_, ?_, ?_, ?_⟩ <;> simp only [Abs.max, Bool.and_eq_true, Bool.or_eq_true, pyMax_eq]
  · rintro (h | h) l hl
    · exact le_trans (hf.nn h l hl) (le_max_left _ _)
    · exact le_trans (hg.nn h l hl) (le_max_right _ _)
  · rintro ⟨h1, h2⟩ l hl; exact max_le (hf.np h1 l hl) (hg.np h2 l hl)
  · rintro ⟨h1, h2⟩ a b ha hab; exact max_le_max (hf.up h1 a b ha hab) (hg.up h2 a b ha hab)
  · rintro ⟨h1, h2⟩ a b ha hab; exact max_le_max (hf.dn h1 a b ha hab) (hg.dn h2 a b ha hab)

theorem pyGt_mono {a a' b b' : Rat} (ha : a ≤ a') (hb : b' ≤ b) : pyGt a b ≤ pyGt a' b' := by
  unfold pyGt
  by_cases h : a > b
  · have : a' > b' := lt_of_le_of_lt hb (lt_of_lt_of_le h ha)
    simp [h, this]
  · by_cases h' : a' > b' <;> simp [h, h']

theorem sem_gt {x y : Abs} {f g : Int → Rat} (hf : Sem x f) (hg : Sem y g) :
    Sem (x.gt y) (fun l => pyGt (f l) (g l)) := by
  refine ⟨?_, ?_, ?_, ?_⟩ <;> simp only [Abs.gt, Bool.and_eq_true]
  · intro _ l _; unfold pyGt; split <;> simp
  · intro h; simp at h
  · rintro ⟨h1, h2⟩ a b ha hab; exact pyGt_mono (hf.up h1 a b ha hab) (hg.dn h2 a b ha hab)
  · rintro ⟨h1, h2⟩ a b ha hab; exact pyGt_mono (hf.dn h1 a b ha hab) (hg.up h2 a b ha hab)

theorem pyLt_eq (a b : Rat) : pyLt a b = pyGt b a := rfl

/-- the analysis is sound: for non-negative variables, on levels `≥ 0` -/
theorem abs_sound (vars : String → Rat) (hv : ∀ n, 0 ≤ vars n) : ∀ e : Ex, Sem e.abs (e.eval vars)
  | .num q => by
    refine ⟨?_, ?_, ?_, ?_⟩ <;> simp only [Ex.abs, Ex.eval, decide_eq_true_eq]
    · intro h _ _; exact h
    · intro h _ _; exact h
    · intro _ _ _ _ _; exact le_refl _
    · intro _ _ _ _ _; exact le_refl _
  | .lvl => by
    refine ⟨?_, ?_, ?_, ?_⟩ <;> simp only [Ex.abs, Ex.eval]
    · intro _ l hl; exact_mod_cast hl
    · intro h; simp at h
    · intro _ a b _ hab; exact intCast_le hab
    · intro h; simp at h
  | .var n => by
    refine ⟨?_, ?_, ?_, ?_⟩ <;> simp only [Ex.abs, Ex.eval]
    · intro _ _ _; exact hv n
    · intro h; simp at h
    · intro _ _ _ _ _; exact le_refl _
    · intro _ _ _ _ _; exact le_refl _
  | .add a b => sem_add (abs_sound vars hv a) (abs_sound vars hv b)
  | .sub a b => by
    have := sem_add (abs_sound vars hv a) (sem_neg (abs_sound vars hv b))
    simpa only [Ex.abs, Ex.eval, sub_eq_add_neg] using this
  | .mul a b => sem_mul (abs_sound vars hv a) (abs_sound vars hv b)
  | .div a b => by
    have := sem_mul (abs_sound vars hv a) (sem_inv (abs_sound vars hv b))
    simpa only [Ex.abs, Ex.eval, div_eq_mul_inv] using this
  | .idiv a b => by
    have := sem_floor (sem_mul (abs_sound vars hv a) (sem_inv (abs_sound vars hv b)))
    simpa only [Ex.abs, Ex.eval, pyFloorDiv, pyFloor, div_eq_mul_inv] using this
  | .gt a b => sem_gt (abs_sound vars hv a) (abs_sound vars hv b)
  | .lt a b => by
    have := sem_gt (abs_sound vars hv b) (abs_sound vars hv a)
    simpa only [Ex.abs, Ex.eval, pyLt_eq] using this
  | .neg a => sem_neg (abs_sound vars hv a)
  | .min a b => sem_min (abs_sound vars hv a) (abs_sound vars hv b)
  | .max a b => sem_max (abs_sound vars hv a) (abs_sound vars hv b)
  | .ceil a => sem_ceil (abs_sound vars hv a)
  | .floor a => sem_floor (abs_sound vars hv a)

/-- a closed expression does not read the variables -/
theorem eval_closed (v w : String → Rat) (l : Int) : ∀ e : Ex, e.closed = true → e.eval v l = e.eval w l
  | .num _, _ => rfl
  | .lvl, _ => rfl
  | .var _, h => by simp [Ex.closed] at h
  | .add a b, h | .sub a b, h | .mul a b, h | .div a b, h | .idiv a b, h | .gt a b, h | .lt a b, h
  | .min a b, h | .max a b, h => by
    simp only [Ex.closed, Bool.and_eq_true] at h
    simp only [Ex.eval, eval_closed v w l a h.1, eval_closed v w l b h.2]
  | .neg a, h | .ceil a, h | .floor a, h => by
    simp only [Ex.closed] at h
    simp only [Ex.eval, eval_closed v w l a h]

/-! ### the unit-step check -/

theorem stepsOk_step {g : Int → Rat} {lo : Int} : ∀ {n : Nat}, stepsOk g lo n = true →
    ∀ k : Nat, k < n → g (lo + k) ≤ g (lo + k + 1)
  | 0, _, k, hk => by omega
  | n + 1, h, k, hk => by
    simp only [stepsOk, Bool.and_eq_true, decide_eq_true_eq] at h
    by_cases hkn : k = n
    · subst hkn; exact h.2
    · exact stepsOk_step h.1 k (by omega)

theorem mono_of_steps {g : Int → Rat} {lo hi : Int}
    (h : ∀ k : Nat, (k : Int) < hi - lo → g (lo + k) ≤ g (lo + k + 1)) : MonoOn lo hi g := by
  intro a b ha hab hb
  obtain ⟨d, rfl⟩ : ∃ d : Nat, b = a + d := ⟨(b - a).toNat, by omega⟩
  induction d with
  | zero => simp
  | succ d ih =>
    have h1 := ih (by omega) (by omega)
    obtain ⟨k, hk⟩ : ∃ k : Nat, a + (d : Int) = lo + k := ⟨(a + d - lo).toNat, by omega⟩
    have h2 := h k (by omega)
    have e : a + ((d + 1 : Nat) : Int) = lo + k + 1 := by omega
    rw [e]; rw [hk] at h1
    exact le_trans h1 h2

theorem mono_of_stepsOk {g : Int → Rat} {lo hi : Int} (h : stepsOk g lo (hi - lo).toNat = true) :
    MonoOn lo hi g :=
  mono_of_steps fun k hk => stepsOk_step h k (by omega)

/-- `Formula.check` decides the statement `formula_mono_<ident>` -/
theorem check_sound (f : Formula) (h : f.check = true) : f.Stmt := by
  intro vars hv
  simp only [Formula.check, Bool.or_eq_true, Bool.and_eq_true, decide_eq_true_eq] at h
  have hfn : f.fn vars = f.ex.eval vars := funext (f.eq vars)
  rw [hfn]
  rcases h with ⟨hup, hlo⟩ | ⟨hc, hs⟩
  · intro a b ha hab _
    exact (abs_sound vars hv f.ex).up hup a b (le_trans hlo ha) hab
  · have : f.ex.eval vars = f.ex.eval noVars := funext fun l => eval_closed vars noVars l f.ex hc
    rw [this]
    exact mono_of_stepsOk hs

/-! ### `get_skill_level` -/

theorem lookup_le {d d' : List (String × Int)} (h : LevelsLe d d') (k : String) :
    (lookup d k = none ∧ lookup d' k = none) ∨
    (∃ v v', lookup d k = some v ∧ lookup d' k = some v' ∧ v ≤ v') := by
  induction d generalizing d' with
  | nil => cases d' with
    | nil => left; simp [lookup]
    | cons _ _ => simp [LevelsLe] at h
  | cons p r ih => cases d' with
    | nil => obtain ⟨_, _⟩ := p; simp [LevelsLe] at h
    | cons p' r' =>
      obtain ⟨k1, v1⟩ := p; obtain ⟨k2, v2⟩ := p'
      simp only [LevelsLe] at h
      obtain ⟨rfl, hv, hr⟩ := h
      by_cases hk : k1 = k
      · right; exact ⟨v1, v2, by simp [lookup, hk], by simp [lookup, hk], hv⟩
      · simpa [lookup, hk] using ih hr

theorem getSkillLevel_mono {d d' : List (String × Int)} {p p' c c' : Int} (o : Origin)
    (hd : LevelsLe d d') (hp : p ≤ p') (hc : c ≤ c') :
    getSkillLevel d p c o ≤ getSkillLevel d' p' c' o := by
  have hb : baseLevel d o ≤ baseLevel d' o := by
    unfold baseLevel
    cases hn : o.name with
    | none => simp
    | some n =>
      simp only [Option.bind_some]
      rcases lookup_le hd n with ⟨h1, h2⟩ | ⟨v, v', h1, h2, hv⟩
      · simp [h1, h2]
      · simp [h1, h2, hv]
  unfold getSkillLevel
  cases o.passiveEnabled <;> cases o.combatEnabled <;> simp <;> omega

/-! ### `_exclude_hexa_skill` -/

theorem collect_mem {names : List String} {levels : List (String × Int)} :
    ∀ {repl : List (String × String)} {ex : List String}, collectExcluded names levels repl = .ok ex →
    ∀ n, n ∈ ex ↔ ∃ high, (n, high) ∈ repl ∧ (lookup levels high).getD 0 > 0
  | [], ex, h, n => by
    simp only [collectExcluded, Except.ok.injEq] at h; subst h; simp
  | (low, high) :: rest, ex, h, n => by
    simp only [collectExcluded] at h
    split at h
    · cases h
    · split at h
      · cases h
      · cases hr : collectExcluded names levels rest with
        | error e => rw [hr] at h; cases h
        | ok ex' =>
          rw [hr] at h
          have ih := collect_mem hr n
          dsimp only at h
          split at h
          · next hpos =>
            simp only [Except.ok.injEq] at h; subst h
            simp only [List.mem_cons, ih, Prod.mk.injEq]
            constructor
            · rintro (rfl | ⟨hh, h1, h2⟩)
              · exact ⟨high, Or.inl ⟨rfl, rfl⟩, hpos⟩
              · exact ⟨hh, Or.inr h1, h2⟩
            · rintro ⟨hh, h1 | h1, h2⟩
              · left; exact h1.1
              · right; exact ⟨hh, h1, h2⟩
          · next hneg =>
            simp only [Except.ok.injEq] at h; subst h
            simp only [List.mem_cons, ih, Prod.mk.injEq]
            constructor
            · rintro ⟨hh, h1, h2⟩; exact ⟨hh, Or.inr h1, h2⟩
            · rintro ⟨hh, h1 | h1, h2⟩
              · obtain ⟨rfl, rfl⟩ := h1; exact absurd h2 hneg
              · exact ⟨hh, h1, h2⟩

/-- the two `assert`s: a successful run means every pair of the replacement table names two components -/
theorem collect_ok_names {names : List String} {levels : List (String × Int)} :
    ∀ {repl : List (String × String)} {ex : List String}, collectExcluded names levels repl = .ok ex →
    ∀ p ∈ repl, p.1 ∈ names ∧ p.2 ∈ names
  | [], _, _, p, hp => by simp at hp
  | (low, high) :: rest, ex, h, p, hp => by
    simp only [collectExcluded] at h
    split at h
    · cases h
    · next hl =>
      split at h
      · cases h
      · next hh =>
        cases hr : collectExcluded names levels rest with
        | error e => rw [hr] at h; cases h
        | ok ex' =>
          rcases List.mem_cons.mp hp with rfl | hp'
          · exact ⟨not_not.mp hl, not_not.mp hh⟩
          · exact collect_ok_names hr p hp'

/-- and conversely: if every pair names two components the run succeeds -/
theorem collect_ok_of_names {names : List String} {levels : List (String × Int)} :
    ∀ {repl : List (String × String)}, (∀ p ∈ repl, p.1 ∈ names ∧ p.2 ∈ names) →
    ∃ ex, collectExcluded names levels repl = .ok ex
  | [], _ => ⟨[], rfl⟩
  | (low, high) :: rest, h => by
    obtain ⟨ex, hex⟩ := collect_ok_of_names (names := names) (levels := levels) (repl := rest)
      (fun p hp => h p (List.mem_cons_of_mem _ hp))
    have h0 := h (low, high) (List.mem_cons_self ..)
    simp only [collectExcluded, h0.1, h0.2, not_true_eq_false, if_false, hex]
    split <;> exact ⟨_, rfl⟩

/-- a dictionary has one value per key -/
theorem unique_value {repl : List (String × String)} (hk : (repl.map Prod.fst).Nodup) {k v v' : String}
    (h : (k, v) ∈ repl) (h' : (k, v') ∈ repl) : v = v' := by
  induction repl with
  | nil => simp at h
  | cons p r ih =>
    simp only [List.map_cons, List.nodup_cons] at hk
    rcases List.mem_cons.mp h with rfl | h1 <;> rcases List.mem_cons.mp h' with e | h2
    · exact (Prod.mk.inj e).2.symm
    · exact absurd (List.mem_map_of_mem (f := Prod.fst) h2) hk.1
    · subst e; exact absurd (List.mem_map_of_mem (f := Prod.fst) h1) hk.1
    · exact ih hk.2 h1 h2

theorem excludeHexa_spec {names : List String} {repl : List (String × String)} {levels : List (String × Int)}
    (h : ∀ p ∈ repl, p.1 ∈ names ∧ p.2 ∈ names) :
    ∃ kept, excludeHexa names repl levels = .ok kept ∧ kept.Sublist names ∧ (names.Nodup → kept.Nodup) ∧
      ∀ n, n ∈ kept ↔ n ∈ names ∧ ¬ ∃ high, (n, high) ∈ repl ∧ (lookup levels high).getD 0 > 0 := by
  obtain ⟨ex, hex⟩ := collect_ok_of_names (levels := levels) h
  refine ⟨names.filter fun n => ¬ (n ∈ ex), by simp [excludeHexa, hex], List.filter_sublist, ?_, ?_⟩
  · intro hn; exact hn.filter _
  · intro n
    simp only [List.mem_filter, decide_eq_true_eq, collect_mem hex n]

/-! ### the non-additive `Stat` fields -/

theorem fdmAdd_mono {a b b' : Rat} (ha : -100 ≤ a) (h : b ≤ b') : fdmAdd a b ≤ fdmAdd a b' := by
  unfold fdmAdd
  have : 0 ≤ (1 + (1 / 100 : Rat) * a) * (b' - b) := mul_nonneg (by linarith) (by linarith)
  nlinarith [this]

theorem ignAdd_mono {a b b' : Rat} (ha : a ≤ 100) (h : b ≤ b') : ignAdd a b ≤ ignAdd a b' := by
  unfold ignAdd
  have : 0 ≤ (100 - a) * (b' - b) := mul_nonneg (by linarith) (by linarith)
  nlinarith [this]

theorem ignAdd_zero (a : Rat) : ignAdd a 0 = a := by unfold ignAdd; ring

theorem fdmAdd_zero (a : Rat) : fdmAdd a 0 = a := by unfold fdmAdd; ring

end Simaple.Proofs.Levels
