import Simaple.Proofs.BonusSearch
/-!
C18 helper lemmas, part 3: the greedy single-valued stage, the final sort and `BonusCalculator.compute`.
-/
namespace Simaple.Bonus

/-! ### `Obs` algebra -/
namespace Obs
@[simp] theorem add_sdil (a b : Obs) : (a + b).sdil = a.sdil + b.sdil := rfl
@[simp] theorem add_mul (a b : Obs) : (a + b).mul = a.mul + b.mul := rfl
@[simp] theorem add_mhp (a b : Obs) : (a + b).mhp = a.mhp + b.mhp := rfl
@[simp] theorem add_mmp (a b : Obs) : (a + b).mmp = a.mmp + b.mmp := rfl
@[simp] theorem add_att (a b : Obs) : (a + b).att = a.att + b.att := rfl
@[simp] theorem add_matt (a b : Obs) : (a + b).matt = a.matt + b.matt := rfl
@[simp] theorem add_boss (a b : Obs) : (a + b).boss = a.boss + b.boss := rfl
@[simp] theorem add_dmg (a b : Obs) : (a + b).dmg = a.dmg + b.dmg := rfl

theorem add_assoc (a b c : Obs) : a + b + c = a + (b + c) := by
  ext <;> simp <;> omega
theorem add_left_comm (a b c : Obs) : a + (b + c) = b + (a + c) := by
  ext <;> simp <;> omega
@[simp] theorem zero_add (a : Obs) : Obs.zero + a = a := by
  ext <;> simp [Obs.zero]
end Obs

theorem sumImprove_append (m : Meta) (a b : List Opt) :
    sumImprove m (a ++ b) = sumImprove m a + sumImprove m b := by
  induction a with
  | nil => simp [sumImprove]
  | cons x xs ih => simp [sumImprove, ih, Obs.add_assoc]

theorem sumImprove_perm (m : Meta) {a b : List Opt} (h : a.Perm b) : sumImprove m a = sumImprove m b := by
  induction h with
  | nil => rfl
  | cons x _ ih => simp [sumImprove, ih]
  | swap x y l => simp only [sumImprove]; exact Obs.add_left_comm _ _ _
  | trans _ _ ih1 ih2 => exact ih1.trans ih2

/-! ### the final sort -/

theorem insertByKey_perm (x : Opt) (l : List Opt) : (insertByKey x l).Perm (x :: l) := by
  induction l with
  | nil => exact List.Perm.refl _
  | cons y ys ih =>
    unfold insertByKey
    split
    · exact (List.Perm.cons y ih).trans (List.Perm.swap x y ys)
    · exact List.Perm.refl _

theorem sortByKey_perm (l : List Opt) : (sortByKey l).Perm l := by
  unfold sortByKey
  induction l with
  | nil => exact List.Perm.refl _
  | cons x xs ih => exact (insertByKey_perm x _).trans (List.Perm.cons x ih)

/-! ### which field a single-valued kind writes -/

theorem readProp_add (k : Kind) (a b : Obs) : readProp k (a + b) = readProp k a + readProp k b := by
  cases k <;> simp [readProp]

theorem readProp_improve_ne (m : Meta) {k k' : Kind} (h : k' ≠ k) (g : Int) :
    readProp k (improve m k' g) = 0 := by
  cases k <;> cases k' <;> first | exact absurd rfl h | rfl

theorem readProp_zero (k : Kind) : readProp k Obs.zero = 0 := by
  cases k <;> rfl

theorem readProp_sum_not_mem (m : Meta) (k : Kind) : ∀ (l : List Opt), k ∉ l.map Prod.fst →
    readProp k (sumImprove m l) = 0 := by
  intro l
  induction l with
  | nil => intro _; exact readProp_zero k
  | cons x xs ih =>
    intro h
    simp only [List.map_cons, List.mem_cons, not_or] at h
    simp only [sumImprove, readProp_add]
    rw [readProp_improve_ne m (fun e => h.1 e.symm), ih h.2]
    rfl

theorem readProp_sum_mem (m : Meta) (k : Kind) (g : Int) : ∀ (l : List Opt), (l.map Prod.fst).Nodup →
    (k, g) ∈ l → readProp k (sumImprove m l) = readProp k (improve m k g) := by
  intro l
  induction l with
  | nil => intro _ h; simp at h
  | cons x xs ih =>
    intro hnd hmem
    simp only [List.map_cons, List.nodup_cons] at hnd
    simp only [sumImprove, readProp_add]
    rcases List.mem_cons.1 hmem with h | h
    · subst h
      rw [readProp_sum_not_mem m k xs hnd.1]; simp
    · have hne : x.1 ≠ k := by
        intro e
        exact hnd.1 (e ▸ List.mem_map_of_mem (f := Prod.fst) h)
      rw [readProp_improve_ne m hne, ih hnd.2 h]; simp

/-- all-stat is the only kind touching the multipliers, and it sets all four -/
theorem mul_eq_sum (m : Meta) : ∀ (l : List Opt),
    (sumImprove m l).mul.d = (sumImprove m l).mul.s ∧ (sumImprove m l).mul.i = (sumImprove m l).mul.s
      ∧ (sumImprove m l).mul.l = (sumImprove m l).mul.s := by
  intro l
  induction l with
  | nil => simp [sumImprove, Obs.zero]
  | cons x xs ih =>
    obtain ⟨k, g⟩ := x
    simp only [sumImprove, Obs.add_mul, V4.add_s, V4.add_d, V4.add_i, V4.add_l]
    cases k <;> simp [improve, ofSdil, Obs.zero] <;> omega

theorem single_or_stat (k : Kind) : k ∈ singleProps ∨ k ∈ statTypes := by
  cases k <;> decide

theorem single_not_stat {k : Kind} (h : k ∈ singleProps) : k ∉ statTypes := by
  revert h; cases k <;> decide

theorem sdil_improve_single (m : Meta) {k : Kind} (h : k ∉ statTypes) (g : Int) :
    (improve m k g).sdil = V4.zero := by
  revert h; cases k <;> first | (intro h; exact absurd (by decide) h) | (intro _; rfl)

/-- the STR/DEX/INT/LUK part of a sum of improvements comes from the STR/DEX/INT/LUK kinds -/
theorem sdil_sumImprove (m : Meta) : ∀ (l : List Opt), (∀ o ∈ l, o.2 ∈ grades m) →
    (sumImprove m l).sdil = sumLookup m (l.filter (fun o => decide (o.1 ∈ statTypes))) := by
  intro l
  induction l with
  | nil => intro _; rfl
  | cons x xs ih =>
    intro hg
    have ih' := ih (fun o ho => hg o (by simp [ho]))
    simp only [sumImprove, Obs.add_sdil, List.filter_cons]
    by_cases hx : x.1 ∈ statTypes
    · simp only [hx, decide_true, if_true, sumLookup]
      rw [lookup_of_mem (hg x (by simp)), ih']
    · simp only [hx, decide_false, Bool.false_eq_true, if_false]
      rw [sdil_improve_single m hx, ih', V4.zero_add]

/-! ### the greedy stage -/

/-- what the greedy stage has found: `new` lists the matched single-valued options -/
structure GreedyOut (m : Meta) (obs : Obs) (ks : List Kind) (new : List Opt) : Prop where
  sub : (new.map Prod.fst).Sublist ks
  grade : ∀ o ∈ new, o.2 ∈ grades m
  val : ∀ o ∈ new, readProp o.1 (improve m o.1 o.2) = readProp o.1 obs
  pos : ∀ o ∈ new, 0 < readProp o.1 obs
  rest : ∀ k ∈ ks, k ∉ new.map Prod.fst → readProp k obs ≤ 0

theorem greedy_spec (m : Meta) (obs : Obs) : ∀ (ks : List Kind) (acc : List Opt) (left : Int)
    (out : List Opt × Int), greedy m obs ks acc left = .ok out →
    ∃ new, out.1 = acc ++ new ∧ out.2 = left - new.length ∧ GreedyOut m obs ks new := by
  intro ks
  induction ks with
  | nil =>
    intro acc left out h
    simp only [greedy, Except.ok.injEq] at h
    subst h
    exact ⟨[], by simp, by simp, ⟨by simp, by simp, by simp, by simp, by simp⟩⟩
  | cons k ks ih =>
    intro acc left out h
    unfold greedy at h
    split at h
    · rename_i hpos
      split at h
      · rename_i g hfind
        obtain ⟨new, h1, h2, G⟩ := ih _ _ _ h
        have hg := List.mem_of_find?_eq_some hfind
        have hv := List.find?_some hfind
        simp only [beq_iff_eq] at hv
        refine ⟨(k, g) :: new, by simp [h1], by simp [h2]; omega, ?_⟩
        refine ⟨by simpa using G.sub.cons_cons k, ?_, ?_, ?_, ?_⟩
        · intro o ho
          rcases List.mem_cons.1 ho with ho | ho
          · subst ho; exact hg
          · exact G.grade o ho
        · intro o ho
          rcases List.mem_cons.1 ho with ho | ho
          · subst ho; exact hv
          · exact G.val o ho
        · intro o ho
          rcases List.mem_cons.1 ho with ho | ho
          · subst ho; exact hpos
          · exact G.pos o ho
        · intro k' hk' hnot
          simp only [List.map_cons, List.mem_cons, not_or] at hnot
          rcases List.mem_cons.1 hk' with e | hk'
          · exact absurd e hnot.1
          · exact G.rest k' hk' hnot.2
      · simp at h
    · rename_i hpos
      obtain ⟨new, h1, h2, G⟩ := ih _ _ _ h
      refine ⟨new, h1, h2, ⟨G.sub.cons k, G.grade, G.val, G.pos, ?_⟩⟩
      intro k' hk' hnot
      rcases List.mem_cons.1 hk' with e | hk'
      · subst e; omega
      · exact G.rest k' hk' hnot

/-- the greedy stage does not raise when every positive single-valued field is the value of some legal grade -/
theorem greedy_ok (m : Meta) (obs : Obs) : ∀ (ks : List Kind) (acc : List Opt) (left : Int),
    (∀ k ∈ ks, 0 < readProp k obs → ∃ g ∈ grades m, readProp k (improve m k g) = readProp k obs) →
    ∃ out, greedy m obs ks acc left = .ok out := by
  intro ks
  induction ks with
  | nil => intro acc left _; exact ⟨_, rfl⟩
  | cons k ks ih =>
    intro acc left h
    unfold greedy
    split
    · rename_i hpos
      split
      · exact ih _ _ (fun k' hk' => h k' (by simp [hk']))
      · rename_i hnone
        exfalso
        obtain ⟨g, hg, hv⟩ := h k (by simp) hpos
        have := List.find?_eq_none.1 hnone g hg
        simp [hv] at this
    · exact ih _ _ (fun k' hk' => h k' (by simp [hk']))

theorem singleProps_nodup : singleProps.Nodup := by decide

/-! ### `BonusCalculator.compute` -/

theorem compute_ok_iff (m : Meta) (obs : Obs) (res : List Opt) (h : compute m obs = .ok res) :
    ∃ new r left, greedy m obs singleProps [] maxBonus = .ok (new, left) ∧ 0 ≤ left
      ∧ searchBonus m obs.sdil left.toNat = some r ∧ res = sortByKey (new ++ r) := by
  unfold compute at h
  split at h
  · simp at h
  · rename_i bl left hgr
    split at h
    · simp at h
    · rename_i hleft
      split at h
      · simp at h
      · rename_i r hr
        simp only [Except.ok.injEq] at h
        exact ⟨bl, r, left, hgr, by omega, hr, h.symm⟩

/-- the unsorted answer `new ++ r` is valid and adds up to the observed stat -/
theorem compute_sound_core (m : Meta) (obs : Obs) (hm : m.WellFormed) (ho : obs.WellFormed)
    (new r : List Opt) (left : Int)
    (hgr : greedy m obs singleProps [] maxBonus = .ok (new, left)) (hleft : 0 ≤ left)
    (hr : searchBonus m obs.sdil left.toNat = some r) :
    ValidOptions m (new ++ r) ∧ sumImprove m (new ++ r) = obs := by
  obtain ⟨new', h1, h2, G⟩ := greedy_spec m obs _ _ _ _ hgr
  simp only [List.nil_append] at h1
  subst h1
  simp only at h2
  have S := searchBonus_sound m hm _ _ _ hr
  have hnewK : ∀ o ∈ new, o.1 ∈ singleProps := fun o ho =>
    G.sub.subset (List.mem_map_of_mem (f := Prod.fst) ho)
  have hgrades : ∀ o ∈ new ++ r, o.2 ∈ grades m := by
    intro o ho
    rcases List.mem_append.1 ho with ho | ho
    · exact G.grade o ho
    · exact S.grade o ho
  have hnd : ((new ++ r).map Prod.fst).Nodup := by
    rw [List.map_append, List.nodup_append]
    refine ⟨G.sub.nodup singleProps_nodup, S.nodup, ?_⟩
    intro a ha b hb heq
    obtain ⟨o, ho, rfl⟩ := List.mem_map.1 ha
    obtain ⟨o', ho', rfl⟩ := List.mem_map.1 hb
    exact single_not_stat (hnewK o ho) (heq ▸ S.stat o' ho')
  refine ⟨⟨?_, hnd, ?_⟩, ?_⟩
  · have := S.len
    simp only [List.length_append]
    unfold maxBonus at h2
    omega
  · intro o ho
    exact (mem_grades_iff m o.2).1 (hgrades o ho)
  · -- every single-valued field is reproduced
    have hfield : ∀ k ∈ singleProps, readProp k (sumImprove m (new ++ r)) = readProp k obs := by
      intro k hk
      by_cases hin : k ∈ (new ++ r).map Prod.fst
      · obtain ⟨o, ho, rfl⟩ := List.mem_map.1 hin
        rcases List.mem_append.1 ho with ho' | ho'
        · rw [readProp_sum_mem m o.1 o.2 _ hnd ho]
          exact G.val o ho'
        · exact absurd (S.stat o ho') (single_not_stat hk)
      · rw [readProp_sum_not_mem m k _ hin]
        have hnot : k ∉ new.map Prod.fst := by
          intro hc; apply hin; rw [List.map_append]; exact List.mem_append_left _ hc
        have hle := G.rest k hk hnot
        obtain ⟨w1, w2, w3, w4, w5, w6, w7, _⟩ := ho
        simp only [singleProps, List.mem_cons, List.not_mem_nil, or_false] at hk
        rcases hk with e | e | e | e | e | e | e <;> subst e <;> simp only [readProp] at hle ⊢ <;> omega
    have hsdil : (sumImprove m (new ++ r)).sdil = obs.sdil := by
      rw [sdil_sumImprove m _ hgrades, List.filter_append]
      have e1 : new.filter (fun o => decide (o.1 ∈ statTypes)) = [] := by
        rw [List.filter_eq_nil_iff]
        intro o ho
        simpa using single_not_stat (hnewK o ho)
      have e2 : r.filter (fun o => decide (o.1 ∈ statTypes)) = r := by
        rw [List.filter_eq_self]
        intro o ho
        simpa using S.stat o ho
      rw [e1, e2, List.nil_append, S.sum]
    obtain ⟨m1, m2, m3⟩ := mul_eq_sum m (new ++ r)
    obtain ⟨_, _, _, _, _, _, _, o1, o2, o3⟩ := ho
    have f1 := hfield .mhp (by decide)
    have f2 := hfield .mmp (by decide)
    have f3 := hfield .att (by decide)
    have f4 := hfield .matt (by decide)
    have f5 := hfield .boss (by decide)
    have f6 := hfield .dmg (by decide)
    have f7 := hfield .allstat (by decide)
    simp only [readProp] at f1 f2 f3 f4 f5 f6 f7
    apply Obs.ext
    · exact hsdil
    · apply V4.ext <;> omega
    all_goals assumption

/-- the answer to an observed stat that is a sum of valid options: `compute` does not raise -/
theorem compute_complete_core (m : Meta) (hm : m.WellFormed) (opts : List Opt) (hv : ValidOptions m opts) :
    ∃ res, compute m (sumImprove m opts) = .ok res := by
  obtain ⟨hlen, hnd, hgv⟩ := hv
  have hgrades : ∀ o ∈ opts, o.2 ∈ grades m := fun o ho => (mem_grades_iff m o.2).2 (hgv o ho)
  -- the greedy stage succeeds
  have hpos : ∀ k ∈ singleProps, 0 < readProp k (sumImprove m opts) →
      ∃ g, (k, g) ∈ opts ∧ readProp k (improve m k g) = readProp k (sumImprove m opts) := by
    intro k _ hp
    by_cases hin : k ∈ opts.map Prod.fst
    · obtain ⟨o, ho, rfl⟩ := List.mem_map.1 hin
      exact ⟨o.2, ho, (readProp_sum_mem m o.1 o.2 _ hnd ho).symm⟩
    · rw [readProp_sum_not_mem m k _ hin] at hp; omega
  obtain ⟨⟨new, left⟩, hgr⟩ := greedy_ok m (sumImprove m opts) singleProps [] maxBonus (by
    intro k hk hp
    obtain ⟨g, hg, hv⟩ := hpos k hk hp
    exact ⟨g, hgrades _ hg, hv⟩)
  obtain ⟨new', h1, h2, G⟩ := greedy_spec m _ _ _ _ _ hgr
  simp only [List.nil_append] at h1
  subst h1
  simp only at h2
  -- the STR/DEX/INT/LUK options of `opts`
  let stats := opts.filter (fun o => decide (o.1 ∈ statTypes))
  have hsub : stats.Sublist opts := List.filter_sublist
  have hstatK : ∀ o ∈ stats, o.1 ∈ statTypes := by
    intro o ho
    simpa using (List.mem_filter.1 ho).2
  -- counting: the matched single-valued kinds and the STR/DEX/INT/LUK kinds are distinct kinds of `opts`
  have hcount : new.length + stats.length ≤ opts.length := by
    have hnd' : (new.map Prod.fst ++ stats.map Prod.fst).Nodup := by
      rw [List.nodup_append]
      refine ⟨G.sub.nodup singleProps_nodup, (hsub.map Prod.fst).nodup hnd, ?_⟩
      intro a ha b hb heq
      obtain ⟨o, ho, rfl⟩ := List.mem_map.1 ha
      obtain ⟨o', ho', rfl⟩ := List.mem_map.1 hb
      exact single_not_stat (G.sub.subset (List.mem_map_of_mem (f := Prod.fst) ho)) (heq ▸ hstatK o' ho')
    have hss : (new.map Prod.fst ++ stats.map Prod.fst) ⊆ opts.map Prod.fst := by
      intro a ha
      rcases List.mem_append.1 ha with ha | ha
      · obtain ⟨o, ho, rfl⟩ := List.mem_map.1 ha
        have hk : o.1 ∈ singleProps := G.sub.subset (List.mem_map_of_mem (f := Prod.fst) ho)
        obtain ⟨g, hg, _⟩ := hpos o.1 hk (G.pos o ho)
        exact List.mem_map.2 ⟨(o.1, g), hg, rfl⟩
      · exact (hsub.map Prod.fst).subset ha
    have := List.Nodup.length_le_of_subset hnd' hss
    simpa using this
  have hleft : 0 ≤ left := by unfold maxBonus at h2; omega
  have hS : StatSol m left.toNat (sumImprove m opts).sdil [] stats := by
    refine ⟨?_, (hsub.map Prod.fst).nodup hnd, by simp, hstatK, fun o ho => hgrades o (hsub.subset ho), ?_⟩
    · unfold maxBonus at h2; omega
    · exact (sdil_sumImprove m opts hgrades).symm
  have hsome := searchBonus_complete m hm _ _ _ hS
  unfold compute
  rw [hgr]
  simp only
  rw [if_neg (by omega)]
  cases hsb : searchBonus m (sumImprove m opts).sdil left.toNat with
  | none => rw [hsb] at hsome; simp at hsome
  | some r => exact ⟨_, rfl⟩

/-! ### the stat produced by valid options is well formed -/

theorem gradeMultiplierE4_nonneg (b : Bool) (g : Int) : 0 ≤ gradeMultiplierE4 b g := by
  unfold gradeMultiplierE4
  cases b <;> simp only [Bool.false_eq_true, if_false, if_true] <;> repeat' split <;> omega

theorem zlBasis_nonneg {b : Int} (h : 0 ≤ b) : 0 ≤ zlBasis b := by
  unfold zlBasis
  repeat' split <;> omega

theorem attackValue_nonneg (m : Meta) (hb : m.wclass = .notWeapon ∨ 0 ≤ m.baseAtt ∨ 0 ≤ m.baseMatt)
    {g : Int} (hg : 1 ≤ g) : 0 ≤ attackValue m g := by
  unfold attackValue
  split
  · omega
  · rename_i hw
    have hb' : 0 ≤ m.baseAtt ∨ 0 ≤ m.baseMatt := by
      rcases hb with h | h
      · exact absurd h (by simpa using hw)
      · exact h
    simp only
    have hbasis0 : 0 ≤ (if m.baseAtt > m.baseMatt then m.baseAtt else m.baseMatt) := by
      split <;> omega
    have hbasis : 0 ≤ (if m.wclass = .swordZL then zlBasis (if m.baseAtt > m.baseMatt then m.baseAtt else m.baseMatt)
        else (if m.baseAtt > m.baseMatt then m.baseAtt else m.baseMatt)) := by
      split
      · exact zlBasis_nonneg hbasis0
      · exact hbasis0
    have hgm := gradeMultiplierE4_nonneg m.bossReward g
    have hn := Int.mul_nonneg (Int.mul_nonneg hbasis hgm)
      (show (0 : Int) ≤ (if (decide (m.wclass = .swordZB) || decide (m.wclass = .swordZL)) = true then
          (if m.reqLevel > 180 then 6 else if m.reqLevel > 160 then 5 else if m.reqLevel > 110 then 4 else 3)
        else if m.bossReward = true then
          (if m.reqLevel > 160 then 18 else if m.reqLevel > 150 then 15 else if m.reqLevel > 110 then 12 else 9)
        else (if m.reqLevel > 110 then 4 else 3)) by repeat' split <;> omega)
    unfold ceilDiv
    omega

theorem sum_wellFormed (m : Meta) (hm : m.WellFormed)
    (hb : m.wclass = .notWeapon ∨ 0 ≤ m.baseAtt ∨ 0 ≤ m.baseMatt) :
    ∀ (opts : List Opt), (∀ o ∈ opts, validGrade m o.2 = true) → (sumImprove m opts).WellFormed := by
  intro opts hv
  obtain ⟨e1, e2, e3⟩ := mul_eq_sum m opts
  have hnn : 0 ≤ (sumImprove m opts).mhp ∧ 0 ≤ (sumImprove m opts).mmp ∧ 0 ≤ (sumImprove m opts).att
      ∧ 0 ≤ (sumImprove m opts).matt ∧ 0 ≤ (sumImprove m opts).boss ∧ 0 ≤ (sumImprove m opts).dmg
      ∧ 0 ≤ (sumImprove m opts).mul.s := by
    induction opts with
    | nil => simp [sumImprove, Obs.zero]
    | cons x xs ih =>
      obtain ⟨k, g⟩ := x
      have ih' := ih (fun o ho => hv o (by simp [ho])) (mul_eq_sum m xs).1 (mul_eq_sum m xs).2.1
        (mul_eq_sum m xs).2.2
      have hg : 1 ≤ g := grade_pos ((mem_grades_iff m g).2 (hv (k, g) (by simp)))
      have ha := attackValue_nonneg m hb hg
      have hr : 0 ≤ m.reqLevel / 10 * 30 * g := by
        have : 0 ≤ m.reqLevel / 10 := by unfold Meta.WellFormed at hm; omega
        exact Int.mul_nonneg (by omega) (by omega)
      simp only [sumImprove, Obs.add_mhp, Obs.add_mmp, Obs.add_att, Obs.add_matt, Obs.add_boss, Obs.add_dmg,
        Obs.add_mul, V4.add_s]
      cases k <;> simp [improve, ofSdil, Obs.zero] <;> omega
  exact ⟨hnn.1, hnn.2.1, hnn.2.2.1, hnn.2.2.2.1, hnn.2.2.2.2.1, hnn.2.2.2.2.2.1, hnn.2.2.2.2.2.2, e1, e2, e3⟩

end Simaple.Bonus
