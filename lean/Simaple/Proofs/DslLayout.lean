import Simaple.Proofs.DslParse
/-! The explicit layout classes are accepted by the grammar (`goodLayout → layoutOk`), and the
decorated text parses to the denoted commands. -/
namespace Simaple.Dsl

theorem blanksOnly_stripNL {w : Text} (h : blanksOnly w = true) : stripNL (dropSpaces w) = none := by
  induction w with
  | nil => rfl
  | cons c w ih =>
    simp only [blanksOnly, List.all_cons, Bool.and_eq_true, Bool.or_eq_true, beq_iff_eq] at h
    rcases h.1 with hc | hc
    · subst hc
      have : dropSpaces (' ' :: w) = dropSpaces w := by simp [dropSpaces, List.dropWhile]
      rw [this]; exact ih h.2
    · subst hc
      have : dropSpaces ('\t' :: w) = '\t' :: w := by simp [dropSpaces, List.dropWhile]
      rw [this]; rfl

theorem allSpaces_blanksOnly {w : Text} (h : allSpaces w = true) : blanksOnly w = true := by
  simp only [allSpaces, blanksOnly, List.all_eq_true, beq_iff_eq, Bool.or_eq_true] at *
  intro x hx; exact Or.inl (h x hx)

theorem startsNL_ne_nil {w : Text} (h : startsNL w = true) : w ≠ [] := by
  intro hw; subst hw; simp [startsNL, dropSpaces, stripNL] at h

theorem startsNL_hosts {w : Text} (h : startsNL w = true) :
    (hosts [.nl, .ws] w || hosts [.nl] w) = true := by
  simp only [startsNL, Option.isSome_iff_exists] at h
  obtain ⟨r, hr⟩ := h
  simp only [hosts, hr]
  cases r with
  | nil => simp [allSpaces]
  | cons a r => simp

/-! gap classes → slot patterns -/

theorem fits_inline {g : List GTok} (h : inlineGap g = true) : gapFits patWS g = true := by
  match g, h with
  | [.white w], h =>
    simp only [inlineGap, Bool.and_eq_true] at h
    simp [gapFits, runsOf, fits, hostsAny, choices, patWS, hosts, h.1]

theorem fits_multA {g : List GTok} (h : multGapA g = true) : gapFits patNone g = true := by
  match g, h with
  | [], _ => rfl
  | [.white w], h =>
    simp only [multGapA] at h
    simp [gapFits, runsOf, fits, hostsAny, choices, patNone, hosts, h]

theorem fits_multB {g : List GTok} (h : multGapB g = true) : gapFits patOWS g = true := by
  match g, h with
  | [], _ => rfl
  | [.white w], h =>
    cases w with
    | nil => rfl
    | cons c w => simp [gapFits, runsOf, fits, hostsAny, choices, patOWS, hosts]

theorem multB_noNL {g : List GTok} (h : multGapB g = true) :
    gapFits patNL g = false ∧ gapFits (patNL ++ patOWS) g = false := by
  match g, h with
  | [], _ => exact ⟨rfl, rfl⟩
  | [.white w], h =>
    simp only [multGapB] at h
    have := blanksOnly_stripNL h
    constructor <;>
      simp [gapFits, runsOf, fits, hostsAny, choices, patNL, patOWS, hosts, this]

theorem fits_trail {g : List GTok} (h : trailGap g = true) : gapFits patNone g = true := by
  match g, h with
  | [], _ => rfl
  | [.white w], h =>
    simp only [trailGap] at h
    simp [gapFits, runsOf, fits, hostsAny, choices, patNone, hosts, h]
  | [.comment _], _ => rfl
  | [.white w, .comment _], h =>
    simp only [trailGap] at h
    simp [gapFits, runsOf, fits, splits, hostsAny, choices, patNone, hosts, h, allSpaces]

theorem fits_sepOp {g : List GTok} (h : sepGapOp g = true) :
    gapFits (patNL ++ patOWS) g = true := by
  match g, h with
  | [.white w], h =>
    simp only [sepGapOp] at h
    have := startsNL_hosts h
    simpa [gapFits, runsOf, fits, hostsAny, choices, patNL, patOWS] using this
  | [.comment _, .white w], h =>
    simp only [sepGapOp] at h
    have := startsNL_hosts h
    simp only [gapFits, runsOf, fits, splits, hostsAny, choices, patNL, patOWS, List.nil_append,
      List.cons_append, List.append_nil, List.map, List.any_cons, hosts, allSpaces, List.all_nil,
      Bool.true_and, List.any_nil, Bool.or_false, ite_true, List.append_nil] at *
    simp [this]
  | [.white s, .comment _, .white w], h =>
    simp only [sepGapOp, Bool.and_eq_true, Bool.or_eq_true] at h
    have hw := startsNL_hosts h.2
    have hne := startsNL_ne_nil h.2
    rcases h.1 with hs | hs
    · simp only [gapFits, runsOf, fits, splits, hostsAny, choices, patNL, patOWS, List.nil_append,
        List.cons_append, List.append_nil, List.map, List.any_cons, hosts, List.any_nil,
        Bool.or_false, ite_true] at *
      simp [hs, hw]
    · simp only [emptyLines] at hs
      simp only [gapFits, runsOf, fits, splits, hostsAny, choices, patNL, patOWS, List.nil_append,
        List.cons_append, List.append_nil, List.map, List.any_cons, List.any_nil,
        Bool.or_false, ite_true] at *
      simp [hs, hosts, hne]
  | [.comment _, .white w1, .comment _, .white w2], h =>
    simp only [sepGapOp, Bool.and_eq_true, emptyLines] at h
    have hne := startsNL_ne_nil h.2
    simp only [gapFits, runsOf, fits, splits, hostsAny, choices, patNL, patOWS, List.nil_append,
      List.cons_append, List.append_nil, List.map, List.any_cons, List.any_nil,
      Bool.or_false, ite_true] at *
    simp [h.1, hosts, hne, allSpaces]
  | [.white s, .comment _, .white w1, .comment _, .white w2], h =>
    simp only [sepGapOp, Bool.and_eq_true, emptyLines] at h
    have hne := startsNL_ne_nil h.2
    simp only [gapFits, runsOf, fits, splits, hostsAny, choices, patNL, patOWS, List.nil_append,
      List.cons_append, List.append_nil, List.map, List.any_cons, List.any_nil,
      Bool.or_false, ite_true] at *
    simp [h.1.1, h.1.2, hosts, hne]

end Simaple.Dsl
