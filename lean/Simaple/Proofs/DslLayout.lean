import Simaple.Proofs.DslParse
/-! The explicit layout classes are accepted by the grammar (`goodLayout → layoutOk`), and the
decorated text parses to the denoted commands. -/
namespace Simaple.Dsl

theorem blanksOnly_stripNL {w : Text} (h : blanksOnly w = true) : stripNL (dropSpaces w) = none := by
  induction w with
  | nil => rfl
  | cons c w ih =>
    simp only [blanksOnly, List.all_cons, Bool.and_eq_true, Bool.or_eq_true, beq_iff_eq] at h
    rcases h.1 with hc | hc
    · subst hc
      have : dropSpaces (' ' :: w) = dropSpaces w := by simp [dropSpaces, List.dropWhile]
      rw [this]; exact ih h.2
    · subst hc
      have : dropSpaces ('\t' :: w) = '\t' :: w := by simp [dropSpaces, List.dropWhile]
      rw [this]; rfl

theorem allSpaces_blanksOnly {w : Text} (h : allSpaces w = true) : blanksOnly w = true := by
  simp only [allSpaces, blanksOnly, List.all_eq_true, beq_iff_eq, Bool.or_eq_true] at *
  intro x hx; exact Or.inl (h x hx)

theorem startsNL_ne_nil {w : Text} (h : startsNL w = true) : w ≠ [] := by
  intro hw; subst hw; simp [startsNL, dropSpaces, stripNL] at h

theorem startsNL_hosts {w : Text} (h : startsNL w = true) :
    (hosts [.nl, .ws] w || hosts [.nl] w) = true := by
  simp only [startsNL, Option.isSome_iff_exists] at h
  obtain ⟨r, hr⟩ := h
  simp only [hosts, hr]
  cases r with
  | nil => simp [allSpaces]
  | cons a r => simp

/-! `fits` through its splits, `hosts` kept opaque -/

theorem fits_one (p : Pat) (w : Text) : fits p [w] = hostsAny p w := rfl

theorem fits_split {p : Pat} {w w' : Text} {ws : List Text} (q : Pat × Pat) (hq : q ∈ splits p)
    (h1 : hostsAny q.1 w = true) (h2 : fits q.2 (w' :: ws) = true) :
    fits p (w :: w' :: ws) = true := by
  simp only [fits, List.any_eq_true, Bool.and_eq_true]
  exact ⟨q, hq, h1, h2⟩

theorem splits_nil_left (p : Pat) : (([] : Pat), p) ∈ splits p := by
  cases p <;> simp [splits]

theorem splits_one (a : Slot × Bool) (r : Pat) : ([a], r) ∈ splits (a :: r) := by
  simp only [splits, List.mem_cons, List.mem_map]
  exact Or.inr ⟨([], r), splits_nil_left r, rfl⟩

/-- the first run holds only ignored blanks -/
theorem fits_skip {p : Pat} {w w' : Text} {ws : List Text} (h1 : allSpaces w = true)
    (h2 : fits p (w' :: ws) = true) : fits p (w :: w' :: ws) = true :=
  fits_split ([], p) (splits_nil_left p) (by simpa [hostsAny, choices, hosts] using h1) h2

/-- the first run holds the first slot -/
theorem fits_first {a : Slot × Bool} {r : Pat} {w w' : Text} {ws : List Text}
    (h1 : hosts [a.1] w = true) (h2 : fits r (w' :: ws) = true) :
    fits (a :: r) (w :: w' :: ws) = true := by
  refine fits_split ([a], r) (splits_one a r) ?_ h2
  obtain ⟨s, o⟩ := a
  cases o <;> simp [hostsAny, choices, h1]

theorem hostsAny_nil (w : Text) : hostsAny [] w = allSpaces w := by
  simp [hostsAny, choices, hosts]

theorem hostsAny_nl (w : Text) : hostsAny patNL w = hosts [.nl] w := by
  simp [hostsAny, choices, patNL]

theorem hostsAny_ows {w : Text} (h : w ≠ [] ∨ allSpaces w = true) : hostsAny patOWS w = true := by
  simp only [hostsAny, choices, patOWS, List.map, List.append_nil, ite_true, List.cons_append,
    List.nil_append, List.any_cons, List.any_nil, Bool.or_false, hosts, Bool.or_eq_true,
    Bool.not_eq_true', List.isEmpty_eq_false_iff]
  exact h

theorem hostsAny_nlows {w : Text} (h : startsNL w = true) : hostsAny (patNL ++ patOWS) w = true := by
  have := startsNL_hosts h
  simpa [hostsAny, choices, patNL, patOWS] using this

theorem hostsAny_nlows_of_nl {w : Text} (h : hosts [.nl] w = true) :
    hostsAny (patNL ++ patOWS) w = true := by
  simp [hostsAny, choices, patNL, patOWS, h]

theorem hostsAny_ws {w : Text} (h : w ≠ []) : hostsAny patWS w = true := by
  simp [hostsAny, choices, patWS, hosts, h]

theorem allSpaces_nil : allSpaces [] = true := rfl

/-! gap classes → slot patterns -/

theorem fits_inline {g : List GTok} (h : inlineGap g = true) : gapFits patWS g = true := by
  match g, h with
  | [.white w], h =>
    simp only [inlineGap, Bool.and_eq_true, Bool.not_eq_true', List.isEmpty_eq_false_iff] at h
    simp only [gapFits, runsOf, List.append_nil, fits_one]
    exact hostsAny_ws h.1

theorem fits_multA {g : List GTok} (h : multGapA g = true) : gapFits patNone g = true := by
  match g, h with
  | [], _ => rfl
  | [.white w], h =>
    simp only [multGapA] at h
    simp only [gapFits, runsOf, List.append_nil, fits_one, patNone, hostsAny_nil, h]

theorem fits_multB {g : List GTok} (h : multGapB g = true) : gapFits patOWS g = true := by
  match g, h with
  | [], _ => rfl
  | [.white w], h =>
    simp only [gapFits, runsOf, List.append_nil, fits_one]
    apply hostsAny_ows
    cases w with
    | nil => exact Or.inr rfl
    | cons c w => exact Or.inl (by simp)

theorem multB_noNL {g : List GTok} (h : multGapB g = true) :
    gapFits patNL g = false ∧ gapFits (patNL ++ patOWS) g = false := by
  match g, h with
  | [], _ => exact ⟨rfl, rfl⟩
  | [.white w], h =>
    simp only [multGapB] at h
    have := blanksOnly_stripNL h
    constructor <;>
      simp [gapFits, runsOf, fits, hostsAny, choices, patNL, patOWS, hosts, this]

theorem fits_trail {g : List GTok} (h : trailGap g = true) : gapFits patNone g = true := by
  match g, h with
  | [], _ => rfl
  | [.white w], h =>
    simp only [trailGap] at h
    simp only [gapFits, runsOf, List.append_nil, fits_one, patNone, hostsAny_nil, h]
  | [.comment _], _ => rfl
  | [.white w, .comment _], h =>
    simp only [trailGap] at h
    simp only [gapFits, runsOf, List.append_nil, patNone]
    exact fits_skip h rfl

theorem fits_sepOp {g : List GTok} (h : sepGapOp g = true) :
    gapFits (patNL ++ patOWS) g = true := by
  match g, h with
  | [.white w], h =>
    simp only [sepGapOp] at h
    simp only [gapFits, runsOf, List.append_nil, fits_one]
    exact hostsAny_nlows h
  | [.comment _, .white w], h =>
    simp only [sepGapOp] at h
    simp only [gapFits, runsOf, List.append_nil]
    exact fits_skip rfl (by rw [fits_one]; exact hostsAny_nlows h)
  | [.white s, .comment _, .white w], h =>
    simp only [sepGapOp, Bool.and_eq_true, Bool.or_eq_true] at h
    simp only [gapFits, runsOf, List.append_nil]
    rcases h.1 with hs | hs
    · exact fits_skip hs (by rw [fits_one]; exact hostsAny_nlows h.2)
    · exact fits_first (a := (.nl, false)) hs
        (by rw [fits_one]; exact hostsAny_ows (Or.inl (startsNL_ne_nil h.2)))
  | [.comment _, .white w1, .comment _, .white w2], h =>
    simp only [sepGapOp, Bool.and_eq_true, emptyLines] at h
    simp only [gapFits, runsOf, List.append_nil]
    exact fits_skip rfl (fits_first (a := (.nl, false)) h.1
      (by rw [fits_one]; exact hostsAny_ows (Or.inl (startsNL_ne_nil h.2))))
  | [.white s, .comment _, .white w1, .comment _, .white w2], h =>
    simp only [sepGapOp, Bool.and_eq_true, emptyLines] at h
    simp only [gapFits, runsOf, List.append_nil]
    exact fits_skip h.1.1 (fits_first (a := (.nl, false)) h.1.2
      (by rw [fits_one]; exact hostsAny_ows (Or.inl (startsNL_ne_nil h.2))))

theorem fits_sepStrict {g : List GTok} (h : sepGapStrict g = true) : gapFits patNL g = true := by
  match g, h with
  | [.white w], h =>
    simp only [sepGapStrict, emptyLines] at h
    simp only [gapFits, runsOf, List.append_nil, fits_one, hostsAny_nl, h]
  | [.comment _, .white w], h =>
    simp only [sepGapStrict, emptyLines] at h
    simp only [gapFits, runsOf, List.append_nil]
    exact fits_skip rfl (by rw [fits_one, hostsAny_nl]; exact h)
  | [.white s, .comment _, .white w], h =>
    simp only [sepGapStrict, emptyLines, Bool.and_eq_true] at h
    simp only [gapFits, runsOf, List.append_nil]
    exact fits_skip h.1 (by rw [fits_one, hostsAny_nl]; exact h.2)

theorem fits_leadOp {g : List GTok} (h : leadGapOp g = true) : gapFits patOWS g = true := by
  match g, h with
  | [], _ => rfl
  | [.white w], _ =>
    simp only [gapFits, runsOf, List.append_nil, fits_one]
    cases w with
    | nil => rfl
    | cons c w => exact hostsAny_ows (Or.inl (by simp))
  | [.comment _, .white w], h =>
    simp only [leadGapOp, Bool.not_eq_true', List.isEmpty_eq_false_iff] at h
    simp only [gapFits, runsOf, List.append_nil]
    exact fits_skip rfl (by rw [fits_one]; exact hostsAny_ows (Or.inl h))
  | [.white s, .comment _, .white w], h =>
    simp only [leadGapOp, Bool.and_eq_true, Bool.not_eq_true', List.isEmpty_eq_false_iff] at h
    simp only [gapFits, runsOf, List.append_nil]
    exact fits_skip h.1 (by rw [fits_one]; exact hostsAny_ows (Or.inl h.2))

theorem fits_leadStrict {g : List GTok} (h : leadGapStrict g = true) : gapFits patNone g = true := by
  match g, h with
  | [], _ => rfl
  | [.white w], h =>
    simp only [leadGapStrict] at h
    simp only [gapFits, runsOf, List.append_nil, fits_one, patNone, hostsAny_nil, h]

/-! ### the explicit class is accepted -/

theorem goodLine_lineFits {l : DLine} (h : goodLine l = true) : lineFits l = true := by
  simp only [goodLine, Bool.and_eq_true] at h
  obtain ⟨⟨h1, h2⟩, h3⟩ := h
  have hin : innerFits l.cmd l.g1 l.g2 = true := by
    cases hc : l.cmd with
    | full c n t =>
      rw [hc] at h2
      simp only [innerFits, Bool.and_eq_true]
      exact ⟨fits_inline h1, fits_inline h2⟩
    | skill c n => exact fits_inline h1
    | time c t => exact fits_inline h1
    | console s => exact fits_inline h1
  simp only [lineFits, hin, Bool.true_and]
  cases hm : l.mult with
  | none => rfl
  | some m =>
    rw [hm] at h3
    simp only [Bool.and_eq_true] at h3 ⊢
    exact ⟨⟨fits_multA h3.1.1, fits_multB h3.1.2⟩, h3.2⟩

theorem goodLine_unamb {l : DLine} (h : goodLine l = true) (hx : xfree l = true) :
    unamb l = true := by
  simp only [goodLine, Bool.and_eq_true] at h
  obtain ⟨_, h3⟩ := h
  cases hm : l.mult with
  | none =>
    simp only [xfree, hm] at hx
    simp only [unamb, hm]
    cases hc : l.cmd <;> simp_all
  | some m =>
    rw [hm] at h3
    simp only [Bool.and_eq_true] at h3
    have := multB_noNL h3.1.2
    simp [unamb, hm, this.1, this.2]

theorem leadPat_strict {l : DLine} (h : isStrictLine l = true) (base : Pat) : leadPat base l = base := by
  simp only [isStrictLine, Bool.or_eq_true, Bool.not_eq_true'] at h
  unfold leadPat
  cases hm : l.mult with
  | some m => rfl
  | none =>
    simp only [hm, Option.isSome_none, Bool.false_eq_true, false_or] at h
    simp [leadExtra, h]

theorem leadPat_op {l : DLine} (h : isStrictLine l = false) (base : Pat) :
    leadPat base l = base ++ patOWS := by
  simp only [isStrictLine, Bool.or_eq_false_iff, Bool.not_eq_false'] at h
  unfold leadPat
  cases hm : l.mult with
  | some m => simp [hm] at h
  | none => simp [leadExtra, h.2]

theorem good_lead {first : Bool} {before : List GTok} {l : DLine}
    (h : (if first then (if isStrictLine l then leadGapStrict before else leadGapOp before)
          else (if isStrictLine l then sepGapStrict before else sepGapOp before)) = true) :
    gapFits (leadPat (if first then patNone else patNL) l) before = true := by
  cases hs : isStrictLine l with
  | true =>
    rw [leadPat_strict hs]
    cases first with
    | true => simp only [hs, ite_true] at h; exact fits_leadStrict h
    | false => simp only [hs, ite_true, Bool.false_eq_true, ite_false] at h; exact fits_sepStrict h
  | false =>
    rw [leadPat_op hs]
    cases first with
    | true =>
      simp only [hs, ite_true, Bool.false_eq_true, ite_false] at h
      exact fits_leadOp h
    | false =>
      simp only [hs, Bool.false_eq_true, ite_false] at h
      exact fits_sepOp h

theorem good_layoutOk : ∀ (ls : List DLine) (first : Bool) (before : List GTok),
    goodLayoutFrom first before ls = true →
    layoutOk (if first then patNone else patNL) before ls = true := by
  intro ls
  induction ls with
  | nil => intro first before h; simp [goodLayoutFrom] at h
  | cons l ls ih =>
    intro first before h
    cases ls with
    | nil =>
      simp only [goodLayoutFrom, Bool.and_eq_true] at h
      simp only [layoutOk, Bool.and_eq_true]
      exact ⟨⟨good_lead h.1.1, goodLine_lineFits h.1.2⟩, fits_trail h.2⟩
    | cons l' ls' =>
      simp only [goodLayoutFrom, Bool.and_eq_true] at h
      simp only [layoutOk, Bool.and_eq_true]
      exact ⟨⟨good_lead h.1.1, goodLine_lineFits h.1.2⟩, by simpa using ih false l.after h.2⟩

theorem good_goodLine : ∀ (ls : List DLine) (first : Bool) (before : List GTok),
    goodLayoutFrom first before ls = true → ∀ l ∈ ls, goodLine l = true := by
  intro ls
  induction ls with
  | nil => intro _ _ _ l hl; cases hl
  | cons l ls ih =>
    intro first before h x hx
    cases ls with
    | nil =>
      simp only [goodLayoutFrom, Bool.and_eq_true] at h
      simp only [List.mem_singleton] at hx
      subst hx; exact h.1.2
    | cons l' ls' =>
      simp only [goodLayoutFrom, Bool.and_eq_true] at h
      rcases List.mem_cons.mp hx with rfl | hx'
      · exact h.1.2
      · exact ih false l.after h.2 x hx'

/-! ### the parse of a decorated text -/

theorem parseRawWith_decorated (base : Pat) (lead : List GTok) (ls : List DLine)
    (hsep : separated (toksOf lead ls) = true) (hun : ∀ l ∈ ls, unamb l = true) :
    parseRawWith base (unlex (toksOf lead ls)) =
      if layoutOk base lead ls then pick [expand ls] else .error .syntax := by
  unfold parseRawWith
  rw [lex_unlex _ hsep]
  simp only [group_toksOf, chunk_itemsOf, layout_exact ls hun]
  split <;> rfl

end Simaple.Dsl
