import Simaple.Model.ComponentMech
import Simaple.Proofs.Component
import Simaple.Proofs.EntityPeriodic
import Simaple.Proofs.EntityTimers
import Simaple.Proofs.EntityJob
/-! helper definitions and lemmas for the per-class theorems of group `Mech` (core Lean only) -/
namespace Simaple.Comp.Mech
open Simaple.Entity Simaple.Comp

/-- the times carried by the `.elapsed` events of an answer, in order -/
def elapsedTimes (evs : List REv) : List Int :=
  evs.filterMap (fun e => match e with | .elapsed t => some t | _ => none)

/-- the damage ticks of an answer, in order: (damage, hit, modifier text; `none` = the default modifier) -/
def damageTicks (evs : List REv) : List (Rat × Rat × Option String) :=
  evs.filterMap (fun e => match e with
    | .dealt d h => some (d, h, none)
    | .dealtMod d h m => some (d, h, some m)
    | _ => none)

/-- the tick a `dealtWith` event stands for -/
def tickOf (m : Option String) (d h : Rat) : Rat × Rat × Option String := (d, h, m)

theorem isReject_dealtWith (m : Option String) (d h : Rat) : (dealtWith m d h).isReject = false := by
  cases m <;> rfl

theorem rejectedIn_nil : rejectedIn [] = false := rfl
theorem rejectedIn_cons (e : REv) (l : List REv) : rejectedIn (e :: l) = (e.isReject || rejectedIn l) := by
  simp [rejectedIn]
theorem rejectedIn_append (a b : List REv) : rejectedIn (a ++ b) = (rejectedIn a || rejectedIn b) := by
  simp [rejectedIn]
theorem rejectedIn_replicate (n : Nat) (e : REv) (h : e.isReject = false) : rejectedIn (List.replicate n e) = false := by
  simp [rejectedIn, List.any_replicate, h]
theorem rejectedIn_filter_not (l : List REv) : rejectedIn (l.filter (fun e => !e.isReject)) = false := by
  simp [rejectedIn, List.any_filter]

theorem elapsedTimes_nil : elapsedTimes [] = [] := rfl
theorem elapsedTimes_append (a b : List REv) : elapsedTimes (a ++ b) = elapsedTimes a ++ elapsedTimes b := by
  simp [elapsedTimes, List.filterMap_append]
theorem elapsedTimes_replicate_dealt (n : Nat) (d h : Rat) : elapsedTimes (List.replicate n (.dealt d h)) = [] := by
  induction n with
  | zero => rfl
  | succ n ih => simp [List.replicate_succ, elapsedTimes] at ih ⊢
theorem elapsedTimes_replicate_dealtWith (n : Nat) (m : Option String) (d h : Rat) :
    elapsedTimes (List.replicate n (dealtWith m d h)) = [] := by
  induction n with
  | zero => rfl
  | succ n ih => cases m <;> simp [List.replicate_succ, elapsedTimes, dealtWith] at ih ⊢

theorem damageTicks_nil : damageTicks [] = [] := rfl
theorem damageTicks_append (a b : List REv) : damageTicks (a ++ b) = damageTicks a ++ damageTicks b := by
  simp [damageTicks, List.filterMap_append]
theorem damageTicks_elapsed_cons (t : Int) (l : List REv) : damageTicks (.elapsed t :: l) = damageTicks l := by
  simp [damageTicks]
theorem damageTicks_dealtWith_cons (m : Option String) (d h : Rat) (l : List REv) :
    damageTicks (dealtWith m d h :: l) = (d, h, m) :: damageTicks l := by
  cases m <;> simp [damageTicks, dealtWith]
theorem damageTicks_replicate_dealtWith (n : Nat) (m : Option String) (d h : Rat) :
    damageTicks (List.replicate n (dealtWith m d h)) = List.replicate n (d, h, m) := by
  induction n with
  | zero => rfl
  | succ n ih => rw [List.replicate_succ, damageTicks_dealtWith_cons, ih, List.replicate_succ]
theorem damageTicks_replicate_dealt (n : Nat) (d h : Rat) :
    damageTicks (List.replicate n (.dealt d h)) = List.replicate n (d, h, none) :=
  damageTicks_replicate_dealtWith n none d h

theorem replicate_add_append {α : Type} (m n : Nat) (x : α) :
    List.replicate (m + n) x = List.replicate m x ++ List.replicate n x := by
  simp [List.replicate_append_replicate]

/-- `Periodic.elapse'` split in two: tick counts add up (as naturals) -/
theorem periodic_ticks_add (s : Periodic) (a b : Int) (hw : s.WF) (ha : 0 ≤ a) (hb : 0 ≤ b) :
    (s.elapseCount (a + b)).toNat = (s.elapseCount a).toNat + ((s.elapse a).elapseCount b).toNat := by
  have h := Periodic.elapseCount_add s a b hw ha hb
  have h1 := Periodic.elapseCount_nonneg s a
  have h2 := Periodic.elapseCount_nonneg (s.elapse a) b
  omega

/-- status shown by a `Periodic` is the same for equivalent states -/
theorem periodic_equiv_timeLeft {x y : Periodic} (h : Periodic.Equiv x y) : x.timeLeft = y.timeLeft := h.timeLeft

/-! ### chunk independence helpers -/

theorem perm_interleave {α : Type} (a1 a2 b1 b2 : List α) :
    List.Perm ((a1 ++ a2) ++ (b1 ++ b2)) ((a1 ++ b1) ++ (a2 ++ b2)) := by
  rw [List.append_assoc, List.append_assoc]
  exact List.Perm.append_left a1 (List.perm_append_comm_assoc a2 b1 b2)

/-- `min M (min M x + v) = min M (x + v)` for `v ≥ 0`: `Stack.increase` twice is `increase` of the sum -/
theorem stack_increase_add (s : Stack) (u v : Int) (hv : 0 ≤ v) : (s.increase u).increase v = s.increase (u + v) := by
  unfold Stack.increase
  simp only [Stack.mk.injEq, and_true]
  omega

/-- `Keydown.resolving` moves `time_left` by exactly the elapsed time (the tick loop only touches the counter) -/
theorem keydown_resolveLoop_timeLeft (n : Nat) : ∀ (rtl : Int) (s : Keydown) (k : Nat),
    (Keydown.resolveLoop n rtl s k).1.timeLeft = s.timeLeft := by
  induction n with
  | zero => intro rtl s k; rfl
  | succ n ih =>
    intro rtl s k
    simp only [Keydown.resolveLoop]
    split
    · rw [ih]
    · rfl
theorem keydown_resolving_timeLeft (s : Keydown) (t : Int) : (s.resolving t).1.timeLeft = s.timeLeft - t := by
  unfold Keydown.resolving
  simp only []
  rw [keydown_resolveLoop_timeLeft]

/-- normal form of `elapse_keydown_trait`: state, whether the key-down ended in this call, damage ticks -/
theorem keydownSkill_elapse_state (q : KeydownSkill.P) (t : Int) (u : KeydownSkill.S) :
    (KeydownSkill.elapse q t u).1 = { cooldown := u.cooldown.elapse t, keydown := (u.keydown.resolving t).1 } := by
  unfold KeydownSkill.elapse
  simp only []
  split <;> rfl
theorem keydownSkill_elapse_ended (q : KeydownSkill.P) (t : Int) (u : KeydownSkill.S) :
    keydownEnded (KeydownSkill.elapse q t u).2 = (u.keydown.running && !(u.keydown.resolving t).1.running) := by
  unfold KeydownSkill.elapse
  simp only []
  split
  · rename_i h; rw [h]; simp [keydownEnded]
  · rename_i h
    simp only [Bool.not_eq_true] at h
    rw [h]
    simp [keydownEnded, List.any_replicate]
theorem keydownSkill_elapse_ticks (q : KeydownSkill.P) (t : Int) (u : KeydownSkill.S) :
    damageTicks (KeydownSkill.elapse q t u).2 =
      List.replicate (u.keydown.resolving t).2 (q.damage, q.hit, none) ++
        (if (u.keydown.running && !(u.keydown.resolving t).1.running) = true then [(q.finishDamage, q.finishHit, none)] else []) := by
  unfold KeydownSkill.elapse
  simp only []
  split
  · simp only [damageTicks_append, damageTicks_replicate_dealt]
    simp [damageTicks]
  · simp only [damageTicks_append, damageTicks_replicate_dealt]
    simp [damageTicks]

/-- `Periodic.set_time_left` keeps `WF` (the new counter is the positive initial counter or the interval) -/
theorem periodic_setTimeLeft_wf (s s' : Periodic) (t : Int) (hw : s.WF) (h : s.setTimeLeft t = .ok s') : s'.WF := by
  have hi := hw.1
  unfold Periodic.setTimeLeft at h
  split at h
  · cases h
  · split at h
    · split at h
      · cases h
      · cases h
        refine ⟨hi, ?_⟩
        simp only []; omega
    · cases h; exact ⟨hi, hi⟩

end Simaple.Comp.Mech

namespace Simaple.Comp
open Simaple.Entity Simaple.Comp.Mech

/-! ### per-class state equivalences: equal except for the dead `interval_counter` of an expired timer
    (`Periodic.Equiv`, `DynamicIntervalPeriodic.Equiv`) -/
def RobotSummonSkill.Equiv (x y : RobotSummonSkill.S) : Prop :=
  x.robotMastery = y.robotMastery ∧ x.cooldown = y.cooldown ∧ Periodic.Equiv x.periodic y.periodic
def HommingMissile.Equiv (x y : HommingMissile.S) : Prop :=
  x.bomberTime = y.bomberTime ∧ x.fullBarrageKeydown = y.fullBarrageKeydown ∧
  x.fullBarragePenaltyLasting = y.fullBarragePenaltyLasting ∧ x.cooldown = y.cooldown ∧ Periodic.Equiv x.periodic y.periodic
def MultipleOption.Equiv (x y : MultipleOption.S) : Prop :=
  x.cycle = y.cycle ∧ x.cooldown = y.cooldown ∧ Periodic.Equiv x.periodic y.periodic ∧ x.robotMastery = y.robotMastery
def MecaCarrier.Equiv (x y : MecaCarrier.S) : Prop :=
  x.cooldown = y.cooldown ∧ DynamicIntervalPeriodic.Equiv x.periodic y.periodic ∧ x.robotMastery = y.robotMastery
def AdeleEther.Equiv (x y : AdeleEther.S) : Prop :=
  x.etherGauge = y.etherGauge ∧ Periodic.Equiv x.periodic y.periodic ∧ x.restoreLasting = y.restoreLasting
def AdeleRuin.Equiv (x y : AdeleRuin.S) : Prop :=
  x.cooldown = y.cooldown ∧ Periodic.Equiv x.first y.first ∧ Periodic.Equiv x.second y.second
def AdeleStorm.Equiv (x y : AdeleStorm.S) : Prop :=
  x.cooldown = y.cooldown ∧ Periodic.Equiv x.periodic y.periodic ∧ x.stack = y.stack ∧ x.orderSword = y.orderSword
def MagicCurcuit.Equiv (x y : MagicCurcuit.S) : Prop :=
  x.cooldown = y.cooldown ∧ Periodic.Equiv x.periodic y.periodic

/-- `MultipleOption.ticks` over `m + n` ticks = `m` ticks, then `n` ticks from the cycle reached -/
theorem MultipleOption.ticks_add (p : MultipleOption.P) (m n : Nat) : ∀ c : Cycle,
    MultipleOption.ticks p (m + n) c =
      (MultipleOption.ticks p m c).bind (fun r1 => (MultipleOption.ticks p n r1.1).map (fun r2 => (r2.1, r1.2 ++ r2.2))) := by
  induction m with
  | zero =>
    intro c
    simp only [Nat.zero_add, MultipleOption.ticks, Option.bind_some, List.nil_append]
    cases MultipleOption.ticks p n c <;> rfl
  | succ m ih =>
    intro c
    rw [Nat.succ_add]
    simp only [MultipleOption.ticks]
    cases hc : c.step with
    | none => rfl
    | some c' =>
      simp only []
      rw [ih c']
      cases h1 : MultipleOption.ticks p m c' with
      | none => rfl
      | some r1 =>
        simp only [Option.bind_some, Option.map_some]
        cases h2 : MultipleOption.ticks p n r1.1 with
        | none => rfl
        | some r2 => rfl

/-- with a non-zero period the cycle never raises -/
theorem MultipleOption.ticks_defined (p : MultipleOption.P) (n : Nat) : ∀ c : Cycle, c.period ≠ 0 →
    ∃ r, MultipleOption.ticks p n c = some r ∧ r.1.period = c.period := by
  induction n with
  | zero => intro c _; exact ⟨_, rfl, rfl⟩
  | succ n ih =>
    intro c hc
    simp only [MultipleOption.ticks, Cycle.step, hc, if_false]
    obtain ⟨r, hr, hp⟩ := ih { c with tick := Int.fmod (c.tick + 1) c.period } hc
    exact ⟨(r.1, MultipleOption.damageEvent p c :: r.2), by rw [hr]; rfl, hp⟩

end Simaple.Comp
