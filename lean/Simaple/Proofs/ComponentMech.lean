import Simaple.Model.ComponentMech
import Simaple.Proofs.Component
import Simaple.Proofs.EntityPeriodic
import Simaple.Proofs.EntityTimers
import Simaple.Proofs.EntityJob
/-! helper definitions and lemmas for the per-class theorems of group `Mech` (core Lean only) -/
namespace Simaple.Comp.Mech
open Simaple.Entity Simaple.Comp

/-- the times carried by the `.elapsed` events of an answer, in order -/
def elapsedTimes (evs : List REv) : List Int :=
  evs.filterMap (fun e => match e with | .elapsed t => some t | _ => none)

/-- the damage ticks of an answer, in order: (damage, hit, modifier text; `none` = the default modifier) -/
def damageTicks (evs : List REv) : List (Rat × Rat × Option String) :=
  evs.filterMap (fun e => match e with
    | .dealt d h => some (d, h, none)
    | .dealtMod d h m => some (d, h, some m)
    | _ => none)

/-- the tick a `dealtWith` event stands for -/
def tickOf (m : Option String) (d h : Rat) : Rat × Rat × Option String := (d, h, m)

theorem isReject_dealtWith (m : Option String) (d h : Rat) : (dealtWith m d h).isReject = false := by
  cases m <;> rfl

theorem rejectedIn_nil : rejectedIn [] = false := rfl
theorem rejectedIn_cons (e : REv) (l : List REv) : rejectedIn (e :: l) = (e.isReject || rejectedIn l) := by
  simp [rejectedIn]
theorem rejectedIn_append (a b : List REv) : rejectedIn (a ++ b) = (rejectedIn a || rejectedIn b) := by
  simp [rejectedIn]
theorem rejectedIn_replicate (n : Nat) (e : REv) (h : e.isReject = false) : rejectedIn (List.replicate n e) = false := by
  simp [rejectedIn, List.any_replicate, h]
theorem rejectedIn_filter_not (l : List REv) : rejectedIn (l.filter (fun e => !e.isReject)) = false := by
  simp [rejectedIn, List.any_filter]

theorem elapsedTimes_nil : elapsedTimes [] = [] := rfl
theorem elapsedTimes_append (a b : List REv) : elapsedTimes (a ++ b) = elapsedTimes a ++ elapsedTimes b := by
  simp [elapsedTimes, List.filterMap_append]
theorem elapsedTimes_replicate_dealt (n : Nat) (d h : Rat) : elapsedTimes (List.replicate n (.dealt d h)) = [] := by
  induction n with
  | zero => rfl
  | succ n ih => simp [List.replicate_succ, elapsedTimes] at ih ⊢
theorem elapsedTimes_replicate_dealtWith (n : Nat) (m : Option String) (d h : Rat) :
    elapsedTimes (List.replicate n (dealtWith m d h)) = [] := by
  induction n with
  | zero => rfl
  | succ n ih => cases m <;> simp [List.replicate_succ, elapsedTimes, dealtWith] at ih ⊢

theorem damageTicks_nil : damageTicks [] = [] := rfl
theorem damageTicks_append (a b : List REv) : damageTicks (a ++ b) = damageTicks a ++ damageTicks b := by
  simp [damageTicks, List.filterMap_append]
theorem damageTicks_elapsed_cons (t : Int) (l : List REv) : damageTicks (.elapsed t :: l) = damageTicks l := by
  simp [damageTicks]
theorem damageTicks_dealtWith_cons (m : Option String) (d h : Rat) (l : List REv) :
    damageTicks (dealtWith m d h :: l) = (d, h, m) :: damageTicks l := by
  cases m <;> simp [damageTicks, dealtWith]
theorem damageTicks_replicate_dealtWith (n : Nat) (m : Option String) (d h : Rat) :
    damageTicks (List.replicate n (dealtWith m d h)) = List.replicate n (d, h, m) := by
  induction n with
  | zero => rfl
  | succ n ih => rw [List.replicate_succ, damageTicks_dealtWith_cons, ih, List.replicate_succ]
theorem damageTicks_replicate_dealt (n : Nat) (d h : Rat) :
    damageTicks (List.replicate n (.dealt d h)) = List.replicate n (d, h, none) :=
  damageTicks_replicate_dealtWith n none d h

theorem replicate_add_append {α : Type} (m n : Nat) (x : α) :
    List.replicate (m + n) x = List.replicate m x ++ List.replicate n x := by
  simp [List.replicate_append_replicate]

/-- `Periodic.elapse'` split in two: tick counts add up (as naturals) -/
theorem periodic_ticks_add (s : Periodic) (a b : Int) (hw : s.WF) (ha : 0 ≤ a) (hb : 0 ≤ b) :
    (s.elapseCount (a + b)).toNat = (s.elapseCount a).toNat + ((s.elapse a).elapseCount b).toNat := by
  have h := Periodic.elapseCount_add s a b hw ha hb
  have h1 := Periodic.elapseCount_nonneg s a
  have h2 := Periodic.elapseCount_nonneg (s.elapse a) b
  omega

/-- status shown by a `Periodic` is the same for equivalent states -/
theorem periodic_equiv_timeLeft {x y : Periodic} (h : Periodic.Equiv x y) : x.timeLeft = y.timeLeft := h.timeLeft

end Simaple.Comp.Mech
