import Simaple.Proofs.EntityLoop
/-!
# Chunk independence of the linear timers and of the "subtract then normalise" entities

`Cooldown`, `Lasting`, `PoisonNovaEntity`, `Clock` (linear), `LastingStack` (reset below 0),
`Consumable` (refill loop), `Keydown` (tick loop), `ProgrammedPeriodic` (tick loop).
All of these are chunk independent with plain equality of states.
-/
namespace Simaple.Entity
open Loop

/-! ## linear timers -/
namespace Cooldown
theorem elapse_add (s : Cooldown) (a b : Int) : (s.elapse a).elapse b = s.elapse (a + b) := by
  simp only [elapse, Cooldown.mk.injEq]; omega
theorem elapse_zero (s : Cooldown) : s.elapse 0 = s := by simp [elapse]
end Cooldown

namespace Lasting
theorem elapse_add (s : Lasting) (a b : Int) : (s.elapse a).elapse b = s.elapse (a + b) := by
  simp only [elapse, Lasting.mk.injEq, and_true]; omega
theorem elapse_zero (s : Lasting) : s.elapse 0 = s := by simp [elapse]
end Lasting

namespace PoisonNovaEntity
theorem elapse_add (s : PoisonNovaEntity) (a b : Int) : (s.elapse a).elapse b = s.elapse (a + b) := by
  simp only [elapse, PoisonNovaEntity.mk.injEq, and_true]; omega
theorem elapse_zero (s : PoisonNovaEntity) : s.elapse 0 = s := by simp [elapse]
end PoisonNovaEntity

namespace Clock
theorem spent_add (s : Clock) (a b : Int) : (s.spent a).spent b = s.spent (a + b) := by
  simp only [spent, Clock.mk.injEq]; omega
end Clock

/-! ## LastingStack -/
namespace LastingStack
theorem elapse_add (s : LastingStack) (a b : Int) (_ha : 0 ≤ a) (hb : 0 ≤ b) :
    (s.elapse a).elapse b = s.elapse (a + b) := by
  unfold elapse reset
  simp only []
  by_cases h1 : s.timeLeft - a < 0
  · have h2 : s.timeLeft - (a + b) < 0 := by omega
    simp only [h1, h2, if_true]
    split
    · rfl
    · have : b = 0 := by omega
      subst this; simp
  · simp only [h1, if_false]
    have e : s.timeLeft - a - b = s.timeLeft - (a + b) := by omega
    simp only [e]
theorem elapse_zero (s : LastingStack) (h : 0 ≤ s.timeLeft) : s.elapse 0 = s := by
  unfold elapse; simp; omega
end LastingStack

/-! ## Consumable -/
namespace Consumable

def guard (s : Consumable) : Bool := decide (s.timeLeft ≤ 0)
def shift (s : Consumable) (t : Int) : Consumable := { s with timeLeft := s.timeLeft - t }
/-- the final statement `if self.stack == self.maximum_stack: self.time_left = self.cooldown_duration` -/
def fin (s : Consumable) : Consumable :=
  if s.stack = s.maximumStack then { s with timeLeft := s.cooldownDuration } else s

theorem elapse_eq (s : Consumable) (t : Int) : s.elapse t = fin (refill (s.shift t).refillFuel (s.shift t)) := rfl

theorem refill_eq_iter (n : Nat) : ∀ s : Consumable, refill n s = iter guard refillStep n s := by
  induction n with
  | zero => intro s; rfl
  | succ n ih =>
    intro s
    simp only [refill, iter, guard, decide_eq_true_eq, ih]

def measure (s : Consumable) : Nat := if s.timeLeft ≤ 0 then (-s.timeLeft).toNat + 1 else 0

theorem measure_le_fuel (s : Consumable) : s.measure ≤ s.refillFuel := by
  unfold measure refillFuel; split <;> omega

theorem step_measure (s : Consumable) (hw : s.WF) (hg : guard s = true) :
    s.refillStep.WF ∧ s.refillStep.measure < s.measure := by
  unfold WF guard measure refillStep at *
  simp only [decide_eq_true_eq] at hg
  refine ⟨hw, ?_⟩
  simp only [hg, if_true]
  split <;> omega

/-- with `0 < cooldown_duration` the fuel of the model suffices: the loop has stopped -/
theorem refill_done (s : Consumable) (hw : s.WF) (n : Nat) (hn : s.measure ≤ n) :
    guard (refill n s) = false := by
  rw [refill_eq_iter]
  exact iter_done_of_measure WF measure (fun s hp hg => step_measure s hp hg) n s hw hn

theorem refill_wf (n : Nat) (s : Consumable) (hw : s.WF) : (refill n s).WF := by
  rw [refill_eq_iter]
  exact iter_inv WF (fun s hp hg => (step_measure s hp hg).1) n s hw

/-- the loop has really stopped: the timer is positive after `elapse` (when not refilled to the cap) -/
theorem refill_pos (s : Consumable) (hw : s.WF) : 0 < (refill s.refillFuel s).timeLeft := by
  have := refill_done s hw _ (measure_le_fuel s)
  simp only [guard, decide_eq_false_iff_not] at this
  omega

theorem refill_const (n : Nat) : ∀ s : Consumable,
    (refill n s).maximumStack = s.maximumStack ∧ (refill n s).cooldownDuration = s.cooldownDuration := by
  induction n with
  | zero => intro s; exact ⟨rfl, rfl⟩
  | succ n ih =>
    intro s
    simp only [refill]
    split
    · have := ih s.refillStep
      simpa [refillStep] using this
    · exact ⟨rfl, rfl⟩

theorem refill_full (n : Nat) : ∀ s : Consumable, s.stack = s.maximumStack →
    (refill n s).stack = s.maximumStack := by
  induction n with
  | zero => intro s h; exact h
  | succ n ih =>
    intro s h
    simp only [refill]
    split
    · have := ih s.refillStep (by simp only [refillStep]; omega)
      simpa [refillStep] using this
    · exact h

/-- once full, `elapse` always ends in the same state -/
theorem fin_refill_full (n : Nat) (s : Consumable) (h : s.stack = s.maximumStack) :
    fin (refill n s) = { s with timeLeft := s.cooldownDuration } := by
  have h1 := refill_full n s h
  have h2 := refill_const n s
  unfold fin
  rw [if_pos (by rw [h1, h2.1])]
  cases hr : refill n s
  rw [hr] at h1 h2
  cases s
  simp_all

theorem shift_shift (s : Consumable) (a b : Int) : (s.shift a).shift b = s.shift (a + b) := by
  simp only [shift, Consumable.mk.injEq, true_and]; omega

theorem shift_wf (s : Consumable) (t : Int) (hw : s.WF) : (s.shift t).WF := hw

theorem refill_commute (s : Consumable) (b : Int) (hb : 0 ≤ b) (hw : s.WF) :
    refill ((refill s.refillFuel s).shift b).refillFuel ((refill s.refillFuel s).shift b)
      = refill (s.shift b).refillFuel (s.shift b) := by
  have d1 := refill_done s hw _ (measure_le_fuel s)
  have w1 := refill_wf s.refillFuel s hw
  have d2 := refill_done ((refill s.refillFuel s).shift b) w1 _ (measure_le_fuel _)
  have d3 := refill_done (s.shift b) hw _ (measure_le_fuel _)
  simp only [refill_eq_iter] at d1 d2 d3 ⊢
  refine iter_commute (fun s => s.shift b) ?_ ?_ _ _ _ s d1 d2 d3
  · intro s hg
    have hg' : s.timeLeft ≤ 0 := by simpa [guard] using hg
    exact decide_eq_true (show s.timeLeft - b ≤ 0 by omega)
  · intro s _
    simp [shift, refillStep]; omega

/-- chunk independence of `Consumable.elapse` (plain equality) -/
theorem elapse_add (s : Consumable) (a b : Int) (hw : s.WF) (_ha : 0 ≤ a) (hb : 0 ≤ b) :
    (s.elapse a).elapse b = s.elapse (a + b) := by
  have hc := refill_commute (s.shift a) b hb hw
  rw [shift_shift] at hc
  rw [elapse_eq s (a + b), ← hc, elapse_eq s a]
  generalize hn : refill (s.shift a).refillFuel (s.shift a) = n1
  by_cases hfull : n1.stack = n1.maximumStack
  · -- full after the first chunk
    have e1 : fin n1 = { n1 with timeLeft := n1.cooldownDuration } := by simp [fin, hfull]
    rw [elapse_eq, e1]
    rw [fin_refill_full _ _ (by simpa [shift] using hfull), fin_refill_full _ _ (by simpa [shift] using hfull)]
    simp [shift]
  · have e1 : fin n1 = n1 := by simp [fin, hfull]
    rw [e1, elapse_eq]

theorem elapse_wf (s : Consumable) (t : Int) (hw : s.WF) : (s.elapse t).WF := by
  rw [elapse_eq]
  have := refill_wf (s.shift t).refillFuel (s.shift t) hw
  unfold fin
  split
  · exact this
  · exact this

theorem elapse_zero (s : Consumable) (hpos : 0 < s.timeLeft) (hne : s.stack ≠ s.maximumStack) : s.elapse 0 = s := by
  have e : s.shift 0 = s := by simp [shift]
  rw [elapse_eq, e]
  have : refill s.refillFuel s = s := by
    unfold refillFuel
    simp only [refill]
    rw [if_neg (by omega)]
  rw [this]; simp [fin, hne]

end Consumable

/-! ## Keydown -/
namespace Keydown

/-- reachable key-downs: `start` sets a non-negative counter; a counter `≤ 0` only survives the tick loop
    when the key-down is over (`time_left < counter`), and then it stays that way -/
def Inv (s : Keydown) : Prop := 0 < s.interval ∧ (0 ≤ s.intervalCounter ∨ s.timeLeft < s.intervalCounter)
instance (s : Keydown) : Decidable s.Inv := by unfold Inv; exact inferInstance

/-- loop state: the entity and the ticks so far -/
def guard (p : Keydown × Nat) : Bool := decide (p.1.intervalCounter ≤ p.1.timeLeft ∧ p.1.intervalCounter ≤ 0)
def body (p : Keydown × Nat) : Keydown × Nat :=
  ({ p.1 with intervalCounter := p.1.intervalCounter + p.1.interval }, p.2 + 1)
def shift (s : Keydown) (t : Int) : Keydown :=
  { s with timeLeft := s.timeLeft - t, intervalCounter := s.intervalCounter - t }

/-- along the loop `resolving_time_left` is `time_left - interval_counter` -/
theorem resolveLoop_eq_iter (n : Nat) : ∀ (rtl : Int) (s : Keydown) (k : Nat),
    rtl = s.timeLeft - s.intervalCounter → resolveLoop n rtl s k = iter guard body n (s, k) := by
  induction n with
  | zero => intro rtl s k _; rfl
  | succ n ih =>
    intro rtl s k h
    simp only [resolveLoop, iter, guard, body, decide_eq_true_eq]
    have e : (0 ≤ rtl ∧ s.intervalCounter ≤ 0) ↔ (s.intervalCounter ≤ s.timeLeft ∧ s.intervalCounter ≤ 0) := by
      omega
    by_cases hg : s.intervalCounter ≤ s.timeLeft ∧ s.intervalCounter ≤ 0
    · rw [if_pos (e.mpr hg), if_pos hg]
      exact ih _ _ _ (by simp only []; omega)
    · rw [if_neg (fun h => hg (e.mp h)), if_neg hg]

def measure (p : Keydown × Nat) : Nat :=
  if p.1.intervalCounter ≤ p.1.timeLeft ∧ p.1.intervalCounter ≤ 0
  then (p.1.timeLeft - p.1.intervalCounter).toNat + 1 else 0

theorem body_measure (p : Keydown × Nat) (hw : 0 < p.1.interval) (hg : guard p = true) :
    0 < (body p).1.interval ∧ measure (body p) < measure p := by
  unfold guard measure body at *
  simp only [decide_eq_true_eq] at hg
  refine ⟨hw, ?_⟩
  simp only [hg, and_self, if_true]
  split <;> omega

theorem iter_done (p : Keydown × Nat) (hw : 0 < p.1.interval) (n : Nat) (hn : measure p ≤ n) :
    guard (iter guard body n p) = false :=
  iter_done_of_measure (fun p => 0 < p.1.interval) measure (fun p hp hg => body_measure p hp hg) n p hw hn

/-- the generator as a normalising loop (also in the dead state, where both do nothing) -/
theorem resolving_eq (s : Keydown) (t : Int) (hi : s.Inv) :
    s.resolving t = iter guard body ((s.timeLeft - max 0 s.intervalCounter).toNat + 1) (s.shift t, 0) := by
  unfold resolving
  simp only []
  rcases hi.2 with h | h
  · have hm : max 0 s.intervalCounter = s.intervalCounter := by omega
    rw [hm]
    exact resolveLoop_eq_iter _ _ _ _ (by simp only []; omega)
  · -- dead: no iteration on either side
    by_cases hc : 0 ≤ s.intervalCounter
    · have hm : max 0 s.intervalCounter = s.intervalCounter := by omega
      rw [hm]
      exact resolveLoop_eq_iter _ _ _ _ (by simp only []; omega)
    · have hm : max 0 s.intervalCounter = 0 := by omega
      rw [hm]
      have hneg : s.timeLeft - 0 < 0 := by omega
      have e1 : (s.timeLeft - 0).toNat + 1 = 0 + 1 := by omega
      rw [e1]
      rw [iter_of_not _ _ (by simp [guard, shift]; omega)]
      simp only [resolveLoop]
      rw [if_neg (by omega)]
      rfl

theorem fuel_ok (s : Keydown) (t : Int) (hi : s.Inv) :
    measure (s.shift t, 0) ≤ (s.timeLeft - max 0 s.intervalCounter).toNat + 1 := by
  have h2 := hi.2
  unfold measure shift
  simp only []
  split <;> omega

theorem iter_snd (n : Nat) : ∀ (p : Keydown × Nat) (k : Nat),
    iter guard body n (p.1, p.2 + k) = ((iter guard body n p).1, (iter guard body n p).2 + k) := by
  induction n with
  | zero => intro p k; rfl
  | succ n ih =>
    intro p k
    by_cases hg : guard p = true
    · have hg' : guard (p.1, p.2 + k) = true := by simpa [guard] using hg
      rw [iter_succ_of n _ hg', iter_succ_of n _ hg]
      have := ih (body p) k
      simp only [body] at this ⊢
      rw [← this]
      congr 2; omega
    · have hg0 : guard p = false := by simpa using hg
      have hg' : guard (p.1, p.2 + k) = false := by simpa [guard] using hg0
      rw [iter_of_not _ _ hg', iter_of_not _ _ hg0]

theorem shift_shift (s : Keydown) (a b : Int) : (s.shift a).shift b = s.shift (a + b) := by
  simp only [shift, Keydown.mk.injEq, true_and]; omega

theorem iter_interval (n : Nat) : ∀ p : Keydown × Nat, (iter guard body n p).1.interval = p.1.interval := by
  induction n with
  | zero => intro p; rfl
  | succ n ih =>
    intro p
    simp only [iter]
    split
    · rw [ih]; rfl
    · rfl

/-- the Python loop of a well-formed key-down has stopped when the model's fuel is used up:
    afterwards the counter is positive or the key-down is over -/
theorem resolving_stopped (s : Keydown) (t : Int) (hi : s.Inv) :
    0 < (s.resolving t).1.intervalCounter ∨ (s.resolving t).1.timeLeft < (s.resolving t).1.intervalCounter := by
  rw [resolving_eq s t hi]
  have hd := iter_done (s.shift t, 0) hi.1 _ (fuel_ok s t hi)
  generalize iter guard body _ (s.shift t, 0) = r at hd
  simp only [guard, decide_eq_false_iff_not] at hd
  omega

/-- the invariant is kept -/
theorem resolving_inv (s : Keydown) (t : Int) (hi : s.Inv) : (s.resolving t).1.Inv := by
  have hs := resolving_stopped s t hi
  refine ⟨?_, by omega⟩
  rw [resolving_eq s t hi, iter_interval]
  exact hi.1

/-- chunk independence of `Keydown.resolving`: same state, ticks add up -/
theorem resolving_add (s : Keydown) (a b : Int) (hi : s.Inv) (_ha : 0 ≤ a) (hb : 0 ≤ b) :
    ((s.resolving a).1.resolving b).1 = (s.resolving (a + b)).1 ∧
    (s.resolving (a + b)).2 = (s.resolving a).2 + ((s.resolving a).1.resolving b).2 := by
  have hi1 := resolving_inv s a hi
  rw [resolving_eq _ b hi1, resolving_eq s (a + b) hi]
  have hd1 := iter_done (s.shift a, 0) hi.1 _ (fuel_ok s a hi)
  rw [resolving_eq s a hi] at hi1 ⊢
  generalize hn1 : (s.timeLeft - max 0 s.intervalCounter).toNat + 1 = n1 at *
  -- shift on loop states
  let σ : Keydown × Nat → Keydown × Nat := fun p => (p.1.shift b, p.2)
  have hd3 : guard (iter guard body n1 (σ (s.shift a, 0))) = false := by
    have := iter_done (s.shift (a + b), 0) hi.1 n1 (by rw [← hn1]; exact fuel_ok s (a + b) hi)
    simpa [σ, shift_shift] using this
  generalize hr : iter guard body n1 (s.shift a, 0) = r at *
  have hd2 := iter_done (r.1.shift b, 0) hi1.1 _ (fuel_ok r.1 b hi1)
  generalize hn2 : (r.1.timeLeft - max 0 r.1.intervalCounter).toNat + 1 = n2 at *
  have hd2' : guard (iter guard body n2 (σ r)) = false := by
    have := iter_snd n2 (r.1.shift b, 0) r.2
    simp only [Nat.zero_add] at this
    simp only [σ]
    rw [this]
    simpa [guard] using hd2
  have key := iter_commute (g := guard) (f := body) σ
    (by intro p hg; simp [guard, σ, shift] at hg ⊢; omega)
    (by intro p _; simp [σ, body, shift]; omega)
    n1 n2 n1 (s.shift a, 0) (by rw [hr]; exact hd1) (by rw [hr]; exact hd2') hd3
  rw [hr] at key
  have hs : σ (s.shift a, 0) = (s.shift (a + b), 0) := by simp [σ, shift_shift]
  rw [hs] at key
  have h2 := iter_snd n2 (r.1.shift b, 0) r.2
  simp only [Nat.zero_add] at h2
  have : σ r = (r.1.shift b, r.2) := rfl
  rw [this, h2] at key
  rw [← key]
  exact ⟨rfl, Nat.add_comm _ _⟩

theorem resolving_zero (s : Keydown) (h : 0 < s.intervalCounter) : s.resolving 0 = (s, 0) := by
  unfold resolving
  simp only [resolveLoop]
  rw [if_neg (by omega)]
  simp

end Keydown

/-! ## ProgrammedPeriodic -/
namespace ProgrammedPeriodic

def guard (p : ProgrammedPeriodic × Nat) : Bool := decide (p.1.intervalCounter ≤ 0 ∧ 0 < p.1.timeLeft)
def body (p : ProgrammedPeriodic × Nat) : ProgrammedPeriodic × Nat := (p.1.tickStep, p.2 + 1)
def shift (s : ProgrammedPeriodic) (t : Int) : ProgrammedPeriodic := { s with intervalCounter := s.intervalCounter - t }

theorem loop_eq_iter (n : Nat) : ∀ (s : ProgrammedPeriodic) (k : Nat), loop n s k = iter guard body n (s, k) := by
  induction n with
  | zero => intro s k; rfl
  | succ n ih =>
    intro s k
    simp only [loop, iter, guard, body, decide_eq_true_eq, ih]

theorem resolving_eq (s : ProgrammedPeriodic) (t : Int) :
    s.resolving t = iter guard body s.timeLeft.toNat (s.shift t, 0) := by
  unfold resolving; simp only []; rw [loop_eq_iter]; rfl

theorem currentInterval_pos (s : ProgrammedPeriodic) (hw : s.WF) : 0 < s.currentInterval := by
  obtain ⟨hne, hpos⟩ := hw
  unfold currentInterval
  have hlen : 0 < s.intervals.length := List.length_pos_iff.mpr hne
  have hlt : (s.count % (s.intervals.length : Int)).toNat < s.intervals.length := by
    have h1 := Int.emod_lt_of_pos s.count (show (0 : Int) < s.intervals.length by omega)
    have h2 := Int.emod_nonneg s.count (show (s.intervals.length : Int) ≠ 0 by omega)
    omega
  rw [List.getD_eq_getElem?_getD, List.getElem?_eq_getElem hlt]
  exact hpos _ (List.getElem_mem hlt)

theorem tickStep_wf (s : ProgrammedPeriodic) (hw : s.WF) : s.tickStep.WF := hw

def measure (p : ProgrammedPeriodic × Nat) : Nat := p.1.timeLeft.toNat

theorem body_measure (p : ProgrammedPeriodic × Nat) (hw : p.1.WF) (hg : guard p = true) :
    (body p).1.WF ∧ measure (body p) < measure p := by
  have hpos := currentInterval_pos p.1 hw
  refine ⟨hw, ?_⟩
  simp only [guard, decide_eq_true_eq] at hg
  simp only [measure, body, tickStep]
  omega

theorem iter_done (p : ProgrammedPeriodic × Nat) (hw : p.1.WF) (n : Nat) (hn : measure p ≤ n) :
    guard (iter guard body n p) = false :=
  iter_done_of_measure (fun p => p.1.WF) measure (fun p hp hg => body_measure p hp hg) n p hw hn

theorem iter_wf (n : Nat) (p : ProgrammedPeriodic × Nat) (hw : p.1.WF) : (iter guard body n p).1.WF :=
  iter_inv (fun p => p.1.WF) (fun p hp hg => (body_measure p hp hg).1) n p hw

theorem iter_snd (n : Nat) : ∀ (p : ProgrammedPeriodic × Nat) (k : Nat),
    iter guard body n (p.1, p.2 + k) = ((iter guard body n p).1, (iter guard body n p).2 + k) := by
  induction n with
  | zero => intro p k; rfl
  | succ n ih =>
    intro p k
    by_cases hg : guard p = true
    · have hg' : guard (p.1, p.2 + k) = true := by simpa [guard] using hg
      rw [iter_succ_of n _ hg', iter_succ_of n _ hg]
      have := ih (body p) k
      simp only [body] at this ⊢
      rw [← this]
      congr 2; omega
    · have hg0 : guard p = false := by simpa using hg
      have hg' : guard (p.1, p.2 + k) = false := by simpa [guard] using hg0
      rw [iter_of_not _ _ hg', iter_of_not _ _ hg0]

theorem shift_shift (s : ProgrammedPeriodic) (a b : Int) : (s.shift a).shift b = s.shift (a + b) := by
  simp only [shift, ProgrammedPeriodic.mk.injEq, and_true]; omega

theorem resolving_wf (s : ProgrammedPeriodic) (t : Int) (hw : s.WF) : (s.resolving t).1.WF := by
  rw [resolving_eq]; exact iter_wf _ _ hw

/-- chunk independence of `ProgrammedPeriodic.resolving`: same state, ticks add up -/
theorem resolving_add (s : ProgrammedPeriodic) (a b : Int) (hw : s.WF) (_ha : 0 ≤ a) (hb : 0 ≤ b) :
    ((s.resolving a).1.resolving b).1 = (s.resolving (a + b)).1 ∧
    (s.resolving (a + b)).2 = (s.resolving a).2 + ((s.resolving a).1.resolving b).2 := by
  have hw1 := resolving_wf s a hw
  rw [resolving_eq _ b, resolving_eq s (a + b)]
  rw [resolving_eq s a] at hw1 ⊢
  have hd1 := iter_done (s.shift a, 0) hw s.timeLeft.toNat (Nat.le_refl _)
  let σ : ProgrammedPeriodic × Nat → ProgrammedPeriodic × Nat := fun p => (p.1.shift b, p.2)
  have hd3 : guard (iter guard body s.timeLeft.toNat (σ (s.shift a, 0))) = false := by
    have := iter_done (s.shift (a + b), 0) hw s.timeLeft.toNat (Nat.le_refl _)
    simpa [σ, shift_shift] using this
  generalize hr : iter guard body s.timeLeft.toNat (s.shift a, 0) = r at *
  have hd2 := iter_done (r.1.shift b, 0) hw1 r.1.timeLeft.toNat (Nat.le_refl _)
  have hd2' : guard (iter guard body r.1.timeLeft.toNat (σ r)) = false := by
    have := iter_snd r.1.timeLeft.toNat (r.1.shift b, 0) r.2
    simp only [Nat.zero_add] at this
    simp only [σ]
    rw [this]
    simpa [guard] using hd2
  have key := iter_commute (g := guard) (f := body) σ
    (by
      intro p hg
      have hg' : p.1.intervalCounter ≤ 0 ∧ 0 < p.1.timeLeft := by simpa [guard] using hg
      exact decide_eq_true (show p.1.intervalCounter - b ≤ 0 ∧ 0 < p.1.timeLeft by omega))
    (by
      intro p _
      simp [σ, body, shift, tickStep, currentInterval]
      omega)
    s.timeLeft.toNat r.1.timeLeft.toNat s.timeLeft.toNat (s.shift a, 0)
    (by rw [hr]; exact hd1) (by rw [hr]; exact hd2') hd3
  rw [hr] at key
  have hs : σ (s.shift a, 0) = (s.shift (a + b), 0) := by simp [σ, shift_shift]
  rw [hs] at key
  have h2 := iter_snd r.1.timeLeft.toNat (r.1.shift b, 0) r.2
  simp only [Nat.zero_add] at h2
  have : σ r = (r.1.shift b, r.2) := rfl
  rw [this, h2] at key
  have e : (r.1.shift b).timeLeft = r.1.timeLeft := rfl
  rw [← key]
  exact ⟨rfl, Nat.add_comm _ _⟩

/-- after `resolving` the loop has stopped: the counter is positive or the skill is over -/
theorem resolving_stopped (s : ProgrammedPeriodic) (t : Int) (hw : s.WF) :
    0 < (s.resolving t).1.intervalCounter ∨ (s.resolving t).1.timeLeft ≤ 0 := by
  rw [resolving_eq]
  have := iter_done (s.shift t, 0) hw s.timeLeft.toNat (Nat.le_refl _)
  simp only [guard, decide_eq_false_iff_not] at this
  omega

end ProgrammedPeriodic

end Simaple.Entity
