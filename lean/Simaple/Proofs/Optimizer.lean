/-
C19 helper lemmas: stepping, the step iterator, `get_reward`, `get_optimal_increment`, the greedy loop.
-/
import Simaple.Model.Optimizer
import Mathlib.Tactic.Linarith
import Mathlib.Algebra.Order.Field.Rat

namespace Simaple.Proofs.Optimizer
open Simaple.Optimizer

/-- pointwise order on states: same number of slots and no slot decreased -/
def Le (a b : State) : Prop := a.length = b.length ∧ ∀ j, a.getD j 0 ≤ b.getD j 0

theorem Le.refl (a : State) : Le a a := ⟨rfl, fun _ => Nat.le_refl _⟩
theorem Le.trans {a b c : State} (h₁ : Le a b) (h₂ : Le b c) : Le a c :=
  ⟨h₁.1.trans h₂.1, fun j => Nat.le_trans (h₁.2 j) (h₂.2 j)⟩

/-! ### `incr` -/

theorem incr_length (s : State) (i : Nat) : (incr s i).length = s.length := by
  induction s generalizing i with
  | nil => rfl
  | cons x xs ih => cases i <;> simp [incr, ih]

theorem incr_getD_self (s : State) (i : Nat) (h : i < s.length) :
    (incr s i).getD i 0 = s.getD i 0 + 1 := by
  induction s generalizing i with
  | nil => simp at h
  | cons x xs ih =>
    cases i with
    | zero => simp [incr]
    | succ i =>
      have : i < xs.length := by simpa using h
      simpa [incr] using ih i this

theorem incr_getD_le (s : State) (i j : Nat) : s.getD j 0 ≤ (incr s i).getD j 0 := by
  induction s generalizing i j with
  | nil => simp [incr]
  | cons x xs ih =>
    cases i with
    | zero => cases j <;> simp [incr]
    | succ i =>
      cases j with
      | zero => simp [incr]
      | succ j => simpa [incr] using ih i j

theorem incr_le (s : State) (i : Nat) : Le s (incr s i) :=
  ⟨(incr_length s i).symm, fun j => incr_getD_le s i j⟩

theorem mem_incr {s : State} {i x : Nat} (h : x ∈ incr s i) : x ∈ s ∨ x = s.getD i 0 + 1 := by
  induction s generalizing i with
  | nil => simp [incr] at h
  | cons y ys ih =>
    cases i with
    | zero =>
      simp only [incr, List.mem_cons] at h
      rcases h with h | h
      · right; simp [h]
      · left; exact List.mem_cons_of_mem _ h
    | succ i =>
      simp only [incr, List.mem_cons] at h
      rcases h with h | h
      · left; simp [h]
      · rcases ih h with h' | h'
        · left; exact List.mem_cons_of_mem _ h'
        · right; simpa using h'

/-! ### `get_stepped_target` -/

theorem stepped_some_le {m : Nat} {s s' : State} {inc : List Nat}
    (h : getSteppedTarget m s inc = .ok (some s')) : Le s s' := by
  induction inc generalizing s with
  | nil => simp [getSteppedTarget] at h; subst h; exact Le.refl _
  | cons i rest ih =>
    simp only [getSteppedTarget] at h
    split at h
    · split at h
      · simp at h
      · exact Le.trans (incr_le s i) (ih h)
    · simp at h

theorem stepped_some_limits {m : Nat} {s s' : State} {inc : List Nat}
    (h : getSteppedTarget m s inc = .ok (some s')) (hs : ∀ x ∈ s, x ≤ m) : ∀ x ∈ s', x ≤ m := by
  induction inc generalizing s with
  | nil => simp [getSteppedTarget] at h; subst h; exact hs
  | cons i rest ih =>
    simp only [getSteppedTarget] at h
    split at h
    · next hi =>
      split at h
      · simp at h
      · next hle =>
        refine ih h ?_
        intro x hx
        rcases mem_incr hx with hx | hx
        · exact hs x hx
        · have := incr_getD_self s i hi
          omega
    · simp at h

theorem stepped_length {m : Nat} {s s' : State} {inc : List Nat}
    (h : getSteppedTarget m s inc = .ok (some s')) : s'.length = s.length :=
  (stepped_some_le h).1.symm

/-- with all indices in range, stepping never raises `IndexError` -/
theorem stepped_no_indexError {m : Nat} {s : State} {inc : List Nat}
    (hinc : ∀ i ∈ inc, i < s.length) : getSteppedTarget m s inc ≠ .error .indexError := by
  induction inc generalizing s with
  | nil => simp [getSteppedTarget]
  | cons i rest ih =>
    simp only [getSteppedTarget]
    have hi : i < s.length := hinc i (by simp)
    simp only [hi, if_true]
    split
    · simp
    · apply ih
      intro j hj
      rw [incr_length]
      exact hinc j (List.mem_cons_of_mem _ hj)

/-- stepping raises nothing but `IndexError` -/
theorem stepped_error {m : Nat} {s : State} {inc : List Nat} {e : Err}
    (h : getSteppedTarget m s inc = .error e) : e = .indexError := by
  induction inc generalizing s with
  | nil => simp [getSteppedTarget] at h
  | cons i rest ih =>
    simp only [getSteppedTarget] at h
    split at h
    · split at h
      · simp at h
      · exact ih h
    · simp at h; exact h.symm

/-- a single in-range step: the stepped state, or `None` when the slot is already at the limit -/
theorem stepped_single (m : Nat) (s : State) (i : Nat) (hi : i < s.length) :
    getSteppedTarget m s [i] = if s.getD i 0 + 1 > m then .ok none else .ok (some (incr s i)) := by
  simp only [getSteppedTarget, hi, if_true, incr_getD_self s i hi]

/-! ### the step iterator -/

theorem mem_comb2 {l : List Nat} {p : Nat × Nat} (h : p ∈ comb2 l) : p.1 ∈ l ∧ p.2 ∈ l := by
  induction l with
  | nil => simp [comb2] at h
  | cons x xs ih =>
    simp only [comb2, List.mem_append, List.mem_map] at h
    rcases h with ⟨y, hy, rfl⟩ | h
    · exact ⟨by simp, List.mem_cons_of_mem _ hy⟩
    · exact ⟨List.mem_cons_of_mem _ (ih h).1, List.mem_cons_of_mem _ (ih h).2⟩

theorem mem_combinations {l : List Nat} {k : Nat} {c : List Nat} (h : c ∈ combinations l k) :
    c.length = k ∧ ∀ x ∈ c, x ∈ l := by
  induction l generalizing k c with
  | nil =>
    cases k with
    | zero => simp [combinations] at h; subst h; simp
    | succ k => simp [combinations] at h
  | cons x xs ih =>
    cases k with
    | zero => simp [combinations] at h; subst h; simp
    | succ k =>
      simp only [combinations, List.mem_append, List.mem_map] at h
      rcases h with ⟨c', hc', rfl⟩ | h
      · have := ih hc'
        refine ⟨by simp [this.1], ?_⟩
        intro y hy
        rcases List.mem_cons.mp hy with rfl | hy
        · simp
        · exact List.mem_cons_of_mem _ (this.2 y hy)
      · have := ih h
        exact ⟨this.1, fun y hy => List.mem_cons_of_mem _ (this.2 y hy)⟩

theorem mem_permutations2 {n : Nat} {p : Nat × Nat} (h : p ∈ permutations2 n) : p.1 < n ∧ p.2 < n := by
  simp only [permutations2, List.mem_flatMap, List.mem_map, List.mem_filter, List.mem_range] at h
  rcases h with ⟨i, hi, j, ⟨hj, _⟩, rfl⟩
  exact ⟨hi, hj⟩

/-- every increment vector the optimizer tries is non-empty and names existing slots -/
theorem mem_cumulatedIterator {n d : Nat} {inc : List Nat} (h : inc ∈ cumulatedIterator n d) :
    inc ≠ [] ∧ ∀ i ∈ inc, i < n := by
  simp only [cumulatedIterator, List.mem_append] at h
  rcases h with ((h | h) | h) | h
  · split at h
    · simp only [singleIterator, List.mem_map, List.mem_range] at h
      rcases h with ⟨i, hi, rfl⟩
      simp [hi]
    · simp at h
  · split at h
    · simp only [doubleIterator, List.mem_append, List.mem_map, List.mem_range] at h
      rcases h with ⟨i, hi, rfl⟩ | ⟨p, hp, rfl⟩
      · simp [hi]
      · have := mem_comb2 hp
        simp only [List.mem_range] at this
        simp [this.1, this.2]
    · simp at h
  · split at h
    · simp only [tripleIterator, List.mem_append, List.mem_map, List.mem_range] at h
      rcases h with (⟨i, hi, rfl⟩ | ⟨p, hp, rfl⟩) | h
      · simp [hi]
      · have := mem_permutations2 hp
        simp [this.1, this.2]
      · have := mem_combinations h
        refine ⟨?_, fun i hi => List.mem_range.mp (this.2 i hi)⟩
        intro h0; rw [h0] at this; simp at this
    · simp at h
  · split at h
    · simp only [quadrupleIterator, List.mem_append, List.mem_map, List.mem_range, List.mem_flatMap] at h
      rcases h with (((⟨i, hi, rfl⟩ | ⟨p, hp, rfl⟩) | ⟨p, hp, rfl⟩) | ⟨i, hi, p, hp, rfl⟩) | h
      · simp [hi]
      · have := mem_permutations2 hp
        simp [this.1, this.2]
      · have := mem_comb2 hp
        simp only [List.mem_range] at this
        simp [this.1, this.2]
      · have := mem_comb2 hp
        simp only [List.mem_filter, List.mem_range] at this
        simp [hi, this.1.1, this.2.1]
      · have := mem_combinations h
        refine ⟨?_, fun i hi => List.mem_range.mp (this.2 i hi)⟩
        intro h0; rw [h0] at this; simp at this
    · simp at h

/-- every single step is among the increments as soon as `step_size ≥ 1` -/
theorem single_mem_cumulatedIterator {n d i : Nat} (hd : 1 ≤ d) (hi : i < n) :
    [i] ∈ cumulatedIterator n d := by
  simp only [cumulatedIterator, List.mem_append]
  left; left; left
  simp only [ge_iff_le, hd, if_true, singleIterator, List.mem_map, List.mem_range]
  exact ⟨i, hi, rfl⟩

/-! ### `get_reward` -/

/-- what a successfully stepped, affordable increment is rewarded with -/
def rewardOf (P : Problem) (s s' : State) : Rat :=
  (P.value s' / P.value s - 1) / (P.cost s' - P.cost s)

/-- a reward above `-1` can only come from the last line of `get_reward`: the increment stayed
    within the limits, the stepped target is affordable, nothing was divided by zero -/
theorem reward_gt_spec {P : Problem} {s : State} {inc : List Nat} {c0 v0 ρ : Rat}
    (h : getReward P s inc c0 v0 = .ok ρ) (hρ : -1 < ρ) :
    ∃ s', getSteppedTarget P.maxStep s inc = .ok (some s') ∧ P.cost s' ≤ P.budget ∧ v0 ≠ 0 ∧
      P.cost s' - c0 ≠ 0 ∧ ρ = (P.value s' / v0 - 1) / (P.cost s' - c0) := by
  unfold getReward at h
  split at h
  · simp at h
  · simp only [NO_TARGET_REWARD, Except.ok.injEq] at h
    subst h; norm_num at hρ
  · next s' hs' =>
    simp only at h
    split at h
    · simp only [COST_EXCEED, Except.ok.injEq] at h
      subst h; norm_num at hρ
    · next hc =>
      split at h
      · simp at h
      · next hv =>
        split at h
        · simp at h
        · next hd =>
          simp only [Except.ok.injEq] at h
          exact ⟨s', hs', not_lt.mp hc, hv, hd, h.symm⟩

/-- the reward of an in-limit affordable increment, when it is computed at all -/
theorem reward_ok_of_stepped {P : Problem} {s s' : State} {inc : List Nat} {c0 v0 ρ : Rat}
    (h : getReward P s inc c0 v0 = .ok ρ) (hs : getSteppedTarget P.maxStep s inc = .ok (some s'))
    (hb : P.cost s' ≤ P.budget) : ρ = (P.value s' / v0 - 1) / (P.cost s' - c0) := by
  unfold getReward at h
  rw [hs] at h
  simp only at h
  rw [if_neg (not_lt.mpr hb)] at h
  split at h
  · simp at h
  · split at h
    · simp at h
    · simp only [Except.ok.injEq] at h; exact h.symm

theorem reward_error {P : Problem} {s : State} {inc : List Nat} {c0 v0 : Rat} {e : Err}
    (h : getReward P s inc c0 v0 = .error e) : e = .indexError ∨ e = .zeroDivision := by
  unfold getReward at h
  split at h
  · next e' he => simp only [Except.error.injEq] at h; subst h; left; exact stepped_error he
  · simp at h
  · simp only at h
    split at h
    · simp at h
    · split at h
      · simp only [Except.error.injEq] at h; right; exact h.symm
      · split at h
        · simp only [Except.error.injEq] at h; right; exact h.symm
        · simp at h

theorem reward_no_indexError {P : Problem} {s : State} {inc : List Nat} {c0 v0 : Rat}
    (hinc : ∀ i ∈ inc, i < s.length) : getReward P s inc c0 v0 ≠ .error .indexError := by
  intro h
  unfold getReward at h
  split at h
  · next e' he =>
    simp only [Except.error.injEq] at h; subst h
    exact stepped_no_indexError hinc he
  · simp at h
  · simp only at h
    split at h
    · simp at h
    · split at h
      · simp at h
      · split at h <;> simp at h

/-! ### `get_optimal_increment` -/

/-- the invariant of the `for increments in …` loop -/
theorem bestLoop_spec {P : Problem} {s : State} {c0 v0 : Rat} :
    ∀ (incs : List (List Nat)) (best : List Nat) (br : Rat) (b : List Nat) (r : Rat),
      bestLoop P s c0 v0 incs best br = .ok (b, r) →
      br ≤ r ∧ (∀ inc ∈ incs, ∃ ρ, getReward P s inc c0 v0 = .ok ρ ∧ ρ ≤ r) ∧
      ((b = best ∧ r = br) ∨ (b ∈ incs ∧ getReward P s b c0 v0 = .ok r ∧ br < r)) := by
  intro incs
  induction incs with
  | nil =>
    intro best br b r h
    simp only [bestLoop, Except.ok.injEq, Prod.mk.injEq] at h
    obtain ⟨rfl, rfl⟩ := h
    exact ⟨le_refl _, by simp, Or.inl ⟨rfl, rfl⟩⟩
  | cons inc rest ih =>
    intro best br b r h
    simp only [bestLoop] at h
    split at h
    · simp at h
    · next ρ hρ =>
      split at h
      · next hgt =>
        obtain ⟨h1, h2, h3⟩ := ih _ _ _ _ h
        refine ⟨le_trans (le_of_lt hgt) h1, ?_, ?_⟩
        · intro i hi
          rcases List.mem_cons.mp hi with rfl | hi
          · exact ⟨ρ, hρ, h1⟩
          · exact h2 i hi
        · right
          rcases h3 with ⟨rfl, rfl⟩ | ⟨hb, hr, hlt⟩
          · exact ⟨by simp, hρ, hgt⟩
          · exact ⟨List.mem_cons_of_mem _ hb, hr, lt_trans hgt hlt⟩
      · next hng =>
        obtain ⟨h1, h2, h3⟩ := ih _ _ _ _ h
        refine ⟨h1, ?_, ?_⟩
        · intro i hi
          rcases List.mem_cons.mp hi with rfl | hi
          · exact ⟨ρ, hρ, le_trans (not_lt.mp hng) h1⟩
          · exact h2 i hi
        · rcases h3 with h3 | ⟨hb, hr, hlt⟩
          · exact Or.inl h3
          · exact Or.inr ⟨List.mem_cons_of_mem _ hb, hr, hlt⟩

theorem bestLoop_error {P : Problem} {s : State} {c0 v0 : Rat} {e : Err} :
    ∀ (incs : List (List Nat)) (best : List Nat) (br : Rat),
      bestLoop P s c0 v0 incs best br = .error e →
      ∃ inc ∈ incs, getReward P s inc c0 v0 = .error e := by
  intro incs
  induction incs with
  | nil => intro best br h; simp [bestLoop] at h
  | cons inc rest ih =>
    intro best br h
    simp only [bestLoop] at h
    split at h
    · next e' he =>
      simp only [Except.error.injEq] at h; subst h
      exact ⟨inc, by simp, he⟩
    · split at h
      · obtain ⟨i, hi, hr⟩ := ih _ _ h
        exact ⟨i, List.mem_cons_of_mem _ hi, hr⟩
      · obtain ⟨i, hi, hr⟩ := ih _ _ h
        exact ⟨i, List.mem_cons_of_mem _ hi, hr⟩

/-- `get_optimal_increment` returns either `()` — and then every increment tried has a reward
    `≤ -1` — or one of the increments tried, whose reward is `> -1` and maximal -/
theorem optimalIncrement_spec {P : Problem} {s : State} {b : List Nat}
    (h : getOptimalIncrement P s = .ok b) :
    (b = [] ∧ ∀ inc ∈ P.increments, ∃ ρ, getReward P s inc (P.cost s) (P.value s) = .ok ρ ∧ ρ ≤ -1) ∨
    (b ∈ P.increments ∧ ∃ r, getReward P s b (P.cost s) (P.value s) = .ok r ∧ -1 < r ∧
      ∀ inc ∈ P.increments, ∃ ρ, getReward P s inc (P.cost s) (P.value s) = .ok ρ ∧ ρ ≤ r) := by
  unfold getOptimalIncrement at h
  split at h
  · simp at h
  · next best r hb =>
    simp only [Except.ok.injEq] at h; subst h
    obtain ⟨_, h2, h3⟩ := bestLoop_spec _ _ _ _ _ hb
    rcases h3 with ⟨rfl, rfl⟩ | ⟨hm, hr, hlt⟩
    · exact Or.inl ⟨rfl, h2⟩
    · exact Or.inr ⟨hm, r, hr, hlt, h2⟩

/-! ### one iteration of `optimize` -/

/-- an accepted step: one of the increments tried, applied within the limits, affordable, with a
    reward `> -1` that is maximal among all increments tried -/
theorem stepOnce_some {P : Problem} {s s' : State} (h : stepOnce P s = .ok (some s')) :
    ∃ inc ∈ P.increments, getSteppedTarget P.maxStep s inc = .ok (some s') ∧
      P.cost s' ≤ P.budget ∧ P.value s ≠ 0 ∧ P.cost s' - P.cost s ≠ 0 ∧ -1 < rewardOf P s s' ∧
      ∀ inc' ∈ P.increments, ∃ ρ, getReward P s inc' (P.cost s) (P.value s) = .ok ρ ∧
        ρ ≤ rewardOf P s s' := by
  unfold stepOnce at h
  split at h
  · simp at h
  · next inc hopt =>
    split at h
    · simp at h
    · next hne =>
      split at h
      · simp at h
      · simp at h
      · next s'' hs'' =>
        simp only [Except.ok.injEq, Option.some.injEq] at h; subst h
        rcases optimalIncrement_spec hopt with ⟨rfl, _⟩ | ⟨hm, r, hr, hlt, hall⟩
        · simp at hne
        · obtain ⟨t, ht, hb, hv, hd, hρ⟩ := reward_gt_spec hr hlt
          rw [hs''] at ht
          simp only [Except.ok.injEq, Option.some.injEq] at ht; subst ht
          have : r = rewardOf P s s'' := hρ
          exact ⟨inc, hm, hs'', hb, hv, hd, this ▸ hlt, this ▸ hall⟩

/-- `break`: every increment tried has a reward `≤ -1` -/
theorem stepOnce_none {P : Problem} {s : State} (h : stepOnce P s = .ok none) :
    ∀ inc ∈ P.increments, ∃ ρ, getReward P s inc (P.cost s) (P.value s) = .ok ρ ∧ ρ ≤ -1 := by
  unfold stepOnce at h
  split at h
  · simp at h
  · next inc hopt =>
    split at h
    · next hlen =>
      rcases optimalIncrement_spec hopt with ⟨_, hall⟩ | ⟨hm, _⟩
      · exact hall
      · have := (mem_cumulatedIterator hm).1
        exact absurd (List.length_eq_zero_iff.mp hlen) this
    · split at h <;> simp at h

/-- the `raise TypeError` of `optimize` is dead code -/
theorem stepOnce_no_typeError (P : Problem) (s : State) : stepOnce P s ≠ .error .typeError := by
  intro h
  unfold stepOnce at h
  split at h
  · next e hopt =>
    simp only [Except.error.injEq] at h; subst h
    unfold getOptimalIncrement at hopt
    split at hopt
    · next e' hb =>
      simp only [Except.error.injEq] at hopt; subst hopt
      obtain ⟨i, _, hr⟩ := bestLoop_error _ _ _ hb
      rcases reward_error hr with h | h <;> simp at h
    · simp at hopt
  · next inc hopt =>
    split at h
    · simp at h
    · next hne =>
      split at h
      · next e he =>
        simp only [Except.error.injEq] at h; subst h
        have := stepped_error he; simp at this
      · next hnone =>
        rcases optimalIncrement_spec hopt with ⟨rfl, _⟩ | ⟨_, r, hr, hlt, _⟩
        · simp at hne
        · obtain ⟨t, ht, _⟩ := reward_gt_spec hr hlt
          rw [hnone] at ht; simp at ht
      · simp at h

theorem stepOnce_no_indexError {P : Problem} {s : State} (hlen : s.length = P.n) :
    stepOnce P s ≠ .error .indexError := by
  intro h
  have hin : ∀ inc ∈ P.increments, ∀ i ∈ inc, i < s.length := by
    intro inc hinc i hi
    rw [hlen]; exact (mem_cumulatedIterator hinc).2 i hi
  unfold stepOnce at h
  split at h
  · next e hopt =>
    simp only [Except.error.injEq] at h; subst h
    unfold getOptimalIncrement at hopt
    split at hopt
    · next e' hb =>
      simp only [Except.error.injEq] at hopt; subst hopt
      obtain ⟨i, hi, hr⟩ := bestLoop_error _ _ _ hb
      exact reward_no_indexError (hin i hi) hr
    · simp at hopt
  · next inc hopt =>
    split at h
    · simp at h
    · next hne =>
      split at h
      · next e he =>
        simp only [Except.error.injEq] at h; subst h
        rcases optimalIncrement_spec hopt with ⟨rfl, _⟩ | ⟨hm, _⟩
        · simp at hne
        · exact stepped_no_indexError (hin inc hm) he
      · simp at h
      · simp at h

/-! ### the `while True:` loop -/

/-- an invariant of accepted steps holds for the result, and the result is a state in which
    `get_optimal_increment` found nothing -/
theorem optimizeLoop_ok {P : Problem} (Inv : State → Prop)
    (hstep : ∀ s s', Inv s → stepOnce P s = .ok (some s') → Inv s') :
    ∀ (fuel : Nat) (s r : State), optimizeLoop P fuel s = .ok r → Inv s →
      Inv r ∧ stepOnce P r = .ok none := by
  intro fuel
  induction fuel with
  | zero =>
    intro s r h hs
    simp only [optimizeLoop] at h
    split at h
    · simp at h
    · next hn => simp only [Except.ok.injEq] at h; subst h; exact ⟨hs, hn⟩
    · simp at h
  | succ fuel ih =>
    intro s r h hs
    simp only [optimizeLoop] at h
    split at h
    · simp at h
    · next hn => simp only [Except.ok.injEq] at h; subst h; exact ⟨hs, hn⟩
    · next s' hs' => exact ih s' r h (hstep s s' hs hs')

/-- errors of the loop are errors of some iteration, or the guard -/
theorem optimizeLoop_error {P : Problem} (Inv : State → Prop)
    (hstep : ∀ s s', Inv s → stepOnce P s = .ok (some s') → Inv s') :
    ∀ (fuel : Nat) (s : State) (e : Err), optimizeLoop P fuel s = .error e → Inv s →
      e = .maximumOptimizationStepExceed ∨ ∃ t, Inv t ∧ stepOnce P t = .error e := by
  intro fuel
  induction fuel with
  | zero =>
    intro s e h hs
    simp only [optimizeLoop] at h
    split at h
    · next e' he => simp only [Except.error.injEq] at h; subst h; exact Or.inr ⟨s, hs, he⟩
    · simp at h
    · simp only [Except.error.injEq] at h; exact Or.inl h.symm
  | succ fuel ih =>
    intro s e h hs
    simp only [optimizeLoop] at h
    split at h
    · next e' he => simp only [Except.error.injEq] at h; subst h; exact Or.inr ⟨s, hs, he⟩
    · simp at h
    · next s' hs' => exact ih s' e h (hstep s s' hs hs')

/-! ### the iteration guard cannot fire when the slots fill up first -/

theorem sum_incr (s : State) (i : Nat) (h : i < s.length) : (incr s i).sum = s.sum + 1 := by
  induction s generalizing i with
  | nil => simp at h
  | cons x xs ih =>
    cases i with
    | zero => simp [incr]; omega
    | succ i =>
      have : i < xs.length := by simpa using h
      simp [incr, ih i this]; omega

theorem stepped_sum {m : Nat} {s s' : State} {inc : List Nat}
    (h : getSteppedTarget m s inc = .ok (some s')) : s'.sum = s.sum + inc.length := by
  induction inc generalizing s with
  | nil => simp [getSteppedTarget] at h; subst h; simp
  | cons i rest ih =>
    simp only [getSteppedTarget] at h
    split at h
    · next hi =>
      split at h
      · simp at h
      · rw [ih h, sum_incr s i hi]; simp; omega
    · simp at h

theorem sum_le_of_all_le (s : State) (m : Nat) (h : ∀ x ∈ s, x ≤ m) : s.sum ≤ s.length * m := by
  induction s with
  | nil => simp
  | cons x xs ih =>
    have hx : x ≤ m := h x (by simp)
    have := ih (fun y hy => h y (List.mem_cons_of_mem _ hy))
    simp only [List.sum_cons, List.length_cons]
    rw [Nat.add_mul]; omega

/-- if all slots can be filled within the remaining iterations, the guard does not fire -/
theorem optimizeLoop_guard {P : Problem} :
    ∀ (fuel : Nat) (s : State), (∀ x ∈ s, x ≤ P.maxStep) →
      s.length * P.maxStep ≤ fuel + s.sum →
      optimizeLoop P fuel s ≠ .error .maximumOptimizationStepExceed := by
  intro fuel
  induction fuel with
  | zero =>
    intro s hlim hsum h
    simp only [optimizeLoop] at h
    split at h
    · next e he =>
      simp only [Except.error.injEq] at h; subst h
      unfold stepOnce at he
      split at he
      · next e' hopt =>
        simp only [Except.error.injEq] at he; subst he
        unfold getOptimalIncrement at hopt
        split at hopt
        · next e'' hb =>
          simp only [Except.error.injEq] at hopt; subst hopt
          obtain ⟨i, _, hr⟩ := bestLoop_error _ _ _ hb
          rcases reward_error hr with h | h <;> simp at h
        · simp at hopt
      · split at he
        · simp at he
        · split at he
          · next e' hst => simp only [Except.error.injEq] at he; subst he; have := stepped_error hst; simp at this
          · simp at he
          · simp at he
    · simp at h
    · next s' hs' =>
      obtain ⟨inc, hinc, hst, _⟩ := stepOnce_some hs'
      have h1 := stepped_sum hst
      have h2 := sum_le_of_all_le s' P.maxStep (stepped_some_limits hst hlim)
      have h3 : inc.length ≠ 0 := fun h0 =>
        (mem_cumulatedIterator hinc).1 (List.length_eq_zero_iff.mp h0)
      rw [stepped_length hst] at h2
      omega
  | succ fuel ih =>
    intro s hlim hsum h
    simp only [optimizeLoop] at h
    split at h
    · next e he =>
      simp only [Except.error.injEq] at h; subst h
      unfold stepOnce at he
      split at he
      · next e' hopt =>
        simp only [Except.error.injEq] at he; subst he
        unfold getOptimalIncrement at hopt
        split at hopt
        · next e'' hb =>
          simp only [Except.error.injEq] at hopt; subst hopt
          obtain ⟨i, _, hr⟩ := bestLoop_error _ _ _ hb
          rcases reward_error hr with h | h <;> simp at h
        · simp at hopt
      · split at he
        · simp at he
        · split at he
          · next e' hst => simp only [Except.error.injEq] at he; subst he; have := stepped_error hst; simp at this
          · simp at he
          · simp at he
    · simp at h
    · next s' hs' =>
      obtain ⟨inc, hinc, hst, _⟩ := stepOnce_some hs'
      have h1 := stepped_sum hst
      have h3 : inc.length ≠ 0 := fun h0 =>
        (mem_cumulatedIterator hinc).1 (List.length_eq_zero_iff.mp h0)
      refine ih s' (stepped_some_limits hst hlim) ?_ h
      rw [stepped_length hst]
      omega

/-! ### weapon potentials -/

/-- `stats` takes one entry from each list, in order -/
def Picks {α : Type} : List α → List (List α) → Prop
  | [], [] => True
  | x :: xs, l :: ls => x ∈ l ∧ Picks xs ls
  | _, _ => False

theorem mem_product {α : Type} : ∀ (ls : List (List α)) (c : List α), c ∈ product ls ↔ Picks c ls := by
  intro ls
  induction ls with
  | nil => intro c; cases c <;> simp [product, Picks]
  | cons l ls ih =>
    intro c
    cases c with
    | nil => simp [product, Picks]
    | cons x xs =>
      simp only [product, List.mem_flatMap, List.mem_map, Picks]
      constructor
      · rintro ⟨y, hy, c', hc', heq⟩
        simp only [List.cons.injEq] at heq
        obtain ⟨rfl, rfl⟩ := heq
        exact ⟨hy, (ih _).mp hc'⟩
      · rintro ⟨hx, hxs⟩
        exact ⟨x, hx, xs, (ih _).mpr hxs, rfl⟩

/-- picking from the useful candidates = picking useful entries from the tier lists -/
theorem picks_useful {α : Type} (W : WeaponProblem α) :
    ∀ (tiers : List (List α)) (c : List α),
      Picks c (tiers.map W.usefulCandidates) ↔ Picks c tiers ∧ ∀ x ∈ c, W.useful x = true := by
  intro tiers
  induction tiers with
  | nil => intro c; cases c <;> simp [Picks]
  | cons l ls ih =>
    intro c
    cases c with
    | nil => simp [Picks]
    | cons x xs =>
      simp only [List.map_cons, Picks, WeaponProblem.usefulCandidates, List.mem_filter, ih,
        List.mem_cons, forall_eq_or_imp]
      tauto

/-- a combination the brute force considers: one *useful* line from each tier list, at most two
    boss lines, at most two ignore-defence lines, and no boss line on the emblem -/
def LegalPruned {α : Type} (W : WeaponProblem α) (emblem : Bool) (c : List α) : Prop :=
  Picks c W.tiers ∧ (∀ x ∈ c, W.useful x = true) ∧ W.legal emblem c = true

/-- the same without the pruning -/
def Legal {α : Type} (W : WeaponProblem α) (emblem : Bool) (c : List α) : Prop :=
  Picks c W.tiers ∧ W.legal emblem c = true

theorem mem_potentialCandidates {α : Type} (W : WeaponProblem α) (emblem : Bool) (c : List α) :
    c ∈ W.potentialCandidates emblem ↔ LegalPruned W emblem c := by
  simp only [WeaponProblem.potentialCandidates, List.mem_filter, mem_product, picks_useful,
    LegalPruned, and_assoc]

/-- what the legality test says -/
theorem legal_iff {α : Type} (W : WeaponProblem α) (emblem : Bool) (c : List α) :
    W.legal emblem c = true ↔
      c.countP W.isBoss ≤ 2 ∧ c.countP W.isIed ≤ 2 ∧ (emblem = true → c.countP W.isBoss = 0) := by
  unfold WeaponProblem.legal
  cases emblem
  · simp
  · simp only [Bool.true_and, decide_eq_true_eq]; simp; tauto

theorem argmaxLoop_spec {β : Type} (f : β → Rat) :
    ∀ (xs : List β) (best : Option β) (m : Rat) (b : Option β) (r : Rat),
      argmaxLoop f xs best m = (b, r) →
      m ≤ r ∧ (∀ x ∈ xs, f x ≤ r) ∧
      ((b = best ∧ r = m) ∨ (∃ x ∈ xs, b = some x ∧ f x = r ∧ m < r)) := by
  intro xs
  induction xs with
  | nil =>
    intro best m b r h
    simp only [argmaxLoop, Prod.mk.injEq] at h
    obtain ⟨rfl, rfl⟩ := h
    exact ⟨le_refl _, by simp, Or.inl ⟨rfl, rfl⟩⟩
  | cons x xs ih =>
    intro best m b r h
    simp only [argmaxLoop] at h
    split at h
    · next hgt =>
      obtain ⟨h1, h2, h3⟩ := ih _ _ _ _ h
      refine ⟨le_trans (le_of_lt hgt) h1, ?_, ?_⟩
      · intro y hy
        rcases List.mem_cons.mp hy with rfl | hy
        · exact h1
        · exact h2 y hy
      · right
        rcases h3 with ⟨rfl, rfl⟩ | ⟨y, hy, hb, hf, hlt⟩
        · exact ⟨x, by simp, rfl, rfl, hgt⟩
        · exact ⟨y, List.mem_cons_of_mem _ hy, hb, hf, lt_trans hgt hlt⟩
    · next hng =>
      obtain ⟨h1, h2, h3⟩ := ih _ _ _ _ h
      refine ⟨h1, ?_, ?_⟩
      · intro y hy
        rcases List.mem_cons.mp hy with rfl | hy
        · exact le_trans (not_lt.mp hng) h1
        · exact h2 y hy
      · rcases h3 with h3 | ⟨y, hy, hb, hf, hlt⟩
        · exact Or.inl h3
        · exact Or.inr ⟨y, List.mem_cons_of_mem _ hy, hb, hf, hlt⟩

theorem mem_triples {α : Type} (W : WeaponProblem α) (t : List α × List α × List α) :
    t ∈ W.triples ↔ LegalPruned W false t.1 ∧ LegalPruned W false t.2.1 ∧ LegalPruned W true t.2.2 := by
  obtain ⟨w, s, e⟩ := t
  simp only [WeaponProblem.triples, List.mem_flatMap, List.mem_map, mem_potentialCandidates,
    Prod.mk.injEq]
  constructor
  · rintro ⟨w', hw, s', hs, e', he, rfl, rfl, rfl⟩
    exact ⟨hw, hs, he⟩
  · rintro ⟨hw, hs, he⟩
    exact ⟨w, hw, s, hs, e, he, rfl, rfl, rfl⟩

/-! ### pruning: replacing useless lines by a plain useful line of the same tier -/

/-- `x'` repairs `x` within the tier list `l`: `x` itself when it is useful, otherwise a useful line
    of `l` that is neither a boss nor an ignore-defence line -/
def Repairs {α : Type} (W : WeaponProblem α) (l : List α) (x x' : α) : Prop :=
  (W.useful x = true ∧ x' = x) ∨
  (W.useful x = false ∧ x' ∈ l ∧ W.useful x' = true ∧ W.isBoss x' = false ∧ W.isIed x' = false)

/-- line by line -/
def RepairsAll {α : Type} (W : WeaponProblem α) : List α → List α → List (List α) → Prop
  | [], [], [] => True
  | x :: xs, x' :: xs', l :: ls => Repairs W l x x' ∧ RepairsAll W xs xs' ls
  | _, _, _ => False

theorem exists_repair {α : Type} (W : WeaponProblem α) :
    ∀ (tiers : List (List α)) (c : List α), Picks c tiers →
      (∀ l ∈ tiers, ∃ p ∈ l, W.useful p = true ∧ W.isBoss p = false ∧ W.isIed p = false) →
      ∃ c', RepairsAll W c c' tiers := by
  intro tiers
  induction tiers with
  | nil => intro c hc _; cases c with
    | nil => exact ⟨[], trivial⟩
    | cons x xs => simp [Picks] at hc
  | cons l ls ih =>
    intro c hc hplain
    cases c with
    | nil => simp [Picks] at hc
    | cons x xs =>
      obtain ⟨_, hxs⟩ := hc
      obtain ⟨xs', hxs'⟩ := ih xs hxs (fun l' hl' => hplain l' (List.mem_cons_of_mem _ hl'))
      by_cases hu : W.useful x = true
      · exact ⟨x :: xs', Or.inl ⟨hu, rfl⟩, hxs'⟩
      · obtain ⟨p, hp, hpu, hpb, hpi⟩ := hplain l (by simp)
        exact ⟨p :: xs', Or.inr ⟨by simpa using hu, hp, hpu, hpb, hpi⟩, hxs'⟩

theorem repair_props {α : Type} (W : WeaponProblem α) :
    ∀ (tiers : List (List α)) (c c' : List α), RepairsAll W c c' tiers → Picks c tiers →
      Picks c' tiers ∧ (∀ x ∈ c', W.useful x = true) ∧
      c'.countP W.isBoss ≤ c.countP W.isBoss ∧ c'.countP W.isIed ≤ c.countP W.isIed := by
  intro tiers
  induction tiers with
  | nil =>
    intro c c' h _
    cases c <;> cases c' <;> simp_all [RepairsAll, Picks]
  | cons l ls ih =>
    intro c c' h hc
    cases c with
    | nil => cases c' <;> simp [RepairsAll] at h
    | cons x xs =>
      cases c' with
      | nil => simp [RepairsAll] at h
      | cons x' xs' =>
        obtain ⟨hr, hrest⟩ := h
        obtain ⟨hx, hxs⟩ := hc
        obtain ⟨h1, h2, h3, h4⟩ := ih xs xs' hrest hxs
        rcases hr with ⟨hu, rfl⟩ | ⟨_, hm, hu, hb, hi⟩
        · refine ⟨⟨hx, h1⟩, ?_, ?_, ?_⟩
          · intro y hy
            rcases List.mem_cons.mp hy with rfl | hy
            · exact hu
            · exact h2 y hy
          · simp only [List.countP_cons]; omega
          · simp only [List.countP_cons]; omega
        · refine ⟨⟨hm, h1⟩, ?_, ?_, ?_⟩
          · intro y hy
            rcases List.mem_cons.mp hy with rfl | hy
            · exact hu
            · exact h2 y hy
          · simp only [List.countP_cons, hb]; simp; omega
          · simp only [List.countP_cons, hi]; simp; omega

/-- a legal combination is repaired into a legal combination of useful lines -/
theorem legal_repair {α : Type} (W : WeaponProblem α) (emblem : Bool) (c c' : List α)
    (h : RepairsAll W c c' W.tiers) (hc : Legal W emblem c) : LegalPruned W emblem c' := by
  obtain ⟨h1, h2, h3, h4⟩ := repair_props W W.tiers c c' h hc.1
  refine ⟨h1, h2, ?_⟩
  have := (legal_iff W emblem c).mp hc.2
  rw [legal_iff]
  refine ⟨by omega, by omega, fun he => ?_⟩
  have := this.2.2 he
  omega

/-! ### hypothesis predicates of the property theorems -/

/-- the hypothesis of `never_worse`: along every increment the optimizer may try (within the limits,
    affordable) the value does not decrease -/
def StepMonotone (P : Problem) : Prop :=
  ∀ (s s' : State) (inc : List Nat), inc ∈ P.increments →
    getSteppedTarget P.maxStep s inc = .ok (some s') → P.cost s' ≤ P.budget → P.value s ≤ P.value s'

/-- pruning loses nothing: every legal triple is matched by a legal triple of useful lines -/
def Dominated {α : Type} (W : WeaponProblem α) : Prop :=
  ∀ w s e, Legal W false w → Legal W false s → Legal W true e →
    ∃ w' s' e', LegalPruned W false w' ∧ LegalPruned W false s' ∧ LegalPruned W true e' ∧
      W.reward w s e ≤ W.reward w' s' e'

end Simaple.Proofs.Optimizer
