/-
Soundness of the effect checker of Model/Effect.lean:
a program accepted by `check` never writes an object that existed when it started.
-/
import Simaple.Model.Effect

namespace Simaple.Effect

/-! ### tags and abstract environments -/

def TagLe (a b : Tag) : Prop := a = b ∨ b = .shared ∨ a = .prim

def EnvLe (e₁ e₂ : AEnv) : Prop := ∀ x, TagLe (tagOf e₁ x) (tagOf e₂ x)

theorem TagLe.refl (a : Tag) : TagLe a a := Or.inl rfl

theorem EnvLe.refl (e : AEnv) : EnvLe e e := fun _ => TagLe.refl _

theorem TagLe.trans {a b c : Tag} (h₁ : TagLe a b) (h₂ : TagLe b c) : TagLe a c := by
  unfold TagLe at *
  cases a <;> cases b <;> cases c <;> simp_all

theorem EnvLe.trans {a b c : AEnv} (h₁ : EnvLe a b) (h₂ : EnvLe b c) : EnvLe a c :=
  fun x => (h₁ x).trans (h₂ x)

theorem join_left (a b : Tag) : TagLe a (a.join b) := by
  cases a <;> cases b <;> simp [Tag.join, TagLe]

theorem join_right (a b : Tag) : TagLe b (a.join b) := by
  cases a <;> cases b <;> simp [Tag.join, TagLe]

theorem joinEnv_left (a b : AEnv) : EnvLe a (joinEnv a b) := by
  induction a generalizing b with
  | leaf => intro x; cases b <;> simp [joinEnv, tagOf, TagLe]
  | node t l r ihl ihr =>
    cases b with
    | leaf => intro x; simp [joinEnv, tagOf, TagLe]
    | node t' l' r' =>
      intro x
      simp only [joinEnv, tagOf]
      split
      · exact join_left _ _
      · split
        · exact ihl l' _
        · exact ihr r' _

theorem joinEnv_right (a b : AEnv) : EnvLe b (joinEnv a b) := by
  induction a generalizing b with
  | leaf => intro x; cases b <;> simp [joinEnv, tagOf, TagLe]
  | node t l r ihl ihr =>
    cases b with
    | leaf => intro x; simp [joinEnv, tagOf, TagLe]
    | node t' l' r' =>
      intro x
      simp only [joinEnv, tagOf]
      split
      · exact join_right _ _
      · split
        · exact ihl l' _
        · exact ihr r' _

theorem tagOf_setTag_ne (e : AEnv) (x y : Nat) (t : Tag) (hne : y ≠ x) :
    tagOf (setTag e x t) y = tagOf e y := by
  induction e generalizing x y with
  | leaf => rfl
  | node t₀ l r ihl ihr =>
    unfold setTag
    by_cases hx0 : x = 0
    · simp only [hx0, if_true]
      have hy0 : y ≠ 0 := by omega
      simp only [tagOf, hy0, if_false]
    · simp only [hx0, if_false]
      by_cases hxo : x % 2 = 1
      · simp only [hxo, if_true]
        by_cases hy0 : y = 0
        · simp only [tagOf, hy0, if_true]
        · simp only [tagOf, hy0, if_false]
          by_cases hyo : y % 2 = 1
          · simp only [hyo, if_true]
            exact ihl (x / 2) (y / 2) (by omega)
          · simp only [hyo, if_false]
      · simp only [hxo, if_false]
        by_cases hy0 : y = 0
        · simp only [tagOf, hy0, if_true]
        · simp only [tagOf, hy0, if_false]
          by_cases hyo : y % 2 = 1
          · simp only [hyo, if_true]
          · simp only [hyo, if_false]
            exact ihr (x / 2 - 1) (y / 2 - 1) (by omega)

theorem tagOf_setTag_self (e : AEnv) (x : Nat) (t : Tag) :
    tagOf (setTag e x t) x = t ∨ tagOf (setTag e x t) x = .shared := by
  induction e generalizing x with
  | leaf => exact Or.inr rfl
  | node t₀ l r ihl ihr =>
    unfold setTag
    by_cases hx0 : x = 0
    · simp [hx0, tagOf]
    · simp only [hx0, if_false]
      by_cases hxo : x % 2 = 1
      · simp only [hxo, if_true, tagOf, hx0, if_false]
        exact ihl (x / 2)
      · simp only [hxo, if_false, tagOf, hx0]
        exact ihr (x / 2 - 1)

theorem tagOf_setTag (e : AEnv) (x y : Var) (t τ : Tag) (h : tagOf (setTag e x t) y = τ) (hτ : τ ≠ .shared) :
    (y = x ∧ t = τ) ∨ (y ≠ x ∧ tagOf e y = τ) := by
  by_cases hxy : y = x
  · subst hxy
    rcases tagOf_setTag_self e y t with h' | h'
    · exact Or.inl ⟨rfl, h'.symm.trans h⟩
    · rw [h'] at h; exact absurd h.symm hτ
  · exact Or.inr ⟨hxy, (tagOf_setTag_ne e x y t hxy).symm.trans h⟩

theorem tagOf_full (d : Nat) (x : Var) : tagOf (AEnv.full d) x = .shared := by
  induction d generalizing x with
  | zero => rfl
  | succ d ih =>
    simp only [AEnv.full, tagOf]
    split
    · rfl
    · split <;> exact ih _

theorem tagOf_init (n : Nat) (x : Var) : tagOf (AEnv.init n) x = .shared := tagOf_full _ x

/-! ### the invariant -/

structure Inv (T : List Field) (h0 : Heap) (e : AEnv) (D S : Addr → Prop) (σ : State) : Prop where
  dNew : ∀ a, D a → h0 a = none
  sNew : ∀ a, S a → h0 a = none
  disj : ∀ a, D a → ¬ S a
  alloc : ∀ a, D a ∨ S a → σ.heap a ≠ none
  old : ∀ a o, h0 a = some o → σ.heap a = some o
  log : ∀ a ∈ σ.log, h0 a = none
  closed : ∀ a o f b, D a → σ.heap a = some o → tainted T f = false → o f = .ref b → D b
  fresh : ∀ x a, tagOf e x = .fresh → σ.env x = .ref a → D a
  shallow : ∀ x a, tagOf e x = .shallow → σ.env x = .ref a → S a
  prim : ∀ x a, tagOf e x = .prim → σ.env x ≠ .ref a

theorem Inv.weaken {T h0 e₁ e₂ D S σ} (h : Inv T h0 e₁ D S σ) (hle : EnvLe e₁ e₂) : Inv T h0 e₂ D S σ := by
  refine { h with fresh := ?_, shallow := ?_, prim := ?_ }
  · intro x a ht hx
    rcases hle x with h' | h' | h'
    · exact h.fresh x a (h'.trans ht) hx
    · rw [ht] at h'; cases h'
    · exact absurd hx (h.prim x a h')
  · intro x a ht hx
    rcases hle x with h' | h' | h'
    · exact h.shallow x a (h'.trans ht) hx
    · rw [ht] at h'; cases h'
    · exact absurd hx (h.prim x a h')
  · intro x a ht
    rcases hle x with h' | h' | h'
    · exact h.prim x a (h'.trans ht)
    · rw [ht] at h'; cases h'
    · exact h.prim x a h'

/-- assigning a value that satisfies the obligations of its tag -/
theorem Inv.assign {T h0 e D S σ} (h : Inv T h0 e D S σ) (dst : Var) (t : Tag) (v : Val)
    (hf : t = .fresh → ∀ a, v = .ref a → D a) (hs : t = .shallow → ∀ a, v = .ref a → S a)
    (hp : t = .prim → ∀ a, v ≠ .ref a) :
    Inv T h0 (setTag e dst t) D S { σ with env := upd σ.env dst v } := by
  refine { h with fresh := ?_, shallow := ?_, prim := ?_ }
  · intro x a ht hx
    rcases tagOf_setTag e dst x t .fresh ht (by simp) with ⟨rfl, rfl⟩ | ⟨hne, ht'⟩
    · simp [upd] at hx; exact hf rfl a hx
    · simp [upd, hne] at hx; exact h.fresh x a ht' hx
  · intro x a ht hx
    rcases tagOf_setTag e dst x t .shallow ht (by simp) with ⟨rfl, rfl⟩ | ⟨hne, ht'⟩
    · simp [upd] at hx; exact hs rfl a hx
    · simp [upd, hne] at hx; exact h.shallow x a ht' hx
  · intro x a ht
    rcases tagOf_setTag e dst x t .prim ht (by simp) with ⟨rfl, rfl⟩ | ⟨hne, ht'⟩
    · simp [upd]; exact hp rfl a
    · simp [upd, hne]; exact h.prim x a ht'

/-! ### loops -/

theorem iter_spec (f : AEnv → Option AEnv) : ∀ (n : Nat) (e E : AEnv), iter f n e = some E →
    EnvLe e E ∧ ∃ E', f E = some E' ∧ joinEnv E E' = E := by
  intro n
  induction n with
  | zero => intro e E h; simp [iter] at h
  | succ n ih =>
    intro e E h
    unfold iter at h
    cases hf : f e with
    | none => simp [hf] at h
    | some e' =>
      simp only [hf] at h
      by_cases hj : joinEnv e e' = e
      · simp [hj] at h
        subst h
        exact ⟨EnvLe.refl _, e', hf, hj⟩
      · simp [hj] at h
        obtain ⟨hle, hE⟩ := ih _ _ h
        exact ⟨EnvLe.trans (joinEnv_left e e') hle, hE⟩

theorem iter_stable (f : AEnv → Option AEnv) (n : Nat) (E E' : AEnv) (hf : f E = some E')
    (hj : joinEnv E E' = E) : iter f (n + 1) E = some E := by
  simp [iter, hf, hj]

/-! ### soundness -/

theorem sound (T : List Field) (h0 : Heap) (body : Stmt) (nb : Nat)
    (hbody : (check T body (AEnv.init nb)).isSome = true) :
    ∀ (s : Stmt) (σ σ' : State), Exec body s σ σ' →
    ∀ (e e' : AEnv) (D S : Addr → Prop), check T s e = some e' → Inv T h0 e D S σ →
      ∃ D' S', (∀ a, D a → D' a) ∧ (∀ a, S a → S' a) ∧ Inv T h0 e' D' S' σ' := by
  intro s σ σ' hex
  induction hex with
  | skip σ =>
    intro e e' D S hc hi
    simp [check] at hc; subst hc; exact ⟨D, S, fun _ h => h, fun _ h => h, hi⟩
  | copy dst src σ h' v hcp =>
    intro e e' D S hc hi
    simp [check] at hc; subst hc
    let N : Addr → Prop := fun a => σ.heap a = none ∧ h' a ≠ none
    refine ⟨fun a => D a ∨ N a, S, fun _ h => Or.inl h, fun _ h => h, ?_⟩
    have hbase : Inv T h0 e (fun a => D a ∨ N a) S { σ with heap := h' } := by
      constructor
      · rintro a (ha | ⟨ha, _⟩)
        · exact hi.dNew a ha
        · cases h : h0 a with
          | none => rfl
          | some o => rw [hi.old a o h] at ha; cases ha
      · exact hi.sNew
      · rintro a (ha | ⟨ha, _⟩) hs
        · exact hi.disj a ha hs
        · exact hi.alloc a (Or.inr hs) ha
      · rintro a (((ha | ⟨_, ha⟩)) | ha)
        · show h' a ≠ none
          rw [hcp.old a (hi.alloc a (Or.inl ha))]; exact hi.alloc a (Or.inl ha)
        · exact ha
        · show h' a ≠ none
          rw [hcp.old a (hi.alloc a (Or.inr ha))]; exact hi.alloc a (Or.inr ha)
      · intro a o h
        show h' a = some o
        rw [hcp.old a (by rw [hi.old a o h]; simp)]; exact hi.old a o h
      · exact hi.log
      · rintro a o f b (ha | ⟨ha, _⟩) ho hT hf
        · have hal := hi.alloc a (Or.inl ha)
          have : σ.heap a = some o := by rw [← hcp.old a hal]; exact ho
          exact Or.inl (hi.closed a o f b ha this hT hf)
        · exact Or.inr (hcp.closed a o f b ha ho hf)
      · intro x a ht hx; exact Or.inl (hi.fresh x a ht hx)
      · exact hi.shallow
      · exact hi.prim
    have := hbase.assign dst .fresh v (by
        intro _ a hv
        rcases hcp.res with h | ⟨b, hb, hn, ha⟩
        · rw [h] at hv; cases hv
        · rw [hb] at hv; cases hv; exact Or.inr ⟨hn, ha⟩) (by intro h; cases h) (by intro h; cases h)
    exact this
  | new dst σ a ha =>
    intro e e' D S hc hi
    simp [check] at hc; subst hc
    have hh0 : h0 a = none := by
      cases h : h0 a with
      | none => rfl
      | some o => rw [hi.old a o h] at ha; cases ha
    refine ⟨fun b => D b ∨ b = a, S, fun _ h => Or.inl h, fun _ h => h, ?_⟩
    have hbase : Inv T h0 e (fun b => D b ∨ b = a) S
        { σ with heap := updH σ.heap a (some (fun _ => .prim)) } := by
      constructor
      · rintro b (hb | rfl)
        · exact hi.dNew b hb
        · exact hh0
      · exact hi.sNew
      · rintro b (hb | rfl) hs
        · exact hi.disj b hb hs
        · exact hi.alloc b (Or.inr hs) ha
      · rintro b hb
        show updH σ.heap a _ b ≠ none
        unfold updH
        by_cases hba : b = a
        · simp [hba]
        · simp only [hba, if_false]
          rcases hb with (hb | hb) | hb
          · exact hi.alloc b (Or.inl hb)
          · exact absurd hb hba
          · exact hi.alloc b (Or.inr hb)
      · intro b o h
        show updH σ.heap a _ b = some o
        unfold updH
        by_cases hba : b = a
        · subst hba; rw [hh0] at h; cases h
        · simp only [hba, if_false]; exact hi.old b o h
      · exact hi.log
      · rintro b o f c hb ho hT hf
        change updH σ.heap a _ b = some o at ho
        unfold updH at ho
        by_cases hba : b = a
        · simp [hba] at ho; subst ho; cases hf
        · simp only [hba, if_false] at ho
          rcases hb with hb | hb
          · exact Or.inl (hi.closed b o f c hb ho hT hf)
          · exact absurd hb hba
      · intro x b ht hx; exact Or.inl (hi.fresh x b ht hx)
      · exact hi.shallow
      · exact hi.prim
    exact hbase.assign dst .fresh (.ref a) (by intro _ b hv; cases hv; exact Or.inr rfl) (by intro h; cases h)
      (by intro h; cases h)
  | newShallow dst σ a ha =>
    intro e e' D S hc hi
    simp [check] at hc; subst hc
    have hh0 : h0 a = none := by
      cases h : h0 a with
      | none => rfl
      | some o => rw [hi.old a o h] at ha; cases ha
    refine ⟨D, fun b => S b ∨ b = a, fun _ h => h, fun _ h => Or.inl h, ?_⟩
    have hbase : Inv T h0 e D (fun b => S b ∨ b = a)
        { σ with heap := updH σ.heap a (some (fun _ => .prim)) } := by
      constructor
      · exact hi.dNew
      · rintro b (hb | rfl)
        · exact hi.sNew b hb
        · exact hh0
      · rintro b hd (hs | rfl)
        · exact hi.disj b hd hs
        · exact hi.alloc b (Or.inl hd) ha
      · rintro b hb
        show updH σ.heap a _ b ≠ none
        unfold updH
        by_cases hba : b = a
        · simp [hba]
        · simp only [hba, if_false]
          rcases hb with hb | hb | hb
          · exact hi.alloc b (Or.inl hb)
          · exact hi.alloc b (Or.inr hb)
          · exact absurd hb hba
      · intro b o h
        show updH σ.heap a _ b = some o
        unfold updH
        by_cases hba : b = a
        · subst hba; rw [hh0] at h; cases h
        · simp only [hba, if_false]; exact hi.old b o h
      · exact hi.log
      · rintro b o f c hb ho hT hf
        change updH σ.heap a _ b = some o at ho
        unfold updH at ho
        by_cases hba : b = a
        · subst hba; exact absurd ha (hi.alloc b (Or.inl hb))
        · simp only [hba, if_false] at ho
          exact hi.closed b o f c hb ho hT hf
      · exact hi.fresh
      · intro x b ht hx; exact Or.inl (hi.shallow x b ht hx)
      · exact hi.prim
    exact hbase.assign dst .shallow (.ref a) (by intro h; cases h) (by intro _ b hv; cases hv; exact Or.inr rfl)
      (by intro h; cases h)
  | load dst src f σ =>
    intro e e' D S hc hi
    simp only [check, Option.some.injEq] at hc; subst hc
    refine ⟨D, S, fun _ h => h, fun _ h => h, hi.assign dst _ _ ?_ ?_ ?_⟩
    · intro ht a hv
      cases hT : tainted T f with
      | true => simp [hT] at ht
      | false =>
        cases hsrc : tagOf e src with
        | prim =>
          unfold loadVal at hv
          cases hs : σ.env src with
          | prim => simp [hs] at hv
          | ref b => exact absurd hs (hi.prim src b hsrc)
        | fresh =>
          unfold loadVal at hv
          cases hs : σ.env src with
          | prim => simp [hs] at hv
          | ref b =>
            simp only [hs] at hv
            cases hb : σ.heap b with
            | none => simp [hb] at hv
            | some o =>
              simp only [hb] at hv
              exact hi.closed b o f a (hi.fresh src b hsrc hs) hb hT hv
        | shallow => simp [hsrc, Tag.deep] at ht
        | shared => simp [hsrc, Tag.deep] at ht
    · intro ht
      cases hsrc : tagOf e src <;> cases hT : tainted T f <;> simp [hsrc, hT, Tag.deep] at ht
    · intro ht
      cases hsrc : tagOf e src <;> cases hT : tainted T f <;> simp [hsrc, hT, Tag.deep] at ht
  | store obj f src σ =>
    intro e e' D S hc hi
    refine ⟨D, S, fun _ h => h, fun _ h => h, ?_⟩
    have he : e = e' := by
      simp only [check] at hc
      cases ht : tagOf e obj <;> simp [ht] at hc
      · exact hc
      · exact hc.2
      · exact hc
    subst he
    unfold storeVal
    cases ho : σ.env obj with
    | prim => exact hi
    | ref a =>
      simp only
      cases ha : σ.heap a with
      | none => exact hi
      | some o =>
        simp only
        simp only [check] at hc
        cases ht : tagOf e obj with
        | shared => simp [ht] at hc
        | prim => exact absurd ho (hi.prim obj a ht)
        | fresh =>
          simp [ht] at hc
          have hsrc : tainted T f = false → ∀ c, σ.env src = .ref c → D c := by
            intro hT c hv
            cases hs : tagOf e src with
            | prim => exact absurd hv (hi.prim src c hs)
            | fresh => exact hi.fresh src c hs hv
            | shallow => simp [hs, Tag.deep, hT] at hc
            | shared => simp [hs, Tag.deep, hT] at hc
          have hDa : D a := hi.fresh obj a ht ho
          constructor
          · exact hi.dNew
          · exact hi.sNew
          · exact hi.disj
          · intro b hb
            show updH σ.heap a _ b ≠ none
            unfold updH
            by_cases hba : b = a
            · simp [hba]
            · simp only [hba, if_false]; exact hi.alloc b hb
          · intro b o' h
            show updH σ.heap a _ b = some o'
            unfold updH
            by_cases hba : b = a
            · subst hba; rw [hi.dNew b hDa] at h; cases h
            · simp only [hba, if_false]; exact hi.old b o' h
          · intro b hb
            simp only [List.mem_cons] at hb
            rcases hb with rfl | hb
            · exact hi.dNew _ hDa
            · exact hi.log b hb
          · intro b o' g c hb hob hT hg
            change updH σ.heap a _ b = some o' at hob
            unfold updH at hob
            by_cases hba : b = a
            · simp only [hba, if_true, Option.some.injEq] at hob
              subst hob
              unfold updO at hg
              by_cases hgf : g = f
              · simp only [hgf, if_true] at hg
                exact hsrc (hgf ▸ hT) c hg
              · simp only [hgf, if_false] at hg
                exact hi.closed a o g c hDa ha hT hg
            · simp only [hba, if_false] at hob
              exact hi.closed b o' g c hb hob hT hg
          · exact hi.fresh
          · exact hi.shallow
          · exact hi.prim
        | shallow =>
          have hSa : S a := hi.shallow obj a ht ho
          constructor
          · exact hi.dNew
          · exact hi.sNew
          · exact hi.disj
          · intro b hb
            show updH σ.heap a _ b ≠ none
            unfold updH
            by_cases hba : b = a
            · simp [hba]
            · simp only [hba, if_false]; exact hi.alloc b hb
          · intro b o' h
            show updH σ.heap a _ b = some o'
            unfold updH
            by_cases hba : b = a
            · subst hba; rw [hi.sNew b hSa] at h; cases h
            · simp only [hba, if_false]; exact hi.old b o' h
          · intro b hb
            simp only [List.mem_cons] at hb
            rcases hb with rfl | hb
            · exact hi.sNew _ hSa
            · exact hi.log b hb
          · intro b o' g c hb hob hT hg
            change updH σ.heap a _ b = some o' at hob
            unfold updH at hob
            by_cases hba : b = a
            · subst hba; exact absurd hSa (hi.disj b hb)
            · simp only [hba, if_false] at hob
              exact hi.closed b o' g c hb hob hT hg
          · exact hi.fresh
          · exact hi.shallow
          · exact hi.prim
  | mov dst src σ =>
    intro e e' D S hc hi
    simp only [check, Option.some.injEq] at hc; subst hc
    exact ⟨D, S, fun _ h => h, fun _ h => h, hi.assign dst _ _ (fun ht a hv => hi.fresh src a ht hv) (fun ht a hv => hi.shallow src a ht hv)
      (fun ht a => hi.prim src a ht)⟩
  | havoc dst σ =>
    intro e e' D S hc hi
    simp only [check, Option.some.injEq] at hc; subst hc
    exact ⟨D, S, fun _ h => h, fun _ h => h,
      hi.assign dst _ _ (fun ht => by cases ht) (fun ht => by cases ht) (fun _ a hv => by cases hv)⟩
  | ext dst σ v =>
    intro e e' D S hc hi
    simp only [check, Option.some.injEq] at hc; subst hc
    exact ⟨D, S, fun _ h => h, fun _ h => h,
      hi.assign dst _ _ (fun ht => by cases ht) (fun ht => by cases ht) (fun ht => by cases ht)⟩
  | call dst σ env' σ₁ v _ ih =>
    intro e e' D S hc hi
    simp only [check, Option.some.injEq] at hc; subst hc
    cases hb : check T body (AEnv.init nb) with
    | none => simp [hb] at hbody
    | some eb =>
      have hin : Inv T h0 (AEnv.init nb) D S { σ with env := env' } := by
        refine { hi with fresh := ?_, shallow := ?_, prim := ?_ } <;>
        · intro x a ht
          rw [tagOf_init] at ht
          cases ht
      obtain ⟨D₁, S₁, hD₁, hS₁, hi₁⟩ := ih _ eb D S hb hin
      have hback : Inv T h0 e D₁ S₁ { env := σ.env, heap := σ₁.heap, log := σ₁.log } := by
        refine { hi₁ with fresh := ?_, shallow := ?_, prim := ?_ }
        · intro x a ht hx; exact hD₁ a (hi.fresh x a ht hx)
        · intro x a ht hx; exact hS₁ a (hi.shallow x a ht hx)
        · intro x a ht; exact hi.prim x a ht
      exact ⟨D₁, S₁, hD₁, hS₁,
        hback.assign dst .shared v (fun ht => by cases ht) (fun ht => by cases ht) (fun ht => by cases ht)⟩
  | seq a b σ σ₁ σ₂ _ _ ih₁ ih₂ =>
    intro e e' D S hc hi
    simp only [check] at hc
    cases ha : check T a e with
    | none => simp [ha] at hc
    | some e₁ =>
      simp only [ha, Option.bind_some] at hc
      obtain ⟨D₁, S₁, hD₁, hS₁, hi₁⟩ := ih₁ e e₁ D S ha hi
      obtain ⟨D₂, S₂, hD₂, hS₂, hi₂⟩ := ih₂ e₁ e' D₁ S₁ hc hi₁
      exact ⟨D₂, S₂, fun a h => hD₂ a (hD₁ a h), fun a h => hS₂ a (hS₁ a h), hi₂⟩
  | choiceL a b σ σ' _ ih =>
    intro e e' D S hc hi
    simp only [check] at hc
    cases ha : check T a e with
    | none => simp [ha] at hc
    | some ea =>
      cases hb : check T b e with
      | none => simp [ha, hb] at hc
      | some eb =>
        simp only [ha, hb, Option.some.injEq] at hc; subst hc
        obtain ⟨D', S', hD', hS', hi'⟩ := ih e ea D S ha hi
        exact ⟨D', S', hD', hS', hi'.weaken (joinEnv_left ea eb)⟩
  | choiceR a b σ σ' _ ih =>
    intro e e' D S hc hi
    simp only [check] at hc
    cases ha : check T a e with
    | none => simp [ha] at hc
    | some ea =>
      cases hb : check T b e with
      | none => simp [ha, hb] at hc
      | some eb =>
        simp only [ha, hb, Option.some.injEq] at hc; subst hc
        obtain ⟨D', S', hD', hS', hi'⟩ := ih e eb D S hb hi
        exact ⟨D', S', hD', hS', hi'.weaken (joinEnv_right ea eb)⟩
  | loopNil a σ =>
    intro e e' D S hc hi
    simp only [check] at hc
    exact ⟨D, S, fun _ h => h, fun _ h => h, hi.weaken (iter_spec _ _ _ _ hc).1⟩
  | loopCons a σ σ₁ σ₂ _ _ ih₁ ih₂ =>
    intro e e' D S hc hi
    simp only [check] at hc
    obtain ⟨hle, E', hf, hj⟩ := iter_spec _ _ _ _ hc
    obtain ⟨D₁, S₁, hD₁, hS₁, hi₁⟩ := ih₁ e' E' D S hf (hi.weaken hle)
    have hle' : EnvLe E' e' := by
      have := joinEnv_right e' E'
      rw [hj] at this; exact this
    have hst : check T (.loop a) e' = some e' := by
      simp only [check]
      exact iter_stable _ _ _ _ hf hj
    obtain ⟨D₂, S₂, hD₂, hS₂, hi₂⟩ := ih₂ e' e' D₁ S₁ hst (hi₁.weaken hle')
    exact ⟨D₂, S₂, fun a h => hD₂ a (hD₁ a h), fun a h => hS₂ a (hS₁ a h), hi₂⟩

/-- the invariant also holds at every state passed on the way (in particular where a `raise` ends the call) -/
theorem reach_sound (T : List Field) (h0 : Heap) (body : Stmt) (nb : Nat)
    (hbody : (check T body (AEnv.init nb)).isSome = true) :
    ∀ (s : Stmt) (σ σ' : State), Reach body s σ σ' →
    ∀ (e e' : AEnv) (D S : Addr → Prop), check T s e = some e' → Inv T h0 e D S σ →
      ∃ e'' D' S', Inv T h0 e'' D' S' σ' := by
  intro s σ σ' hr
  induction hr with
  | start s σ => intro e e' D S _ hi; exact ⟨e, D, S, hi⟩
  | done s σ σ' h =>
    intro e e' D S hc hi
    obtain ⟨D', S', _, _, hi'⟩ := sound T h0 body nb hbody s σ σ' h e e' D S hc hi
    exact ⟨e', D', S', hi'⟩
  | seqL a b σ σ' _ ih =>
    intro e e' D S hc hi
    simp only [check] at hc
    cases ha : check T a e with
    | none => simp [ha] at hc
    | some e₁ => exact ih e e₁ D S ha hi
  | seqR a b σ σ₁ σ' h₁ _ ih =>
    intro e e' D S hc hi
    simp only [check] at hc
    cases ha : check T a e with
    | none => simp [ha] at hc
    | some e₁ =>
      simp only [ha, Option.bind_some] at hc
      obtain ⟨D₁, S₁, _, _, hi₁⟩ := sound T h0 body nb hbody a σ σ₁ h₁ e e₁ D S ha hi
      exact ih e₁ e' D₁ S₁ hc hi₁
  | choiceL a b σ σ' _ ih =>
    intro e e' D S hc hi
    simp only [check] at hc
    cases ha : check T a e with
    | none => simp [ha] at hc
    | some ea => exact ih e ea D S ha hi
  | choiceR a b σ σ' _ ih =>
    intro e e' D S hc hi
    simp only [check] at hc
    cases hb : check T b e with
    | none => cases ha : check T a e <;> simp [ha, hb] at hc
    | some eb => exact ih e eb D S hb hi
  | loop a σ σ₁ σ' h₁ _ ih =>
    intro e e' D S hc hi
    obtain ⟨D₁, S₁, _, _, hi₁⟩ := sound T h0 body nb hbody _ σ σ₁ h₁ e e' D S hc hi
    simp only [check] at hc
    obtain ⟨_, E', hf, _⟩ := iter_spec _ _ _ _ hc
    exact ih e' E' D₁ S₁ hf hi₁
  | callIn dst σ env' σ' _ ih =>
    intro e e' D S _ hi
    cases hb : check T body (AEnv.init nb) with
    | none => simp [hb] at hbody
    | some eb =>
      have hin : Inv T h0 (AEnv.init nb) D S { σ with env := env' } := by
        refine { hi with fresh := ?_, shallow := ?_, prim := ?_ } <;>
        · intro x a ht
          rw [tagOf_init] at ht
          cases ht
      exact ih _ eb D S hb hin

/-- the invariant holds initially: nothing has been allocated by the call yet and every variable is `shared` -/
theorem inv_init (T : List Field) (nvars : Nat) (σ : State) (hlog : σ.log = []) :
    Inv T σ.heap (AEnv.init nvars) (fun _ => False) (fun _ => False) σ := by
  constructor
  · intro a h; cases h
  · intro a h; cases h
  · intro a h; cases h
  · rintro a (h | h) <;> cases h
  · intro a o h; exact h
  · intro a ha; rw [hlog] at ha; cases ha
  · intro a o f b h; cases h
  · intro x a ht
    rw [tagOf_init] at ht
    cases ht
  · intro x a ht
    rw [tagOf_init] at ht
    cases ht
  · intro x a ht
    rw [tagOf_init] at ht
    cases ht

/-- **frame theorem with a procedure**: a well-formed program whose `call` statements run a well-formed
    (possibly recursive) procedure leaves every object that existed before exactly as it was, at every state
    passed on the way — inside nested and recursive calls too — and every `store` goes to an object allocated
    since the start -/
theorem wellFormedWith_frame_always (T : List Field) (nvars : Nat) (body p : Stmt)
    (hwf : wellFormedWith T nvars body p = true)
    (σ σ' : State) (hlog : σ.log = []) (hr : Reach body p σ σ') :
    (∀ a o, σ.heap a = some o → σ'.heap a = some o) ∧ (∀ a ∈ σ'.log, σ.heap a = none) := by
  unfold wellFormedWith wellFormed at hwf
  rw [Bool.and_eq_true] at hwf
  cases hc : check T p (AEnv.init nvars) with
  | none => simp [hc] at hwf
  | some e' =>
    obtain ⟨e'', D', S', hi⟩ := reach_sound T σ.heap body nvars hwf.2 p σ σ' hr _ e' _ _ hc (inv_init T nvars σ hlog)
    exact ⟨hi.old, hi.log⟩

/-- a program without `call` statements: any procedure body will do -/
theorem wellFormed_isSome_skip (T : List Field) (n : Nat) :
    (check T .skip (AEnv.init n)).isSome = true := rfl

/-- **frame theorem**: a well-formed program leaves every object that existed before the call exactly as it
    was and every `store` it performs goes to an object allocated during the call -/
theorem wellFormed_frame (T : List Field) (nvars : Nat) (p : Stmt) (hwf : wellFormed T nvars p = true)
    (σ σ' : State) (hlog : σ.log = []) (hex : Exec .skip p σ σ') :
    (∀ a o, σ.heap a = some o → σ'.heap a = some o) ∧ (∀ a ∈ σ'.log, σ.heap a = none) := by
  unfold wellFormed at hwf
  cases hc : check T p (AEnv.init nvars) with
  | none => simp [hc] at hwf
  | some e' =>
    obtain ⟨D', S', _, _, hi⟩ := sound T σ.heap .skip nvars (wellFormed_isSome_skip T nvars) p σ σ' hex _ e' _ _ hc
      (inv_init T nvars σ hlog)
    exact ⟨hi.old, hi.log⟩

/-- **frame theorem, every intermediate state**: also at every point passed during the call (for instance
    where an exception ends it) every pre-existing object is as it was and every store so far went to an
    object allocated during the call -/
theorem wellFormed_frame_always (T : List Field) (nvars : Nat) (p : Stmt) (hwf : wellFormed T nvars p = true)
    (σ σ' : State) (hlog : σ.log = []) (hr : Reach .skip p σ σ') :
    (∀ a o, σ.heap a = some o → σ'.heap a = some o) ∧ (∀ a ∈ σ'.log, σ.heap a = none) := by
  unfold wellFormed at hwf
  cases hc : check T p (AEnv.init nvars) with
  | none => simp [hc] at hwf
  | some e' =>
    obtain ⟨e'', D', S', hi⟩ := reach_sound T σ.heap .skip nvars (wellFormed_isSome_skip T nvars) p σ σ' hr _ e' _ _ hc
      (inv_init T nvars σ hlog)
    exact ⟨hi.old, hi.log⟩

/-- a variable the checker tags `fresh` (or `prim`) at the end holds a primitive or an object allocated during
    the call, and every reference found in an untainted field of such an object again leads to such an object
    (so nothing reachable from it through untainted fields existed before the call) -/
theorem wellFormed_result_fresh (T : List Field) (nvars : Nat) (p : Stmt) (x : Var)
    (ht : (resultTag T nvars p x).map Tag.deep = some true)
    (σ σ' : State) (hlog : σ.log = []) (hex : Exec .skip p σ σ') :
    ∃ D : Addr → Prop, (∀ a, D a → σ.heap a = none) ∧ (∀ a, σ'.env x = .ref a → D a) ∧
      (∀ a o f b, D a → σ'.heap a = some o → tainted T f = false → o f = .ref b → D b) := by
  unfold resultTag at ht
  cases hc : check T p (AEnv.init nvars) with
  | none => simp [hc] at ht
  | some e' =>
    simp [hc] at ht
    obtain ⟨D', S', _, _, hi⟩ := sound T σ.heap .skip nvars (wellFormed_isSome_skip T nvars) p σ σ' hex _ e' _ _ hc
      (inv_init T nvars σ hlog)
    refine ⟨D', hi.dNew, fun a ha => ?_, hi.closed⟩
    cases hx : tagOf e' x with
    | prim => exact absurd ha (hi.prim x a hx)
    | fresh => exact hi.fresh x a hx ha
    | shallow => simp [hx, Tag.deep] at ht
    | shared => simp [hx, Tag.deep] at ht

end Simaple.Effect
