/-
C12 helper lemmas, part 4: the damage factor.  Hypothesis predicates (which fields of a stat block a
damage logic reads, "non-negative" and "fieldwise ≤" on exactly those), the factors shared by the
five generated logics, and the generic monotonicity theorem that the five property theorems
instantiate.
-/
import Simaple.Gen.Core
import Simaple.Proofs.C12Basic

namespace Simaple.Proofs.C12
open Simaple.Gen Simaple.Py

/-! ### hypothesis predicates (all decidable: finite conjunctions of `≤` over `Rat`) -/

/-- the three fields behind one base-stat coefficient are non-negative -/
def BaseOk : BaseStatType → Stat → Prop
  | .STR, s => 0 ≤ s.STR ∧ 0 ≤ s.STR_multiplier ∧ 0 ≤ s.STR_static
  | .DEX, s => 0 ≤ s.DEX ∧ 0 ≤ s.DEX_multiplier ∧ 0 ≤ s.DEX_static
  | .INT, s => 0 ≤ s.INT ∧ 0 ≤ s.INT_multiplier ∧ 0 ≤ s.INT_static
  | .LUK, s => 0 ≤ s.LUK ∧ 0 ≤ s.LUK_multiplier ∧ 0 ≤ s.LUK_static

/-- `s ≤ s'` on the three fields behind one base-stat coefficient -/
def BaseLe : BaseStatType → Stat → Stat → Prop
  | .STR, s, s' => s.STR ≤ s'.STR ∧ s.STR_multiplier ≤ s'.STR_multiplier ∧ s.STR_static ≤ s'.STR_static
  | .DEX, s, s' => s.DEX ≤ s'.DEX ∧ s.DEX_multiplier ≤ s'.DEX_multiplier ∧ s.DEX_static ≤ s'.DEX_static
  | .INT, s, s' => s.INT ≤ s'.INT ∧ s.INT_multiplier ≤ s'.INT_multiplier ∧ s.INT_static ≤ s'.INT_static
  | .LUK, s, s' => s.LUK ≤ s'.LUK ∧ s.LUK_multiplier ≤ s'.LUK_multiplier ∧ s.LUK_static ≤ s'.LUK_static

def AttOk : AttackType → Stat → Prop
  | .attack_power, s => 0 ≤ s.attack_power ∧ 0 ≤ s.attack_power_multiplier
  | .magic_attack, s => 0 ≤ s.magic_attack ∧ 0 ≤ s.magic_attack_multiplier

def AttLe : AttackType → Stat → Stat → Prop
  | .attack_power, s, s' =>
      s.attack_power ≤ s'.attack_power ∧ s.attack_power_multiplier ≤ s'.attack_power_multiplier
  | .magic_attack, s, s' =>
      s.magic_attack ≤ s'.magic_attack ∧ s.magic_attack_multiplier ≤ s'.magic_attack_multiplier

/-- The fields every logic reads are in their sensible range at the smaller block: damage%, boss
    damage%, critical rate / damage and elemental resistance are non-negative; final damage% may be
    negative (penalties exist) but not below −100.  Nothing is asked of `ignored_defence` here: the
    armour term is handled by the separate hypothesis that it is non-negative. -/
structure CommonOk (s : Stat) : Prop where
  boss : 0 ≤ s.boss_damage_multiplier
  dmg : 0 ≤ s.damage_multiplier
  final : -100 ≤ s.final_damage_multiplier
  crate : 0 ≤ s.critical_rate
  cdmg : 0 ≤ s.critical_damage
  elem : 0 ≤ s.elemental_resistance

/-- `s ≤ s'` on the beneficial fields every logic reads -/
structure CommonLe (s s' : Stat) : Prop where
  boss : s.boss_damage_multiplier ≤ s'.boss_damage_multiplier
  dmg : s.damage_multiplier ≤ s'.damage_multiplier
  final : s.final_damage_multiplier ≤ s'.final_damage_multiplier
  crate : s.critical_rate ≤ s'.critical_rate
  cdmg : s.critical_damage ≤ s'.critical_damage
  elem : s.elemental_resistance ≤ s'.elemental_resistance
  ignore : s.ignored_defence ≤ s'.ignored_defence

/-- what a damage logic reads besides the common fields: the base stats entering
    `get_base_stat_factor` and its attack type -/
structure Reads where
  bases : List BaseStatType
  att : AttackType

/-- all hypotheses of `damage_factor_mono` about the stat blocks, for a logic reading `rd` -/
structure StatHyp (rd : Reads) (s s' : Stat) : Prop where
  ok : CommonOk s
  le : CommonLe s s'
  baseOk : ∀ t ∈ rd.bases, BaseOk t s
  baseLe : ∀ t ∈ rd.bases, BaseLe t s s'
  attOk : AttOk rd.att s
  attLe : AttLe rd.att s s'

def readsSTR : Reads := ⟨[.STR, .DEX], .attack_power⟩
def readsINT : Reads := ⟨[.INT, .LUK], .magic_attack⟩
def readsDEX : Reads := ⟨[.DEX, .STR], .attack_power⟩
def readsLUK : Reads := ⟨[.LUK, .DEX], .attack_power⟩
def readsLUKDual : Reads := ⟨[.LUK, .DEX, .STR], .attack_power⟩

/-! ### the shared factors -/

def coeff : BaseStatType → Stat → Rat
  | .STR, s => s.get_base_stat_coefficient_STR
  | .DEX, s => s.get_base_stat_coefficient_DEX
  | .INT, s => s.get_base_stat_coefficient_INT
  | .LUK, s => s.get_base_stat_coefficient_LUK

def attCoeff : AttackType → Stat → Rat
  | .attack_power, s => s.get_attack_coefficient_attack_power
  | .magic_attack, s => s.get_attack_coefficient_magic_attack

def generalF (s : Stat) : Rat :=
  (1 + (s.boss_damage_multiplier + s.damage_multiplier) * (1 / 100)) * (1 + (1 / 100) * s.final_damage_multiplier)
def armorF (s : Stat) (armor : Rat) : Rat := 1 - (1 / 10000) * (armor * (100 - s.ignored_defence))
def critF (s : Stat) : Rat := 1 + ((35 + s.critical_damage) * pyMin 100 s.critical_rate) * (1 / 10000)
def elemF (s : Stat) : Rat := (1 / 2) * (1 + pyMin 100 s.elemental_resistance * (1 / 100))

theorem coeff_nonneg (t : BaseStatType) (s : Stat) (h : BaseOk t s) : 0 ≤ coeff t s := by
  cases t <;> obtain ⟨h1, h2, h3⟩ := h <;>
    simp only [coeff, Stat.get_base_stat_coefficient_STR, Stat.get_base_stat_coefficient_DEX,
      Stat.get_base_stat_coefficient_INT, Stat.get_base_stat_coefficient_LUK] <;> positivity

theorem coeff_mono (t : BaseStatType) (s s' : Stat) (h : BaseOk t s) (hl : BaseLe t s s') :
    coeff t s ≤ coeff t s' := by
  cases t <;> obtain ⟨h1, h2, h3⟩ := h <;> obtain ⟨l1, l2, l3⟩ := hl <;>
    simp only [coeff, Stat.get_base_stat_coefficient_STR, Stat.get_base_stat_coefficient_DEX,
      Stat.get_base_stat_coefficient_INT, Stat.get_base_stat_coefficient_LUK] <;>
    · apply add_le_add _ l3
      apply mul_mono2 h1 l1 (by positivity)
      linarith

theorem attCoeff_nonneg (a : AttackType) (s : Stat) (h : AttOk a s) : 0 ≤ attCoeff a s := by
  cases a <;> obtain ⟨h1, h2⟩ := h <;>
    simp only [attCoeff, Stat.get_attack_coefficient_attack_power,
      Stat.get_attack_coefficient_magic_attack] <;> positivity

theorem attCoeff_mono (a : AttackType) (s s' : Stat) (h : AttOk a s) (hl : AttLe a s s') :
    attCoeff a s ≤ attCoeff a s' := by
  cases a <;> obtain ⟨h1, h2⟩ := h <;> obtain ⟨l1, l2⟩ := hl <;>
    simp only [attCoeff, Stat.get_attack_coefficient_attack_power,
      Stat.get_attack_coefficient_magic_attack] <;>
    · apply mul_mono2 h1 l1 (by positivity)
      linarith

theorem generalF_nonneg (s : Stat) (h : CommonOk s) : 0 ≤ generalF s := by
  unfold generalF
  apply mul_nonneg
  · have := h.boss; have := h.dmg; positivity
  · have := h.final; linarith

theorem generalF_mono (s s' : Stat) (h : CommonOk s) (hl : CommonLe s s') : generalF s ≤ generalF s' := by
  unfold generalF
  apply mul_mono2
  · have := h.boss; have := h.dmg; positivity
  · have := hl.boss; have := hl.dmg; linarith
  · have := h.final; linarith
  · have := hl.final; linarith

theorem armorF_mono (s s' : Stat) (armor : Rat) (ha : 0 ≤ armor)
    (hl : s.ignored_defence ≤ s'.ignored_defence) : armorF s armor ≤ armorF s' armor := by
  unfold armorF
  have : armor * (100 - s'.ignored_defence) ≤ armor * (100 - s.ignored_defence) :=
    mul_le_mul_of_nonneg_left (by linarith) ha
  linarith

theorem critF_nonneg (s : Stat) (h : CommonOk s) : 0 ≤ critF s := by
  unfold critF
  rw [pyMin_eq]
  have h1 : (0 : Rat) ≤ min 100 s.critical_rate := le_min (by norm_num) h.crate
  have := h.cdmg
  positivity

theorem critF_mono (s s' : Stat) (h : CommonOk s) (hl : CommonLe s s') : critF s ≤ critF s' := by
  unfold critF
  rw [pyMin_eq, pyMin_eq]
  have h1 : (0 : Rat) ≤ min 100 s.critical_rate := le_min (by norm_num) h.crate
  have h2 : min 100 s.critical_rate ≤ min 100 s'.critical_rate := min_le_min le_rfl hl.crate
  have h3 : 0 ≤ 35 + s.critical_damage := by have := h.cdmg; linarith
  have h4 : 35 + s.critical_damage ≤ 35 + s'.critical_damage := by have := hl.cdmg; linarith
  have := mul_mono2 h3 h4 h1 h2
  linarith

theorem elemF_nonneg (s : Stat) (h : CommonOk s) : 0 ≤ elemF s := by
  unfold elemF
  rw [pyMin_eq]
  have h1 : (0 : Rat) ≤ min 100 s.elemental_resistance := le_min (by norm_num) h.elem
  positivity

theorem elemF_mono (s s' : Stat) (hl : CommonLe s s') : elemF s ≤ elemF s' := by
  unfold elemF
  rw [pyMin_eq, pyMin_eq]
  have h2 : min 100 s.elemental_resistance ≤ min 100 s'.elemental_resistance :=
    min_le_min le_rfl hl.elem
  linarith

/-! ### the generic theorem -/

/-- **Product of non-negative monotone factors.**  Any damage factor of the shape used by every
    `DamageLogic` — general · armour · critical · base · attack · elemental · constant · 0.01 ·
    (1+mastery)/2 — where `base` is a non-negative monotone function of the stat block, is monotone
    in the stat block wherever the armour term of the smaller block is non-negative. -/
theorem damage_shape_mono (rd : Reads) (base : Stat → Rat) (s s' : Stat) (armor arc mastery : Rat)
    (H : StatHyp rd s s')
    (hbase0 : 0 ≤ base s) (hbase : base s ≤ base s')
    (harmor : 0 ≤ armor) (harc : 0 ≤ arc) (hm : -1 ≤ mastery)
    (hpos : 0 ≤ armorF s armor) :
    generalF s * armorF s armor * critF s * base s * attCoeff rd.att s * elemF s * arc * (1 / 100)
        * ((1 + mastery) / 2)
      ≤ generalF s' * armorF s' armor * critF s' * base s' * attCoeff rd.att s' * elemF s' * arc
        * (1 / 100) * ((1 + mastery) / 2) :=
  prod6_mono (generalF_nonneg s H.ok) (generalF_mono s s' H.ok H.le)
    hpos (armorF_mono s s' armor harmor H.le.ignore)
    (critF_nonneg s H.ok) (critF_mono s s' H.ok H.le)
    hbase0 hbase
    (attCoeff_nonneg _ s H.attOk) (attCoeff_mono _ s s' H.attOk H.attLe)
    (elemF_nonneg s H.ok) (elemF_mono s s' H.le)
    harc (by norm_num) (by linarith)

/-- the DoT factor shape: base · attack · constant · 0.01 -/
theorem dot_shape_mono (rd : Reads) (base : Stat → Rat) (s s' : Stat) (arc : Rat)
    (hattOk : AttOk rd.att s) (hattLe : AttLe rd.att s s')
    (hbase0 : 0 ≤ base s) (hbase : base s ≤ base s') (harc : 0 ≤ arc) :
    base s * attCoeff rd.att s * arc * (1 / 100) ≤ base s' * attCoeff rd.att s' * arc * (1 / 100) := by
  have := mul_mono2 hbase0 hbase (attCoeff_nonneg _ s hattOk) (attCoeff_mono _ s s' hattOk hattLe)
  exact mul_le_mul_of_nonneg_right (mul_le_mul_of_nonneg_right this harc) (by norm_num)

end Simaple.Proofs.C12
